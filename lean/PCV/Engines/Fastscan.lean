-- ENGINE: fastscan => PCV.Engines.fastscan
import PCV.Engine
import PCV.Util.Wire
import PCV.Model.Fastscan
/-
Line protocol of the `fastscan` engine (C25).

  op      scan <hex of the source bytes>
  answer  pkg <hex> imp <hex>:<pwo>... err <line>:<col>:<hex msg>...
          (the Go side appends " ~ rej" or " ~ acc1|acc2 pkg <hex> imp <hex>:<pwo>...", the
          verdict of the REAL full parser and what its AST says; text after " ~ " is not part of
          the model/implementation comparison)

Property oracle (on the implementation's own answer): if the full parser accepted the file then
fastscan reported no syntax error and returned the parser's package name and the parser's
imports, in order, with the same public/weak(/option) flags.  It also checks the hypothesis under
which C25's theorems speak about this input: the token stream with string literals valued as the
full parser values them is in the language L and `topLevel` reads the same package/imports off
it as the parser did.

Coupling with the main lexer (C25_rawbytes_refuted): if the full parser is changed to copy
ill-formed UTF-8 bytes of a literal (as protoc does) while fastscan keeps writing U+FFFD, an
import path literal with ill-formed UTF-8 makes the oracle fail with the verdict
`fails fastscan-disagrees-with-parser ill-formed-utf8-in-literal …`.
-/
namespace PCV.Engines.FastscanE
open PCV.Wire PCV.Fastscan

/-- `false`: the model of the Go code as it is (ill-formed UTF-8 in a string literal becomes
    U+FFFD). If parser/fastscan/lexer.go is changed to copy ill-formed bytes (which must
    accompany the same change in parser/lexer.go), set this to `true`: the model is then
    `scanBytesPatched`, for which `C25_rawbytes_after_patch` is the theorem. -/
def patched : Bool := false

def scanModel (src : List UInt8) : Out := if patched then scanBytesPatched src else scanBytes src

def flagStr (i : Import) : String :=
  String.ofList [if i.isPublic then '1' else '0', if i.isWeak then '1' else '0',
                 if i.isOption then '1' else '0']

def showImport (i : Import) : String := hexOfBytes i.path ++ ":" ++ flagStr i

def showRes (pkg : List UInt8) (imps : List Import) : String :=
  "pkg " ++ hexOfBytes pkg ++ " imp" ++ String.join (imps.map fun i => " " ++ showImport i)

def showErr (e : Err) : String := s!" {e.line}:{e.col}:{hexOfBytes e.msg}"

def showOut (o : Out) : String :=
  showRes o.pkg o.imports ++ " err" ++ String.join (o.errs.map showErr)

def model (line : String) : String :=
  match words line with
  | ["scan", h] =>
    match bytesOfHex h with
    | some src => showOut (scanModel src)
    | none => "bad-op"
  | _ => "bad-op"

/-- split "a ~ b" -/
def cutTilde (s : String) : String × Option String :=
  match s.splitOn " ~ " with
  | [a] => (a, none)
  | a :: rest => (a, some (" ~ ".intercalate rest))
  | [] => (s, none)

def spec (line ans : String) : String :=
  match words line with
  | ["scan", h] =>
    match bytesOfHex h with
    | none => "bad-line"
    | some src =>
      let (fast, full) := cutTilde ans
      match full with
      | none => "fails no-parser-verdict-in-answer"
      | some full =>
        match words full with
        | "rej" :: _ => "skip"
        | "rej-panic" :: _ => "skip"
        | kind :: rest =>
          if kind ≠ "acc1" ∧ kind ≠ "acc2" then "fails bad-parser-verdict" else
          -- what the real parser read from the file
          let want := " ".intercalate rest
          -- 1. the hypothesis under which the theorems speak about this input: the token stream
          --    with string literals valued as the full parser values them is in L and topLevel
          --    reads the parser's own package/imports off it. The full parser's treatment of an
          --    ill-formed UTF-8 byte inside a literal is not fastscan's business: either
          --    convention (U+FFFD as parser/lexer.go does today = `lex`; the byte itself as
          --    protoc does = `lexRef`) is accepted as the reference here.
          match topLevel (lex src), topLevel (lexRef src) with
          | none, _ => s!"fails accepted-file-outside-L [{kind}]"
          | _, none => s!"fails accepted-file-outside-L [{kind}]"
          | some r, some r' =>
            if showRes r.pkg r.imports ≠ want ∧ showRes r'.pkg r'.imports ≠ want then
              s!"fails topLevel-differs-from-parser [{kind}] topLevel: {showRes r.pkg r.imports} parser: {want}"
            -- 2. the property itself, on the implementation's answer
            else if fast = want ++ " err" then "holds"
            else if (fast.splitOn " err").head? = some want then
              s!"fails fastscan-reports-syntax-error-on-accepted-file [{kind}] {fast}"
            else
              -- C25_partial: on well-formed UTF-8 the model agrees with the parser, so the
              -- second class can only appear together with a model/implementation disagreement
              let cls := if (decodeRunes (stripBom src)).all (· < rawBase) then "well-formed-utf8"
                         else "ill-formed-utf8-in-literal"
              s!"fails fastscan-disagrees-with-parser {cls} [{kind}] fastscan: {fast} parser: {want}"
        | [] => "fails bad-parser-verdict"
  | _ => "skip"

end PCV.Engines.FastscanE

namespace PCV.Engines
def fastscan : Engine := Engine.pure FastscanE.model FastscanE.spec
end PCV.Engines
