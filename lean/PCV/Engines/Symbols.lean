-- ENGINE: symbols => PCV.Engines.symbols
import PCV.Engine
import PCV.Util.Wire
import PCV.Model.Symbols
namespace PCV.Engines
open PCV.Wire PCV.Symbols

def nm (s : String) : Name := if s == "" || s == "-" then [] else s.splitOn "."
def showName (n : Name) : String := ".".intercalate n

def parseSym (tok : String) : Option (Name × SymKind) :=
  match tok.splitOn ":" with
  | ["m", n] => some (nm n, .msg)
  | ["f", n] => some (nm n, .field)
  | ["e", n] => some (nm n, .enum)
  | ["v", n] => some (nm n, .enumValue)
  | ["o", n] => some (nm n, .other)
  | ["x", rest] =>
    match rest.splitOn ">" with
    | [n, et] => match et.splitOn "#" with
      | [ext, tag] => tag.toNat?.map (fun t => (nm n, .ext (nm ext) t))
      | _ => none
    | _ => none
  | _ => none

def parseCsvNats (s : String) : Option (List Nat) :=
  if s == "-" then some [] else (s.splitOn ",").mapM String.toNat?

def parseDef (ws : List String) : Option FileDef :=
  match ws with
  | id :: pkg :: deps :: src :: syms => do
    let id ← id.toNat?
    let deps ← parseCsvNats deps
    let syms ← syms.mapM parseSym
    pure { id := id, path := s!"f{id}.proto", pkg := nm pkg, deps := deps,
           hasSource := src == "1", syms := syms }
  | _ => none

def showRep : Rep → String
  | .sym n => s!"sym:{showName n}"
  | .ext e t => s!"ext:{showName e}#{t}"
  | .missingPkg p => s!"missingpkg:{showName p}"
  | .badExtendee e p => s!"badextendee:{showName e}@{showName p}"

def nameUniverse (defs : List FileDef) : List Name × List (Name × Nat) :=
  let names := defs.flatMap (fun d => d.syms.map (·.1) ++ prefixes d.pkg)
  let exts := defs.flatMap (fun d => d.syms.filterMap (fun (_, k) => match k with
    | .ext e t => some (e, t) | _ => none))
  (names.eraseDups, exts.eraseDups)

def showDump (look : Name → Option String) (lookExt : Name → Nat → Option String)
    (defs : List FileDef) : String :=
  let (names, exts) := nameUniverse defs
  let a := names.map (fun n => s!"{showName n}={(look n).getD "-"}")
  let b := exts.map (fun (e, t) => s!"{showName e}#{t}={(lookExt e t).getD "-"}")
  "syms " ++ " ".intercalate a ++ " exts " ++ " ".intercalate b

structure SymState where
  defs : List FileDef := []
  t : Table := []
  /-- a lenient handler shared by all `import <id> shared` ops of the case -/
  shared : H := { mode := .lenient }

def symbolsStep (st : SymState) (line : String) : SymState × String :=
  match words line with
  | "def" :: rest => match parseDef rest with
    | some d => ({ st with defs := st.defs ++ [d] }, "ok")
    | none => (st, "bad-op")
  | ["import", id, mode] => match id.toNat? with
    | some id => match st.defs.find? (·.id == id) with
      | some f =>
        if mode == "shared" then
          let (t', h, r) := importFile st.defs (st.defs.length + 1) st.t st.shared f
          let rs := " ".intercalate ((h.reported.drop st.shared.reported.length).map showRep)
          ({ st with t := t', shared := h }, s!"{if r == .ok then "ok" else "err"} reported=[{rs}]")
        else
        let m := if mode == "lenient" then Mode.lenient else Mode.strict
        let (t', h, r) := importFile st.defs (st.defs.length + 1) st.t { mode := m } f
        let rs := " ".intercalate (h.reported.map showRep)
        ({ st with t := t' }, s!"{if r == .ok then "ok" else "err"} reported=[{rs}]")
      | none => (st, "bad-op")
    | none => (st, "bad-op")
  | ["dump"] => (st, showDump (lookup st.t) (lookupExt st.t) st.defs)
  | ["race"] => (st, "ok")   -- concurrency probe on a fresh table; meaningful only under -race
  | _ => (st, "bad-op")

/-! Property oracle (C16/C17): a naive table = the set of successfully imported files.
A collision exists iff a name / package prefix / extension number of the file is already
defined by a successfully imported file (or twice inside the file). Import must report an
error iff a collision exists; after a failed import every lookup must answer as before. -/

structure SymSpec where
  defs : List FileDef := []
  good : List Nat := []
  diverged : Bool := false
  /-- the most recent failed import reported an extension-number collision -/
  lastFailExt : Bool := false
  /-- the shared lenient handler has already seen an error -/
  sharedFailed : Bool := false

def goodDefs (s : SymSpec) : List FileDef := s.defs.filter (fun d => s.good.contains d.id)

def extsOf (d : FileDef) : List (Name × Nat) :=
  d.syms.filterMap (fun (_, k) => match k with | .ext e t => some (e, t) | _ => none)

def hasDup {α} [BEq α] : List α → Bool
  | [] => false
  | x :: xs => xs.contains x || hasDup xs

def collides (s : SymSpec) (f : FileDef) : Bool :=
  let g := goodDefs s
  let names := g.flatMap (fun d => d.syms.map (·.1))
  let pkgs := g.flatMap (fun d => prefixes d.pkg)
  let exts := g.flatMap extsOf
  f.syms.any (fun (n, _) => names.contains n || pkgs.contains n)
    || (prefixes f.pkg).any (fun p => names.contains p)
    || (extsOf f).any (fun e => exts.contains e)
    || hasDup (extsOf f)
    || (f.hasSource && hasDup (f.syms.map (·.1)))

def naiveLookup (s : SymSpec) (n : Name) : Option String :=
  ((goodDefs s).find? (fun d => d.syms.any (·.1 == n))).map (·.path)

def naiveLookupExt (s : SymSpec) (e : Name) (t : Nat) : Option String :=
  ((goodDefs s).find? (fun d => (extsOf d).contains (e, t))).map (·.path)

def symbolsSpec (s : SymSpec) (line ans : String) : SymSpec × String :=
  if s.diverged then
    match words line with
    | "def" :: rest => match parseDef rest with
      | some d => ({ s with defs := s.defs ++ [d] }, "skip")
      | none => (s, "skip")
    | _ => (s, "skip")
  else
  match words line with
  | "def" :: rest => match parseDef rest with
    | some d => ({ s with defs := s.defs ++ [d] }, "skip")
    | none => (s, "skip")
  | ["import", id, mode] => match id.toNat? >>= fun id => s.defs.find? (·.id == id) with
    | some f =>
      if mode == "shared" && s.sharedFailed && !s.good.contains f.id && f.deps.all s.good.contains then
        -- a handler that already carries an error: the implementation may refuse any further import,
        -- but a COLLIDING file must still be reported and must not be committed
        let reportedNothing := ans.endsWith "reported=[]"
        if collides s f then
          -- (an `err` answer without a report is the handler's earlier error: the import was refused
          -- before the extension check, nothing is committed)
          if reportedNothing && ans.startsWith "ok" then
            ({ s with diverged := true }, s!"fails collision-not-reported file={f.id}")
          -- with a lenient reporter Import may return nil although it reported the collision (the
          -- caller consults handler.Error()); what matters is that nothing was committed: the next
          -- `dump` is compared with the successfully imported files only
          else if reportedNothing then ({ s with diverged := true }, "skip")
          else ({ s with lastFailExt := (ans.splitOn "ext:").length > 1 }, "holds")
        else if reportedNothing && ans.startsWith "ok" then ({ s with good := s.good ++ [f.id] }, "holds")
        -- refused because the handler already carried an error (not a collision): the refused file's
        -- packages may stay registered; what later imports must do is outside the properties
        else if reportedNothing then ({ s with diverged := true }, "skip")
        else ({ s with diverged := true }, s!"fails spurious-collision file={f.id} {ans}")
      else
      let s := if mode == "shared" && !(ans.endsWith "reported=[]") then { s with sharedFailed := true } else s
      if s.good.contains f.id then
        (s, if ans.startsWith "ok reported=[]" then "holds" else s!"fails re-import of an imported file reported {ans}")
      else if !(f.deps.all s.good.contains) then ({ s with diverged := true }, "skip")
      else
        let reportedNothing := ans.endsWith "reported=[]"
        let c := collides s f
        if c && reportedNothing then
          ({ s with diverged := true }, s!"fails collision-not-reported file={f.id}")
        else if !c && !reportedNothing then
          ({ s with diverged := true }, s!"fails spurious-collision file={f.id} {ans}")
        else if c then ({ s with lastFailExt := (ans.splitOn "ext:").length > 1 }, "holds")
        else ({ s with good := s.good ++ [f.id], lastFailExt := false }, "holds")
    | none => (s, "skip")
  | ["race"] =>
    (s, if ans == "ok" then "holds"
        else if ans.startsWith "residue" then s!"fails failed-import-left-state concurrent-imports {ans}"
        else s!"fails concurrent-import-lost-symbols {ans}")
  | ["dump"] =>
    let expect := showDump (naiveLookup s) (naiveLookupExt s) s.defs
    if ans == expect then (s, "holds")
    else
      -- classify: does the implementation expose symbols/extensions of a file that never imported successfully?
      let why := if s.lastFailExt then "failed-import-left-state cause=ext-collision-detected-after-commit"
                 else "table-differs-from-successful-imports"
      ({ s with diverged := true }, s!"fails {why} got[{ans}] want[{expect}]")
  | _ => (s, "skip")

def symbols : Engine :=
  { σ := SymState, init := {}, step := symbolsStep, τ := SymSpec, specInit := {}, spec := symbolsSpec }

end PCV.Engines
