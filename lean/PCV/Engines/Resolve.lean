-- ENGINE: visibility => PCV.Engines.visibility
-- ENGINE: resolve => PCV.Engines.resolve
import PCV.Engine
import PCV.Util.Wire
import PCV.Model.Resolve
/-!
Line-protocol adapters for the `visibility` (C18) and `resolve` (C15) engines.

Wire format of a file:   `<pkg>;<imports>;<tokens>`     (`-` = empty)
  imports  comma list of `p<idx>` (public) / `i<idx>` (plain)
  tokens   comma list of `<k>:<full.name>` with k ∈ m e v s r f o, and
           `x:<full.name>><extendee>#<number>` for extensions
A `visibility` case starts with `graph <src|desc> <file0> <file1> …`, a `resolve` case with
`env <file0> <file1> …`; files are numbered in order and their paths are `f<idx>.proto`.
-/
namespace PCV.Engines.ResolveE
open PCV.Wire PCV.Resolve

def nameOf (s : String) : Name := if s == "-" || s == "" then [] else s.splitOn "."
def showName (n : Name) : String := if n.isEmpty then "-" else ".".intercalate n

def csv (s : String) : List String := if s == "-" || s == "" then [] else s.splitOn ","

def parseKind : String → Option Kind
  | "m" => some .msg | "e" => some .enum | "s" => some .svc | "f" => some .field
  | "x" => some .ext | "o" => some .oneof | "v" => some .enumVal | "r" => some .method
  | _ => none

def parseImport (s : String) : Option (Nat × Bool) :=
  match s.toList with
  | 'p' :: ds => (String.ofList ds).toNat?.map (fun n => (n, true))
  | 'i' :: ds => (String.ofList ds).toNat?.map (fun n => (n, false))
  | _ => none

/-- one token ↦ (definition, optional extension record) -/
def parseToken (s : String) : Option ((Name × Kind) × Option ExtDef) :=
  match s.splitOn ":" with
  | ["x", rest] =>
    match rest.splitOn ">" with
    | [n, et] => match et.splitOn "#" with
      | [e, num] => num.toNat?.map (fun k =>
          ((nameOf n, Kind.ext), some { name := nameOf n, extendee := nameOf e, number := k }))
      | _ => none
    | [n] => some ((nameOf n, Kind.ext), none)
    | _ => none
  | [k, n] => (parseKind k).map (fun kd => ((nameOf n, kd), none))
  | _ => none

def parseFile (fromSource : Bool) (s : String) : Option FileDef :=
  match s.splitOn ";" with
  | [pkg, imps, toks] => do
    let imports ← (csv imps).mapM parseImport
    let ts ← (csv toks).mapM parseToken
    pure { pkg := nameOf pkg, imports := imports, defs := ts.map (·.1),
           exts := ts.filterMap (·.2), fromSource := fromSource }
  | _ => none

def parseGraph (ws : List String) : Option Files :=
  match ws with
  | mode :: files =>
    if mode == "src" then files.mapM (parseFile true)
    else if mode == "desc" then files.mapM (parseFile false)
    else none
  | [] => none

/-- the imports of every file point at existing files -/
def graphOk (fs : Files) : Bool :=
  fs.all (fun d => d.imports.all (fun i => i.1 < fs.length))

/-! ### visibility engine (C18) -/

/-- `fileResolver.FindDescriptorByName` -/
def fnName (fs : Files) (n : Name) : Nat → Res (Nat × Kind) Kind := fun g =>
  match fs[g]? with
  | some d => match d.findByName n with
    | some k => .found (g, k)
    | none => .notFound
  | none => .notFound

/-- `fileResolver.FindMessageByName` -/
def fnMsg (fs : Files) (n : Name) : Nat → Res (Nat × Kind) Kind := fun g =>
  match fs[g]? with
  | some d => match d.findByName n with
    | some .msg => .found (g, .msg)
    | some k => .err k
    | none => .notFound
  | none => .notFound

/-- `fileResolver.FindExtensionByName` -/
def fnExtName (fs : Files) (n : Name) : Nat → Res (Nat × Kind) Kind := fun g =>
  match fs[g]? with
  | some d => match d.findByName n with
    | some .ext => .found (g, .ext)
    | some k => .err k
    | none => .notFound
  | none => .notFound

/-- `fileResolver.FindExtensionByNumber` -/
def fnExtNum (fs : Files) (msg : Name) (num : Nat) : Nat → Res (Nat × Name) Kind := fun g =>
  match fs[g]? with
  | some d => match d.findExt msg num with
    | some x => .found (g, x)
    | none => .notFound
  | none => .notFound

/-- `fileResolver.FindFileByPath` -/
def fnPath (p : Nat) : Nat → Res Nat Kind := fun g => if g == p then .found g else .notFound

def run {α : Type} (fs : Files) (root : Nat) (fn : Nat → Res α Kind) : Res α Kind :=
  resolveIn fs.imports fn (fs.length + 1) root false []

/-- `messageNameFromURL`: everything after the last slash. -/
def nameFromURL (url : String) : String :=
  match (url.splitOn "/").getLast? with
  | some s => s
  | none => url

/-- path words are `f<idx>.proto`; anything else is a path no file has. -/
def parsePath (s : String) : Option Nat :=
  match s.toList with
  | 'f' :: rest =>
    let ds := rest.takeWhile Char.isDigit
    if String.ofList (rest.dropWhile Char.isDigit) == ".proto" && !ds.isEmpty then
      (String.ofList ds).toNat? else none
  | _ => none

def visModel (st : Option Files) (line : String) : Option Files × String :=
  match words line with
  | "graph" :: rest =>
    match parseGraph rest with
    | some fs => if graphOk fs then (some fs, s!"ok {fs.length}") else (none, "bad-op")
    | none => (none, "bad-op")
  | [q, rootS, arg] =>
    match st, rootS.toNat? with
    | some fs, some root =>
      if root ≥ fs.length then (st, "bad-op") else
      let kindAns : Res (Nat × Kind) Kind → String := fun r => match r with
        | .found (g, k) => s!"found {k.tag} {g}"
        | .notFound => "notfound"
        | .err k => s!"err {k.tag}"
      if q == "name" then (st, kindAns (run fs root (fnName fs (nameOf arg))))
      else if q == "msg" then (st, kindAns (run fs root (fnMsg fs (nameOf arg))))
      else if q == "url" then (st, kindAns (run fs root (fnMsg fs (nameOf (nameFromURL arg)))))
      else if q == "extname" then (st, kindAns (run fs root (fnExtName fs (nameOf arg))))
      else if q == "path" then
        match parsePath arg with
        | some p => (st, match run fs root (fnPath p) with
            | .found g => s!"found {g}"
            | _ => "notfound")
        | none => (st, "notfound")
      else (st, "bad-op")
    | _, _ => (st, "bad-op")
  | ["extnum", rootS, msg, numS] =>
    match st, rootS.toNat?, numS.toNat? with
    | some fs, some root, some num =>
      if root ≥ fs.length then (st, "bad-op") else
      (st, match run fs root (fnExtNum fs (nameOf msg) num) with
        | .found (g, x) => s!"found {showName x} {g}"
        | _ => "notfound")
    | _, _, _ => (st, "bad-op")
  | _ => (st, "bad-op")

/-- Property oracle of C18 on the implementation's answer: the visible set is computed by
    saturation (`visibleList`, proved equal to `Visible` in Props/C18), never by the walk. -/
def visSpec (st : Option Files) (line ans : String) : Option Files × String :=
  match words line with
  | "graph" :: rest =>
    match parseGraph rest with
    | some fs => (if graphOk fs then some fs else none, "skip")
    | none => (none, "skip")
  | q :: rootS :: args =>
    match st, rootS.toNat? with
    | some fs, some root =>
      let vis := (visibleList fs.imports fs.length root).eraseDups
      let definers : Name → List (Nat × Kind) := fun n =>
        vis.filterMap (fun g => match fs[g]? with
          | some d => (d.findByName n).map (fun k => (g, k))
          | none => none)
      let verdictByName (n : Name) (accept : Kind → Bool) : String :=
        let ds := definers n
        match words ans with
        | ["notfound"] =>
          if ds.isEmpty then "holds" else "fails hidden-visible-element defined-in-visible-file"
        | ["found", k, g] =>
          match parseKind k, g.toNat? with
          | some k, some g =>
            if !(vis.contains g) then "fails exposed-invisible-element file-not-visible"
            else if !(ds.contains (g, k)) then "fails found-element-not-defined-there"
            else if !(accept k) then "fails found-wrong-kind"
            else "holds"
          | _, _ => "fails bad-answer"
        | ["err", k] =>
          match parseKind k with
          | some k =>
            if ds.any (fun d => d.2 == k && !(accept k)) then "holds"
            else "fails error-without-visible-definition"
          | none => "fails bad-answer"
        | _ => "fails bad-answer"
      let v : String :=
        match q, args with
        | "name", [n] => verdictByName (nameOf n) (fun _ => true)
        | "msg", [n] => verdictByName (nameOf n) (· == .msg)
        | "url", [u] => verdictByName (nameOf (nameFromURL u)) (· == .msg)
        | "extname", [n] => verdictByName (nameOf n) (· == .ext)
        | "path", [p] =>
          let want := parsePath p
          let visible := match want with
            | some p => vis.contains p && p < fs.length
            | none => false
          (match words ans with
          | ["notfound"] => if visible then "fails hidden-visible-file" else "holds"
          | ["found", g] =>
            if g.toNat? == want && visible then "holds"
            else "fails exposed-invisible-file"
          | _ => "fails bad-answer")
        | "extnum", [m, numS] =>
          (match numS.toNat? with
          | some num =>
            let ds := vis.filterMap (fun g => match fs[g]? with
              | some d => (d.findExt (nameOf m) num).map (fun x => (g, x))
              | none => none)
            match words ans with
            | ["notfound"] =>
              if ds.isEmpty then "holds" else "fails hidden-visible-extension"
            | ["found", x, g] =>
              (match g.toNat? with
              | some g =>
                if !(vis.contains g) then "fails exposed-invisible-extension file-not-visible"
                else if ds.contains (g, nameOf x) then "holds"
                else "fails found-extension-not-defined-there"
              | none => "fails bad-answer")
            | _ => "fails bad-answer"
          | none => "skip")
        | _, _ => "skip"
      (st, v)
    | _, _ => (st, "skip")
  | _ => (st, "skip")

/-! ### resolve engine (C15)

  env <file0> <file1> …                  the schema (compiled from source by the Go side)
  ref <root> <scope> <kind> <name>       one reference written inside `scope` (`-` = file level)
                                         of file `root`; kind ∈ type extendee rpcin rpcout
                                         fopt mopt fileopt
  prefixes <hex>                         internal.CreatePrefixList
  pkgns <hex fqn> <hex pkg>              linker.matchesPkgNamespace
-/

/-- Set to `true` when the repair proposed for C15 (one scope per package prefix) is applied to
    /repo: the model then is `scopesForFixed`, which Props/C15 proves equal to protoc's lookup. -/
def modelIsPatched : Bool := false

structure RefOp where
  root : Nat
  effScope : Name        -- innermost scope the linker has pushed for this reference
  kind : String
  onlyTypes : Bool
  ref : Ref
  written : String

def refKinds : List String := ["type", "extendee", "rpcin", "rpcout", "fopt", "mopt", "fileopt"]

def parseRef (s : String) : Ref :=
  match s.toList with
  | '.' :: rest => { absolute := true, parts := nameOf (String.ofList rest) }
  | _ => { absolute := false, parts := nameOf s }

def parseRefOp (fs : Files) (ws : List String) : Option RefOp :=
  match ws with
  | [rootS, scopeS, kind, name] => do
    let root ← rootS.toNat?
    let d ← fs[root]?
    if !(refKinds.contains kind) then none
    let scope := if scopeS == "-" then d.pkg else nameOf scopeS
    if !(d.pkg.isPrefixOf scope) then none
    -- message options are resolved before the message's own scope is pushed
    let eff := if kind == "mopt" then scope.dropLast else scope
    if !(d.pkg.isPrefixOf eff) then none
    let r := parseRef name
    if r.parts.isEmpty || r.parts.any (· == "") then none
    pure { root := root, effScope := eff, kind := kind, onlyTypes := kind == "type", ref := r,
           written := name }
  | _ => none

/-- the kind the caller of `resolve` insists on -/
def acceptable (kind : String) (k : Kind) : Bool :=
  if kind == "type" then k.isType
  else if kind == "fopt" || kind == "mopt" || kind == "fileopt" then k == .ext
  else k == .msg

def showOutcome (op : RefOp) : Option Desc → String
  | none => "unknown"
  | some (.sentinel n) => s!"sentinel {showName n}"
  | some (.elem n k) =>
    if acceptable op.kind k then s!"ok {showName n} {k.tag}"
    else if op.kind == "fopt" || op.kind == "mopt" || op.kind == "fileopt" then
      -- resolveExtensionName prints the name as written, not the resolved one
      s!"wrongkind {op.written} {k.tag}"
    else s!"wrongkind {showName n} {k.tag}"

def charsOfHex (h : String) : Option (List Char) :=
  (bytesOfHex h).map (fun bs => bs.map (fun b => Char.ofNat b.toNat))

def hexOfChars (cs : List Char) : String :=
  hexOfBytes (cs.map (fun c => UInt8.ofNat c.toNat))

def resModel (st : Option Files) (line : String) : Option Files × String :=
  match words line with
  | "env" :: rest =>
    match rest.mapM (parseFile true) with
    | some fs => if graphOk fs && !fs.isEmpty then (some fs, s!"ok {fs.length}") else (none, "bad-op")
    | none => (none, "bad-op")
  | "ref" :: rest =>
    match st with
    | some fs =>
      match parseRefOp fs rest with
      | some op => (st, showOutcome op (resolveInEnv modelIsPatched fs op.root op.effScope op.ref op.onlyTypes))
      | none => (st, "bad-op")
    | none => (st, "bad-op")
  | ["prefixes", h] =>
    match charsOfHex h with
    | some cs => (st, " ".intercalate ((createPrefixListStr cs).map hexOfChars))
    | none => (st, "bad-op")
  | ["pkgns", a, b] =>
    match charsOfHex a, charsOfHex b with
    | some x, some y => (st, if matchesPkgNamespaceStr x y then "true" else "false")
    | _, _ => (st, "bad-op")
  | _ => (st, "bad-op")

/-- success of a reference as the property speaks of it: the element it resolves to -/
def protocOutcome (op : RefOp) (fs : Files) : Option (Name × Kind) :=
  match protocLookup (protocFind fs op.root) op.ref (op.effScope ++ ["zz"]) op.onlyTypes with
  | .found n (.k k) => if acceptable op.kind k then some (n, k) else none
  | _ => none

/-- Property oracle of C15: the implementation resolves the reference to the element protoc's
    `LookupSymbolNoPlaceholder` resolves it to, or fails exactly when protoc's lookup fails
    (not found / resolved-but-undefined / a package / a symbol of the wrong kind). -/
def resSpec (st : Option Files) (line ans : String) : Option Files × String :=
  match words line with
  | "env" :: rest =>
    match rest.mapM (parseFile true) with
    | some fs => (if graphOk fs && !fs.isEmpty then some fs else none, "skip")
    | none => (none, "skip")
  | "ref" :: rest =>
    match st with
    | some fs =>
      match parseRefOp fs rest with
      | some op =>
        let want := protocOutcome op fs
        let got : Option (Option (Name × Kind)) :=
          match words ans with
          | ["ok", n, k] => (parseKind k).map (fun k => some (nameOf n, k))
          | ["unknown"] => some none
          | ["sentinel", _] => some none
          | ["wrongkind", _, _] => some none
          | _ => none
        match got with
        | none => (st, "fails bad-answer")
        | some g =>
          if g == want then (st, "holds")
          else
            let sh : Option (Name × Kind) → String := fun o => match o with
              | some (n, k) => s!"{showName n}:{k.tag}"
              | none => "failure"
            (st, s!"fails resolves-differently-from-protoc impl={sh g} protoc={sh want}")
      | none => (st, "skip")
    | none => (st, "skip")
  | ["prefixes", h] =>
    -- specification of CreatePrefixList on well-formed package names: the dotted prefixes,
    -- longest first, then the empty string
    match charsOfHex h with
    | some cs =>
      let comps := (String.ofList cs).splitOn "."
      if cs.isEmpty then (st, if ans == "-" then "holds" else "fails prefixes-of-empty")
      else if comps.any (· == "") then (st, "skip")
      else
        let want := (createPrefixList comps).map (fun n => hexOfChars (".".intercalate n).toList)
        (st, if ans == " ".intercalate want then "holds" else "fails prefix-list-wrong")
    | none => (st, "skip")
  | ["pkgns", a, b] =>
    match charsOfHex a, charsOfHex b with
    | some x, some y =>
      let cx := (String.ofList x).splitOn "."
      let cy := (String.ofList y).splitOn "."
      if x.isEmpty || y.isEmpty || cx.any (· == "") || cy.any (· == "") then (st, "skip")
      else
        let want := matchesPkgNamespace cx cy
        (st, if ans == (if want then "true" else "false") then "holds" else "fails pkg-namespace-wrong")
    | _, _ => (st, "skip")
  | _ => (st, "skip")

end PCV.Engines.ResolveE

namespace PCV.Engines
open PCV.Engines.ResolveE

def visibility : Engine :=
  { σ := Option PCV.Resolve.Files, init := none, step := visModel,
    τ := Option PCV.Resolve.Files, specInit := none, spec := visSpec }


def resolve : Engine :=
  { σ := Option PCV.Resolve.Files, init := none, step := resModel,
    τ := Option PCV.Resolve.Files, specInit := none, spec := resSpec }

end PCV.Engines
