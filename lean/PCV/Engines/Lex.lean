-- ENGINE: lex => PCV.Engines.lex
-- ENGINE: lexpos => PCV.Engines.lexpos
-- ENGINE: literal => PCV.Engines.literal
-- ENGINE: lextotal => PCV.Engines.lextotal
/-
Line-protocol adapters for the stable lexer / FileInfo model (E-LEX).

  lex      (C11)  `lex <l|s> <hex>`  token / item / comment / line tables of a lexer-only run
                  `ast <hex>`        walk-print of the real parser's AST for an accepted file
  lexpos   (C13)  `pos <l|s> <hex>`  SourcePos of every scanned offset, Start/End of every item
                  `cpos <l|s> <hex>` the same questions asked from 8 goroutines at once: same / differ
  literal  (C14)  `lit|opt|dflt <hex>` literal decoding alone / as option value / as default
                  `snum <ctx> <hex>` a (negated) numeric literal through the parser / compiler in context ctx
  lextotal (C12)  `tot <l|s> <hex> <observed error offset:class list> <observed Parse outcome> <observed ResultFromAST outcome>
                       <observed offsets of ResultFromAST's errors> <observed outcome of touching every AST node>`

`step` is the model's answer; `spec` is the property oracle evaluated on the implementation's
own answer (it never looks at the model).
-/
import PCV.Engine
import PCV.Util.Wire
import PCV.Model.Lex
import PCV.Model.Escape
import PCV.Model.NumNode
import PCV.Spec.Lex
namespace PCV.Engines
open PCV.Wire PCV.Lex PCV.FileInfo PCV.Spec.Lex

namespace LexFmt

def joinOr (xs : List String) (sep : String) : String :=
  if xs.isEmpty then "-" else sep.intercalate xs

def hex16 (n : Nat) : String :=
  String.ofList ((List.range 16).reverse.map (fun i => hexDigit ((n / 16 ^ i) % 16)))

def kindName : NumKind → String
  | .float => "float" | .hex => "hex" | .octal => "octal" | .integer => "integer"

def ecName : EC → String
  | .eolInString => "eol" | .unexpectedEOF => "ueof" | .eof => "eof" | .nulInString => "nul"
  | .badHex => "hex" | .badOctal => "oct" | .octalRange => "octrange" | .badUnicode => "uni"
  | .unicodeRange => "unirange" | .badEscape => "esc" | .controlChar => "ctl"
  | .invalidChar => "inv" | .blockCommentEOF => "blk"
  | .numSyntax k => "syn-" ++ kindName k | .numRange k => "rng-" ++ kindName k

def showTok (t : Tok) : String :=
  let it := match t.item with | some i => toString i | none => "?"
  match t.kind, t.val with
  | .error, _ => "e"
  | .name, _ => s!"n@{it}"
  | .kw, _ => s!"k@{it}"
  | .intLit, .int n => s!"i@{it}:{n}"
  | .floatLit, .float b => s!"f@{it}:{hex16 b}"
  | .strLit, .str bs => s!"s@{it}:{hexOfBytes bs}"
  | .rune, .rune c => s!"r@{it}:{c}"
  | _, _ => "?"

def showErr (e : Err) : String := s!"{ecName e.cls}@{e.off}:{e.line}:{e.col}"

def panicMsg : String := "PANIC runtime error: index out of range [-1]"

def showLex (st : St) : String :=
  if st.panicked then panicMsg
  else
    let x := match st.eof with | some k => s!"eof{k}" | none => "noeof"
    "T=" ++ joinOr (st.toks.map showTok) ";" ++
    " I=" ++ joinOr (st.fi.items.map (fun i => s!"{i.off}+{i.len}")) "," ++
    " C=" ++ joinOr (st.fi.comments.map (fun c => s!"{c.index}>{c.attr}")) "," ++
    " L=" ++ joinOr (st.fi.lines.map toString) "," ++
    " E=" ++ joinOr (st.errs.map showErr) "," ++
    s!" X={x} N={st.pos}"

/-- the value summary of the terminal nodes of the AST, from the lexer's tokens + EOF -/
def showVal (t : Tok) : String :=
  match t.kind, t.val with
  | .intLit, .int n => s!"i:{n}"
  | .floatLit, .float b => s!"f:{hex16 b}"
  | .strLit, .str bs => s!"s:{hexOfBytes bs}"
  | .rune, .rune c => s!"r:{c}"
  | _, _ => "id"

def showAst (st : St) : String :=
  if st.panicked then panicMsg
  else if !st.errs.isEmpty || st.eof.isNone then "rejected"
  else
    let toks := st.toks.filterMap (·.item) ++ st.eof.toList
    "V=" ++ joinOr ((visitOrder st.fi toks).map toString) "," ++
    " P=" ++ hexOfBytes (printAST st.fi toks) ++
    " K=" ++ joinOr (st.toks.map showVal ++ ["r:0"]) ";"

def showPosTriple (p : Option (Nat × Nat × Nat)) : String :=
  match p with
  | some (o, l, c) => s!"{o}:{l}:{c}"
  | none => "?"

def showItemSpan (fi : FI) (i : Nat) : String :=
  if isComment fi i then
    if fi.comments.any (fun c => c.index == i) then
      showPosTriple (nodeStart fi i) ++ "-" ++ showPosTriple (commentEnd fi i)
    else "nil"
  else showPosTriple (nodeStart fi i) ++ "-" ++ showPosTriple (nodeEnd fi i)

def showPos (st : St) : String :=
  if st.panicked then panicMsg
  else
    let ps := (List.range (st.pos + 1)).map (fun (o : Nat) =>
      match sourcePos st.fi (o : Int) with | some (l, c) => s!"{l}:{c}" | none => "?")
    "P=" ++ joinOr ps "," ++
    " S=" ++ joinOr ((List.range st.fi.items.length).map (showItemSpan st.fi)) "," ++
    " E=" ++ joinOr (st.errs.map showErr) ","

def mode? (w : String) : Option Bool :=
  if w == "l" then some true else if w == "s" then some false else none

/-! parsing of implementation answers (for the oracles) -/

def field (ans key : String) : Option String :=
  (ans.splitOn " ").findSome? (fun w => if w.startsWith (key ++ "=") then some (w.drop (key.length + 1)).toString else none)

def listOf (s sep : String) : List String := if s == "-" then [] else s.splitOn sep

def pair? (s sep : String) : Option (Nat × Nat) :=
  match s.splitOn sep with
  | [a, b] => do let x ← a.toNat?; let y ← b.toNat?; pure (x, y)
  | _ => none

def triple? (s : String) : Option (Nat × Nat × Nat) :=
  match s.splitOn ":" with
  | [a, b, c] => do let x ← a.toNat?; let y ← b.toNat?; let z ← c.toNat?; pure (x, y, z)
  | _ => none

end LexFmt
open LexFmt

/-! ## lex (C11) -/

def lexModel (line : String) : String :=
  match words line with
  | ["lex", m, h] =>
    match mode? m, bytesOfHex h with
    | some lenient, some bs => showLex (lexAll lenient bs)
    | _, _ => "bad-op"
  | ["ast", h] =>
    match bytesOfHex h with
    | some bs => showAst (lexAll false bs)
    | none => "bad-op"
  | _ => "bad-op"

/-- items as the implementation reported them satisfy what `AddToken` enforces and stay in the file -/
def itemsOkB (n : Nat) : Nat → List (Nat × Nat) → Bool
  | _, [] => true
  | pe, (o, l) :: rest => decide (pe ≤ o) && decide (o + l ≤ n) && itemsOkB n (o + l) rest

/-- C11 oracle.  `lex`: the reported item table tiles the (BOM-stripped) input — every item lies
    in the file, items do not overlap and are in order, and when the lexer reached the end the last
    item is the empty EOF item at the end of the data — which is the hypothesis of
    `print_items_eq_data`; comments are recorded in increasing order and attributed to non-comment
    items.  `ast`: the text printed from the real AST equals the input minus a leading BOM, and the
    walk visits every item exactly once, in order. -/
def lexSpec (line ans : String) : String :=
  if ans.startsWith "PANIC" then "skip" else    -- decided by C12
  match words line with
  | ["lex", _, h] =>
    match bytesOfHex h, field ans "I", field ans "C", field ans "X" with
    | some bs, some is, some cs, some x =>
      let data := stripBOM bs
      match (listOf is ",").mapM (pair? · "+"), (listOf cs ",").mapM (pair? · ">") with
      | some items, some comments =>
        if !itemsOkB data.length 0 items then "fails items-not-tiling"
        else if x.startsWith "eof" && items.getLast? != some (data.length, 0) then "fails eof-item-not-at-end"
        else if x.startsWith "eof" && x != s!"eof{items.length - 1}" then "fails eof-token-not-last-item"
        else if !(comments.zip (comments.drop 1)).all (fun (a, b) => a.1 < b.1 && a.2 ≤ b.2) then "fails comments-not-ordered"
        else if !comments.all (fun c => c.1 < items.length && c.2 < items.length && c.1 != c.2) then "fails comment-index-out-of-range"
        else "holds"
      | _, _ => "fails bad-answer"
    | _, _, _, _ => "fails bad-answer"
  | ["ast", h] =>
    if ans == "rejected" then "skip" else
    match bytesOfHex h, field ans "P", field ans "V" with
    | some bs, some p, some v =>
      let data := stripBOM bs
      match bytesOfHex p, (listOf v ",").mapM String.toNat? with
      | some out, some vs =>
        if out != data then "fails printed-text-differs-from-source"
        else if vs != List.range vs.length then "fails walk-does-not-visit-items-in-order"
        else "holds"
      | _, _ => "fails bad-answer"
    | _, _, _ => "fails bad-answer"
  | _ => "skip"

def lex : Engine := Engine.pure lexModel lexSpec

/-! ## lexpos (C13) -/

def lexposModel (line : String) : String :=
  match words line with
  | ["pos", m, h] =>
    match mode? m, bytesOfHex h with
    | some lenient, some bs => showPos (lexAll lenient bs)
    | _, _ => "bad-op"
  | ["cpos", m, h] =>
    -- the model is sequential: a position is a function of the tables and the offset, so
    -- concurrent queries answer what sequential ones answer
    match mode? m, bytesOfHex h with
    | some _, some _ => "same"
    | _, _ => "bad-op"
  | _ => "bad-op"

/-- is (line, col) what the property says for offset `o` of `data`? `none` = no claim
    (ill-formed UTF-8 before the offset on its line) -/
def posOk (data : List UInt8) (o l c : Nat) : Option Bool :=
  if l != specLine data o then some false
  else match specCol data o with
    | none => none
    | some sc => some (c == sc)

/-- offsets of the reported string-literal errors that swallow a newline without `AddLine`
    (used only to name the failure class, never to excuse it) -/
def stringNewlineErrs (data : List UInt8) (e : String) : List Nat :=
  (listOf e ",").filterMap (fun er =>
    match er.splitOn "@" with
    | [cls, t] =>
      if cls == "eol" || cls == "esc" || cls == "hex" || cls == "uni" || cls == "unirange" then
        match triple? t with
        | some (o, _, _) => if (data.drop o).contains 10 then some o else none
        | none => none
      else none
    | _ => none)

/-- name of a position failure: the known class "line too small after a string literal error
    that swallowed a newline", or the generic class -/
def posFailure (data : List UInt8) (e : String) (what : String) (o l c : Nat) : String :=
  let cause := if (stringNewlineErrs data e).any (· < o) && decide (l < specLine data o)
    then "line-short-after-newline-in-string-literal" else "wrong-position"
  s!"fails {cause} {what} offset={o} reported={l}:{c} expected={specLine data o}:{(specCol data o).getD 0}"

/-- C13 oracle: every position the implementation reports (each scanned offset, the start and
    end of every item, every error position) has line = 1 + newlines before the offset and
    column = 1 + characters since the line start with tabs to multiples of 8; and every item's
    span starts no later than it ends. -/
def lexposSpec (line ans : String) : String :=
  if ans.startsWith "PANIC" then "skip" else    -- decided by C12
  match words line with
  | ["cpos", _, _] =>
    -- the position of an offset does not depend on who else is asking
    if ans == "same" then "holds"
    else if ans.startsWith "differ" then "fails concurrent-position-differs " ++ (ans.drop 7).toString
    else "skip"
  | ["pos", _, h] =>
    match bytesOfHex h, field ans "P", field ans "S", field ans "E" with
    | some bs, some p, some s, some e =>
      let data := stripBOM bs
      match (listOf p ",").mapM (pair? · ":") with
      | none => "fails bad-answer"
      | some ps =>
        let bad := (ps.zipIdx).find? (fun ((l, c), o) => posOk data o l c == some false)
        match bad with
        | some ((l, c), o) => posFailure data e "SourcePos" o l c
        | none =>
          -- item spans
          let spans := (listOf s ",").filter (· != "nil")
          let chk := spans.findSome? (fun sp =>
            match sp.splitOn "-" with
            | [a, b] =>
              match triple? a, triple? b with
              | some (so, sl, sc), some (eo, el, ec) =>
                if posOk data so sl sc == some false then some (posFailure data e "item-start" so sl sc)
                else if !(so ≤ eo && (sl < el || (sl == el && sc ≤ ec))) then some s!"fails span-start-after-end {sp}"
                else none
              | _, _ => some "fails bad-answer"
            | _ => some "fails bad-answer")
          match chk with
          | some f => f
          | none =>
            let echk := (listOf e ",").findSome? (fun er =>
              match er.splitOn "@" with
              | [_, t] =>
                match triple? t with
                | some (o, l, c) => if posOk data o l c == some false then some (posFailure data e "error-position" o l c) else none
                | none => some "fails bad-answer"
              | _ => some "fails bad-answer")
            echk.getD "holds"
    | _, _, _, _ => "fails bad-answer"
  | _ => "skip"

def lexpos : Engine := Engine.pure lexposModel lexposSpec

/-! ## literal (C14) -/

def showLit (st : St) : String :=
  if st.panicked then panicMsg
  else "T=" ++ joinOr (st.toks.map showTok) ";" ++ " E=" ++ joinOr (st.errs.map (fun e => ecName e.cls)) ","

/-- lexer view of `option x = <lit>;` -/
inductive Shape where
  | lit (t : Tok) | err | other | panic

def litShape (lit : List UInt8) : Shape :=
  let st := lexAll true ("option x = ".toUTF8.toList ++ lit ++ [59])
  if st.panicked then .panic
  else if !st.errs.isEmpty then .err
  else match st.toks with
    | [_, _, _, l, _] =>
      (match l.kind with
       | .strLit | .intLit | .floatLit => .lit l
       | _ => .other)
    | _ => .other

/-- lexer view of `option x = <lit>;` where `<lit>` may be a negated numeric literal:
    `some (neg, tok)` for exactly [option x = (-)? NUMBER ;] without errors -/
inductive SShape where
  | lit (neg : Bool) (t : Tok) | err | other

def signedShape (lit : List UInt8) : SShape :=
  let st := lexAll true ("option x = ".toUTF8.toList ++ lit ++ [59])
  if st.panicked || !st.errs.isEmpty then .err
  else
    let isNum (t : Tok) : Bool := match t.kind with | .intLit | .floatLit => true | _ => false
    let isRune (t : Tok) (c : Nat) : Bool := match t.kind, t.val with | .rune, .rune r => r == c | _, _ => false
    match st.toks with
    | [_, _, e, l, sc] => if isRune e 61 && isNum l && isRune sc 59 then .lit false l else .other
    | [_, _, e, m, l, sc] => if isRune e 61 && isRune m 45 && isNum l && isRune sc 59 then .lit true l else .other
    | _ => .other

open PCV.NumNode in
/-- the model's answer to a `snum` op -/
def signedModel (ctx : String) (lit : List UInt8) : String :=
  match signedShape lit with
  | .other => "unmodelled"
  | .err => "rej"
  | .lit neg t =>
    let isF := match t.val with | .float _ => true | _ => false
    let n := match t.val with | .int n => n | _ => 0
    let fbits := match t.val with | .float b => b | _ => 0
    let node := numLit neg isF n
    match ctx.splitOn ":" with
    | ["opt"] =>
      (match node with
       | .uint u => s!"p:{u}"
       | .int i => s!"n:{i}"
       | .float =>
         let b := if isF then fbits else PCV.Num.roundF64 n 0
         s!"d:{hex16 (if neg then b + 2 ^ 63 else b)}")
    | [k, ty] =>
      (match styOf ty with
       | none => "bad-op"
       | some st =>
         if k == "dflt" then
           (match scalarValue st node with
            | none => "rej"
            | some none => "acc"
            | some (some v) => s!"acc:{v}")
         else if k == "copt" || k == "mlit" then
           (match scalarValue st node with | none => "rej" | some _ => "acc")
         else "bad-op")
    | ["enum"] => if isF then "rej" else (match enumNumber neg n with | some v => s!"acc:{v}" | none => "rej")
    | ["eres"] => if isF then "rej" else (match enumNumber neg n with | some _ => "acc" | none => "rej")
    | ["tag"] => if isF || neg then "rej" else (if fieldTag n then "acc" else "rej")
    | ["res"] => if isF || neg then "rej" else (if reservedStart n then "acc" else "rej")
    | _ => "bad-op"

def literalModel (line : String) : String :=
  match words line with
  | ["snum", ctx, h] =>
    match bytesOfHex h with
    | some bs => signedModel ctx bs
    | none => "bad-op"
  | ["lit", h] =>
    match bytesOfHex h with
    | some bs => showLit (lexAll true bs)
    | none => "bad-op"
  | ["opt", h] =>
    match bytesOfHex h with
    | some bs =>
      (match litShape bs with
       | .panic => panicMsg
       | .other => "unmodelled"
       | .err => "rejected"
       | .lit t => showVal t)
    | none => "bad-op"
  | ["dflt", h] =>
    match bytesOfHex h with
    | some bs =>
      (match litShape bs with
       | .panic => panicMsg
       | .other => "unmodelled"
       | .err => "rejected"
       | .lit t =>
         match t.val with
         | .str v => "d:" ++ hexOfBytes (PCV.Escape.escapeBytes v)
         | .int n => "d:" ++ hexOfBytes (toString n).toUTF8.toList
         | _ => "unmodelled")
    | none => "bad-op"
  | _ => "bad-op"

/-- how the implementation treated the literal, read off its answer -/
inductive Obs where
  | str (v : List UInt8) | int (n : Nat) | float (bits : Nat) | rejected | other

def obsOfLit (ans : String) : Obs :=
  match field ans "T", field ans "E" with
  | some t, some e =>
    if e != "-" then .rejected
    else match listOf t ";" with
      | [one] =>
        (match one.splitOn ":" with
         | [k, v] =>
           if k.startsWith "s@" then (match bytesOfHex v with | some b => .str b | none => .other)
           else if k.startsWith "i@" then (match v.toNat? with | some n => .int n | none => .other)
           else if k.startsWith "f@" then (match bytesOfHex v with
              | some b => .float (b.foldl (fun a x => a * 256 + x.toNat) 0) | none => .other)
           else .other
         | _ => .other)
      | _ => .other
  | _, _ => .other

def obsOfOpt (ans : String) : Obs :=
  if ans == "rejected" then .rejected
  else match ans.splitOn ":" with
    | ["s", v] => (match bytesOfHex v with | some b => .str b | none => .other)
    | ["i", v] => (match v.toNat? with | some n => .int n | none => .other)
    | ["f", v] => (match bytesOfHex v with
        | some b => .float (b.foldl (fun a x => a * 256 + x.toNat) 0) | none => .other)
    | _ => .other

/-- is `src` well-formed UTF-8 as a whole? -/
def wellFormedSrc (src : List UInt8) : Bool :=
  (runes src).all (fun c => !(c.bytes.length == 1 && c.r ≥ 0x80))

/-- does a `\x`, `\u` or `\U` escape in `src` contain a sign character where digits belong? -/
def hasSignInEscape : List UInt8 → Bool
  | 92 :: e :: rest =>
    ((e == 120 || e == 88) && (rest.take 2).any (fun b => b == 43 || b == 45)) ||
    (e == 117 && (rest.take 4).any (fun b => b == 43 || b == 45)) ||
    (e == 85 && (rest.take 8).any (fun b => b == 43 || b == 45)) ||
    hasSignInEscape rest
  | _ :: rest => hasSignInEscape rest
  | [] => false

/-- a float-looking token with a superfluous leading zero (`0` followed by a digit) -/
def leadingZeroFloat (src : List UInt8) : Bool :=
  match src with
  | 48 :: d :: _ => isDig d && src.any (fun b => b == 46 || b == 101 || b == 69)
  | _ => false

/-- C14 oracle: accept/reject and value agree with the transcribed protoc tokenizer wherever it
    makes a claim. The failure classes with a known cause are named after the cause. -/
def judge (src : List UInt8) (o : Obs) : String :=
  match src with
  | [] => "skip"
  | c :: _ =>
    if c = 34 ∨ c = 39 then
      match protocString src, o with
      | .unknown, _ => "skip"
      | _, .other => "skip"
      | .reject, .rejected => "holds"
      | .reject, .str v =>
        if hasSignInEscape src then s!"fails sign-accepted-in-escape decoded={hexOfBytes v}"
        else s!"fails accepts-what-protoc-rejects decoded={hexOfBytes v}"
      | .reject, _ => "fails accepts-what-protoc-rejects"
      | .accept _, .rejected => "fails rejects-what-protoc-accepts"
      | .accept v, .str w =>
        if v == w then "holds"
        else if !wellFormedSrc src then s!"fails raw-ill-formed-byte-replaced protoc={hexOfBytes v} got={hexOfBytes w}"
        else s!"fails decoded-bytes-differ protoc={hexOfBytes v} got={hexOfBytes w}"
      | .accept _, _ => "fails wrong-token-kind"
    else
      match protocNumber src, o with
      | .unknown, _ => "skip"
      | _, .other => "skip"
      | .reject, .rejected => "holds"
      | .reject, _ =>
        if leadingZeroFloat src then "fails leading-zero-float-accepted" else "fails accepts-number-protoc-rejects"
      | .int _, .rejected => "fails rejects-number-protoc-accepts"
      | .float _ _, .rejected => "fails rejects-number-protoc-accepts"
      | .int n, .int m => if n == m then "holds" else s!"fails integer-value-differs protoc={n} got={m}"
      | .int _, _ => "fails wrong-token-kind"
      | .float m e, .float b =>
        if PCV.Num.roundF64 m e == b then "holds" else s!"fails float-value-differs expected={hex16 (PCV.Num.roundF64 m e)} got={hex16 b}"
      | .float _ _, _ => "fails wrong-token-kind"

/-! the signed-boundary oracle: independent of the lexer model -/

/-- skip protobuf trivia (white space, block and line comments) -/
def skipTrivia : Nat → List UInt8 → List UInt8
  | 0, l => l
  | _, [] => []
  | f+1, c :: rest =>
    if c == 32 || c == 9 || c == 10 || c == 13 || c == 12 || c == 11 then skipTrivia f rest
    else match c, rest with
      | 47, 42 :: r =>  -- block comment
        let rec close : Nat → List UInt8 → List UInt8
          | 0, l => l
          | _, [] => []
          | g+1, 42 :: 47 :: r' => skipTrivia g r'
          | g+1, _ :: r' => close g r'
        close f r
      | 47, 47 :: r => skipTrivia f (r.dropWhile (· != 10))
      | _, _ => c :: rest

/-- a source text meant to be `-`? NUMBER: sign and what protoc's tokenizer makes of the number -/
def specSigned (lit : List UInt8) : Bool × NR :=
  match lit with
  | 45 :: rest => (true, protocNumber (skipTrivia rest.length rest))
  | _ => (false, protocNumber lit)

/-- is the text a plain decimal integer (no prefix)? -/
def isDecimalSpelling (lit : List UInt8) : Bool :=
  let body := match lit with | 45 :: r => skipTrivia r.length r | l => l
  match body with
  | 48 :: _ :: _ => false
  | _ => body.all isDig

/-- what the property demands of a `snum` answer: `none` = no claim -/
def signedExpect (ctx : String) (lit : List UInt8) : Option String :=
  let (neg, nr) := specSigned lit
  let range (lo hi : Int) (v : Int) : Bool := decide (lo ≤ v) && decide (v ≤ hi)
  -- (isInt, magnitude) ; a decimal integer beyond uint64 is an integer for range purposes and a float for float targets
  let mag? : Option (Bool × Nat) := match nr with
    | .int n => some (true, n)
    | .float m e => if e == 0 && isDecimalSpelling lit then some (true, m) else some (false, 0)
    | _ => none
  match nr with
  | .unknown => none
  | .reject => some "rej"
  | _ =>
    match mag? with
    | none => none
    | some (isInt, m) =>
      let v : Int := if neg then -(m : Int) else (m : Int)
      match ctx.splitOn ":" with
      | ["opt"] =>
        if isInt && neg && m ≤ 2 ^ 63 then some s!"n:{v}"
        else if isInt && !neg && m ≤ 2 ^ 64 - 1 then some s!"p:{m}"
        else none
      | [k, ty] =>
        (match PCV.NumNode.styOf ty with
         | none => none
         | some st =>
           let intRes (lo hi : Int) : Option String :=
             if !isInt then some "rej"
             else if range lo hi v then some (if k == "dflt" then s!"acc:{v}" else "acc") else some "rej"
           match st with
           | .bool => some "rej"
           | .float | .double => if k == "mlit" && !isDecimalSpelling lit then none else some "acc"
           | .int32 => intRes (-(2 ^ 31)) (2 ^ 31 - 1)
           | .int64 => intRes (-(2 ^ 63)) (2 ^ 63 - 1)
           | .uint32 => if neg && m == 0 then none else (if neg then some "rej" else intRes 0 (2 ^ 32 - 1))
           | .uint64 => if neg && m == 0 then none else (if neg then some "rej" else intRes 0 (2 ^ 64 - 1)))
      | ["enum"] => if isInt && range (-(2 ^ 31)) (2 ^ 31 - 1) v then some s!"acc:{v}" else some "rej"
      | ["eres"] => if isInt && range (-(2 ^ 31)) (2 ^ 31 - 1) v then some "acc" else some "rej"
      | ["tag"] => if isInt && !neg && PCV.NumNode.fieldTag m then some "acc" else some "rej"
      | ["res"] => if isInt && !neg && 1 ≤ m && m ≤ PCV.NumNode.maxTag then some "acc" else some "rej"
      | _ => none

def signedSpec (ctx : String) (lit : List UInt8) (ans : String) : String :=
  if ans == "unmodelled" then "skip"
  else match signedExpect ctx lit with
    | none => "skip"
    | some want =>
      if ans == want then "holds"
      else
        let (neg, nr) := specSigned lit
        let wraps := neg && (ctx == "enum" || ctx == "eres") && ans.startsWith "acc" &&
          (match nr with | .int n => decide (n > 2 ^ 63) | _ => false)
        let kind := if wraps then "negative-enum-number-wraps-around"
          else if want.startsWith "acc" || want.startsWith "n:" || want.startsWith "p:" then
            (if ans.startsWith "rej" then "signed-literal-rejected" else "signed-literal-wrong-value")
          else "signed-literal-accepted"
        s!"fails {kind} ctx={ctx} lit={hexOfBytes lit} expected={want} got={ans}"

def literalSpec (line ans : String) : String :=
  if ans.startsWith "PANIC" then "skip" else    -- decided by C12
  match words line with
  | ["snum", ctx, h] =>
    (match bytesOfHex h with
     | some lit => signedSpec ctx lit ans
     | none => "skip")
  | ["lit", h] =>
    (match bytesOfHex h with
     | some src => judge src (obsOfLit ans)
     | none => "skip")
  | ["opt", h] =>
    (match bytesOfHex h with
     | some src => if ans == "unmodelled" then "skip" else judge src (obsOfOpt ans)
     | none => "skip")
  | ["dflt", h] =>
    -- default_value of a bytes field is the C-escaped decoded value (C26 proves the escaping
    -- round-trips); compare after unescaping
    (match bytesOfHex h with
     | some src =>
       if ans == "unmodelled" then "skip"
       else if ans == "rejected" then judge src .rejected
       else match ans.splitOn ":" with
         | ["d", v] =>
           (match bytesOfHex v, src with
            | some dv, c :: _ =>
              if c = 34 ∨ c = 39 then judge src (.str (PCV.Escape.unescape dv))
              else (match (String.ofList (dv.map (fun b => Char.ofNat b.toNat))).toNat? with
                | some n => judge src (.int n)
                | none => "skip")
            | _, _ => "skip")
         | _ => "skip"
     | none => "skip")
  | _ => "skip"

def literal : Engine := Engine.pure literalModel literalSpec

/-! ## lextotal (C12) -/

def lextotalModel (line : String) : String :=
  match words line with
  | ["tot", m, h, obs, parse, res, robs, walk] =>
    match mode? m, bytesOfHex h, (listOf obs ",").mapM (fun w => ((w.splitOn ":").headD "").toNat?),
        (listOf robs ",").mapM String.toNat? with
    | some lenient, some bs, some offs, some roffs =>
      let st := lexAll lenient bs
      if parse == "PANIC:runtime_error:_index_out_of_range_[-1]" then
        -- the one panic the lexer model has: it must be present in the lexer-only run of the model
        (if (lexAll true bs).panicked || st.panicked then "PANIC runtime_error:_index_out_of_range_[-1]"
         else "model-does-not-panic")
      else if parse.startsWith "PANIC:" then
        -- panics raised by the generated parser's actions / AST constructors: not modelled, echoed
        "PANIC " ++ (parse.drop 6).toString
      else
        -- line:column of the observed offsets from the model's own line table (the lexer part of
        -- the run is a prefix of the model's lexer-only run, so the table agrees on these offsets)
        let fi := if st.panicked then (lexAll false bs).fi else st.fi
        let ps := offs.map (fun (o : Nat) => match sourcePos fi (o : Int) with
          | some (l, c) => s!"{o}:{l}:{c}" | none => s!"{o}:?")
        -- positions of the errors ResultFromAST reported (offsets of AST nodes, all scanned)
        let rps := roffs.map (fun (o : Nat) => match sourcePos fi (o : Int) with
          | some (l, c) => s!"{o}:{l}:{c}" | none => s!"{o}:?")
        s!"ast=ok err={if offs.isEmpty then 0 else 1} rep={offs.length} pos={joinOr ps ","} res={res} rpos={joinOr rps ","} walk={walk}"
    | _, _, _, _ => "bad-op"
  | _ => "bad-op"

/-- bytes of the k-th (0-based) line, without its newline -/
def nthLine : List UInt8 → Nat → List UInt8
  | [], _ => []
  | b :: bs, 0 => if b = 10 then [] else b :: nthLine bs 0
  | b :: bs, k+1 => if b = 10 then nthLine bs k else nthLine bs (k+1)

/-- does (line, col) exist in `data`? line ≤ 1 + #newlines, and col ≤ 1 + the width of that line -/
def lineColExists (data : List UInt8) (l c : Nat) : Bool :=
  let nl := data.count 10
  if l = 0 ∨ l > nl + 1 ∨ c = 0 then false
  else
    -- bytes of line l (without its newline)
    let ln := nthLine data (l - 1)
    -- every column up to 1 + (bytes with tabs counted 8) certainly exists as an upper bound;
    -- exact reachability is C13's business
    c ≤ 1 + ln.foldl (fun a b => if b = 9 then a + 8 else a + 1) 0

/-- C12 oracle on one Parse + ResultFromAST run -/
def lextotalSpec (line ans : String) : String :=
  match words line with
  | ["tot", _, h, obs, _, _, _, _] =>
    if ans.startsWith "PANIC" then "fails parse-panicked " ++ (ans.drop 6).toString
    else if ans.startsWith "obs-mismatch" then "skip"
    else
    match bytesOfHex h, field ans "ast", field ans "err", field ans "rep", field ans "pos", field ans "res",
        field ans "rpos", field ans "walk" with
    | some bs, some a, some e, some r, some p, some res, some rp, some walk =>
      let data := stripBOM bs
      if a != "ok" then "fails nil-ast"
      else if walk != "ok" && walk != "bad-eof-token" then "fails ast-walk-" ++ walk
      else if res != "ok" then
        (if (obs.splitOn ":novalue").length > 1 then "fails result-from-ast-panicked-after-valueless-compact-option " ++ res
         else "fails result-from-ast-panicked " ++ res)
      else match r.toNat? with
        | none => "fails bad-answer"
        | some k =>
          if (e == "1") != (k > 0) then s!"fails error-returned-iff-reported err={e} reported={k}"
          else
            let bad := (listOf p ",").findSome? (fun t =>
              match triple? t with
              | some (o, l, c) =>
                if o > data.length then some s!"fails error-offset-outside-file {t}"
                else if !lineColExists data l c then
                  (if l < specLine data o && (data.take o).contains 10 && ((data.take o).contains 34 || (data.take o).contains 39)
                   then some s!"fails error-position-not-in-file-line-short-after-newline-in-string-literal {t}"
                   else some s!"fails error-position-not-in-file {t}")
                else none
              | none => some "fails bad-answer")
            match bad with
            | some f => f
            | none =>
              -- positions reported by ResultFromAST / validation
              let rbad := (listOf rp ",").findSome? (fun t =>
                match triple? t with
                | some (o, l, c) =>
                  if o > data.length then some s!"fails result-error-offset-outside-file {t}"
                  else if !lineColExists data l c then some s!"fails result-error-position-not-in-file {t}"
                  else none
                | none => some "fails bad-answer")
              match rbad with
              | some f => f
              | none =>
                -- last: the AST's EOF token must be the last, empty item (every other check of this
                -- op has passed when this is reported)
                if walk == "bad-eof-token" then "fails ast-walk-bad-eof-token" else "holds"
    | _, _, _, _, _, _, _, _ => "fails bad-answer"
  | _ => "skip"

def lextotal : Engine := Engine.pure lextotalModel lextotalSpec

end PCV.Engines
