-- ENGINE: decimal => PCV.Engines.decimal
import PCV.Engine
import PCV.Util.Wire
import PCV.Model.Decimal
/-
Line protocol of the `decimal` engine (C39).

  table <name> <i>      entry i of pow5s / pow5s32 / pow5s32neg      → 16 hex digits | none
  u64 <dec>             float64(uint64)                              → bits
  mul <a> <b>, div <a> <b>   hardware * and / on non-negative floats → bits
  ldexp <a> <n>         math.Ldexp                                   → bits
  pow5 <a> <n>          decimal.pow5                                 → bits
  log10 <hex>           bigx.Log10 of a positive integer             → decimal
  f64 <numeral>         Parse + Float64 (+ strconv.ParseFloat)       →
        err syntax | err range |
        ok <neg> <base2> <mant hex> <z.exp> <digits> <bits> <exact> <strconv bits | ->

The property oracle (`decimalSpec`) re-reads the numeral with its own naive reader
(`readNumeral`, the lexer's grammar), computes the exact rational value and rounds it
with `rne`; it does not use the `Parse`/`Float64` model.
-/
namespace PCV.Engines
open PCV.Wire PCV.Decimal

namespace DecimalEng

def hexNatChars : List Char → Nat → Option Nat
  | [], acc => some acc
  | c :: cs, acc => match hexVal c with
    | some v => hexNatChars cs (acc * 16 + v)
    | none => none

def hexNat (s : String) : Option Nat :=
  if s.isEmpty then none else hexNatChars s.toList 0

def hexDigits : Nat → Nat → List Char → List Char
  | 0, _, acc => acc
  | fuel + 1, n, acc =>
    let acc := hexDigit (n % 16) :: acc
    if n / 16 = 0 then acc else hexDigits fuel (n / 16) acc

def hexOfNat (n : Nat) : String := String.ofList (hexDigits (n.log2 / 4 + 2) n [])

def pad16 (s : String) : String := String.ofList (List.replicate (16 - s.length) '0') ++ s

def bitsStr (b : Nat) : String := pad16 (hexOfNat b)

/-- non-negative, non-NaN binary64 bits -/
def floatArg (s : String) : Option F :=
  match hexNat s with
  | some b =>
    if s.length = 16 ∧ b < 2 ^ 63 ∧ ¬ (b / 2 ^ 52 = 2047 ∧ b % 2 ^ 52 ≠ 0) then some (ofBits b) else none
  | none => none

def isZero : F → Bool
  | .fin m _ => m == 0
  | .inf => false

/-! ### naive numeral reader (specification side) -/

structure Numeral where
  neg : Bool
  hex : Bool
  /-- all mantissa digits read as one integer in the numeral's base -/
  mant : Nat
  /-- number of digits after the point -/
  frac : Nat
  /-- exponent marker: 0 none, 1 `e`, 2 `p` -/
  marker : Nat
  /-- written exponent -/
  exp : Int
  deriving Repr

def isDig (hex : Bool) (c : Char) : Bool :=
  ('0' ≤ c && c ≤ '9') || (hex && (('a' ≤ c && c ≤ 'f') || ('A' ≤ c && c ≤ 'F')))

/-- a block: non-empty, digits and underscores, first and last a digit -/
def blockOK (hex : Bool) (b : List Char) : Bool :=
  match b, b.getLast? with
  | c :: _, some l => isDig hex c && isDig hex l && b.all (fun x => isDig hex x || x == '_')
  | _, _ => false

def blockVal (base : Nat) (b : List Char) : Nat :=
  b.foldl (fun acc c => if c == '_' then acc else acc * base + (hexVal c).getD 0) 0

def blockDigits (b : List Char) : Nat := (b.filter (· != '_')).length

def readNumeral (s : List Char) : Option Numeral :=
  let (neg, s) := match s with
    | '-' :: r => (true, r)
    | '+' :: r => (false, r)
    | _ => (false, s)
  let (hex, s) := match s with
    | '0' :: 'x' :: r => (true, r)
    | '0' :: 'X' :: r => (true, r)
    | _ => (false, s)
  let base := if hex then 16 else 10
  let inBlock := fun c => isDig hex c || c == '_'
  let ip := s.takeWhile inBlock
  let r := s.dropWhile inBlock
  let (hasDot, fp, r) := match r with
    | '.' :: r' => (true, r'.takeWhile inBlock, r'.dropWhile inBlock)
    | _ => (false, [], r)
  if ¬ ((ip.isEmpty || blockOK hex ip) && (fp.isEmpty || blockOK hex fp) && (!ip.isEmpty || !fp.isEmpty)) then none
  else if hasDot = false ∧ ip.isEmpty then none
  else
    let mant := blockVal base ip * base ^ blockDigits fp + blockVal base fp
    let frac := blockDigits fp
    match r with
    | [] => some { neg, hex, mant, frac, marker := 0, exp := 0 }
    | c :: r' =>
      let marker := if (c == 'e' || c == 'E') && !hex then 1 else if c == 'p' || c == 'P' then 2 else 0
      if marker = 0 then none else
      let (eneg, r'') := match r' with
        | '-' :: t => (true, t)
        | '+' :: t => (false, t)
        | _ => (false, r')
      if ¬ blockOK false r'' then none
      else
        let e : Int := blockVal 10 r''
        some { neg, hex, mant, frac, marker, exp := if eneg then -e else e }

/-- correctly rounded value of the numeral (magnitude) -/
def Numeral.round (n : Numeral) : F :=
  if n.hex then rne n.mant 1 (n.exp - 4 * (n.frac : Int))
  else if n.marker = 2 then rne n.mant (10 ^ n.frac) n.exp
  else rneDec n.mant (n.exp - (n.frac : Int))

/-- is the float `f` exactly the value `N·2^s / D` (`D > 0`)? -/
def exactly (f : F) (N D : Nat) (s : Int) : Bool :=
  match f with
  | .inf => false
  | .fin m q =>
    if m = 0 ∨ N = 0 then m = 0 ∧ N = 0
    else if (m.log2 : Int) + q ≠ flog2 N D + s then false
    else
      -- m·2^q·D = N·2^s, both sides scaled to naturals
      let d := q - s
      m * D * 2 ^ d.toNat == N * 2 ^ (-d).toNat

/-- is `f` exactly `w·10^e`? (guarding against astronomically large `|e|`) -/
def exactlyDec (f : F) (w : Nat) (e : Int) : Bool :=
  match f with
  | .inf => false
  | .fin m _ =>
    if m = 0 ∨ w = 0 then m = 0 ∧ w = 0
    else if e > 400 ∨ e < -5000 - (ndigits w : Int) then false
    else if 0 ≤ e then exactly f (w * 10 ^ e.toNat) 1 0 else exactly f w (10 ^ (-e).toNat) 0

def Numeral.exactly (n : Numeral) (f : F) : Bool :=
  if n.hex then DecimalEng.exactly f n.mant 1 (n.exp - 4 * (n.frac : Int))
  else if n.marker = 2 then DecimalEng.exactly f n.mant (10 ^ n.frac) n.exp
  else exactlyDec f n.mant (n.exp - (n.frac : Int))

/-- Does the parsed `Decimal` (mantissa `w`, integer-mantissa exponent `e`, base flag)
    denote exactly the numeral's value? -/
def Numeral.sameValue (n : Numeral) (base2 : Bool) (w : Nat) (e : Int) (len : Nat) : Bool :=
  if w = 0 ∨ n.mant = 0 then w = 0 ∧ n.mant = 0
  else if n.hex ∨ n.marker = 2 then
    if ¬ base2 then false else
    -- w·2^e = mant·2^x / D
    let x : Int := if n.hex then n.exp - 4 * (n.frac : Int) else n.exp
    let D : Nat := if n.hex then 1 else 10 ^ n.frac
    let d := e - x
    if d > 8 * (len : Int) + 128 ∨ d < -(8 * (len : Int) + 128) then false
    else w * D * 2 ^ d.toNat == n.mant * 2 ^ (-d).toNat
  else
    if base2 then false else
    let d := e - (n.exp - (n.frac : Int))
    if d > (len : Int) + 8 ∨ d < -((len : Int) + 8) then false
    else w * 10 ^ d.toNat == n.mant * 10 ^ (-d).toNat

def b01 (b : Bool) : String := if b then "1" else "0"

/-- the reference field: what `strconv.ParseFloat` must return for numerals it can read -/
def refField (s : List Char) : String :=
  match readNumeral s with
  | some n =>
    if ¬ n.hex ∧ n.marker = 2 then "-"
    else bitsStr (signBit n.neg n.round.toBits)
  | none => "-"

def tableBits (name : String) (i : Nat) : Option Nat :=
  let t := if name == "pow5s" then some pow5sBits
    else if name == "pow5s32" then some pow5s32Bits
    else if name == "pow5s32neg" then some pow5s32negBits
    else none
  match t with
  | some l => l[i]?
  | none => none

def model (line : String) : String :=
  match words line with
  | ["table", name, i] =>
    match i.toNat? with
    | some i =>
      if name == "pow5s" || name == "pow5s32" || name == "pow5s32neg" then
        match tableBits name i with
        | some b => bitsStr b
        | none => "none"
      else "bad-op"
    | none => "bad-op"
  | ["u64", w] =>
    match w.toNat? with
    | some w => if w < 2 ^ 64 then bitsStr (ieee.ofU64 w).toBits else "bad-op"
    | none => "bad-op"
  | ["mul", a, b] =>
    match floatArg a, floatArg b with
    | some x, some y =>
      if (x == .inf && isZero y) || (y == .inf && isZero x) then "bad-op"
      else bitsStr (ieee.mul x y).toBits
    | _, _ => "bad-op"
  | ["div", a, b] =>
    match floatArg a, floatArg b with
    | some x, some y =>
      if (x == .inf && y == .inf) || (isZero x && isZero y) then "bad-op"
      else bitsStr (ieee.div x y).toBits
    | _, _ => "bad-op"
  | ["ldexp", a, n] =>
    match floatArg a, n.toInt? with
    | some x, some n => bitsStr (ieee.ldexp x n).toBits
    | _, _ => "bad-op"
  | ["pow5", a, n] =>
    match floatArg a, n.toInt? with
    | some x, some n => if x == .inf then "bad-op" else bitsStr (pow5 ieee x n).toBits
    | _, _ => "bad-op"
  | ["log10", w] =>
    match hexNat w with
    | some w => if w = 0 then "bad-op" else toString (log10Go ieee w)
    | none => "bad-op"
  | ["conc64", _, _] => "ok"   -- long numerals converted by many goroutines at once: the answers of a lone caller
  | ["f64", num] =>
    let cs := num.toList
    match parse (cs.map Char.toNat).toArray with
    | .syntax => "err syntax"
    | .range => "err range"
    | .ok z =>
      let (v, exact) := float64 ieee z
      let digits : Int := if z.w = 0 then 0 else z.digits ieee
      s!"ok {b01 z.neg} {b01 z.base2} {hexOfNat z.w} {z.exp} {digits} {bitsStr (signBit z.neg v.toBits)} {b01 exact} {refField cs}"
  | _ => "bad-op"

/-- which defect class explains a wrong value, from the implementation's own report -/
def cause (n : Numeral) (sameVal base2 : Bool) (w : Nat) (e : Int) : String :=
  if ¬ sameVal then
    (if ¬ n.hex ∧ n.marker = 2 then "parse-dec-mantissa-bin-exponent" else "parse-value")
  else if base2 then (if w > 2 ^ 53 then "base2-mantissa-truncation" else "base2")
  else if w ≤ 2 ^ 53 ∧ e ≠ 0 then
    (if e < -324 then "pow5-flush-to-zero"
     else if e.natAbs ≤ 22 then "clinger-range"
     else "fastpath-multi-rounding")
  else "other"

def spec (line ans : String) : String :=
  match words line with
  | ["table", name, i] =>
    match i.toNat?, hexNat ans with
    | some i, some b =>
      let want :=
        if name == "pow5s" then (rne (5 ^ i) 1 0).toBits
        else if name == "pow5s32" then (rne (5 ^ (32 * i)) 1 0).toBits
        else (rne 1 (5 ^ (32 * i)) 0).toBits
      if b = want then "holds" else s!"fails table {name}[{i}] is {ans}, correctly rounded power of five is {bitsStr want}"
    | _, _ => if ans == "none" then "skip" else "fails bad-answer"
  | ["conc64", _, _] =>
    if ans == "ok" then "holds" else s!"fails conversion-depends-on-concurrent-callers {ans}"
  | ["f64", num] =>
    let cs := num.toList
    match readNumeral cs with
    | none => "skip"
    | some n =>
      match words ans with
      | ["err", "syntax"] =>
        -- m·10^-f·2^e with 5^f ∤ m has no finite binary expansion: a `Decimal` (one exponent
        -- base) cannot hold it, so rejecting such a numeral is not a conversion error
        if ¬ n.hex ∧ n.marker = 2 ∧ n.mant % 5 ^ n.frac ≠ 0 then "skip"
        else "fails parse-rejects-numeral syntax"
      | ["err", "range"] =>
        -- `Parse` reports ErrRange, the lexer then rejects the token: outside C39's precondition
        -- ("any numeral the lexer accepts").  This includes the spurious range errors caused by
        -- `bitsx.AddOverflow` (`0.01e5`, `0x0.01p0`) — observed, recorded in checks.d, not a C39 failure.
        "skip"
      | ["ok", neg, b2, w, zexp, digits, bits, exact, ref] =>
        match hexNat w, zexp.toInt?, digits.toInt?, hexNat bits with
        | some w, some zexp, some digits, some bits =>
          let want := signBit n.neg n.round.toBits
          let e := zexp - digits
          let same := n.sameValue (b2 == "1") w e cs.length
          let c := cause n same (b2 == "1") w e
          let f1 := if bits ≠ want then s!" value[{c}] got={bitsStr bits} want={bitsStr want}" else ""
          let f2 := if ref ≠ "-" ∧ ref ≠ bitsStr bits then s!" strconv[{c}] ref={ref}" else ""
          let f3 := if (neg == "1") ≠ n.neg then " sign" else ""
          let mag := ofBits (bits % 2 ^ 63)
          let f4 := if exact == "1" ∧ ¬ n.exactly mag then s!" exact-flag[{if bits = want then "value-ok" else c}]" else ""
          let f5 := if ¬ same ∧ f1 == "" then s!" parse-state[{c}]" else ""
          let all := f1 ++ f2 ++ f3 ++ f4 ++ f5
          if all == "" then "holds" else "fails" ++ all
        | _, _, _, _ => "fails bad-answer"
      | _ => "fails bad-answer"
  | _ => "skip"

end DecimalEng

def decimal : Engine := Engine.pure DecimalEng.model DecimalEng.spec

end PCV.Engines
