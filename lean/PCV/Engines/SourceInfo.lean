-- ENGINE: srcinfo => PCV.Engines.srcinfo
-- ENGINE: comments => PCV.Engines.comments
import PCV.Engine
import PCV.Util.Wire
import PCV.Model.Lex
import PCV.Model.SourceInfo
import PCV.Spec.SourceInfo
/-!
Line-protocol adapters of the `srcinfo` (C23) and `comments` (C03) engines; the op grammar is
described at the top of harness/engines/sourceinfo.go.

* model answers: `PCV.SourceInfo.generate` on the `FileInfo` the lexer model builds from the
  source bytes and on the AST / option-index facts carried by the op;
* property oracles: the predicates of `PCV.Spec.SourceInfo` evaluated on the implementation's
  own answers (`pathValid`, `spanOk`, `commentFromSource`, the mode relations; the protoc
  reference attribution and the calibration against protoc's own output for C03).
-/
namespace PCV.Engines.SourceInfoE
open PCV.Wire PCV.SourceInfo PCV.FileInfo

/-! ### parsing the AST encoding -/

abbrev P := StateT (List String) Option

def tok : P String := fun s => match s with
  | [] => none
  | t :: rest => some (t, rest)

def pnat : P Nat := do
  let t ← tok
  match t.toNat? with
  | some n => pure n
  | none => failure

def pint : P Int := do
  let t ← tok
  match t.toInt? with
  | some n => pure n
  | none => failure

def pbool : P Bool := do
  let n ← pnat
  if n == 0 then pure false else if n == 1 then pure true else failure

def pnd : P Nd := do
  let s ← pnat
  let e ← pnat
  pure ⟨s, e⟩

def poptnd : P (Option Nd) := do
  let b ← pbool
  if b then (some <$> pnd) else pure none

def prep {α} (p : P α) : Nat → P (List α)
  | 0 => pure []
  | n + 1 => do
    let x ← p
    let xs ← prep p n
    pure (x :: xs)

def plist {α} (p : P α) : P (List α) := do
  let n ← pnat
  prep p n

def ppath : P Path := plist pint

partial def poval : P OVal := do
  let k ← tok
  match k with
  | "s" => OVal.scalar <$> pnd
  | "a" => do
    let n ← pnd
    let es ← plist poval
    pure (.array n es)
  | "g" => do
    let n ← pnd
    let fs ← plist poval
    pure (.msg n fs)
  | "F" => do
    let n ← pnd
    let nm ← pnd
    let a ← pbool
    let v ← poval
    pure (.fld n nm a v)
  | _ => failure

partial def poinfo : P OInfo := do
  let p ← ppath
  let present ← pbool
  let ck ← pnat
  let kids ← plist poinfo
  pure (.mk p present ck kids)

def popt : P Opt := do
  let n ← pnd
  let parts ← plist (do let a ← pnd; let b ← pnd; pure (a, b))
  let v ← poval
  let vt ← pint
  let has ← pbool
  let info ← if has then (some <$> poinfo) else pure none
  pure { n := n, parts := parts, val := v, valTag := vt, info := info }

def poptco : P (Option COpts) := do
  let b ← pbool
  if b then do
    let n ← pnd
    let os ← plist popt
    pure (some ⟨n, os⟩)
  else pure none

def pfld : P Fld := do
  let n ← pnd
  let g ← pbool
  let ext ← poptnd
  let lab ← poptnd
  let ty ← pnd
  let sc ← pbool
  let nm ← pnd
  let tg ← pnd
  let co ← poptco
  pure { n := n, isGroup := g, extendee := ext, label := lab, ty := ty, scalar := sc, name := nm, tag := tg, opts := co }

def prng : P Rng := do
  let n ← pnd
  let s ← pnd
  let k ← pnat
  let e ← pnd
  pure ⟨n, s, k, e⟩

partial def pdecl : P Decl := do
  let k ← tok
  match k with
  | "I" => do
    let n ← pnd
    let p ← poptnd
    let w ← poptnd
    pure (.imp n p w)
  | "P" => Decl.pkg <$> pnd
  | "O" => Decl.opt <$> popt
  | "f" => Decl.field <$> pfld
  | "m" => Decl.mapField <$> pfld
  | "G" => do
    let f ← pfld
    let n ← pnd
    let b ← pnd
    let nm ← pnd
    let ds ← plist pdecl
    pure (.group f n b nm ds)
  | "M" => do
    let n ← pnd
    let b ← pnd
    let nm ← pnd
    let ds ← plist pdecl
    pure (.msg n b nm ds)
  | "N" => do
    let n ← pnd
    let b ← pnd
    let nm ← pnd
    let ds ← plist pdecl
    pure (.oneof n b nm ds)
  | "X" => do
    let n ← pnd
    let b ← pnd
    let ds ← plist pdecl
    pure (.extend n b ds)
  | "E" => do
    let n ← pnd
    let b ← pnd
    let nm ← pnd
    let ds ← plist pdecl
    pure (.enum n b nm ds)
  | "v" => do
    let n ← pnd
    let nm ← pnd
    let num ← pnd
    let co ← poptco
    pure (.enumVal n nm num co)
  | "R" => do
    let n ← pnd
    let rs ← plist prng
    let co ← poptco
    pure (.extRange n rs co)
  | "V" => do
    let n ← pnd
    let names ← plist pnd
    let ids ← plist pnd
    let rs ← plist prng
    pure (.reserved n names ids rs)
  | "S" => do
    let n ← pnd
    let b ← pnd
    let nm ← pnd
    let ds ← plist pdecl
    pure (.svc n b nm ds)
  | "r" => do
    let n ← pnd
    let b ← poptnd
    let nm ← pnd
    let is ← poptnd
    let it ← pnd
    let os ← poptnd
    let ot ← pnd
    let ds ← plist pdecl
    pure (.rpc n b nm is it os ot ds)
  | "Z" => pure .other
  | _ => failure

def pfile : P File := do
  let hk ← pbool
  let st ← pnat
  let le ← pnat
  let syn ← poptnd
  let ed ← poptnd
  let ds ← plist pdecl
  pure { hasKids := hk, start := st, lastEnd := le, syn := syn, edition := ed, decls := ds }

def parseAST (w : String) : Option File :=
  match pfile (w.splitOn ",") with
  | some (f, []) => some f
  | _ => none

/-! ### printing -/

def showInts (p : List Int) : String :=
  if p.isEmpty then "-" else ".".intercalate (p.map toString)

def showOptBytes : Option Bytes → String
  | none => "_"
  | some b => hexOfBytes b

def showLoc (l : Loc) : String :=
  let d := if l.detached.isEmpty then "_" else ";".intercalate (l.detached.map hexOfBytes)
  "p=" ++ showInts l.path ++ "/s=" ++ showInts l.span ++ "/l=" ++ showOptBytes l.lead ++
    "/t=" ++ showOptBytes l.trail ++ "/d=" ++ d

def showLocs (ls : List Loc) : String :=
  " ".intercalate (("n=" ++ toString ls.length) :: ls.map showLoc)

def lexSummary (fi : FI) : String :=
  let cm := if fi.comments.isEmpty then "-"
    else ",".intercalate (fi.comments.map fun c => toString c.index ++ ":" ++ toString c.attr)
  s!"items={fi.items.length} lines={fi.lines.length} cm={cm}"

/-- the lexer model's tables for a source, `none` if the lexer reports an error or panics -/
def lexFI (src : Bytes) : Option FI :=
  let st := PCV.Lex.lexAll false src
  if st.panicked || st.herr || st.eof.isNone then none else some st.fi

/-- `SourceInfoMode` bits as `task.link` reads them: 2 = extra comments, 4 = extra option locations;
    0 = no source info -/
def modeFlags (m : Nat) : Option (Bool × Bool) :=
  if 1 ≤ m && m ≤ 7 then some (m / 2 % 2 == 1, m / 4 % 2 == 1) else none

/-! ### the tables the `tags` / `schema` ops compare -/

def tagTable : List (String × Int) := [
  ("File_Package", Tag.File_Package), ("File_Dependency", Tag.File_Dependency),
  ("File_MessageType", Tag.File_MessageType), ("File_EnumType", Tag.File_EnumType),
  ("File_Service", Tag.File_Service), ("File_Extension", Tag.File_Extension),
  ("File_Options", Tag.File_Options), ("File_PublicDependency", Tag.File_PublicDependency),
  ("File_WeakDependency", Tag.File_WeakDependency), ("File_Syntax", Tag.File_Syntax),
  ("Message_Name", Tag.Message_Name), ("Message_Field", Tag.Message_Field),
  ("Message_NestedType", Tag.Message_NestedType), ("Message_EnumType", Tag.Message_EnumType),
  ("Message_ExtensionRange", Tag.Message_ExtensionRange), ("Message_Extension", Tag.Message_Extension),
  ("Message_Options", Tag.Message_Options), ("Message_OneofDecl", Tag.Message_OneofDecl),
  ("Message_ReservedRange", Tag.Message_ReservedRange), ("Message_ReservedName", Tag.Message_ReservedName),
  ("ExtensionRange_Start", Tag.ExtensionRange_Start), ("ExtensionRange_End", Tag.ExtensionRange_End),
  ("ExtensionRange_Options", Tag.ExtensionRange_Options), ("ReservedRange_Start", Tag.ReservedRange_Start),
  ("ReservedRange_End", Tag.ReservedRange_End), ("Field_Name", Tag.Field_Name),
  ("Field_Extendee", Tag.Field_Extendee), ("Field_Number", Tag.Field_Number), ("Field_Label", Tag.Field_Label),
  ("Field_Type", Tag.Field_Type), ("Field_TypeName", Tag.Field_TypeName),
  ("Field_DefaultValue", Tag.Field_DefaultValue), ("Field_Options", Tag.Field_Options),
  ("Field_JsonName", Tag.Field_JsonName), ("Oneof_Name", Tag.Oneof_Name), ("Oneof_Options", Tag.Oneof_Options),
  ("Enum_Name", Tag.Enum_Name), ("Enum_Value", Tag.Enum_Value), ("Enum_Options", Tag.Enum_Options),
  ("Enum_ReservedRange", Tag.Enum_ReservedRange), ("Enum_ReservedName", Tag.Enum_ReservedName),
  ("EnumValue_Name", Tag.EnumValue_Name), ("EnumValue_Number", Tag.EnumValue_Number),
  ("EnumValue_Options", Tag.EnumValue_Options), ("Service_Name", Tag.Service_Name),
  ("Service_Method", Tag.Service_Method), ("Service_Options", Tag.Service_Options),
  ("Method_Name", Tag.Method_Name), ("Method_InputType", Tag.Method_InputType),
  ("Method_OutputType", Tag.Method_OutputType), ("Method_Options", Tag.Method_Options),
  ("Method_ClientStreaming", Tag.Method_ClientStreaming), ("Method_ServerStreaming", Tag.Method_ServerStreaming),
  ("UninterpretedOption", Tag.UninterpretedOption), ("UninterpretedOption_Name", Tag.UninterpretedOption_Name),
  ("UninterpretedOption_NamePart_NamePart", Tag.UninterpretedOption_NamePart_NamePart),
  ("Any_TypeUrl", Tag.Any_TypeUrl), ("Any_Value", Tag.Any_Value),
  -- the value tags of the type switch in generateSourceCodeInfoForOption (facts of the op)
  ("IdentifierValue", 3), ("NegativeIntValue", 5), ("PositiveIntValue", 4), ("DoubleValue", 6),
  ("StringValue", 7), ("AggregateValue", 8)]

def showTags : String := " ".intercalate (tagTable.map fun (n, v) => n ++ "=" ++ toString v)

def showSchema : String :=
  ",".intercalate (PCV.Spec.SourceInfo.descSchemaSorted.map fun e =>
    s!"{e.ty}:{e.num}:{if e.rep then 1 else 0}:{match e.sub with | some t => toString t | none => "-"}")

/-! ### engine `srcinfo`: model -/

/-! `GenerateSourceInfo(ast, nil, …)`: the AST with an empty option index -/

def stripOpt (o : Opt) : Opt := { o with info := none }
def stripCO : Option COpts → Option COpts
  | none => none
  | some c => some { c with opts := c.opts.map stripOpt }
def stripFld (f : Fld) : Fld := { f with opts := stripCO f.opts }

mutual
def stripDecl : Decl → Decl
  | .opt o => .opt (stripOpt o)
  | .field f => .field (stripFld f)
  | .mapField f => .mapField (stripFld f)
  | .group f n b nm ds => .group (stripFld f) n b nm (stripDecls ds)
  | .msg n b nm ds => .msg n b nm (stripDecls ds)
  | .oneof n b nm ds => .oneof n b nm (stripDecls ds)
  | .extend n b ds => .extend n b (stripDecls ds)
  | .enum n b nm ds => .enum n b nm (stripDecls ds)
  | .enumVal n nm num co => .enumVal n nm num (stripCO co)
  | .extRange n rs co => .extRange n rs (stripCO co)
  | .svc n b nm ds => .svc n b nm (stripDecls ds)
  | .rpc n b nm is it os ot ds => .rpc n b nm is it os ot (stripDecls ds)
  | d => d
def stripDecls : List Decl → List Decl
  | [] => []
  | d :: ds => stripDecl d :: stripDecls ds
end

def stripInfo (f : File) : File := { f with decls := stripDecls f.decls }

structure MState where
  cur : Option (FI × File) := none

def srcinfoStep (st : MState) (line : String) : MState × String :=
  match words line with
  | ["tags"] => (st, showTags)
  | ["schema"] => (st, showSchema)
  | ["file", h, a] =>
    match bytesOfHex h, parseAST a with
    | some src, some f =>
      match lexFI src with
      | some fi => ({ cur := some (fi, f) }, "ok " ++ lexSummary fi)
      | none => ({ cur := none }, "err rejected")
    | _, _ => ({ cur := none }, "bad-op")
  | ["mode", m] =>
    match m.toNat?.bind modeFlags, st.cur with
    | some (ec, xo), some (fi, f) => (st, "ok " ++ showLocs (generate fi ec xo f))
    | _, _ => (st, "bad-op")
  | ["conc", _] =>
    -- the model has no notion of concurrency: several callers get what a lone caller gets
    (st, if st.cur.isSome then "ok" else "bad-op")
  | ["raw", m] =>
    match m.toNat?.bind modeFlags, st.cur with
    | some (ec, xo), some (fi, f) => (st, "ok " ++ showLocs (generate fi ec xo (stripInfo f)))
    | _, _ => (st, "bad-op")
  | _ => (st, "bad-op")


/-! ### engine `srcinfo`: property oracle (C23) on the implementation's answers -/

open PCV.Spec.SourceInfo in
def toSpecLoc (l : PCV.SourceInfo.Loc) : PCV.Spec.SourceInfo.Loc :=
  { path := l.path, span := l.span, lead := l.lead, trail := l.trail, detached := l.detached }

def parseInts (s : String) : Option (List Int) :=
  if s == "-" then some [] else (s.splitOn ".").mapM String.toInt?

def parseOptBytes (s : String) : Option (Option Bytes) :=
  if s == "_" then some none else (bytesOfHex s).map some

def stripPrefix? (pre s : String) : Option String :=
  if s.startsWith pre then some (s.drop pre.length).toString else none

def parseLoc (w : String) : Option PCV.Spec.SourceInfo.Loc :=
  match w.splitOn "/" with
  | [p, s, l, t, d] => do
    let p ← stripPrefix? "p=" p
    let s ← stripPrefix? "s=" s
    let l ← stripPrefix? "l=" l
    let t ← stripPrefix? "t=" t
    let d ← stripPrefix? "d=" d
    let path ← parseInts p
    let span ← parseInts s
    let lead ← parseOptBytes l
    let trail ← parseOptBytes t
    let det ← if d == "_" then some [] else (d.splitOn ";").mapM bytesOfHex
    pure { path := path, span := span, lead := lead, trail := trail, detached := det }
  | _ => none

/-- `ok n=<k> <loc>…` -/
def parseLocsAnswer (ws : List String) : Option (List PCV.Spec.SourceInfo.Loc) :=
  match ws with
  | "ok" :: n :: locs => do
    let k ← (← stripPrefix? "n=" n).toNat?
    let ls ← locs.mapM parseLoc
    if ls.length == k then pure ls else none
  | _ => none

open PCV.Spec.SourceInfo in
def parseSchemaEntry (w : String) : Option SEntry :=
  match w.splitOn ":" with
  | [ty, num, rep, sub] => do
    let ty ← ty.toNat?
    let num ← num.toInt?
    let rep ← if rep == "1" then some true else if rep == "0" then some false else none
    let sub ← if sub == "-" then some none else sub.toNat?.map some
    pure ⟨ty, num, rep, sub⟩
  | _ => none

/-- `M<ty>(<num>=<elem>*;…)` with `<elem>` = `s` or a nested message -/
partial def parseTree : List Char → Option (PCV.Spec.SourceInfo.DTree × List Char)
  | 'M' :: cs =>
    let cs := cs.dropWhile Char.isDigit
    match cs with
    | '(' :: cs => fields cs []
    | _ => none
  | _ => none
where
  fields : List Char → List (Int × List PCV.Spec.SourceInfo.DTree) → Option (PCV.Spec.SourceInfo.DTree × List Char)
    | ')' :: cs, acc => some (.mk acc.reverse, cs)
    | ';' :: cs, acc => fields cs acc
    | cs, acc =>
      let numCs := cs.takeWhile (fun c => c.isDigit)
      match (String.ofList numCs).toNat?, cs.drop numCs.length with
      | some num, '=' :: rest =>
        match elems rest [] with
        | some (es, rest) => fields rest ((Int.ofNat num, es) :: acc)
        | none => none
      | _, _ => none
  elems : List Char → List PCV.Spec.SourceInfo.DTree → Option (List PCV.Spec.SourceInfo.DTree × List Char)
    | 's' :: cs, acc => elems cs (.mk [] :: acc)
    | 'M' :: cs, acc =>
      match parseTree ('M' :: cs) with
      | some (t, rest) => elems rest (t :: acc)
      | none => none
    | cs, acc => some (acc.reverse, cs)

structure SState where
  ws : List Nat := []                                  -- line widths of the source
  gaps : List (List Bytes) := []                       -- stripped comments between tokens
  sch : List PCV.Spec.SourceInfo.SEntry := []
  tree : PCV.Spec.SourceInfo.DTree := .mk []
  anyTy : Option Nat := none                           -- type id of google.protobuf.Any (label only)
  ready : Bool := false
  modes : List (Nat × List PCV.Spec.SourceInfo.Loc) := []

/-- the comments standing between consecutive tokens, stripped as descriptor.proto documents -/
def commentGaps (fi : FI) : List (List Bytes) :=
  let step := fun (acc : List (List Bytes) × List Bytes) (i : Nat) =>
    if isComment fi i then
      let it := fi.items.getD i ⟨0, 0⟩
      let nl := fi.data.getD (it.off + it.len) 0 == 10 && it.off + it.len < fi.data.length
      (acc.1, acc.2 ++ [PCV.Spec.SourceInfo.stripComment (rawText fi i) nl])
    else (if acc.2.isEmpty then acc.1 else acc.1 ++ [acc.2], [])
  let r := (List.range fi.items.length).foldl step ([], [])
  if r.2.isEmpty then r.1 else r.1 ++ [r.2]

open PCV.Spec.SourceInfo in
/-- well-formedness of every location of one mode -/
def checkWf (st : SState) (m : Nat) (locs : List PCV.Spec.SourceInfo.Loc) : Option String :=
  locs.findSome? fun l =>
    if !pathValid st.sch (fun _ => false) 0 st.tree l.path then
      -- label: would the path be valid if the contents of a google.protobuf.Any were opaque?
      if pathValid st.sch (fun ty => some ty == st.anyTy) 0 st.tree l.path then
        some s!"path-invalid(into-packed-any) mode={m} p={showInts l.path}"
      else some s!"path-invalid mode={m} p={showInts l.path}"
    else if !spanOk st.ws l.span then
      some s!"span-bad mode={m} p={showInts l.path} s={showInts l.span}"
    else
      match ((l.lead.toList ++ l.trail.toList ++ l.detached).find? fun c => !commentFromSource st.gaps c) with
      | some c => some s!"comment-not-from-source mode={m} p={showInts l.path} c={hexOfBytes c}"
      | none => none

open PCV.Spec.SourceInfo in
/-- relation of the mode `m` answer to the answer for mode `b` of the same case -/
def checkRel (st : SState) (m : Nat) (locs : List PCV.Spec.SourceInfo.Loc) : Option String :=
  let ec := m / 2 % 2 == 1
  let xo := m / 4 % 2 == 1
  -- extra comments: compare with the mode without them (same option-location flag)
  let r1 : Option String :=
    if ec then
      match st.modes.lookup (if xo then 5 else 1) <|> st.modes.lookup (if xo then 4 else 1) with
      | some base =>
        if !samePathsSpans base locs then some s!"extra-comments-changed-locations mode={m}"
        else if !onlyAddsComments base locs then
          let bad := (base.zip locs).find? fun (a, b) => !keepsComments a b
          some s!"extra-comments-lost-comment mode={m} p={showInts ((bad.map (·.1.path)).getD [])}"
        else none
      | none => none
    else none
  let r2 : Option String :=
    if xo then
      match st.modes.lookup (if ec then 2 else 1) <|> st.modes.lookup (if ec then 3 else 1) with
      | some base =>
        match subseqAdded (fun a b => a == b) base locs with
        | none => some s!"extra-option-locs-not-superset mode={m}"
        | some added =>
          match added.find? fun a => !addedInsideOption st.sch base a with
          | some a => some s!"extra-option-locs-outside-option mode={m} p={showInts a.path}"
          | none => none
      | none => none
    else none
  r1 <|> r2

def srcinfoSpec (st : SState) (op ans : String) : SState × String :=
  match words op with
  | ["tags"] => (st, if ans == showTags then "holds" else "fails tags-table-differs")
  | ["schema"] => (st, if ans == showSchema then "holds" else "fails descriptor-schema-differs")
  | ["file", h, _] =>
    match ans.splitOn " ~ " with
    | [front, dump] =>
      if !front.startsWith "ok " then ({}, "skip") else
      match bytesOfHex h, dump.splitOn "|" with
      | some src, [schs, tr, anyS] =>
        match lexFI src, (if schs == "" then some [] else (schs.splitOn ",").mapM parseSchemaEntry), parseTree tr.toList with
        | some fi, some dyn, some (tree, []) =>
          ({ ws := PCV.Spec.SourceInfo.lineWidths fi.data, gaps := commentGaps fi,
             sch := PCV.Spec.SourceInfo.descSchema ++ dyn, tree := tree, anyTy := anyS.toNat?,
             ready := true }, "skip")
        | _, _, _ => ({}, "fails bad-answer file")
      | _, _ => ({}, "fails bad-answer file")
    | _ => ({}, "skip")
  | ["mode", m] =>
    match m.toNat? with
    | some m =>
      if !st.ready then (st, "skip") else
      if ans.startsWith "err" then (st, s!"fails compile-error-in-mode mode={m} {ans}") else
      match parseLocsAnswer (words ans) with
      | none => (st, "fails bad-answer mode")
      | some locs =>
        let st' := { st with modes := (m, locs) :: st.modes }
        match checkWf st m locs <|> checkRel st m locs with
        | some why => (st', "fails " ++ why)
        | none => (st', "holds")
    | none => (st, "skip")
  | ["conc", _] =>
    -- results computed concurrently from one shared AST must be the lone caller's; a differing result
    -- is examined with the same predicates
    if !st.ready then (st, "skip") else
    if ans == "ok" then (st, "holds") else
    match words ans with
    | "differs" :: m :: via :: rest =>
      match parseLocsAnswer ("ok" :: rest) with
      | some locs =>
        match checkWf st ((((m.drop 2).toString).toNat?).getD 0) locs with
        | some why => (st, s!"fails concurrent-{(via.drop 4).toString} " ++ why)
        | none => (st, s!"fails concurrent-result-differs {m} {via}")
      | none => (st, s!"fails concurrent-result-differs {m} {via} {" ".intercalate (rest.take 2)}")
    | _ => (st, "fails concurrent-result-differs " ++ (ans.take 80).toString)
  | ["raw", m] =>
    -- sourceinfo.GenerateSourceInfo(ast, nil, …): options stay uninterpreted; spans, comments and the
    -- relation between the flag combinations are checked (paths would need the unlinked descriptor)
    match m.toNat? with
    | some m =>
      if !st.ready then (st, "skip") else
      match parseLocsAnswer (words ans) with
      | none => (st, "fails bad-answer raw")
      | some locs =>
        let st' := { st with modes := (100 + m, locs) :: st.modes }
        let wf := locs.findSome? fun l =>
          if !PCV.Spec.SourceInfo.spanOk st.ws l.span then some s!"span-bad raw={m} p={showInts l.path}"
          else match ((l.lead.toList ++ l.trail.toList ++ l.detached).find? fun c => !PCV.Spec.SourceInfo.commentFromSource st.gaps c) with
            | some _ => some s!"comment-not-from-source raw={m} p={showInts l.path}"
            | none => none
        let rel : Option String :=
          match st.modes.lookup 101 with
          | some base =>
            if m == 4 && locs != base then some "extra-option-locs-changed-uninterpreted raw=4"
            else if (m == 2 || m == 6) && !PCV.Spec.SourceInfo.samePathsSpans base locs then
              some s!"extra-comments-changed-locations raw={m}"
            else none
          | none => none
        match wf <|> rel with
        | some why => (st', "fails " ++ why)
        | none => (st', "holds")
    | none => (st, "skip")
  | _ => (st, "skip")


/-! ### engine `comments` (C03) -/

def showItems (xs : List Nat) : String :=
  if xs.isEmpty then "-" else ".".intercalate (xs.map toString)

/-- tokens (non-comment items) in order -/
def tokensOf (fi : FI) : List Nat := (List.range fi.items.length).filter (fun i => !isComment fi i)

/-- (prev token, token) pairs in order, the first token having no previous one -/
def tokenPairs (fi : FI) : List (Option Nat × Nat) :=
  let ts := tokensOf fi
  (none :: ts.map some).zip ts

def pairEntry (fi : FI) (ec : Bool) (prev : Option Nat) (t : Nat) : Option String :=
  let a := attributeTok fi ec prev t
  if a.1.isEmpty && a.2.1.isEmpty && a.2.2.isEmpty then none else
  let ids := fun (g : List Cm) => showItems (g.map (·.item))
  let d := if a.2.1.isEmpty then "-" else ";".intercalate (a.2.1.map ids)
  let dt := if a.2.1.isEmpty then "_" else ";".intercalate (a.2.1.map fun g => hexOfBytes (combine fi g))
  let tt := if a.1.isEmpty then "_" else hexOfBytes (combine fi a.1)
  let lt := if a.2.2.isEmpty then "_" else hexOfBytes (combine fi a.2.2)
  some s!"{t}/t={ids a.1}/d={d}/l={ids a.2.2}/T={tt}/D={dt}/L={lt}"

def pairsAnswer (fi : FI) (ec : Bool) : String :=
  let es := (tokenPairs fi).filterMap fun (p, t) => pairEntry fi ec p t
  let body := " ".intercalate (("n=" ++ toString es.length) :: es)
  "ok " ++ lexSummary fi ++ " " ++ body

def commentsStep (line : String) : String :=
  match words line with
  | ["pairs", ec, h, _] =>
    match bytesOfHex h with
    | some src =>
      match lexFI src with
      | some fi => pairsAnswer fi (ec == "1")
      | none => "err rejected"
    | none => "bad-op"
  | ["span", a, b, c, d] =>
    match a.toNat?, b.toNat?, c.toNat?, d.toNat? with
    | some l1, some c1, some l2, some c2 => showInts (makeSpan (l1, c1) (l2, c2))
    | _, _, _, _ => "bad-op"
  | ["calib", _, h, a] =>
    match bytesOfHex h, parseAST a with
    | some src, some f =>
      match lexFI src with
      | some fi => "ok " ++ showLocs (generate fi false false f)
      | none => "err rejected"
    | _, _ => "bad-op"
  | ["calib-summary"] => "ok"
  | _ => "bad-op"

/-! #### oracle -/

open PCV.Spec.SourceInfo in
def toSC (fi : FI) (i : Nat) : SC :=
  let c := mkCm fi ⟨i, 0⟩
  { id := i, isLine := c.isLine, sl := c.sl, el := c.el }

open PCV.Spec.SourceInfo in
def nextTokOf (fi : FI) (t : Nat) : NextTok :=
  match rawText fi t with
  | [] => .eof
  | [b] => if b == 125 || b == 93 || b == 41 then .closer else .other
  | _ => .other

/-- does the previous token end a declaration (`;`, `{`, `}`)? protoc attributes comments only there -/
def endsDecl (fi : FI) (p : Nat) : Bool :=
  match rawText fi p with
  | [b] => b == 59 || b == 123 || b == 125
  | _ => false

/-- the comment items strictly between two items -/
def commentsBetween (fi : FI) (prev : Option Nat) (t : Nat) : List Nat :=
  let lo := match prev with | some p => p + 1 | none => 0
  (List.range t).filter (fun i => lo ≤ i && isComment fi i)

open PCV.Spec.SourceInfo in
/-- protoc's attribution of the gap before token `t` -/
def refFor (fi : FI) (prev : Option Nat) (t : Nat) : RefResult :=
  protocRef (prev.map fun p => (tokEnd fi p).1) ((commentsBetween fi prev t).map (toSC fi))
    (tokStart fi t).1 (nextTokOf fi t)

structure PairAns where
  tok : Nat
  t : List Nat
  d : List (List Nat)
  l : List Nat
  tT : Option Bytes
  dT : List Bytes
  lT : Option Bytes

def parseItems (s : String) : Option (List Nat) :=
  if s == "-" then some [] else (s.splitOn ".").mapM String.toNat?

def parsePairAns (w : String) : Option PairAns :=
  match w.splitOn "/" with
  | [tok, t, d, l, tT, dT, lT] => do
    let tok ← tok.toNat?
    let t ← parseItems (← stripPrefix? "t=" t)
    let d ← (let ds := (← stripPrefix? "d=" d); if ds == "-" then some [] else (ds.splitOn ";").mapM parseItems)
    let l ← parseItems (← stripPrefix? "l=" l)
    let tT ← parseOptBytes (← stripPrefix? "T=" tT)
    let dT ← (let ds := (← stripPrefix? "D=" dT); if ds == "_" then some [] else (ds.splitOn ";").mapM bytesOfHex)
    let lT ← parseOptBytes (← stripPrefix? "L=" lT)
    pure ⟨tok, t, d, l, tT, dT, lT⟩
  | _ => none

/-- stripped text of a run of comment items, by the specification -/
def specText (fi : FI) (items : List Nat) : Bytes :=
  items.flatMap fun i =>
    let it := fi.items.getD i ⟨0, 0⟩
    let nl := it.off + it.len < fi.data.length && fi.data.getD (it.off + it.len) 0 == 10
    PCV.Spec.SourceInfo.stripComment (rawText fi i) nl

open PCV.Spec.SourceInfo in
/-- the tokens whose trailing comments a location reports (last token of a declaration with
    comments, `{` of a block) and the tokens whose leading / detached comments a location reports
    (first token of such a declaration) -/
def trailAnchors (f : File) : List Nat :=
  (genFile false f).flatMap fun r =>
    match r.kind with
    | .cmts => [r.n.e]
    | .block b => [b.e]
    | _ => []

def leadAnchors (f : File) : List Nat :=
  (genFile false f).flatMap fun r =>
    match r.kind with
    | .cmts => [r.n.s]
    | .block _ => [r.n.s]
    | _ => []

open PCV.Spec.SourceInfo in
def checkPair (fi : FI) (f : File) (ec : Bool) (prev : Option Nat) (t : Nat) (a : PairAns) : Option String :=
  let between := commentsBetween fi prev t
  -- every comment of the gap is attributed exactly once, in order
  if a.t ++ a.d.flatten ++ a.l != between then
    some s!"partition tok={t} between={showItems between}"
  else if a.d.any (·.isEmpty) then some s!"partition empty-group tok={t}"
  -- the texts are the comments' contents as descriptor.proto documents them
  else if a.tT != (if a.t.isEmpty then none else some (specText fi a.t)) ||
          a.lT != (if a.l.isEmpty then none else some (specText fi a.l)) ||
          a.dT != a.d.map (specText fi) then
    some s!"comment-text tok={t}"
  else
    -- the abstract form of the lexer's rule + attributeComments (consulted only after protoc's verdict)
    let streamDiffers :=
      let r := attributeStream ec (prev.map fun p => (tokEnd fi p).1)
                (between.map fun i => mkCm fi ⟨i, 0⟩) (tokStart fi t).1 (tokKind fi t)
      r.1.map (·.item) != a.t || r.2.1.map (·.map (·.item)) != a.d || r.2.2.map (·.item) != a.l
    let streamVerdict := if streamDiffers then some s!"stream-form-differs tok={t}" else none
    if ec then streamVerdict else
    -- protoc attributes comments at declaration boundaries only: compare what a location reports
    let cmpTrail := match prev with | some p => (trailAnchors f).contains p | none => false
    let cmpLead := (leadAnchors f).contains t &&
      (match prev with | none => true | some p => endsDecl fi p)
    if !cmpTrail && !cmpLead then streamVerdict else
    let r := refFor fi prev t
    let same := (!cmpTrail || r.trailing.map (·.id) == a.t) &&
      (!cmpLead || (r.detached.map (·.map (·.id)) == a.d && r.leading.map (·.id) == a.l))
    if same then streamVerdict
    else if r.clauses.all (fun c => anchoredClauses.contains c) then
      let sh := fun (t : List Nat) (d : List (List Nat)) (l : List Nat) =>
        s!"t={showItems t},d={";".intercalate (d.map showItems)},l={showItems l}"
      some s!"attribution-differs-from-protoc tok={t} go[{sh a.t a.d a.l}] protoc[{sh (r.trailing.map (·.id)) (r.detached.map (·.map (·.id))) (r.leading.map (·.id))}] cmp={if cmpTrail then "T" else ""}{if cmpLead then "L" else ""} clauses={",".intercalate r.clauses}"
    else streamVerdict

def checkPairs (fi : FI) (f : File) (ec : Bool) (answers : List PairAns) : Option String :=
  (tokenPairs fi).findSome? fun (p, t) =>
    match answers.find? (·.tok == t) with
    | some a => checkPair fi f ec p t a
    | none => if (commentsBetween fi p t).isEmpty then none else some s!"partition tok={t} comments-not-attributed"

/-- the reference's expectation for a request with comments (standard mode) -/
def refLocComments (fi : FI) (r : Req) : Option (Option Bytes × Option Bytes × List Bytes × List String) :=
  let go := fun (n : Nd) (trailNd : Nd) =>
    let lead := refFor fi (prevToken fi n.s) n.s
    let trail : PCV.Spec.SourceInfo.RefResult := match nextToken fi trailNd.e with
      | some nx => refFor fi (some trailNd.e) nx
      | none => { trailing := [], detached := [], leading := [], clauses := [] }
    let txt := fun (g : List PCV.Spec.SourceInfo.SC) => specText fi (g.map (·.id))
    some (if lead.leading.isEmpty then none else some (txt lead.leading),
          if trail.trailing.isEmpty then none else some (txt trail.trailing),
          lead.detached.map txt, lead.clauses ++ trail.clauses)
  match r.kind with
  | .cmts => go r.n r.n
  | .block b => go r.n b
  | _ => none

structure CState where
  clauses : List String := []      -- clauses exercised by the calibration files so far
  files : Nat := 0

def commentsSpec (st : CState) (op ans : String) : CState × String :=
  match words op with
  | ["pairs", ec, h, a] =>
    if !ans.startsWith "ok " then (st, "skip") else
    match bytesOfHex h, parseAST a with
    | some src, some f =>
      match lexFI src with
      | some fi =>
        -- ok items= lines= cm= n=<k> entries…
        match (words ans).drop 4 with
        | n :: entries =>
          match (stripPrefix? "n=" n).bind String.toNat?, entries.mapM parsePairAns with
          | some k, some as =>
            if as.length != k then (st, "fails bad-answer pairs") else
            match checkPairs fi f (ec == "1") as with
            | some why => (st, "fails " ++ why)
            | none => (st, "holds")
          | _, _ => (st, "fails bad-answer pairs")
        | [] => (st, "fails bad-answer pairs")
      | none => (st, "skip")
    | _, _ => (st, "skip")
  | ["span", a, b, c, d] =>
    match a.toNat?, b.toNat?, c.toNat?, d.toNat?, parseInts ans with
    | some l1, some c1, some l2, some c2, some sp =>
      -- three elements iff one line; zero-based
      let want : List Int := if l1 == l2 then [(l1 : Int) - 1, (c1 : Int) - 1, (c2 : Int) - 1]
        else [(l1 : Int) - 1, (c1 : Int) - 1, (l2 : Int) - 1, (c2 : Int) - 1]
      (st, if sp == want then "holds" else s!"fails span-encoding got={showInts sp} want={showInts want}")
    | _, _, _, _, _ => (st, "skip")
  | ["calib", name, h, a] =>
    match ans.splitOn " ~ " with
    | [front, protoc] =>
      match bytesOfHex h, parseAST a, parseLocsAnswer (words front), parseLocsAnswer ("ok" :: words protoc) with
      | some src, some f, some goLocs, some pcLocs =>
        match lexFI src with
        | some fi =>
          if goLocs != pcLocs then
            let i := ((goLocs.zip pcLocs).findIdx? fun (x, y) => x != y).getD (min goLocs.length pcLocs.length)
            (st, s!"fails differs-from-protoc file={name} index={i} n={goLocs.length}/{pcLocs.length}")
          else
            -- calibrate the reference semantics against protoc's own output
            let reqs := genFile false f
            if reqs.length != pcLocs.length then (st, s!"fails calibration-shape file={name}") else
            let bad := (reqs.zip pcLocs).findSome? fun (r, pl) =>
              match refLocComments fi r with
              | some (l, t, d, cl) =>
                if l == pl.lead && t == pl.trail && d == pl.detached then none
                else some s!"p={showInts pl.path} clauses={",".intercalate cl}"
              | none =>
                if pl.lead.isNone && pl.trail.isNone && pl.detached.isEmpty then none
                else some s!"p={showInts pl.path} protoc-has-comments-where-none-expected"
            match bad with
            | some why => (st, s!"fails calibration-reference-differs file={name} {why}")
            | none =>
              let cls := (reqs.filterMap (refLocComments fi)).flatMap (·.2.2.2)
              let st' := { clauses := (st.clauses ++ cls).eraseDups, files := st.files + 1 }
              (st', "holds")
        | none => (st, "fails calibration-lex")
      | _, _, _, _ => (st, "fails bad-answer calib")
    | _ => (st, if ans.startsWith "err" then "fails calibration " ++ ans else "fails bad-answer calib")
  | ["calib-summary"] =>
    -- the calibration must exercise exactly the clauses the oracle treats as anchored by protoc's output
    let want := PCV.Spec.SourceInfo.calibratedClauses
    let missing := want.filter (fun c => !st.clauses.contains c)
    let extra := st.clauses.filter (fun c => !want.contains c)
    if st.files != 3 then (st, s!"fails calibration-files {st.files}")
    else if !missing.isEmpty then (st, s!"fails calibration-missing-clauses {",".intercalate missing}")
    else if !extra.isEmpty then (st, s!"fails calibration-new-clauses {",".intercalate extra}")
    else (st, "holds")
  | _ => (st, "skip")

end PCV.Engines.SourceInfoE

namespace PCV.Engines

def srcinfo : Engine :=
  { σ := SourceInfoE.MState, init := {}, step := SourceInfoE.srcinfoStep,
    τ := SourceInfoE.SState, specInit := {}, spec := SourceInfoE.srcinfoSpec }

def comments : Engine :=
  { σ := Unit, init := (), step := fun _ l => ((), SourceInfoE.commentsStep l),
    τ := SourceInfoE.CState, specInit := {}, spec := SourceInfoE.commentsSpec }

end PCV.Engines
