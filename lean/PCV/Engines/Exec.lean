-- ENGINE: exec => PCV.Engines.exec
import PCV.Engine
import PCV.Util.Wire
import PCV.Model.Exec
namespace PCV.Engines
open PCV.Wire PCV.Exec

structure ExecCase where
  w : World
  req : List File
  cancel : Bool
  abort : Option Int   -- none: default reporter; some k: abort at k-th error (k<0: never)
  /-- files that define the shared symbol of a dup group (unrelated files of one package) -/
  dups : List (File × String) := []

def parseFault : String → Option Fault
  | "resolveerr" => some .resolveErr | "resolvepanic" => some .resolvePanic
  | "readerr" => some .readErr | "syntaxerr" => some .syntaxErr
  | "linkerr" => some .linkErr | "closepanic" => some .closePanic
  | _ => none

def kv (ws : List String) (k : String) : Option String :=
  (ws.find? (fun w => w.startsWith (k ++ "="))).map (fun w => (w.drop (k.length + 1)).toString)

def parseExec (line : String) : Option ExecCase :=
  match words line with
  | "compile" :: ws => do
    let par ← (kv ws "par") >>= String.toNat?
    let req ← kv ws "req"
    let g ← kv ws "graph"
    let files := (g.splitOn ";").filter (· ≠ "") |>.map (fun ent =>
      match ent.splitOn ":" with
      | [f, ds] => (f, (ds.splitOn ",").filter (· ≠ ""))
      | _ => (ent, []))
    let fs := (kv ws "faults").getD "-"
    let faults := if fs == "-" then [] else (fs.splitOn ";").filterMap (fun ent =>
      match ent.splitOn "=" with
      | [f, k] => (parseFault k).map (fun x => (f, x))
      | _ => none)
    let dups := if fs == "-" then [] else (fs.splitOn ";").filterMap (fun ent =>
      match ent.splitOn "=" with
      | [f, k] => if k.startsWith "dup" then some (f, k) else none
      | _ => none)
    let cancel := (kv ws "cancel").isSome
    let abort := (kv ws "abort") >>= String.toInt?
    pure { w := { files := files, faults := faults, par := par, req := req.splitOn ",", cancelable := cancel },
           req := req.splitOn ",", cancel := cancel, abort := abort, dups := dups }
  | _ => none

/-- denotation: `f` compiles successfully iff nothing it reaches is bad or cyclic (fuel DFS) -/
def okAux (w : World) : Nat → File → Bool
  | 0, _ => false
  | fuel+1, f => !w.bad f && (w.imports f).all (fun d => okAux w fuel d)

def denoteOk (w : World) (f : File) : Bool :=
  !w.reachesCycle f && okAux w (w.files.length + 1) f

def reachAux (w : World) : Nat → File → List File
  | 0, f => [f]
  | fuel+1, f => f :: (w.imports f).flatMap (reachAux w fuel)

def reachable (w : World) (f : File) : List File := (reachAux w (w.files.length + 1) f).eraseDups

def hasBits (c : ExecCase) : String :=
  String.join (c.req.map (fun f => if denoteOk c.w f then "1" else "0"))

/-- two distinct reachable files define the same symbol -/
def dupCollision (c : ExecCase) : Bool :=
  let reach := (c.req.flatMap (reachable c.w)).eraseDups
  c.dups.any (fun (f, k) => reach.contains f && c.dups.any (fun (g, k') => g != f && k' == k && reach.contains g))

/-- `dpcompile par=<n> req=<x|dp,x>`: the resolver supplies a CUSTOM google/protobuf/descriptor.proto
    that imports x.proto; every other file then depends on descriptor.proto implicitly
    (compiler.go asFile, `wantsDescriptorProto`). That implicit edge is outside the LTS (the model
    answers `nondet`); the oracle only demands what C06 says: the call returns, and since x.proto does
    not import anything, no import cycle may be reported. -/
def isDpCompile (line : String) : Bool := (words line).head? == some "dpcompile"

/-- A custom descriptor.proto that imports nothing, k leaf files and a file importing them: an
    acyclic graph of good files, so by `outcome_deterministic` the call succeeds at every
    parallelism, request order and schedule. -/
def isDpPlain (line : String) : Bool := (words line).head? == some "dpplain"

/-- A custom descriptor.proto with a syntax error, compiled only as an implicit dependency of
    valid requested files: its errors are handed to the configured reporter, so the reporter
    contract decides the outcome — `ErrInvalidSource` for a reporter that accepts everything, the
    reporter's own error for one that aborts. -/
def isDpBroken (line : String) : Bool := (words line).head? == some "dpbroken"

def dpBrokenModel (line : String) : String :=
  if (words line).contains "rep=abort" then "res=reporter-error reported=some"
  else "res=invalid-source reported=some"

def execModel (line : String) : String :=
  if isDpCompile line then "nondet" else
  if isDpPlain line then "ok" else
  if isDpBroken line then dpBrokenModel line else
  match parseExec line with
  | none => "bad-op"
  | some c =>
    if c.cancel then "nondet"
    else if !c.dups.isEmpty then
      (if dupCollision c || !(c.req.all (denoteOk c.w)) then "err" else "ok")
    else
      let ok := c.req.all (denoteOk c.w)
      s!"{if ok then "ok" else "err"} has={hasBits c}"

def parseEv (s : String) : Option Ev :=
  match s.splitOn "(" with
  | [site, rest] =>
    let args := ((rest.dropEnd 1).toString.splitOn ",")
    match site, args with
    | "spawn", [f] => some (.spawn f)
    | "acquire", [f] => some (.acquire f)
    | "acqfail", [f] => some (.acqfail f)
    | "resolved", [f, "ok"] => some (.resolved f true)
    | "resolved", [f, "err"] => some (.resolved f false)
    | "blocked", f :: ds => some (.blocked f ds)
    | "selfimport", [f] => some (.selfimport f)
    | "dep", [f, d] => some (.dep f d)
    | "cycle", [f, d] => some (.cycle f d)
    | "release", [f] => some (.release f)
    | "waited", [f, d] => some (.waited f d)
    | "unblocked", [f] => some (.unblocked f)
    | "reacquire", [f] => some (.reacquire f)
    | "reacqfail", [f] => some (.reacqfail f)
    | "complete", [f] => some (.complete f)
    | "fail", [f] => some (.fail f)
    | "recovered", [f] => some (.recovered f)
    | _, _ => none
  | _ => none

def field (ans k : String) : Option String :=
  (ans.splitOn " ").findSome? (fun w => if w.startsWith (k ++ "=") then some (w.drop (k.length + 1)).toString else none)

def dpSpec (ans : String) : String :=
  if ans.startsWith "nondet ~ hang" then "fails implicit-descriptor-dependency hang (Compile returned only when the watchdog cancelled the context)"
  else if ans.startsWith "nondet ~ cycle" then "fails implicit-descriptor-dependency false-cycle (an import cycle is reported although no file imports descriptor.proto)"
  else if ans.startsWith "nondet ~ ok" then "holds"
  else s!"fails implicit-descriptor-dependency unexpected {ans}"

def execSpec (line ans : String) : String :=
  if isDpCompile line then dpSpec ans else
  if isDpBroken line then
    (if ans == dpBrokenModel line then "holds"
     else s!"fails reporter-contract errors of an implicitly compiled descriptor.proto reached the reporter but Compile answered {ans}") else
  if isDpPlain line then
    (if ans == "ok" then "holds"
     else if ans.startsWith "hang" then s!"fails outcome-depends-on-schedule hang with a custom descriptor.proto ({ans})"
     else s!"fails outcome-depends-on-schedule {ans}") else
  match parseExec line with
  | none => "skip"
  | some c =>
    if ans.startsWith "hang" then "fails hang (compile call did not return)"
    else if ans.startsWith "crash" then s!"fails process-crash {ans}"
    else if ans.startsWith "bad-op" then "fails bad-op"
    else
    let status := (field ans "status").getD "?"
    let has := (field ans "has").getD "?"
    let cls := (field ans "class").getD "?"
    let leak := (field ans "leak").getD "?"
    let maxrep := ((field ans "maxrep") >>= String.toNat?).getD 99
    let reported := ((field ans "reported") >>= String.toNat?).getD 0
    let traceStr := (ans.splitOn " trace=").getD 1 ""
    let evs := (traceStr.splitOn ";").filter (· ≠ "") |>.map parseEv
    if leak != "0" then "fails goroutine-leak" else
    if !c.dups.isEmpty then
      -- collision between unrelated files: the outcome must not depend on parallelism / order / schedule
      (let want := dupCollision c || !(c.req.all (denoteOk c.w))
       if (status == "err") == want then "holds"
       else s!"fails outcome status={status} although two unrelated files define the same symbol (collision must be reported at every parallelism and schedule)") else
    if maxrep > 1 then "fails reporter-invoked-concurrently" else
    if evs.any Option.isNone then "fails unparsable-trace-event" else
    let evs := evs.filterMap id
    -- trace conformance: every logged event is an enabled transition of the model
    match firstBad c.w (init c.w) evs 0 with
    | some (k, e) => s!"fails trace-not-a-run-of-the-model at event {k}: {repr e}"
    | none =>
    match run c.w (init c.w) evs with
    | none => "fails trace-not-a-run-of-the-model"
    | some st =>
    -- all goroutines are gone: every task finished, no permit held, all permits back
    if !(st.tasks.all (fun (_, t) => (match t.pc with | .finished _ => true | _ => false) && !t.holds)) then
      "fails task-not-finished-or-permit-held-after-return"
    else if st.sem != c.w.par then "fails semaphore-permits-not-restored" else
    if c.cancel then (if status == "ok" || status == "err" then "holds" else "fails bad-status") else
    let wantOk := c.req.all (denoteOk c.w)
    if (status == "ok") != wantOk then s!"fails outcome status={status} but denotation says ok={wantOk}" else
    if has != hasBits c then s!"fails result-presence has={has} want={hasBits c}" else
    if status == "ok" then "holds" else
    -- error classes
    let reachAll := c.req.flatMap (reachable c.w)
    let anyCycle := c.req.any c.w.reachesCycle
    let anyBad := reachAll.any c.w.bad
    let onlyPanic := reachAll.all (fun g => !c.w.bad g || c.w.fault g == some .resolvePanic || c.w.fault g == some .closePanic)
    if cls == "cycle" && !anyCycle then "fails cycle-error-on-acyclic-imports" else
    if anyCycle && !anyBad && !(cls == "cycle" || cls == "abort" || cls == "invalid-source") then
      s!"fails cycle-not-reported class={cls}" else
    if anyBad && !anyCycle && onlyPanic && !cls.startsWith "panic:injected" then
      s!"fails panic-not-surfaced-with-value class={cls}" else
    -- Reports may still arrive after Compile has returned (tasks of files that are no longer awaited
    -- keep running until they notice the cancellation), so `reported` can exceed what the returned
    -- error reflects. Sound clauses only: the reporter is never called again after it aborted; an
    -- abort error is returned only if the reporter really aborted; the invalid-source sentinel is
    -- returned only if something was reported and the reporter had not aborted at that time.
    (match c.abort with
     | some k =>
       if k ≥ 0 && reported > k.toNat + 1 then s!"fails reporter-called-after-abort reported={reported}"
       else if cls == "abort" && !(k ≥ 0 && reported == k.toNat + 1) then s!"fails abort-error-without-abort reported={reported}"
       else if cls == "invalid-source" && reported == 0 then "fails invalid-source-without-report"
       else "holds"
     | none => "holds")

def exec : Engine := Engine.pure execModel execSpec

end PCV.Engines
