-- ENGINE: reportproto => PCV.Engines.reportprotoEngine
-- ENGINE: canonicalize => PCV.Engines.canonicalizeEngine
/-
Line-protocol adapters for `experimental/report/report.go` (see harness/engines/report.go for
the token grammar).

* `reportproto`  (C37): `rt`/`rtw` = ToProto then AppendFromProto (directly / through the
  wire), `enc` = ToProto alone, `dec` = AppendFromProto alone on an arbitrary message.
  Oracle (on `rt`/`rtw`): for a well-formed report (`PCV.Report.WF`) the implementation's
  answer must be "no error, and the same diagnostics" (`sortOrder` and file identity are
  not part of the comparison).
* `canonicalize` (C36): answer = Canonicalize(list) ; Canonicalize(permuted list) ;
  Canonicalize(Canonicalize(list)).  Oracle: the three parts are equal.
-/
import PCV.Engine
import PCV.Util.Wire
import PCV.Model.Report
import PCV.Spec.Report
namespace PCV.Engines
open PCV.Wire PCV.Report

namespace ReportWire

def int? (s : String) : Option Int :=
  match s.toInt? with
  | some v => if -9223372036854775808 ≤ v ∧ v ≤ 9223372036854775807 then some v else none
  | none => none

def nat32? (s : String) : Option Nat :=
  match s.toNat? with
  | some v => if v < 4294967296 then some v else none
  | none => none

def bit? (s : String) : Option Bool :=
  if s == "0" then some false else if s == "1" then some true else none

def modifyLast {α} (f : α → α) : List α → Option (List α)
  | [] => none
  | [x] => some [f x]
  | x :: y :: xs => (modifyLast f (y :: xs)).map (x :: ·)

def modifyLastM {α} (f : α → Option α) : List α → Option (List α)
  | [] => none
  | [x] => (f x).map ([·])
  | x :: y :: xs => (modifyLastM f (y :: xs)).map (x :: ·)

def parseReport : List String → List Diagnostic → Option (List Diagnostic)
  | [], acc => some acc
  | "D" :: lv :: so :: tag :: msg :: inf :: rest, acc => do
    let lv ← int? lv
    if lv < -128 ∨ lv > 127 then none
    let so ← int? so
    let tag ← bytesOfHex tag
    let msg ← bytesOfHex msg
    let inf ← bytesOfHex inf
    parseReport rest (acc ++ [{ tag, msg, level := lv, sortOrder := so, inFile := inf,
                                snippets := [], notes := [], help := [], debug := [] }])
  | "n" :: x :: rest, acc => do
    let x ← bytesOfHex x
    let acc ← modifyLast (fun d => { d with notes := d.notes ++ [x] }) acc
    parseReport rest acc
  | "h" :: x :: rest, acc => do
    let x ← bytesOfHex x
    let acc ← modifyLast (fun d => { d with help := d.help ++ [x] }) acc
    parseReport rest acc
  | "g" :: x :: rest, acc => do
    let x ← bytesOfHex x
    let acc ← modifyLast (fun d => { d with debug := d.debug ++ [x] }) acc
    parseReport rest acc
  | "S" :: fid :: path :: text :: a :: b :: msg :: p :: pb :: rest, acc => do
    let fid ← nat32? fid
    let path ← bytesOfHex path
    let text ← bytesOfHex text
    let a ← int? a
    let b ← int? b
    let msg ← bytesOfHex msg
    let p ← bit? p
    let pb ← bit? pb
    let s : Snippet := { fid, path, text, start := a, stop := b, msg, primary := p, pageBreak := pb, edits := [] }
    let acc ← modifyLast (fun d => { d with snippets := d.snippets ++ [s] }) acc
    parseReport rest acc
  | "E" :: a :: b :: repl :: rest, acc => do
    let a ← int? a
    let b ← int? b
    let repl ← bytesOfHex repl
    let acc ← modifyLastM (fun d =>
      (modifyLast (fun s : Snippet => { s with edits := s.edits ++ [⟨a, b, repl⟩] }) d.snippets).map
        (fun ss => { d with snippets := ss })) acc
    parseReport rest acc
  | _, _ => none

def b01 (b : Bool) : String := if b then "1" else "0"

def showReport (showFid : Bool) (ds : List Diagnostic) : List String :=
  ds.flatMap fun d =>
    ["D", toString d.level, toString d.sortOrder, hexOfBytes d.tag, hexOfBytes d.msg, hexOfBytes d.inFile]
    ++ d.notes.flatMap (fun x => ["n", hexOfBytes x])
    ++ d.help.flatMap (fun x => ["h", hexOfBytes x])
    ++ d.debug.flatMap (fun x => ["g", hexOfBytes x])
    ++ d.snippets.flatMap fun s =>
      ["S", toString (if showFid then s.fid else 0), hexOfBytes s.path, hexOfBytes s.text, toString s.start,
       toString s.stop, hexOfBytes s.msg, b01 s.primary, b01 s.pageBreak]
      ++ s.edits.flatMap fun e => ["E", toString e.start, toString e.stop, hexOfBytes e.replace]

def parseProto : List String → PReport → Option PReport
  | [], acc => some acc
  | "pf" :: path :: text :: rest, acc => do
    if acc.diagnostics ≠ [] then none
    let path ← bytesOfHex path
    let text ← bytesOfHex text
    parseProto rest { acc with files := acc.files ++ [⟨path, text⟩] }
  | "pd" :: lv :: tag :: msg :: inf :: rest, acc => do
    let lv ← int? lv
    if lv < -2147483648 ∨ lv > 2147483647 then none
    let tag ← bytesOfHex tag
    let msg ← bytesOfHex msg
    let inf ← bytesOfHex inf
    parseProto rest { acc with diagnostics := acc.diagnostics ++
      [{ msg, tag, level := lv, inFile := inf, annotations := [], notes := [], help := [], debug := [] }] }
  | "n" :: x :: rest, acc => do
    let x ← bytesOfHex x
    let ds ← modifyLast (fun d : PDiagnostic => { d with notes := d.notes ++ [x] }) acc.diagnostics
    parseProto rest { acc with diagnostics := ds }
  | "h" :: x :: rest, acc => do
    let x ← bytesOfHex x
    let ds ← modifyLast (fun d : PDiagnostic => { d with help := d.help ++ [x] }) acc.diagnostics
    parseProto rest { acc with diagnostics := ds }
  | "g" :: x :: rest, acc => do
    let x ← bytesOfHex x
    let ds ← modifyLast (fun d : PDiagnostic => { d with debug := d.debug ++ [x] }) acc.diagnostics
    parseProto rest { acc with diagnostics := ds }
  | "pa" :: file :: a :: b :: msg :: p :: pb :: rest, acc => do
    let file ← nat32? file
    let a ← nat32? a
    let b ← nat32? b
    let msg ← bytesOfHex msg
    let p ← bit? p
    let pb ← bit? pb
    let an : PAnnotation := { file, start := a, stop := b, msg, primary := p, pageBreak := pb, edits := [] }
    let ds ← modifyLast (fun d : PDiagnostic => { d with annotations := d.annotations ++ [an] }) acc.diagnostics
    parseProto rest { acc with diagnostics := ds }
  | "pe" :: a :: b :: repl :: rest, acc => do
    let a ← nat32? a
    let b ← nat32? b
    let repl ← bytesOfHex repl
    let ds ← modifyLastM (fun d : PDiagnostic =>
      (modifyLast (fun s : PAnnotation => { s with edits := s.edits ++ [⟨a, b, repl⟩] }) d.annotations).map
        (fun ss => { d with annotations := ss })) acc.diagnostics
    parseProto rest { acc with diagnostics := ds }
  | _, _ => none

def showProto (p : PReport) : List String :=
  p.files.flatMap (fun f => ["pf", hexOfBytes f.path, hexOfBytes f.text])
  ++ p.diagnostics.flatMap fun d =>
    ["pd", toString d.level, hexOfBytes d.tag, hexOfBytes d.msg, hexOfBytes d.inFile]
    ++ d.notes.flatMap (fun x => ["n", hexOfBytes x])
    ++ d.help.flatMap (fun x => ["h", hexOfBytes x])
    ++ d.debug.flatMap (fun x => ["g", hexOfBytes x])
    ++ d.annotations.flatMap fun a =>
      ["pa", toString a.file, toString a.start, toString a.stop, hexOfBytes a.msg, b01 a.primary, b01 a.pageBreak]
      ++ a.edits.flatMap fun e => ["pe", toString e.start, toString e.stop, hexOfBytes e.replace]

def showErr : Option Err → List String
  | none => ["ok"]
  | some (.message i) => ["err", "message", toString i]
  | some (.level n) => ["err", "level", toString n]
  | some (.file i j n) => ["err", "file", toString i, toString j, toString n]
  | some (.span i j s e) => ["err", "span", toString i, toString j, toString s, toString e]

def join (ts : List String) : String := " ".intercalate ts

def showResult (r : List Diagnostic × Option Err) : String :=
  join (showErr r.2 ++ [";"] ++ showReport false r.1)

/-- Split a token list at the `;` tokens. -/
def splitSemi : List String → List (List String)
  | [] => [[]]
  | t :: ts =>
    match splitSemi ts with
    | [] => [[]]
    | g :: gs => if t == ";" then [] :: g :: gs else (t :: g) :: gs

def perm? (n : Nat) (ws : List String) : Option (List Nat) := do
  let ps ← ws.mapM fun w => if w.startsWith "+" ∨ w.startsWith "-" then none else w.toNat?
  if ps.length = n ∧ (List.range n).all (fun i => ps.contains i) then some ps else none

end ReportWire

open ReportWire

/-! ### reportproto -/

def reportprotoModel (line : String) : String :=
  match words line with
  | "dec" :: rest =>
    match parseProto rest ⟨[], []⟩ with
    | some p => showResult (fromProto p)
    | none => "bad-op"
  | k :: rest =>
    if k == "rt" ∨ k == "rtw" ∨ k == "enc" then
      match parseReport rest [] with
      | none => "bad-op"
      | some r =>
        match toProto r with
        | none => "panic"
        | some p => if k == "enc" then join ("ok" :: showProto p) else showResult (fromProto p)
    else "bad-op"
  | [] => "bad-op"

/-- Why a well-formed report failed to round-trip (for triage only; any difference fails). -/
def reportprotoClassify (r : List Diagnostic) (ans : List String) : String :=
  match ans with
  | "err" :: "level" :: "1" :: _ => "ice-level-rejected"
  | "err" :: "span" :: i :: j :: _ =>
    match i.toNat?, j.toNat? with
    | some i, some j =>
      match r[i]? with
      | some d => match d.snippets[j]? with
        | some s => if s.start = s.text.length then "eof-span-rejected" else "span-rejected-file-text-truncated"
        | none => "span-rejected"
      | none => "span-rejected"
    | _, _ => "span-rejected"
  | "ok" :: _ => "diagnostics-differ-file-text-truncated"
  | _ => "other"

/-- C37 oracle: a well-formed report must come back unchanged (up to `erase`). -/
def reportprotoSpec (line ans : String) : String :=
  match words line with
  | k :: rest =>
    if k == "rt" ∨ k == "rtw" then
      match parseReport rest [] with
      | none => "skip"
      | some r =>
        if decide (WF r) then
          let expected := join (["ok", ";"] ++ showReport false (r.map erase))
          if ans == expected then "holds" else s!"fails {reportprotoClassify r (words ans)}"
        else "skip"
    else "skip"
  | [] => "skip"

def reportprotoEngine : Engine := Engine.pure reportprotoModel reportprotoSpec

/-! ### canonicalize -/

def canonModel (line : String) : String :=
  match words line with
  | "canon" :: k :: rest =>
    match bit? k, splitSemi rest with
    | some keep, [toks, ptoks] =>
      match parseReport toks [] with
      | none => "bad-op"
      | some ds =>
        match perm? ds.length ptoks with
        | none => "bad-op"
        | some ps =>
          let pds := ps.filterMap (fun i => ds[i]?)
          let r1 := canonicalize keep ds
          let r2 := canonicalize keep pds
          let r3 := canonicalize keep r1
          join (showReport true r1 ++ [";"] ++ showReport true r2 ++ [";"] ++ showReport true r3)
    | _, _ => "bad-op"
  | _ => "bad-op"

/-- C36 oracle on the implementation's three answers: permutation invariance and idempotence. -/
def canonSpec (line ans : String) : String :=
  match words line with
  | "canon" :: _ :: rest =>
    match splitSemi rest with
    | [toks, _] =>
      match parseReport toks [] with
      | none => "skip"
      | some ds =>
        if decide (ValidLevels ds) then
          match splitSemi (words ans) with
          | [a, b, c] =>
            match parseReport a [], parseReport b [], parseReport c [] with
            | some a, some b, some c =>
              if !decide (SameDiags a b) then "fails permutation-dependent"
              else if !decide (SameDiags c a) then "fails not-idempotent"
              else "holds"
            | _, _, _ => "fails bad-answer"
          | _ => "fails bad-answer"
        else "skip"
    | _ => "skip"
  | _ => "skip"

def canonicalizeEngine : Engine := Engine.pure canonModel canonSpec

end PCV.Engines
