-- ENGINE: incr_collect => PCV.Engines.incr_collect
import PCV.Engine
import PCV.Util.Wire
import PCV.Model.Report
import PCV.Model.ReportCollect
/-!
Engine `incr_collect` (C36, executor clause): the diagnostic collection walk at the end of
`incremental.Run` (`PCV.ReportCollect.runCollect`) followed by `Report.Canonicalize`
(`PCV.Report.canonicalize`), on synthetic query graphs (see harness/engines/incr_collect.go for
the op syntax).

The model enumerates every task's dependencies in the order of the `node` op; the Go code
enumerates them in `sync.Map.Range` order.  By `collect_perm` and
`canonicalize_perm_invariant_partial` the answer does not depend on that order whenever no two
different gathered diagnostics tie on the sort key: ops `run` are generated key-distinct and
must agree exactly; ops `runm` (key ties) are answered as a sorted multiset.
-/
namespace PCV.Engines.IncrCollectE
open PCV.Wire PCV.Report PCV.ReportCollect

structure NodeDef where
  deps : List Nat := []
  diags : List Diagnostic := []

structure CState where
  defs : List (Nat × NodeDef) := []

def bytesOf (s : String) : Bytes := s.toUTF8.toList
def strOf (b : Bytes) : String := String.ofList (b.map (fun c => Char.ofNat c.toNat))

def srcText : Bytes := bytesOf "0123456789012345678901234567890123456789"

/-- `<e|w|r>[#tag]=<msg>[@file:start-end][+note]` -/
def parseDiag (stage : Nat) (tok : String) : Option Diagnostic := do
  let (lv, rest) ← match tok.toList with
    | 'e' :: r => some ((2 : Int), String.ofList r)
    | 'w' :: r => some ((3 : Int), String.ofList r)
    | 'r' :: r => some ((4 : Int), String.ofList r)
    | _ => none
  let (tag, rest) ← if rest.startsWith "#" then
      (match (rest.drop 1).toString.splitOn "=" with
       | t :: more@(_ :: _) => some (t, "=" ++ "=".intercalate more)
       | _ => none)
    else some ("", rest)
  if !rest.startsWith "=" then none
  let body := (rest.drop 1).toString
  let (body, note) := match body.splitOn "+" with
    | [b, n] => (b, some n)
    | _ => (body, none)
  let (msg, span) ← match body.splitOn "@" with
    | [m] => some (m, none)
    | [m, sp] => (match sp.splitOn ":" with
      | [f, se] => (match se.splitOn "-" with
        | [a, b] => (match f.toNat?, a.toNat?, b.toNat? with
          | some f, some a, some b => if (f == 1 || f == 2) && a ≤ b && b ≤ 40 then some (m, some (f, a, b)) else none
          | _, _, _ => none)
        | _ => none)
      | _ => none)
    | _ => none
  if msg == "" then none
  let snippets : List Snippet := match span with
    | some (f, a, b) => [{ fid := f, path := bytesOf s!"s{f}.proto", text := srcText, start := a, stop := b,
                           msg := [], primary := true, pageBreak := false, edits := [] }]
    | none => []
  pure { tag := bytesOf tag, msg := bytesOf msg, level := lv, sortOrder := stage, inFile := [],
         snippets := snippets, notes := (match note with | some n => [bytesOf n] | none => []),
         help := [], debug := [] }

def parseDeps (s : String) : Option (List Nat) :=
  if s == "-" then some [] else (s.splitOn ",").mapM String.toNat?

def dedupNat (l : List Nat) : List Nat :=
  l.foldl (fun acc x => if acc.contains x then acc else acc ++ [x]) []

def renderDiag (d : Diagnostic) : String :=
  s!"L{d.level}|{strOf d.tag}|{strOf d.msg}|{strOf (primaryPath d)}:{primaryStart d}-{primaryStop d}|{",".intercalate (d.notes.map strOf)}"

def insertStr (s : String) : List String → List String
  | [] => [s]
  | x :: xs => if s < x then s :: x :: xs else x :: insertStr s xs

def sortStrs (xs : List String) : List String := xs.foldl (fun acc s => insertStr s acc) []

/-- one `Run`: the collection walk over the recorded dependency edges from the requested
    queries, then `Canonicalize` (KeepDuplicates is false) -/
def runReport (st : CState) (roots : List Nat) : Option (List Diagnostic) :=
  let rng (k : Nat) : List Nat := ((st.defs.lookup k).map (fun n => dedupNat n.deps)).getD []
  let diag (k : Nat) : List Diagnostic := ((st.defs.lookup k).map (·.diags)).getD []
  let univ := st.defs.map (·.1)
  (runCollect rng diag (budget rng univ roots) roots).map (fun r => canonicalize false r.2)

def showLines (ls : List String) : String := if ls.isEmpty then "-" else " ; ".intercalate ls

def collectStep (st : CState) (line : String) : CState × String :=
  match words line with
  | ["new", p] => (st, if (p.toNat?).isSome then "ok" else "bad-op")
  | "node" :: k :: deps :: stage :: diags =>
    match k.toNat?, parseDeps deps, stage.toNat?, diags.mapM (fun t => stage.toNat? >>= fun s => parseDiag s t) with
    | some k, some deps, some _, some ds =>
      ({ st with defs := (k, { deps := deps, diags := ds }) :: st.defs.filter (fun p => p.1 != k) }, "ok")
    | _, _, _, _ => (st, "bad-op")
  | "evict" :: ks => (st, if !ks.isEmpty && (ks.mapM String.toNat?).isSome then "ok" else "bad-op")
  | "run" :: ks => match ks.mapM String.toNat? with
    | some roots =>
      if roots.isEmpty || !(roots.all (fun k => (st.defs.lookup k).isSome)) then (st, "bad-op") else
      (match runReport st roots with
       | some ds => (st, showLines (ds.map renderDiag))
       | none => (st, "model-out-of-budget"))
    | none => (st, "bad-op")
  | "runm" :: ks => match ks.mapM String.toNat? with
    | some roots =>
      if roots.isEmpty || !(roots.all (fun k => (st.defs.lookup k).isSome)) then (st, "bad-op") else
      (match runReport st roots with
       | some ds => (st, showLines (sortStrs (ds.map renderDiag)))
       | none => (st, "model-out-of-budget"))
    | none => (st, "bad-op")
  | _ => (st, "bad-op")

/-- naive reachability over the `node` definitions (independent of the worklist model) -/
def reachFrom (defs : List (Nat × NodeDef)) : Nat → List Nat → List Nat → List Nat
  | 0, _, acc => acc
  | _ + 1, [], acc => acc
  | f + 1, k :: rest, acc =>
    if acc.contains k then reachFrom defs f rest acc
    else reachFrom defs f (((defs.lookup k).map (·.deps)).getD [] ++ rest) (acc ++ [k])

/-- Property oracle (executor clause of C36) on the implementation's answers.
    (1) Independent reference: the UNTAGGED diagnostics of the report are exactly the untagged
        diagnostics of the queries reachable from the requested ones, each query counted once
        (a double visit or a missed dependency shows; tagged ones are subject to Canonicalize's
        own dedup and are left to the model comparison).
    (2) The harness replayed the history on brand-new executors at the other parallelisms and
        with the requested queries permuted; every such report must equal the one of this run
        (ordered for `run`, as a multiset for `runm`, whose graphs carry key ties). -/
def collectSpec (st : CState) (line ans : String) : CState × String :=
  match words line with
  | "node" :: _ => ((collectStep st line).1, "skip")
  | op :: ks =>
    if op == "run" || op == "runm" then
      match ans.splitOn " ~ ", ks.mapM String.toNat? with
      | [main, obs], some roots =>
        let untagged (l : String) : Bool := ((l.splitOn "|").getD 1 "x") == ""
        let got := sortStrs ((if main == "-" then [] else main.splitOn " ; ").filter untagged)
        let nodes := reachFrom st.defs (4 * (st.defs.length + 2) * (st.defs.length + 2) + roots.length) roots []
        let want := sortStrs ((nodes.flatMap (fun k => ((st.defs.lookup k).map (·.diags)).getD [])).filter (fun d => d.tag == [])
          |>.map renderDiag)
        if got != want then
          (st, s!"fails executor-report-is-not-the-diagnostics-of-the-reachable-queries got[{" ; ".intercalate got}] want[{" ; ".intercalate want}]")
        else if obs == "same" then (st, "holds")
        else if op == "run" then (st, s!"fails executor-report-differs [{obs}]")
        else (st, s!"fails executor-report-multiset-differs [{obs}]")
      | _, _ => (st, s!"fails run-did-not-return-a-report [{ans}]")
    else (st, "skip")
  | [] => (st, "skip")

end PCV.Engines.IncrCollectE

namespace PCV.Engines
def incr_collect : Engine :=
  { σ := IncrCollectE.CState, init := {}, step := IncrCollectE.collectStep, τ := IncrCollectE.CState, specInit := {},
    spec := IncrCollectE.collectSpec }
end PCV.Engines
