module verif/harness

go 1.25.6

require github.com/bufbuild/protocompile v0.0.0

require (
	github.com/rivo/uniseg v0.4.7 // indirect
	github.com/tidwall/btree v1.8.1 // indirect
	golang.org/x/exp v0.0.0-20250911091902-df9299821621 // indirect
)

require (
	golang.org/x/sync v0.20.0 // indirect
	google.golang.org/protobuf v1.36.11
)

replace github.com/bufbuild/protocompile => /repo
