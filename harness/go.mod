module verif/harness

go 1.25.6

require github.com/bufbuild/protocompile v0.0.0

require (
	buf.build/gen/go/bufbuild/protodescriptor/protocolbuffers/go v1.36.11-20250109164928-1da0de137947.1 // indirect
	buf.build/gen/go/bufbuild/protovalidate/protocolbuffers/go v1.36.11-20240920164238-5a7b106cbb87.1 // indirect
	github.com/rivo/uniseg v0.4.7 // indirect
	github.com/tidwall/btree v1.8.1 // indirect
	golang.org/x/exp v0.0.0-20250911091902-df9299821621 // indirect
)

require (
	golang.org/x/sync v0.20.0 // indirect
	google.golang.org/protobuf v1.36.11
)

replace github.com/bufbuild/protocompile => /repo
