module verif/harness

go 1.25.6

require github.com/bufbuild/protocompile v0.0.0

require (
	golang.org/x/sync v0.20.0 // indirect
	google.golang.org/protobuf v1.36.11
)

replace github.com/bufbuild/protocompile => /repo
