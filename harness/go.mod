module verif/harness

go 1.25.6

require github.com/bufbuild/protocompile v0.0.0

require google.golang.org/protobuf v1.36.11 // indirect

replace github.com/bufbuild/protocompile => /repo
