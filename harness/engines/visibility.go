package engines

import (
	"errors"
	"fmt"
	"strconv"
	"strings"

	"github.com/bufbuild/protocompile/linker"
	"github.com/bufbuild/protocompile/parser"
	"github.com/bufbuild/protocompile/reporter"
	"google.golang.org/protobuf/reflect/protodesc"
	"google.golang.org/protobuf/reflect/protoreflect"
	"google.golang.org/protobuf/reflect/protoregistry"
)

// visibility: linker.ResolverFromFile(f).Find* on generated import graphs (C18).
//
//	graph <src|desc> <file>...      build the files (src: real compiler from source;
//	                                desc: protodesc.NewFile + linker.NewFile)
//	name|msg|url|extname <root> <x> FindDescriptorByName / FindMessageByName /
//	                                FindMessageByURL / FindExtensionByName
//	extnum <root> <msg> <num>       FindExtensionByNumber
//	path <root> <path>              FindFileByPath
type visibilityEngine struct {
	files []linker.File
}

func init() { Register("visibility", func() Engine { return &visibilityEngine{} }) }

func (e *visibilityEngine) Name() string { return "visibility" }
func (e *visibilityEngine) Reset()       { e.files = nil }

// visSources renders every file of the graph.
func visSources(files []*rsvFile) (map[string]string, error) {
	srcs := map[string]string{}
	tag := 5000
	for i := range files {
		root, _, err := rsvTree(files[i])
		if err != nil {
			return nil, err
		}
		s, err := rsvSource(files, i, root, "", &tag)
		if err != nil {
			return nil, err
		}
		srcs[rsvPath(i)] = s
	}
	return srcs, nil
}

// visAllResolver answers protodesc's questions while a descriptor is built: every file built
// so far, first match wins (extendee names are unique in generated graphs).
type visAllResolver struct{ fds []protoreflect.FileDescriptor }

func (r *visAllResolver) FindFileByPath(p string) (protoreflect.FileDescriptor, error) {
	for _, f := range r.fds {
		if f != nil && f.Path() == p {
			return f, nil
		}
	}
	return nil, protoregistry.NotFound
}

func visFindIn(f protoreflect.FileDescriptor, n protoreflect.FullName) protoreflect.Descriptor {
	var walkMsgs func(ms protoreflect.MessageDescriptors) protoreflect.Descriptor
	walkMsgs = func(ms protoreflect.MessageDescriptors) protoreflect.Descriptor {
		for i := 0; i < ms.Len(); i++ {
			m := ms.Get(i)
			if m.FullName() == n {
				return m
			}
			if d := walkMsgs(m.Messages()); d != nil {
				return d
			}
		}
		return nil
	}
	return walkMsgs(f.Messages())
}

func (r *visAllResolver) FindDescriptorByName(n protoreflect.FullName) (protoreflect.Descriptor, error) {
	for _, f := range r.fds {
		if f == nil {
			continue
		}
		if d := visFindIn(f, n); d != nil {
			return d, nil
		}
	}
	return nil, protoregistry.NotFound
}

func (e *visibilityEngine) build(mode string, files []*rsvFile) error {
	srcs, err := visSources(files)
	if err != nil {
		return err
	}
	n := len(files)
	e.files = make([]linker.File, n)
	switch mode {
	case "src":
		names := make([]string, n)
		for i := range names {
			names[i] = rsvPath(i)
		}
		res, errs, err := rsvCompile(srcs, names...)
		if err != nil {
			return fmt.Errorf("compile: %v %v", err, errs)
		}
		for i := range names {
			f := res.FindFileByPath(names[i])
			if f == nil {
				return fmt.Errorf("no result for %s", names[i])
			}
			e.files[i] = f
		}
	case "desc":
		all := &visAllResolver{fds: make([]protoreflect.FileDescriptor, n)}
		state := make([]int, n)
		var mk func(i int) error
		mk = func(i int) error {
			if state[i] == 2 {
				return nil
			}
			if state[i] == 1 {
				return fmt.Errorf("import cycle at %d", i)
			}
			state[i] = 1
			var deps linker.Files
			for _, im := range files[i].imps {
				if err := mk(im.idx); err != nil {
					return err
				}
				deps = append(deps, e.files[im.idx])
			}
			h := reporter.NewHandler(nil)
			ast, err := parser.Parse(rsvPath(i), strings.NewReader(srcs[rsvPath(i)]), h)
			if err != nil {
				return err
			}
			pr, err := parser.ResultFromAST(ast, true, h)
			if err != nil {
				return err
			}
			fd, err := protodesc.NewFile(pr.FileDescriptorProto(), all)
			if err != nil {
				return fmt.Errorf("protodesc %s: %v", rsvPath(i), err)
			}
			all.fds[i] = fd
			lf, err := linker.NewFile(fd, deps)
			if err != nil {
				return err
			}
			e.files[i] = lf
			state[i] = 2
			return nil
		}
		for i := 0; i < n; i++ {
			if err := mk(i); err != nil {
				return err
			}
		}
	default:
		return fmt.Errorf("bad mode %s", mode)
	}
	return nil
}

func visKindTag(d protoreflect.Descriptor) string {
	switch d := d.(type) {
	case protoreflect.MessageDescriptor:
		return "m"
	case protoreflect.EnumDescriptor:
		return "e"
	case protoreflect.EnumValueDescriptor:
		return "v"
	case protoreflect.ServiceDescriptor:
		return "s"
	case protoreflect.MethodDescriptor:
		return "r"
	case protoreflect.OneofDescriptor:
		return "o"
	case protoreflect.FieldDescriptor:
		if d.IsExtension() {
			return "x"
		}
		return "f"
	}
	return "?"
}

func visErr(err error) string {
	if errors.Is(err, protoregistry.NotFound) {
		return "notfound"
	}
	if m := rsvNotARe.FindStringSubmatch(err.Error()); m != nil {
		if t, ok := rsvArticleTag[m[1]]; ok {
			return "err " + t
		}
	}
	return "err ? " + Canon(err.Error())
}

func (e *visibilityEngine) Exec(op string) string {
	w := strings.Fields(op)
	if len(w) == 0 {
		return "bad-op"
	}
	if w[0] == "graph" {
		if len(w) < 3 {
			return "bad-op"
		}
		var files []*rsvFile
		for _, fw := range w[2:] {
			f, err := rsvParseFile(fw)
			if err != nil {
				return "bad-op"
			}
			files = append(files, f)
		}
		if err := e.build(w[1], files); err != nil {
			e.files = nil
			return "builderr " + Canon(err.Error())
		}
		return "ok " + strconv.Itoa(len(files))
	}
	if len(w) < 3 || e.files == nil {
		return "bad-op"
	}
	root, err := strconv.Atoi(w[1])
	if err != nil || root < 0 || root >= len(e.files) {
		return "bad-op"
	}
	fileOf := func(d protoreflect.Descriptor) string {
		return strconv.Itoa(rsvPathIdx(d.ParentFile().Path()))
	}
	// a resolver is a read-only view that several goroutines may use at once (and compiled files
	// are shared): every caller must get the lone caller's answer, so each query is made by three
	// goroutines at the same time, each through a resolver of its own
	return ConcFirst(3, func() string {
		return visQuery(linker.ResolverFromFile(e.files[root]), w, fileOf)
	})
}

func visQuery(res linker.Resolver, w []string, fileOf func(protoreflect.Descriptor) string) string {
	var err error
	switch w[0] {
	case "name":
		if len(w) != 3 {
			return "bad-op"
		}
		d, err := res.FindDescriptorByName(protoreflect.FullName(w[2]))
		if err != nil {
			return visErr(err)
		}
		return "found " + visKindTag(d) + " " + fileOf(d)
	case "msg", "url":
		if len(w) != 3 {
			return "bad-op"
		}
		var mt protoreflect.MessageType
		if w[0] == "msg" {
			mt, err = res.FindMessageByName(protoreflect.FullName(w[2]))
		} else {
			mt, err = res.FindMessageByURL(w[2])
		}
		if err != nil {
			return visErr(err)
		}
		return "found m " + fileOf(mt.Descriptor())
	case "extname":
		if len(w) != 3 {
			return "bad-op"
		}
		xt, err := res.FindExtensionByName(protoreflect.FullName(w[2]))
		if err != nil {
			return visErr(err)
		}
		return "found x " + fileOf(xt.TypeDescriptor())
	case "extnum":
		if len(w) != 4 {
			return "bad-op"
		}
		num, err := strconv.Atoi(w[3])
		if err != nil {
			return "bad-op"
		}
		xt, err := res.FindExtensionByNumber(protoreflect.FullName(w[2]), protoreflect.FieldNumber(num))
		if err != nil {
			return visErr(err)
		}
		return "found " + string(xt.TypeDescriptor().FullName()) + " " + fileOf(xt.TypeDescriptor())
	case "path":
		if len(w) != 3 {
			return "bad-op"
		}
		fd, err := res.FindFileByPath(w[2])
		if err != nil {
			return visErr(err)
		}
		return "found " + strconv.Itoa(rsvPathIdx(fd.Path()))
	}
	return "bad-op"
}

func (e *visibilityEngine) Trivial(op, ans string) bool {
	return strings.HasPrefix(op, "graph ")
}

func (e *visibilityEngine) Class(op, ans string) string {
	w := strings.Fields(op)
	a := strings.Fields(ans)
	if len(a) == 0 {
		return w[0]
	}
	return w[0] + ":" + a[0]
}

// ---------------------------------------------------------------- generator

// visStdFile: file i of the exhaustive graphs: one extendable message, one enum with a value,
// one extension of its own message, one nested message.
func visStdFile(i int, imps []rsvImp) *rsvFile {
	p := "pk"
	s := strconv.Itoa(i)
	return &rsvFile{pkg: p, imps: imps, toks: []rsvTok{
		{kind: "m", name: p + ".M" + s},
		{kind: "m", name: p + ".M" + s + ".In"},
		{kind: "e", name: p + ".E" + s},
		{kind: "v", name: p + ".V" + s},
		{kind: "x", name: p + ".x" + s, extendee: p + ".M" + s, num: 100 + i},
	}}
}

func visGraphOp(mode string, files []*rsvFile) string {
	ws := []string{"graph", mode}
	for _, f := range files {
		ws = append(ws, f.word())
	}
	return strings.Join(ws, " ")
}

// visQueries: every element name, extension (extendee, number) and path of the whole graph
// (plus absent ones), asked from every root in `roots`.
func visQueries(r *Rand, files []*rsvFile, roots []int, extraNames []string, full bool) []string {
	names := map[string]bool{}
	type en struct {
		e string
		n int
	}
	exts := map[en]bool{}
	for _, f := range files {
		for _, t := range f.toks {
			names[t.name] = true
			if t.kind == "x" && t.extendee != "" {
				exts[en{t.extendee, t.num}] = true
			}
		}
	}
	for _, x := range extraNames {
		names[x] = true
	}
	nameList := rsvSortedKeys(names)
	var extList []en
	for k := range exts {
		extList = append(extList, k)
	}
	// deterministic order
	for i := 0; i < len(extList); i++ {
		for j := i + 1; j < len(extList); j++ {
			if extList[j].e < extList[i].e || (extList[j].e == extList[i].e && extList[j].n < extList[i].n) {
				extList[i], extList[j] = extList[j], extList[i]
			}
		}
	}
	var ops []string
	for _, root := range roots {
		rs := strconv.Itoa(root)
		for _, n := range nameList {
			ops = append(ops, "name "+rs+" "+n)
			if full || r.Chance(1, 3) {
				ops = append(ops, "msg "+rs+" "+n)
			}
			if full || r.Chance(1, 4) {
				ops = append(ops, "extname "+rs+" "+n)
			}
			if r.Chance(1, 8) {
				ops = append(ops, "url "+rs+" type.example.com/x/"+n)
			}
			if r.Chance(1, 10) {
				ops = append(ops, "name "+rs+" ."+n)
			}
		}
		for _, x := range extList {
			ops = append(ops, fmt.Sprintf("extnum %s %s %d", rs, x.e, x.n))
			if r.Chance(1, 4) {
				ops = append(ops, fmt.Sprintf("extnum %s %s %d", rs, x.e, x.n+1))
			}
		}
		for i := range files {
			ops = append(ops, "path "+rs+" "+rsvPath(i))
		}
		ops = append(ops, "path "+rs+" "+rsvPath(len(files)), "path "+rs+" nosuch.proto")
	}
	return ops
}

// visRandomGraph draws a DAG (imports go to lower indices) with packages and elements.
// dups: let later files re-define names of earlier files (only legal in desc mode).
func visRandomGraph(r *Rand, n int, dups bool) []*rsvFile {
	pkgs := []string{"", "a", "a.b", "b", "a.b.c"}
	simple := []string{"M", "N", "P", "Q"}
	files := make([]*rsvFile, n)
	used := map[string]bool{}
	// extendee messages: globally unique names, one per file
	density := 1 + r.Intn(3)
	pubP := 1 + r.Intn(3)
	for i := 0; i < n; i++ {
		f := &rsvFile{pkg: Pick(r, pkgs)}
		seenImp := map[int]bool{}
		for j := i - 1; j >= 0; j-- {
			if r.Chance(density, 4) && !seenImp[j] {
				seenImp[j] = true
				f.imps = append(f.imps, rsvImp{idx: j, pub: r.Chance(pubP, 4)})
			}
		}
		// shuffle import order
		for k := len(f.imps) - 1; k > 0; k-- {
			j := r.Intn(k + 1)
			f.imps[k], f.imps[j] = f.imps[j], f.imps[k]
		}
		q := func(s string) string {
			if f.pkg == "" {
				return s
			}
			return f.pkg + "." + s
		}
		local := map[string]bool{}
		add := func(kind, name string) bool {
			if local[name] || (!dups && used[name]) {
				return false
			}
			local[name] = true
			used[name] = true
			f.toks = append(f.toks, rsvTok{kind: kind, name: name})
			return true
		}
		// the file's extendable message
		xm := q("X" + strconv.Itoa(i))
		add("m", xm)
		var msgs []string
		cnt := 1 + r.Intn(4)
		for k := 0; k < cnt; k++ {
			nm := q(Pick(r, simple))
			if len(msgs) > 0 && r.Chance(1, 3) {
				nm = Pick(r, msgs) + "." + Pick(r, simple)
			}
			switch r.Intn(6) {
			case 0, 1, 2:
				if add("m", nm) {
					msgs = append(msgs, nm)
					if r.Chance(1, 3) {
						add("f", nm+"."+Pick(r, []string{"fa", "fb"}))
					}
					if r.Chance(1, 5) {
						if add("o", nm+".oo") {
							if !add("f", nm+".of") {
								// a oneof needs its field: drop the oneof again
								f.toks = f.toks[:len(f.toks)-1]
								delete(local, nm+".oo")
							}
						}
					}
				}
			case 3:
				val := rsvParent(nm)
				if val != "" {
					val += "."
				}
				val += "V" + rsvSimple(nm)
				if !local[val] && (dups || !used[val]) && add("e", nm) {
					add("v", val)
				}
			case 4:
				if rsvParent(nm) == f.pkg && add("s", nm) {
					add("r", nm+".Call")
				}
			case 5:
				// extension of a visible extendable message: own or a direct import's
				cands := []string{xm}
				for _, im := range f.imps {
					for _, t := range files[im.idx].toks {
						if t.kind == "m" && strings.HasPrefix(rsvSimple(t.name), "X") && rsvParent(t.name) == files[im.idx].pkg {
							cands = append(cands, t.name)
						}
					}
				}
				xn := rsvParent(nm)
				if xn != "" {
					xn += "."
				}
				xn += "x" + strings.ToLower(rsvSimple(nm))
				if !local[xn] && (dups || !used[xn]) {
					local[xn] = true
					used[xn] = true
					f.toks = append(f.toks, rsvTok{kind: "x", name: xn, extendee: Pick(r, cands), num: 100 + r.Intn(3)})
				}
			}
		}
		files[i] = f
	}
	// (extendee, number) must be unique inside a file always, and globally in src mode
	type en struct {
		e string
		n int
	}
	global := map[en]bool{}
	for _, f := range files {
		local := map[en]bool{}
		for k := range f.toks {
			t := &f.toks[k]
			if t.kind != "x" {
				continue
			}
			for local[en{t.extendee, t.num}] || (!dups && global[en{t.extendee, t.num}]) {
				t.num++
			}
			local[en{t.extendee, t.num}] = true
			global[en{t.extendee, t.num}] = true
		}
	}
	return files
}

func (e *visibilityEngine) Gen(r *Rand, tier string) [][]string {
	var cases [][]string
	thorough := tier == "thorough"
	// 1. exhaustive: every DAG on 3 files (both modes) and on 4 files (modes alternate in the
	//    quick tier), each edge absent / plain / public, every element asked from every root.
	exhaustive := func(n int, modes func(code int) []string) {
		nEdges := n * (n - 1) / 2
		total := 1
		for i := 0; i < nEdges; i++ {
			total *= 3
		}
		for code := 0; code < total; code++ {
			files := make([]*rsvFile, n)
			c := code
			for i := 0; i < n; i++ {
				var imps []rsvImp
				for j := 0; j < i; j++ {
					switch c % 3 {
					case 1:
						imps = append(imps, rsvImp{idx: j})
					case 2:
						imps = append(imps, rsvImp{idx: j, pub: true})
					}
					c /= 3
				}
				files[i] = visStdFile(i, imps)
			}
			roots := make([]int, n)
			for i := range roots {
				roots[i] = i
			}
			for _, mode := range modes(code) {
				ops := []string{visGraphOp(mode, files)}
				ops = append(ops, visQueries(r, files, roots, []string{"pk.Nope"}, false)...)
				cases = append(cases, ops)
			}
		}
	}
	both := func(int) []string { return []string{"src", "desc"} }
	alt := func(code int) []string {
		if code%2 == 0 {
			return []string{"src"}
		}
		return []string{"desc"}
	}
	exhaustive(3, both)
	if thorough {
		exhaustive(4, both)
	} else {
		exhaustive(4, alt)
	}
	// 2. directed: diamond with one public and one private arm; chains of public imports
	//    broken by one plain import; reversed import order.
	for _, mode := range []string{"src", "desc"} {
		diamond := []*rsvFile{visStdFile(0, nil), visStdFile(1, []rsvImp{{0, true}}), visStdFile(2, []rsvImp{{0, false}}),
			visStdFile(3, []rsvImp{{2, false}, {1, false}}), visStdFile(4, []rsvImp{{3, true}})}
		cases = append(cases, append([]string{visGraphOp(mode, diamond)}, visQueries(r, diamond, []int{0, 1, 2, 3, 4}, nil, true)...))
		for brk := 1; brk <= 5; brk++ {
			chain := []*rsvFile{visStdFile(0, nil)}
			for i := 1; i <= 6; i++ {
				chain = append(chain, visStdFile(i, []rsvImp{{i - 1, i != brk}}))
			}
			cases = append(cases, append([]string{visGraphOp(mode, chain)}, visQueries(r, chain, []int{6, 5, 3}, nil, false)...))
		}
	}
	// 3. random graphs up to 7 files
	cnt := 140
	if thorough {
		cnt = 6000
	}
	for i := 0; i < cnt; i++ {
		n := 2 + r.Intn(6)
		mode := "src"
		dups := false
		if r.Chance(1, 2) {
			mode = "desc"
			dups = r.Chance(2, 3)
		}
		files := visRandomGraph(r, n, dups)
		var roots []int
		for k := n - 1; k >= 0 && len(roots) < 4; k-- {
			roots = append(roots, k)
		}
		extra := []string{"a.Nope", "a.b", "M"}
		ops := []string{visGraphOp(mode, files)}
		ops = append(ops, visQueries(r, files, roots, extra, false)...)
		cases = append(cases, ops)
	}
	return cases
}
