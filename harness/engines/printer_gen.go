package engines

import (
	"fmt"
	"strings"
)

// Source generator shared by the roundtrip (C30) and format (C31) engines: proto files as token
// lists with a layout hint per gap; the trivia (whitespace, comments) of every gap is chosen
// afterwards, either the hint's canonical text or a draw from a boundary-heavy alphabet.

type prnHint byte

const (
	prnTight prnHint = iota // canonical: nothing between the tokens
	prnSp                   // canonical: one space
	prnNl                   // canonical: newline + indentation of the current depth
	prnNl2                  // canonical: blank line + indentation
)

type prnTok struct {
	text  string
	hint  prnHint
	depth int
	lock  bool // the gap before this token is never redrawn (keeps a spelling canonical)
}

type prnBuilder struct {
	toks  []prnTok
	depth int
	r     *Rand
	// compile-oriented bookkeeping
	syntax  string // "proto2", "proto3", "2023"
	uniq    int
	usedOpt [5]bool
	// spacedStyle: <= 0 spaces only, placement drawn per name; 1-3 = spaces only, one placement;
	// 4 = block comment inside the parentheses
	spacedStyle int
	mixCanon    bool // spaced sub-family: some occurrences of a name are spelled canonically
}

func (b *prnBuilder) t(h prnHint, texts ...string) {
	for i, s := range texts {
		hh := h
		if i > 0 {
			hh = prnSp
		}
		b.toks = append(b.toks, prnTok{text: s, hint: hh, depth: b.depth})
	}
}

// tight appends tokens with no canonical gap (paths, punctuation).
func (b *prnBuilder) tight(texts ...string) {
	for _, s := range texts {
		b.toks = append(b.toks, prnTok{text: s, hint: prnTight, depth: b.depth})
	}
}

func (b *prnBuilder) name(prefix string) string {
	b.uniq++
	return fmt.Sprintf("%s%d", prefix, b.uniq)
}

func prnIsWord(c byte) bool {
	return c == '_' || (c >= '0' && c <= '9') || (c >= 'a' && c <= 'z') || (c >= 'A' && c <= 'Z')
}

func prnIsDigit(c byte) bool { return c >= '0' && c <= '9' }

// prnNeedSep: the two tokens would lex differently when glued together.
func prnNeedSep(a, b string) bool {
	if a == "" || b == "" {
		return false
	}
	x, y := a[len(a)-1], b[0]
	if prnIsWord(x) && prnIsWord(y) {
		return true
	}
	if (x == '.' && prnIsDigit(y)) || (prnIsDigit(x) && y == '.') {
		return true
	}
	if x == '/' && (y == '/' || y == '*') {
		return true
	}
	if x == '-' && y == '-' {
		return true
	}
	return false
}

func prnCanon(t prnTok) string {
	switch t.hint {
	case prnSp:
		return " "
	case prnNl:
		return "\n" + strings.Repeat("  ", t.depth)
	case prnNl2:
		return "\n\n" + strings.Repeat("  ", t.depth)
	}
	return ""
}

// prnTriviaAlphabet: what a gap can hold. sep = contains whitespace or a comment (may stand
// between two word tokens).
var prnTriviaAlphabet = []string{
	"", " ", "  ", "\t", "\n", "\n\n", "\n\n\n", "\n  ", "\n    ", " \n", "  \n  ",
	"/*c*/", " /* c */ ", "/* c */\n", "\n/* c */", " // c\n", "// c\n", "\n// c\n", "\n  // c\n  ",
	"\n\n// d\n\n", "\n// c\n// d\n", " /* m\n   * n\n   */ ", "\n  /* m\n  n */\n", " // c  \n\n  ",
	" /* a */ /* b */ ", "\n\n  /* e */\n\n  ",
}

// prnEOFAlphabet: trivia after the last token.
var prnEOFAlphabet = []string{
	"", "\n", "\n\n", " ", "  \n", "\n  ", "\n\n\n", " // eof", " // eof\n", "\n// eof", "\n// eof\n", "\n\n// eof\n\n",
	"/* eof */", "\n/* eof */\n", "\t",
}

func prnPickTrivia(r *Rand, needSep bool) string {
	for {
		var s string
		switch k := r.Intn(10); {
		case k < 3:
			s = " "
		case k < 4:
			s = ""
		case k < 5:
			s = "\n" + strings.Repeat(" ", r.Intn(5))
		default:
			s = Pick(r, prnTriviaAlphabet)
		}
		if needSep && s == "" {
			continue
		}
		return s
	}
}

// prnAssemble renders the token list; gaps[i] (if present) overrides the canonical trivia before
// token i, gaps[len(toks)] the trivia at the end of the file.
func prnAssemble(toks []prnTok, gaps map[int]string, eof string) string {
	var sb strings.Builder
	for i, t := range toks {
		g, ok := gaps[i]
		if !ok {
			g = prnCanon(t)
			if i == 0 {
				g = ""
			}
		}
		if i > 0 && g == "" && prnNeedSep(toks[i-1].text, t.text) {
			g = " "
		}
		sb.WriteString(g)
		sb.WriteString(t.text)
	}
	sb.WriteString(eof)
	return sb.String()
}

// ---------------------------------------------------------------- grammar

var prnScalars = []string{"int32", "int64", "uint32", "sint64", "fixed32", "bool", "string", "bytes", "double", "float"}

func (b *prnBuilder) header() {
	switch b.syntax {
	case "proto2", "proto3":
		b.t(prnTight, "syntax")
		b.t(prnSp, "=", `"`+b.syntax+`"`)
		b.tight(";")
	case "2023":
		b.t(prnTight, "edition")
		b.t(prnSp, "=", `"2023"`)
		b.tight(";")
	}
	if b.r.Chance(3, 4) {
		b.t(prnNl2, "package")
		b.t(prnSp, "pkg")
		if b.r.Chance(1, 2) {
			b.tight(".", "sub")
		}
		b.tight(";")
	}
}

// prelude declares the custom options used by option literals.
func (b *prnBuilder) prelude() {
	b.t(prnNl2, "import")
	if b.r.Chance(1, 6) {
		b.t(prnSp, "public")
	}
	b.t(prnSp, `"google/protobuf/descriptor.proto"`)
	b.tight(";")
	lbl := "optional"
	b.t(prnNl2, "message", "Opt", "{")
	b.depth++
	if b.syntax == "proto3" {
		b.t(prnNl, "int32", "a", "=", "1")
		b.tight(";")
		b.t(prnNl, "string", "b", "=", "2")
		b.tight(";")
		b.t(prnNl, "repeated", "int32", "c", "=", "3")
		b.tight(";")
		b.t(prnNl, "Opt", "d", "=", "4")
		b.tight(";")
	} else {
		if b.syntax == "2023" {
			lbl = ""
		}
		f := func(ty, n, num string) {
			if lbl != "" {
				b.t(prnNl, lbl, ty, n, "=", num)
			} else {
				b.t(prnNl, ty, n, "=", num)
			}
			b.tight(";")
		}
		f("int32", "a", "1")
		f("string", "b", "2")
		b.t(prnNl, "repeated", "int32", "c", "=", "3")
		b.tight(";")
		f("Opt", "d", "4")
	}
	b.depth--
	b.t(prnNl, "}")
	ext := func(target, name, num string) {
		b.t(prnNl2, "extend", "google")
		b.tight(".", "protobuf", ".", target)
		b.t(prnSp, "{")
		b.depth++
		if b.syntax == "proto2" {
			b.t(prnNl, "optional", "Opt", name, "=", num)
		} else {
			b.t(prnNl, "Opt", name, "=", num)
		}
		b.tight(";")
		b.depth--
		b.t(prnNl, "}")
	}
	ext("FileOptions", "fopt", "50000")
	ext("FieldOptions", "fldopt", "50001")
	ext("MessageOptions", "mopt", "50002")
}

// dictBody emits the fields of a message literal of type Opt.
func (b *prnBuilder) dictBody(depth int, multiline bool) {
	n := b.r.Intn(4)
	used := map[string]bool{}
	first := true
	for i := 0; i < n; i++ {
		f := Pick(b.r, []string{"a", "b", "c", "c", "d"})
		if used[f] && f != "c" {
			continue
		}
		used[f] = true
		h := prnSp
		if multiline {
			h = prnNl
		} else if first {
			h = prnTight
		}
		first = false
		b.t(h, f)
		colon := func() { b.tight(":") }
		switch f {
		case "a":
			colon()
			if b.r.Chance(1, 4) {
				b.t(prnSp, "-")
				b.tight(fmt.Sprint(1 + b.r.Intn(9)))
			} else {
				b.t(prnSp, fmt.Sprint(b.r.Intn(100)))
			}
		case "b":
			colon()
			b.t(prnSp, `"s`+fmt.Sprint(b.r.Intn(10))+`"`)
			for b.r.Chance(1, 4) {
				b.t(prnSp, `"t"`)
			}
		case "c":
			colon()
			if b.r.Chance(1, 2) {
				b.t(prnSp, "[")
				k := b.r.Intn(4)
				for j := 0; j < k; j++ {
					if j > 0 {
						b.tight(",")
						b.t(prnSp, fmt.Sprint(j))
					} else {
						b.tight(fmt.Sprint(j))
					}
				}
				b.tight("]")
			} else {
				b.t(prnSp, fmt.Sprint(b.r.Intn(9)))
			}
		case "d":
			if b.r.Chance(1, 2) {
				colon()
			}
			if depth >= 2 {
				b.t(prnSp, "{")
				b.tight("}")
			} else {
				open, cl := "{", "}"
				if b.r.Chance(1, 5) {
					open, cl = "<", ">"
				}
				b.t(prnSp, open)
				ml := multiline && b.r.Chance(1, 2)
				b.depth++
				b.dictBody(depth+1, ml)
				b.depth--
				if ml {
					b.t(prnNl, cl)
				} else {
					b.tight(cl)
				}
			}
		}
		switch b.r.Intn(5) {
		case 0:
			b.tight(",")
		case 1:
			b.tight(";")
		}
	}
}

func (b *prnBuilder) optValue(custom bool) {
	if !custom {
		return
	}
	multiline := b.r.Chance(1, 3)
	b.t(prnSp, "{")
	b.depth++
	b.dictBody(0, multiline)
	b.depth--
	if multiline {
		b.t(prnNl, "}")
	} else {
		b.tight("}")
	}
}

func (b *prnBuilder) fileOption(h prnHint) {
	k := b.r.Intn(5)
	for tries := 0; b.usedOpt[k] && tries < 8; tries++ {
		k = b.r.Intn(5)
	}
	if b.usedOpt[k] {
		return
	}
	b.usedOpt[k] = true
	switch k {
	case 0:
		b.t(h, "option", "java_package", "=", `"com.x"`)
	case 1:
		b.t(h, "option", "optimize_for", "=", "SPEED")
	case 2:
		b.t(h, "option", "deprecated", "=", "true")
	case 3:
		b.t(h, "option", "java_outer_classname", "=", `"A"`, `"B"`)
	default:
		b.t(h, "option", "(")
		b.tight("fopt", ")")
		if b.r.Chance(1, 3) {
			b.tight(".", Pick(b.r, []string{"a", "b"}))
			last := b.toks[len(b.toks)-1].text
			b.t(prnSp, "=")
			if last == "a" {
				b.t(prnSp, "7")
			} else {
				b.t(prnSp, `"v"`)
			}
		} else {
			b.t(prnSp, "=")
			b.optValue(true)
		}
	}
	b.tight(";")
}

func (b *prnBuilder) compactOptions(json string) {
	if !b.r.Chance(1, 3) {
		return
	}
	b.t(prnSp, "[")
	n := 1 + b.r.Intn(3)
	kinds := []int{0, 1, 2}
	for i := 0; i < n && i < len(kinds); i++ {
		if i > 0 {
			b.tight(",")
		}
		h := prnSp
		if i == 0 {
			h = prnTight
		}
		switch kinds[i] {
		case 0:
			b.t(h, "deprecated", "=", Pick(b.r, []string{"true", "false"}))
		case 1:
			b.t(h, "json_name", "=", `"`+json+`"`)
		case 2:
			b.t(h, "(")
			b.tight("fldopt", ")")
			b.t(prnSp, "=")
			b.optValue(true)
		}
	}
	b.tight("]")
}

func (b *prnBuilder) field(num int, msgs []string, inOneof bool) {
	name := b.name("f")
	ty := Pick(b.r, prnScalars)
	if len(msgs) > 0 && b.r.Chance(1, 4) {
		ty = Pick(b.r, msgs)
	}
	label := ""
	if !inOneof {
		switch b.syntax {
		case "proto2":
			label = Pick(b.r, []string{"optional", "optional", "repeated", "required"})
		case "proto3":
			label = Pick(b.r, []string{"", "", "optional", "repeated"})
		default:
			label = Pick(b.r, []string{"", "", "repeated"})
		}
	}
	if !inOneof && b.r.Chance(1, 8) {
		b.t(prnNl, "map")
		b.tight("<", Pick(b.r, []string{"string", "int32", "uint64"}), ",")
		b.t(prnSp, ty)
		b.tight(">")
		b.t(prnSp, name, "=", fmt.Sprint(num))
		b.tight(";")
		return
	}
	if label != "" {
		b.t(prnNl, label, ty)
	} else {
		b.t(prnNl, ty)
	}
	b.t(prnSp, name, "=", fmt.Sprint(num))
	b.compactOptions("j" + name)
	b.tight(";")
}

func (b *prnBuilder) enum(h prnHint) string {
	name := b.name("E")
	b.t(h, "enum", name, "{")
	b.depth++
	if b.r.Chance(1, 5) {
		b.t(prnNl, "option", "deprecated", "=", "true")
		b.tight(";")
	}
	n := 1 + b.r.Intn(3)
	for i := 0; i < n; i++ {
		b.t(prnNl, fmt.Sprintf("%s_V%d", strings.ToUpper(name), i), "=", fmt.Sprint(i))
		if b.r.Chance(1, 5) {
			b.t(prnSp, "[")
			b.tight("deprecated")
			b.t(prnSp, "=", "true")
			b.tight("]")
		}
		b.tight(";")
	}
	if b.r.Chance(1, 5) {
		b.t(prnNl, "reserved", "100")
		if b.r.Chance(1, 2) {
			b.tight(",")
			b.t(prnSp, "200", "to", "max")
		}
		b.tight(";")
	}
	b.depth--
	b.t(prnNl, "}")
	return name
}

func (b *prnBuilder) message(h prnHint, level int) string {
	name := b.name("M")
	b.t(h, "message", name, "{")
	n := b.r.Intn(5)
	if n == 0 && b.r.Chance(1, 2) {
		b.tight("}")
		return name
	}
	b.depth++
	msgs := []string{name}
	num := 1
	if b.r.Chance(1, 6) {
		b.t(prnNl, "option", "(")
		b.tight("mopt", ")")
		b.t(prnSp, "=")
		b.optValue(true)
		b.tight(";")
	}
	for i := 0; i < n; i++ {
		switch k := b.r.Intn(12); {
		case k == 0 && level < 2:
			msgs = append(msgs, b.message(prnNl, level+1))
		case k == 1:
			b.enum(prnNl)
		case k == 2:
			on := b.name("o")
			b.t(prnNl, "oneof", on, "{")
			b.depth++
			m := 1 + b.r.Intn(2)
			for j := 0; j < m; j++ {
				b.field(num, msgs, true)
				num++
			}
			b.depth--
			b.t(prnNl, "}")
		case k == 3:
			b.t(prnNl, "reserved", fmt.Sprint(1000+i))
			if b.r.Chance(1, 2) {
				b.tight(",")
				b.t(prnSp, fmt.Sprint(2000+10*i), "to", fmt.Sprint(2000+10*i+5))
			}
			b.tight(";")
		case k == 4:
			if b.syntax == "2023" {
				b.t(prnNl, "reserved", "r"+fmt.Sprint(i))
			} else {
				b.t(prnNl, "reserved", `"r`+fmt.Sprint(i)+`"`)
			}
			b.tight(";")
		case k == 5 && b.syntax == "proto2":
			b.t(prnNl, "extensions", fmt.Sprint(3000+10*i), "to", fmt.Sprint(3000+10*i+5))
			b.tight(";")
		case k == 6 && b.syntax == "proto2":
			g := b.name("G")
			b.t(prnNl, "optional", "group", g, "=", fmt.Sprint(num), "{")
			num++
			b.depth++
			b.t(prnNl, "optional", "int32", b.name("f"), "=", "1")
			b.tight(";")
			b.depth--
			b.t(prnNl, "}")
		case k == 7:
			b.t(prnNl, ";")
		default:
			b.field(num, msgs, false)
			num++
		}
	}
	b.depth--
	b.t(prnNl, "}")
	return name
}

func (b *prnBuilder) service(h prnHint, msgs []string) {
	if len(msgs) == 0 {
		return
	}
	b.t(h, "service", b.name("S"), "{")
	b.depth++
	n := 1 + b.r.Intn(3)
	for i := 0; i < n; i++ {
		b.t(prnNl, "rpc", b.name("R"))
		b.tight("(")
		if b.r.Chance(1, 4) {
			b.tight("stream")
			b.t(prnSp, Pick(b.r, msgs))
		} else {
			b.tight(Pick(b.r, msgs))
		}
		b.tight(")")
		b.t(prnSp, "returns", "(")
		if b.r.Chance(1, 4) {
			b.tight("stream")
			b.t(prnSp, Pick(b.r, msgs))
		} else {
			b.tight(Pick(b.r, msgs))
		}
		b.tight(")")
		if b.r.Chance(1, 3) {
			b.t(prnSp, "{")
			if b.r.Chance(1, 2) {
				b.depth++
				b.t(prnNl, "option", "deprecated", "=", "true")
				b.tight(";")
				b.depth--
				b.t(prnNl, "}")
			} else {
				b.tight("}")
			}
		} else {
			b.tight(";")
		}
	}
	b.depth--
	b.t(prnNl, "}")
}

// prnGenFile builds one file as a token list.
func prnGenFile(r *Rand) []prnTok {
	b := &prnBuilder{r: r, syntax: Pick(r, []string{"proto2", "proto3", "proto3", "2023"})}
	b.header()
	custom := r.Chance(1, 2)
	if custom {
		b.prelude()
	}
	nopt := r.Intn(3)
	for i := 0; i < nopt; i++ {
		if custom {
			b.fileOption(prnNl)
		} else {
			b.t(prnNl, "option", "deprecated", "=", "true")
			b.tight(";")
			break
		}
	}
	if !custom {
		// the option generators reference fopt/fldopt/mopt: without the prelude use plain files
		return prnGenPlain(b)
	}
	var msgs []string
	n := 1 + r.Intn(3)
	for i := 0; i < n; i++ {
		switch r.Intn(5) {
		case 0:
			b.enum(prnNl2)
		case 1:
			b.service(prnNl2, msgs)
		case 2:
			b.t(prnNl, ";")
		default:
			msgs = append(msgs, b.message(prnNl2, 0))
		}
	}
	return b.toks
}

// prnGenPlain: files without custom options (no import needed).
func prnGenPlain(b *prnBuilder) []prnTok {
	r := b.r
	var msgs []string
	n := 1 + r.Intn(3)
	plainField := func(num int) {
		ty := Pick(r, prnScalars)
		if b.syntax == "proto2" {
			b.t(prnNl, Pick(r, []string{"optional", "repeated"}), ty)
		} else {
			b.t(prnNl, ty)
		}
		nm := b.name("f")
		b.t(prnSp, nm, "=", fmt.Sprint(num))
		if r.Chance(1, 4) {
			b.t(prnSp, "[")
			b.tight("deprecated")
			b.t(prnSp, "=", "true")
			if r.Chance(1, 2) {
				b.tight(",")
				b.t(prnSp, "json_name", "=", `"j`+nm+`"`)
			}
			b.tight("]")
		}
		b.tight(";")
	}
	for i := 0; i < n; i++ {
		switch r.Intn(4) {
		case 0:
			b.enum(prnNl2)
		case 1:
			b.service(prnNl2, msgs)
		default:
			name := b.name("M")
			msgs = append(msgs, name)
			b.t(prnNl2, "message", name, "{")
			k := r.Intn(4)
			if k == 0 {
				b.tight("}")
				continue
			}
			b.depth++
			for j := 0; j < k; j++ {
				plainField(j + 1)
			}
			b.depth--
			b.t(prnNl, "}")
		}
	}
	return b.toks
}

// prnPerturb renders toks with k random gaps replaced (k < 0: every gap random).
func prnPerturb(r *Rand, toks []prnTok, k int) string {
	gaps := map[int]string{}
	pick := func(i int) {
		if toks[i].lock {
			return
		}
		need := i > 0 && prnNeedSep(toks[i-1].text, toks[i].text)
		gaps[i] = prnPickTrivia(r, need)
	}
	if k < 0 {
		for i := range toks {
			if r.Chance(2, 3) {
				pick(i)
			}
		}
	} else {
		for j := 0; j < k && len(toks) > 0; j++ {
			pick(r.Intn(len(toks)))
		}
	}
	eof := "\n"
	if r.Chance(1, 3) {
		eof = Pick(r, prnEOFAlphabet)
	}
	return prnAssemble(toks, gaps, eof)
}

// prnTemplates: small fixed files for the exhaustive single-gap / gap-pair sweep.
func prnTemplates() [][]prnTok {
	mk := func(f func(b *prnBuilder)) []prnTok {
		b := &prnBuilder{r: NewRand(7), syntax: "proto3"}
		f(b)
		return b.toks
	}
	semi := func(b *prnBuilder) { b.tight(";") }
	return [][]prnTok{
		mk(func(b *prnBuilder) {
			b.t(prnTight, "syntax")
			b.t(prnSp, "=", `"proto3"`)
			semi(b)
		}),
		mk(func(b *prnBuilder) {
			b.t(prnTight, "syntax", "=", `"proto3"`)
			semi(b)
			b.t(prnNl, "package", "p")
			b.tight(".", "q")
			semi(b)
			b.t(prnNl, "message", "M", "{")
			b.depth++
			b.t(prnNl, "int32", "x", "=", "1")
			semi(b)
			b.t(prnNl, "M", "y", "=", "2")
			semi(b)
			b.depth--
			b.t(prnNl, "}")
		}),
		mk(func(b *prnBuilder) {
			b.t(prnTight, "message", "M", "{")
			b.depth++
			b.t(prnNl, "repeated", "int32", "x", "=", "1", "[")
			b.tight("deprecated")
			b.t(prnSp, "=", "true")
			b.tight(",")
			b.t(prnSp, "json_name", "=", `"j"`)
			b.tight("]")
			semi(b)
			b.t(prnNl, "map")
			b.tight("<", "string", ",")
			b.t(prnSp, "int32")
			b.tight(">")
			b.t(prnSp, "m", "=", "2")
			semi(b)
			b.depth--
			b.t(prnNl, "}")
		}),
		mk(func(b *prnBuilder) {
			b.t(prnTight, "option", "(")
			b.tight("o", ")")
			b.t(prnSp, "=", "{")
			b.tight("a", ":")
			b.t(prnSp, "1")
			b.tight(",")
			b.t(prnSp, "b")
			b.tight(":")
			b.t(prnSp, "[")
			b.tight("1", ",")
			b.t(prnSp, "2")
			b.tight("]")
			b.t(prnSp, "c", "{")
			b.tight("d", ":")
			b.t(prnSp, `"x"`, `"y"`)
			b.tight("}", "}")
			semi(b)
		}),
		mk(func(b *prnBuilder) {
			b.t(prnTight, "service", "S", "{")
			b.depth++
			b.t(prnNl, "rpc", "F")
			b.tight("(", "M", ")")
			b.t(prnSp, "returns", "(")
			b.tight("stream")
			b.t(prnSp, "M")
			b.tight(")")
			semi(b)
			b.t(prnNl, "rpc", "G")
			b.tight("(", "M", ")")
			b.t(prnSp, "returns", "(")
			b.tight("M", ")")
			b.t(prnSp, "{")
			b.depth++
			b.t(prnNl, "option", "deprecated", "=", "true")
			semi(b)
			b.depth--
			b.t(prnNl, "}")
			b.depth--
			b.t(prnNl, "}")
		}),
		mk(func(b *prnBuilder) {
			b.t(prnTight, "enum", "E", "{")
			b.depth++
			b.t(prnNl, "E_A", "=", "0")
			semi(b)
			b.t(prnNl, "E_B", "=", "-")
			b.tight("1")
			b.t(prnSp, "[")
			b.tight("deprecated")
			b.t(prnSp, "=", "true")
			b.tight("]")
			semi(b)
			b.t(prnNl, "reserved", "5", "to", "max")
			b.tight(",")
			b.t(prnSp, "3")
			semi(b)
			b.depth--
			b.t(prnNl, "}")
			b.t(prnNl, ";")
			b.t(prnNl, "message", "N", "{")
			b.tight("}")
		}),
	}
}

// ---------------------------------------------------------------- large-header family
//
// Files whose header (syntax, package, imports, file options) has 13-40 declarations in
// non-canonical order, with REPEATED custom options set several times with distinct values, so
// that any reordering of same-named option declarations by the formatter's sort changes the
// compiled descriptor. The same is done inside bodies (message / field / enum / enum value /
// service / method options). spaced = the extension names are written with trivia inside the
// parentheses (`( tags )`, `(/*c*/ tags)`), a separate sub-family: Path.Canonicalized() returns
// "" for them, which gives all such options the same sort key.

var prnHdrStdOptions = [][2]string{
	{"java_package", `"com.x"`}, {"java_outer_classname", `"Outer"`}, {"java_multiple_files", "true"},
	{"go_package", `"example.com/x"`}, {"optimize_for", "SPEED"}, {"cc_enable_arenas", "true"},
	{"objc_class_prefix", `"OBJ"`}, {"csharp_namespace", `"Cs"`}, {"swift_prefix", `"Sw"`},
	{"php_class_prefix", `"Php"`}, {"php_namespace", `"Ns"`}, {"ruby_package", `"Rb"`},
	{"deprecated", "true"}, {"cc_generic_services", "false"}, {"java_generic_services", "false"},
	{"py_generic_services", "false"}, {"php_metadata_namespace", `"Meta"`}, {"java_string_check_utf8", "true"},
}

// extName emits `(name)`; canonical spelling is locked against perturbation.
func (b *prnBuilder) extName(h prnHint, spaced bool, lead []string, name string) {
	b.t(h, lead...)
	if len(lead) > 0 {
		b.t(prnSp, "(")
	} else {
		b.t(h, "(")
	}
	if !spaced || (b.mixCanon && b.r.Chance(1, 3)) {
		b.toks = append(b.toks, prnTok{text: name, hint: prnTight, depth: b.depth, lock: true},
			prnTok{text: ")", hint: prnTight, depth: b.depth, lock: true})
		return
	}
	style := b.spacedStyle
	if style <= 0 {
		style = 1 + b.r.Intn(3) // spaces only, a different placement per name
	}
	switch style - 1 {
	case 0:
		b.t(prnSp, name)
		b.t(prnSp, ")")
	case 1:
		b.t(prnSp, name)
		b.tight(")")
	case 2:
		b.tight(name)
		b.t(prnSp, ")")
	default:
		b.tight("/*c*/")
		b.t(prnSp, name)
		b.tight(")")
	}
}

func prnShuffle[T any](r *Rand, xs []T) {
	for i := len(xs) - 1; i > 0; i-- {
		j := r.Intn(i + 1)
		xs[i], xs[j] = xs[j], xs[i]
	}
}

// prnGenHeaderFile: one file of the large-header family.
func prnGenHeaderFile(r *Rand, spaced bool) []prnTok {
	b := &prnBuilder{r: r, syntax: Pick(r, []string{"proto2", "proto3", "proto3", "2023"})}
	if spaced {
		b.spacedStyle = Pick(r, []int{-1, 1, 2, 3, 4})
		b.mixCanon = r.Chance(1, 2)
	}
	lbl := func() string {
		if b.syntax == "proto2" {
			return "optional"
		}
		return ""
	}
	switch b.syntax {
	case "2023":
		b.t(prnTight, "edition", "=", `"2023"`)
	default:
		b.t(prnTight, "syntax", "=", `"`+b.syntax+`"`)
	}
	b.tight(";")
	val := 0
	next := func() string { val++; return fmt.Sprintf(`"v%d"`, val) }
	var header []func()
	header = append(header, func() {
		b.t(prnNl, "package", "hdr")
		b.tight(".", "pkg", ";")
	})
	imports := []string{"google/protobuf/descriptor.proto"}
	others := []string{"google/protobuf/any.proto", "google/protobuf/empty.proto", "google/protobuf/timestamp.proto",
		"google/protobuf/duration.proto", "google/protobuf/wrappers.proto"}
	prnShuffle(r, others)
	imports = append(imports, others[:1+r.Intn(4)]...)
	if r.Chance(1, 2) {
		prnSortStrings(imports) // already in canonical order: only the options can move
	} else {
		prnShuffle(r, imports)
	}
	for i, imp := range imports {
		imp := imp
		mod := ""
		if i > 0 && imp != "google/protobuf/descriptor.proto" {
			mod = Pick(r, []string{"", "", "public", "weak"})
			if mod == "weak" && b.syntax == "2023" {
				mod = ""
			}
		}
		header = append(header, func() {
			b.t(prnNl, "import")
			if mod != "" {
				b.t(prnSp, mod)
			}
			b.t(prnSp, `"`+imp+`"`)
			b.tight(";")
		})
	}
	var opts []func()
	std := append([][2]string(nil), prnHdrStdOptions...)
	if b.syntax == "2023" {
		std = std[:len(std)-1] // java_string_check_utf8 is not allowed with editions
	}
	prnShuffle(r, std)
	for _, o := range std[:4+r.Intn(10)] {
		o := o
		opts = append(opts, func() {
			b.t(prnNl, "option", o[0], "=", o[1])
			b.tight(";")
		})
	}
	custom := func(name string, v func() string) func() {
		return func() {
			b.extName(prnNl, spaced, []string{"option"}, name)
			b.t(prnSp, "=", v())
			b.tight(";")
		}
	}
	for i, n := 0, 3+r.Intn(4); i < n; i++ {
		opts = append(opts, custom("tags", next))
	}
	for i, n := 0, r.Intn(4); i < n; i++ {
		k := i
		opts = append(opts, custom("nums", func() string { return fmt.Sprint(10 + k) }))
	}
	if r.Chance(1, 2) {
		opts = append(opts, custom("zeta", next))
	}
	if r.Chance(1, 2) {
		opts = append(opts, custom("alpha", next))
	}
	// keep the relative order of the repeated options as drawn, then interleave everything
	if r.Chance(3, 4) {
		prnShuffle(r, opts)
	}
	// a few options travel behind the first body declarations
	late := 0
	if len(opts) > 6 && r.Chance(1, 2) {
		late = 1 + r.Intn(3)
	}
	header = append(header, opts[:len(opts)-late]...)
	if r.Chance(1, 2) {
		// imports and options interleaved; the package line anywhere
		prnShuffle(r, header)
	}
	for _, f := range header {
		f()
	}
	ext := func(target string, fields ...[3]string) {
		b.t(prnNl2, "extend", "google")
		b.tight(".", "protobuf", ".", target)
		b.t(prnSp, "{")
		b.depth++
		for _, f := range fields {
			if f[0] != "" {
				b.t(prnNl, f[0], f[1], f[2])
			} else {
				b.t(prnNl, f[1], f[2])
			}
			val++
			b.t(prnSp, "=", fmt.Sprint(50000+val))
			b.tight(";")
		}
		b.depth--
		b.t(prnNl, "}")
	}
	ext("FileOptions", [3]string{"repeated", "string", "tags"}, [3]string{"repeated", "int32", "nums"},
		[3]string{lbl(), "string", "zeta"}, [3]string{lbl(), "string", "alpha"})
	for _, f := range opts[len(opts)-late:] {
		f()
	}
	ext("MessageOptions", [3]string{"repeated", "string", "mtags"})
	ext("FieldOptions", [3]string{"repeated", "string", "ftags"})
	ext("EnumOptions", [3]string{"repeated", "string", "etags"})
	ext("EnumValueOptions", [3]string{"repeated", "string", "evtags"})
	ext("ServiceOptions", [3]string{"repeated", "string", "stags"})
	ext("MethodOptions", [3]string{"repeated", "string", "rtags"})
	// bodies with repeated options set several times, interleaved with other members
	bodyOpts := func(name string, n int, plain string) []func() {
		var out []func()
		for i := 0; i < n; i++ {
			out = append(out, func() {
				b.extName(prnNl, spaced, []string{"option"}, name)
				b.t(prnSp, "=", next())
				b.tight(";")
			})
		}
		if plain != "" {
			out = append(out, func() {
				b.t(prnNl, "option", plain, "=", "true")
				b.tight(";")
			})
		}
		return out
	}
	compact := func(name string, n int) {
		b.t(prnSp, "[")
		var parts []func()
		for i := 0; i < n; i++ {
			parts = append(parts, func() {
				b.extName(prnTight, spaced, nil, name)
				b.t(prnSp, "=", next())
			})
		}
		parts = append(parts, func() { b.t(prnTight, "deprecated", "=", "true") })
		prnShuffle(r, parts)
		for i, f := range parts {
			if i > 0 {
				b.tight(",")
			}
			start := len(b.toks)
			f()
			if i > 0 && start < len(b.toks) {
				b.toks[start].hint = prnSp
			}
		}
		b.tight("]")
	}
	// message
	b.t(prnNl2, "message", "HM", "{")
	b.depth++
	members := bodyOpts("mtags", 2+r.Intn(4), "deprecated")
	for i := 1; i <= 2+r.Intn(3); i++ {
		i := i
		members = append(members, func() {
			if l := lbl(); l != "" {
				b.t(prnNl, l, "int32")
			} else {
				b.t(prnNl, "int32")
			}
			b.t(prnSp, fmt.Sprintf("f%d", i), "=", fmt.Sprint(i))
			if r.Chance(2, 3) {
				compact("ftags", 2+r.Intn(3))
			}
			b.tight(";")
		})
	}
	prnShuffle(r, members)
	for _, f := range members {
		f()
	}
	b.depth--
	b.t(prnNl, "}")
	// enum
	b.t(prnNl2, "enum", "HE", "{")
	b.depth++
	members = bodyOpts("etags", 2+r.Intn(3), "deprecated")
	members = append(members, func() {}) // placeholder keeps the first value first
	prnShuffle(r, members)
	b.t(prnNl, "HE_ZERO", "=", "0")
	compact("evtags", 2+r.Intn(3))
	b.tight(";")
	for _, f := range members {
		f()
	}
	b.t(prnNl, "HE_ONE", "=", "1")
	b.tight(";")
	b.depth--
	b.t(prnNl, "}")
	// service
	b.t(prnNl2, "service", "HS", "{")
	b.depth++
	members = bodyOpts("stags", 2+r.Intn(3), "deprecated")
	members = append(members, func() {
		b.t(prnNl, "rpc", "Call")
		b.tight("(", "HM", ")")
		b.t(prnSp, "returns", "(")
		b.tight("HM", ")")
		b.t(prnSp, "{")
		b.depth++
		inner := bodyOpts("rtags", 2+r.Intn(3), "deprecated")
		prnShuffle(r, inner)
		for _, f := range inner {
			f()
		}
		b.depth--
		b.t(prnNl, "}")
	})
	prnShuffle(r, members)
	for _, f := range members {
		f()
	}
	b.depth--
	b.t(prnNl, "}")
	return b.toks
}

// ---------------------------------------------------------------- option-literal-shapes family
//
// One option message literal per file, at a file / message / field / enum-value / service+method
// option position, over a fixed set of literal SHAPES ({} and <> delimiters nested and mixed,
// list literals of scalars and of messages, `:` present or omitted before message values,
// `,` / `;` / no separators, extension names and Any type URLs in brackets, string concatenation,
// signed numbers, empty literals, one-line and multi-line layouts), crossed with a comment or a
// blank line at EVERY token boundary of the literal (from the `=` in front of it to the token
// behind it).

// prnLitShapes: space-separated tokens; the two characters \n make the next token start a new line.
var prnLitShapes = []string{
	`{ a : 1 , b : "x" }`,
	`{ a : - 1 ; b : "x" "y" ; }`,
	`{ a : 1 b : "x" c : 2 c : 3 }`,
	`{ c : [ 1 , 2 , 3 ] }`,
	`{ d { a : 1 } }`,
	`{ d : { a : 1 } , a : 2 }`,
	`{ d < a : 2 > }`,
	`{ d : < a : 2 b : "z" > a : 3 }`,
	`{ e : [ { a : 1 } , < a : 2 > ] }`,
	`{ e { a : 1 } e < a : 2 > }`,
	`{ [ lit . x ] : 5 , a : 1 }`,
	`{ y { [ type . googleapis . com / lit . L ] { a : 1 } } }`,
	`{ d < d { d < a : 1 > } > }`,
	`{ \n a : 1 , \n d < \n a : 2 \n > \n }`,
	`{ \n d : { \n a : 1 ; \n b : "x" \n "y" \n } \n c : [ \n 1 , \n 2 \n ] \n }`,
	`{ }`,
	`{ d { } e < > }`,
	`{ \n e : [ \n < a : 1 > , \n { b : "q" } \n ] \n }`,
	`{ d < \n a : 2 > }`,
}

const prnLitPositions = 6

// prnLitFile builds the file for (shape, position) and returns the token range [lo, hi] whose
// leading gaps are the boundaries of the literal (`=` .. the token behind the literal).
func prnLitFile(shape string, pos int, syntax string) (toks []prnTok, ranges [][2]int) {
	var lo, hi int
	b := &prnBuilder{r: NewRand(1), syntax: syntax}
	opt := "optional"
	if syntax == "proto3" {
		opt = ""
	}
	fld := func(label, ty, name, num string) {
		if label != "" {
			b.t(prnNl, label, ty, name, "=", num)
		} else {
			b.t(prnNl, ty, name, "=", num)
		}
		b.tight(";")
	}
	b.t(prnTight, "syntax", "=", `"`+syntax+`"`)
	b.tight(";")
	b.t(prnNl, "package", "lit")
	b.tight(";")
	b.t(prnNl, "import", `"google/protobuf/any.proto"`)
	b.tight(";")
	b.t(prnNl, "import", `"google/protobuf/descriptor.proto"`)
	b.tight(";")
	b.t(prnNl2, "message", "L", "{")
	b.depth++
	fld(opt, "int32", "a", "1")
	fld(opt, "string", "b", "2")
	fld("repeated", "int32", "c", "3")
	fld(opt, "L", "d", "4")
	fld("repeated", "L", "e", "5")
	if opt != "" {
		b.t(prnNl, opt, "google")
	} else {
		b.t(prnNl, "google")
	}
	b.tight(".", "protobuf", ".", "Any")
	b.t(prnSp, "y", "=", "6")
	b.tight(";")
	if syntax == "proto2" {
		b.t(prnNl, "extensions", "100", "to", "200")
		b.tight(";")
	}
	b.depth--
	b.t(prnNl, "}")
	if syntax == "proto2" {
		b.t(prnNl2, "extend", "L", "{")
		b.depth++
		fld("optional", "int32", "x", "100")
		b.depth--
		b.t(prnNl, "}")
	}
	ext := func(target, name, num string) {
		b.t(prnNl2, "extend", "google")
		b.tight(".", "protobuf", ".", target)
		b.t(prnSp, "{")
		b.depth++
		fld(opt, "L", name, num)
		b.depth--
		b.t(prnNl, "}")
	}
	// only the extensions the position needs (keeps the files small)
	switch pos {
	case 0:
		ext("FileOptions", "fo", "51000")
	case 1:
		ext("MessageOptions", "mo", "51001")
	case 2, 3:
		ext("FieldOptions", "flo", "51002")
	case 4:
		ext("EnumValueOptions", "evo", "51003")
	default:
		ext("ServiceOptions", "so", "51004")
		ext("MethodOptions", "meo", "51005")
	}
	for i := range b.toks {
		b.toks[i].lock = true
	}
	lit := func() {
		lo = len(b.toks) - 1 // the `=`
		next := prnSp
		depth0 := b.depth
		for _, w := range strings.Split(shape, " ") {
			if w == "" {
				continue
			}
			if w == `\n` {
				next = prnNl
				continue
			}
			if w == "}" || w == ">" || w == "]" {
				if b.depth > depth0 {
					b.depth--
				}
			}
			b.toks = append(b.toks, prnTok{text: w, hint: next, depth: b.depth})
			next = prnSp
			if w == "{" || w == "<" || w == "[" {
				b.depth++
			}
		}
		b.depth = depth0
	}
	name := func(h prnHint, lead []string, n string) {
		b.t(h, lead...)
		if len(lead) > 0 {
			b.t(prnSp, "(")
		} else {
			b.t(h, "(")
		}
		b.tight(n, ")")
		b.t(prnSp, "=")
	}
	switch pos {
	case 0: // file option
		name(prnNl2, []string{"option"}, "fo")
		lit()
		b.tight(";")
		hi = len(b.toks) - 1
	case 1: // message option
		b.t(prnNl2, "message", "M", "{")
		b.depth++
		name(prnNl, []string{"option"}, "mo")
		lit()
		b.tight(";")
		hi = len(b.toks) - 1
		fld(opt, "int32", "q", "1")
		b.depth--
		b.t(prnNl, "}")
	case 2, 3: // field compact options, alone / after another option
		b.t(prnNl2, "message", "M", "{")
		b.depth++
		if opt != "" {
			b.t(prnNl, opt, "int32", "q", "=", "1", "[")
		} else {
			b.t(prnNl, "int32", "q", "=", "1", "[")
		}
		if pos == 3 {
			b.tight("deprecated")
			b.t(prnSp, "=", "true")
			b.tight(",")
			name(prnSp, nil, "flo")
		} else {
			name(prnTight, nil, "flo")
		}
		lit()
		b.tight("]")
		hi = len(b.toks) - 1
		b.tight(";")
		b.depth--
		b.t(prnNl, "}")
	case 4: // enum value compact options
		b.t(prnNl2, "enum", "E", "{")
		b.depth++
		b.t(prnNl, "E_A", "=", "0", "[")
		name(prnTight, nil, "evo")
		lit()
		b.tight("]")
		hi = len(b.toks) - 1
		b.tight(";")
		b.depth--
		b.t(prnNl, "}")
	default: // service option and method option
		b.t(prnNl2, "service", "S", "{")
		b.depth++
		name(prnNl, []string{"option"}, "so")
		lit()
		b.tight(";")
		ranges = append(ranges, [2]int{lo, len(b.toks) - 1})
		b.t(prnNl, "rpc", "R")
		b.tight("(", "L", ")")
		b.t(prnSp, "returns", "(")
		b.tight("L", ")")
		b.t(prnSp, "{")
		b.depth++
		name(prnNl, []string{"option"}, "meo")
		lit()
		b.tight(";")
		hi = len(b.toks) - 1
		b.depth--
		b.t(prnNl, "}")
		b.depth--
		b.t(prnNl, "}")
	}
	ranges = append(ranges, [2]int{lo, hi})
	return b.toks, ranges
}

// prnLitTrivia: what is put at a token boundary of the literal.
var prnLitTrivia = []string{" // c\n", " /* c */ ", "\n\n", "\n// c\n", "\n", "\n  /* m\n   * n */\n"}

// prnLitSources: the family for one tier (quick: one or two positions per shape; thorough: all).
func prnLitSources(r *Rand, tier string, trivia []string) []string {
	var out []string
	for si, shape := range prnLitShapes {
		positions := []int{si % prnLitPositions}
		if strings.Contains(shape, "<") {
			positions = append(positions, (si+3)%prnLitPositions)
		}
		if tier == "thorough" {
			positions = []int{0, 1, 2, 3, 4, 5}
		}
		for _, pos := range positions {
			syntax := "proto2"
			if !strings.Contains(shape, "lit . x") && (si+pos)%4 == 3 {
				syntax = "proto3"
			}
			toks, ranges := prnLitFile(shape, pos, syntax)
			out = append(out, prnAssemble(toks, nil, "\n"))
			var bounds []int
			for _, rg := range ranges {
				for i := rg[0]; i <= rg[1]+1 && i < len(toks); i++ {
					bounds = append(bounds, i)
				}
			}
			for _, i := range bounds {
				for _, tv := range trivia {
					out = append(out, prnAssemble(toks, map[int]string{i: tv}, "\n"))
				}
			}
			// two boundaries at once
			n := 6
			if tier == "thorough" {
				n = 60
			}
			for k := 0; k < n; k++ {
				g := map[int]string{}
				for j := 0; j < 2+r.Intn(2); j++ {
					g[Pick(r, bounds)] = Pick(r, trivia)
				}
				out = append(out, prnAssemble(toks, g, "\n"))
			}
		}
	}
	return out
}
