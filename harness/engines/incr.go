package engines

import (
	"context"
	"errors"
	"fmt"
	"os"
	"runtime"
	"runtime/debug"
	"sort"
	"strconv"
	"strings"
	"sync"
	"sync/atomic"
	"time"

	"github.com/bufbuild/protocompile/experimental/incremental"
)

// incr / incr_fail: the incremental executor (experimental/incremental) driven with
// synthetic arithmetic queries over generated dependency graphs (C33, C34).
//
// Ops (one case = one executor history):
//   new <p>                         fresh executor with parallelism p
//   def <k> <flags> <step>...       query k; flags ⊆ {e,f,p,q} or "-"; step = <g><k>,<k>,..  (g: a always, o if v odd, v if v even)
//   set <k> <v>                     change the environment value read by query k (an "input file")
//   evict <k>...                    Executor.Evict
//   run <k>...                      one incremental.Run with these roots
//   runc <k,k|k,k|...>              concurrent Runs (one goroutine each)
//   runw <k> <a,b> <c,d>            Run(a,b) is held inside Execute of k until Run(c,d) is parked waiting; then k proceeds
//   runev <g> <keys> <k=v,..|->     Run(g) held at the start of Execute(g) while EvictWithCleanup(keys, inputs := ...) is entered concurrently
//   runp <k> <r>...                 Run(k, r...) with Execute of k held until the other queries' leaders are parked in acquire
//   runel <g> <keys|-> <k=v,..|-> <a,b|c|..>  Run(g) held at the start of Execute(g); EvictWithCleanup(keys, inputs := ...) entered
//                                   and parked at the executor's lock; THEN one late Run per group is started and left to
//                                   reach its blocking point behind the pending eviction; then g proceeds. Linearisation:
//                                   Run(g); eviction; the late Runs. Answer: "<Run(g): r x c m> ;; <late Runs: r x c m keys>"
//   dump                            task table (deps / callers / state)
//   permits                         can all p permits be acquired?
//
// Body of query k (the same arithmetic is implemented by the Lean model and, independently,
// by the naive evaluator of the Lean oracle):
//   v = k+1 (+ env[k] if e);  q: panic if env[k] even
//   per step whose guard holds on v: Resolve(step keys); ctx error -> return it;
//       first Fatal in order -> return it;  v = (31 v + sum (j+1) val_j) mod 1000003
//   p: panic if env[k] even;  f: fatal(k) if v mod 3 == 0;  else v

type incrStep struct {
	guard byte
	keys  []int
}

type incrNode struct {
	env, fat, panicEnd, panicStart bool
	steps                          []incrStep
}

type incrFatal int

func (f incrFatal) Error() string { return fmt.Sprintf("fatal%d", int(f)) }

type incrRunObs struct {
	mu sync.Mutex
	// key -> seen Changed=false, seen Changed=true
	seen map[int][2]bool
}

func (o *incrRunObs) add(k int, ch bool) {
	o.mu.Lock()
	s := o.seen[k]
	if ch {
		s[1] = true
	} else {
		s[0] = true
	}
	o.seen[k] = s
	o.mu.Unlock()
}

type incrWorld struct {
	mu    sync.Mutex
	nodes map[int]*incrNode
	env   map[int]int64
	count map[int]int
	// gate: Execute of gateKey blocks until gateCh is closed (runw)
	gateKey     int
	gateCh      chan struct{}
	gateStarted chan struct{}
}

type incrObsKey struct{}

type incrQ struct {
	id int
	w  *incrWorld
}

func (q incrQ) Key() any { return q.id }

func (q incrQ) Execute(t *incremental.Task) (int64, error) {
	w := q.w
	w.mu.Lock()
	n := w.nodes[q.id]
	w.count[q.id]++
	env := w.env[q.id]
	gate, started := w.gateCh, w.gateStarted
	isGate := gate != nil && w.gateKey == q.id
	w.mu.Unlock()
	if n == nil {
		panic(fmt.Sprintf("undefined query %d", q.id))
	}
	if isGate {
		select {
		case started <- struct{}{}:
		default:
		}
		<-gate
	}
	obs, _ := t.Context().Value(incrObsKey{}).(*incrRunObs)
	v := int64(q.id + 1)
	if n.env {
		v += env
	}
	if n.panicStart && env%2 == 0 {
		panic(fmt.Sprintf("boom%d", q.id))
	}
	for _, st := range n.steps {
		switch st.guard {
		case 'o':
			if v%2 != 1 {
				continue
			}
		case 'v':
			if v%2 != 0 {
				continue
			}
		}
		qs := make([]incremental.Query[int64], len(st.keys))
		for i, k := range st.keys {
			qs[i] = incrQ{k, w}
		}
		rs, err := incremental.Resolve(t, qs...)
		if obs != nil {
			for j, r := range rs {
				obs.add(st.keys[j], r.Changed)
			}
		}
		if err != nil {
			return 0, err
		}
		var sum int64
		var fatal error
		for j, r := range rs {
			if r.Fatal != nil && fatal == nil {
				fatal = r.Fatal
			}
			sum += int64(j+1) * r.Value
		}
		if fatal != nil {
			return 0, fatal
		}
		v = (31*v + sum) % 1000003
	}
	if n.panicEnd && env%2 == 0 {
		panic(fmt.Sprintf("boom%d", q.id))
	}
	if n.fat && v%3 == 0 {
		return 0, incrFatal(q.id)
	}
	return v, nil
}

type incrEngine struct {
	name string
	p    int
	ex   *incremental.Executor
	w    *incrWorld
	hung bool
	// hooks of runGroup used by runev: after the Runs were started / after they all returned
	postStart func()
	preAnswer func() string
	// render, if non-nil, replaces the rendering of runGroup's answer (used by runel)
	render func(outs []*incrRunOut, before map[int]int) string
	// number of Runs of the current runGroup call that have returned
	runsReturned atomic.Int32
}

func init() {
	Register("incr", func() Engine { return &incrEngine{name: "incr"} })
	Register("incr_fail", func() Engine { return &incrEngine{name: "incr_fail"} })
}

func (e *incrEngine) Name() string { return e.name }

func (e *incrEngine) Reset() {
	e.p = 1
	e.ex = incremental.New(incremental.WithParallelism(1))
	e.w = &incrWorld{nodes: map[int]*incrNode{}, env: map[int]int64{}, count: map[int]int{}}
	e.hung = false
}

func incrInts(s string) ([]int, bool) {
	if s == "" || s == "-" {
		return nil, true
	}
	var out []int
	for _, x := range strings.Split(s, ",") {
		n, err := strconv.Atoi(x)
		if err != nil || n < 0 {
			return nil, false
		}
		out = append(out, n)
	}
	return out, true
}

func incrJoin(xs []int) string {
	if len(xs) == 0 {
		return "-"
	}
	s := make([]string, len(xs))
	for i, x := range xs {
		s[i] = strconv.Itoa(x)
	}
	return strings.Join(s, ",")
}

func incrKeyInt(k any) int {
	if n, ok := k.(int); ok {
		return n
	}
	return -1
}

// incrErrClass maps an error to a small canonical form.
func incrErrClass(err error) string {
	if err == nil {
		return "-"
	}
	var f incrFatal
	if errors.As(err, &f) {
		return "f" + strconv.Itoa(int(f))
	}
	var cyc *incremental.ErrCycle
	if errors.As(err, &cyc) {
		ks := make([]string, len(cyc.Cycle))
		for i, q := range cyc.Cycle {
			ks[i] = strconv.Itoa(incrKeyInt(q.Key()))
		}
		return "cyc[" + strings.Join(ks, ">") + "]"
	}
	var pan *incremental.ErrPanic
	if errors.As(err, &pan) {
		return "pan" + strconv.Itoa(incrKeyInt(pan.Query.Key()))
	}
	if errors.Is(err, context.Canceled) || errors.Is(err, context.DeadlineExceeded) {
		return "ctx"
	}
	return "other:" + Canon(err.Error())
}

func (e *incrEngine) keysField() string {
	var ks []int
	for _, s := range e.ex.Keys() {
		n, err := strconv.Atoi(s)
		if err != nil {
			n = -1
		}
		ks = append(ks, n)
	}
	sort.Ints(ks)
	return "keys=" + incrJoin(ks)
}

type incrRunOut struct {
	roots   []int
	res     []incremental.Result[int64]
	err     error
	obs     *incrRunObs
	paniced string
}

// doRun performs one Run under recover.
func (e *incrEngine) doRun(roots []int) (out *incrRunOut) {
	out = &incrRunOut{roots: roots, obs: &incrRunObs{seen: map[int][2]bool{}}}
	defer func() {
		if r := recover(); r != nil {
			out.paniced = Canon(fmt.Sprint(r))
			if os.Getenv("INCR_DEBUG") != "" {
				os.Stderr.Write(debug.Stack())
			}
		}
	}()
	qs := make([]incremental.Query[int64], len(roots))
	for i, k := range roots {
		qs[i] = incrQ{k, e.w}
	}
	ctx := context.WithValue(context.Background(), incrObsKey{}, out.obs)
	res, _, err := incremental.Run(ctx, e.ex, qs...)
	out.res, out.err = res, err
	for i, r := range res {
		out.obs.add(roots[i], r.Changed)
	}
	return out
}

func incrResText(r incremental.Result[int64]) string {
	if r.Fatal != nil {
		return incrErrClass(r.Fatal)
	}
	return "v" + strconv.FormatInt(r.Value, 10)
}

const incrWatchdog = 1200 * time.Millisecond

// Deadlines are SOFT: when one expires the engine does not conclude at once (the machine may
// just be busy) but samples the goroutine dump. A hang / leak / "will not park" verdict is
// reached only after incrQuietSamples consecutive samples, incrSampleEvery apart, in which every
// goroutine that is inside the executor or inside a query is parked (channel, select, semaphore,
// sync primitive) -- i.e. nothing can make progress any more -- or after incrHardCap.
const (
	incrSampleEvery  = 125 * time.Millisecond
	incrQuietSamples = 5
	incrHardCap      = 30 * time.Second
)

// Every hang costs a watchdog period and every leaked permit a grace period. On a broken tree
// thousands of ops may hang; after this many the engine stops waiting (the answers still differ
// from the model's, so the check fails, but it fails fast).
const incrSlowBudget = 24

var incrSlowCount int

// runGroup runs the given root lists concurrently (one Run each) under a watchdog.
// hold, if non-nil, is called after the runs were started (used by runw).
func (e *incrEngine) runGroup(groups [][]int, withFlags bool, coarse bool, sequentialStart func(i int)) string {
	before := map[int]int{}
	e.w.mu.Lock()
	for k, c := range e.w.count {
		before[k] = c
	}
	e.w.mu.Unlock()
	outs := make([]*incrRunOut, len(groups))
	done := make(chan int, len(groups))
	e.runsReturned.Store(0)
	for i := range groups {
		if sequentialStart != nil {
			sequentialStart(i)
		}
		go func() {
			outs[i] = e.doRun(groups[i])
			e.runsReturned.Add(1)
			done <- i
		}()
	}
	if e.postStart != nil {
		e.postStart()
	}
	timer := time.NewTimer(incrWatchdog)
	defer timer.Stop()
	hardCap := time.Now().Add(incrHardCap)
	quiet := 0
	finished := make([]bool, len(groups))
	for n := 0; n < len(groups); {
		select {
		case i := <-done:
			finished[i] = true
			n++
		case <-timer.C:
			// soft deadline: hung only if nothing can make progress any more. A run that is still
			// held by the harness's own gate is waiting for the harness, not hung.
			if incrAllParked() && !e.gateClosedPending() {
				quiet++
			} else {
				quiet = 0
			}
			if quiet < incrQuietSamples && time.Now().Before(hardCap) {
				timer.Reset(incrSampleEvery)
				continue
			}
			e.hung = true
			incrSlowCount++
			var hs []string
			for i, f := range finished {
				if !f {
					hs = append(hs, strconv.Itoa(i))
				}
			}
			// release a possible gate so that leaked goroutines can die
			e.w.mu.Lock()
			if e.w.gateCh != nil {
				select {
				case <-e.w.gateCh:
				default:
					close(e.w.gateCh)
				}
			}
			e.w.mu.Unlock()
			return "hang runs=" + strings.Join(hs, ",")
		}
	}
	if e.preAnswer != nil {
		if bad := e.preAnswer(); bad != "" {
			e.hung = true
			incrSlowCount++
			return bad
		}
	}
	if e.render != nil {
		return e.render(outs, before)
	}
	if coarse {
		return e.coarseAnswer(outs, before, nil, true)
	}
	return e.detailedAnswer(outs, before, nil, withFlags, true)
}

// countsNow copies the execution counters.
func (e *incrEngine) countsNow() map[int]int {
	m := map[int]int{}
	e.w.mu.Lock()
	for k, c := range e.w.count {
		m[k] = c
	}
	e.w.mu.Unlock()
	return m
}

// incrCountDiff renders the executions between two snapshots of the counters (after == nil: now).
func (e *incrEngine) countDiff(before, after map[int]int) string {
	if after == nil {
		after = e.countsNow()
	}
	var xk []int
	for k, c := range after {
		if c != before[k] {
			xk = append(xk, k)
		}
	}
	sort.Ints(xk)
	var xparts []string
	for _, k := range xk {
		xparts = append(xparts, fmt.Sprintf("%d:%d", k, after[k]-before[k]))
	}
	if len(xparts) == 0 {
		return "-"
	}
	return strings.Join(xparts, ",")
}

// detailedAnswer renders results, executions (between the snapshots before and after; after == nil:
// now), Changed observations and, if keys, the memoized keys.
func (e *incrEngine) detailedAnswer(outs []*incrRunOut, before, after map[int]int, withFlags, keys bool) string {
	var rparts []string
	for _, o := range outs {
		if o.paniced != "" {
			rparts = append(rparts, "PANIC:"+o.paniced)
			continue
		}
		if o.err != nil {
			rparts = append(rparts, "E:"+incrErrClass(o.err))
			continue
		}
		var xs []string
		for _, r := range o.res {
			t := incrResText(r)
			if withFlags {
				if r.Changed {
					t += ":1"
				} else {
					t += ":0"
				}
			}
			xs = append(xs, t)
		}
		if len(xs) == 0 {
			xs = []string{"-"}
		}
		rparts = append(rparts, strings.Join(xs, ","))
	}
	// Changed flags: per key the number of runs that saw true; keys for which one run saw both
	trueRuns := map[int]int{}
	var mixed []int
	seenKey := map[int]bool{}
	for _, o := range outs {
		for k, s := range o.obs.seen {
			seenKey[k] = true
			if s[1] {
				trueRuns[k]++
			}
			if s[0] && s[1] {
				mixed = append(mixed, k)
			}
		}
	}
	var ck []int
	for k := range seenKey {
		ck = append(ck, k)
	}
	sort.Ints(ck)
	sort.Ints(mixed)
	var cparts []string
	for _, k := range ck {
		cparts = append(cparts, fmt.Sprintf("%d:%d", k, trueRuns[k]))
	}
	join := func(xs []string, sep string) string {
		if len(xs) == 0 {
			return "-"
		}
		return strings.Join(xs, sep)
	}
	ans := fmt.Sprintf("r=%s x=%s c=%s m=%s", join(rparts, "|"), e.countDiff(before, after), join(cparts, ","), incrJoin(mixed))
	if keys {
		ans += " " + e.keysField()
	}
	return ans
}

// seqDefs reports whether every Resolve call of every defined query has exactly one key.
func (e *incrEngine) seqDefs() bool {
	for _, n := range e.w.nodes {
		for _, st := range n.steps {
			if len(st.keys) != 1 {
				return false
			}
		}
	}
	return true
}

func (e *incrEngine) staticEdge(a, b int) bool {
	n := e.w.nodes[a]
	if n == nil {
		return false
	}
	for _, st := range n.steps {
		for _, k := range st.keys {
			if k == b {
				return true
			}
		}
	}
	return false
}

// coarseAnswer keeps only what does not depend on the schedule: per root the value or "F"
// (failed), whether every reported cycle is a closed walk of the defined graph, the execution
// counts and the memoized keys; for a run that failed with a panic only that it did and
// whether the blamed query is one that panics.
func (e *incrEngine) coarseAnswer(outs []*incrRunOut, before, after map[int]int, keys bool) string {
	cycOK := true
	var seenCycles []string
	checkCycle := func(err error) {
		var cyc *incremental.ErrCycle
		if !errors.As(err, &cyc) {
			return
		}
		seenCycles = append(seenCycles, incrErrClass(err))
		c := cyc.Cycle
		if len(c) < 2 || incrKeyInt(c[0].Key()) != incrKeyInt(c[len(c)-1].Key()) {
			cycOK = false
			return
		}
		for i := 0; i+1 < len(c); i++ {
			if !e.staticEdge(incrKeyInt(c[i].Key()), incrKeyInt(c[i+1].Key())) {
				cycOK = false
			}
		}
	}
	var rparts []string
	for _, o := range outs {
		if o.paniced != "" {
			return "r=PANIC:" + o.paniced
		}
	}
	for _, o := range outs {
		if o.err != nil {
			var pan *incremental.ErrPanic
			if errors.As(o.err, &pan) {
				k := incrKeyInt(pan.Query.Key())
				e.w.mu.Lock()
				n := e.w.nodes[k]
				ok := n != nil && (n.panicStart || n.panicEnd) && e.w.env[k]%2 == 0
				e.w.mu.Unlock()
				// after " ~ ": schedule-dependent detail for the Lean oracle (not compared with the model)
				if ok {
					return "r=E:pan pk=ok ~ " + incrErrClass(o.err)
				}
				return "r=E:pan pk=bad ~ " + incrErrClass(o.err)
			}
			return "r=E:" + incrErrClass(o.err)
		}
	}
	for _, o := range outs {
		var xs []string
		for _, r := range o.res {
			if r.Fatal != nil {
				checkCycle(r.Fatal)
				var pan *incremental.ErrPanic
				if errors.As(r.Fatal, &pan) {
					xs = append(xs, incrErrClass(r.Fatal)) // a memoized panic error is not just any failure
				} else {
					xs = append(xs, "F")
				}
			} else {
				xs = append(xs, "v"+strconv.FormatInt(r.Value, 10))
			}
		}
		if len(xs) == 0 {
			xs = []string{"-"}
		}
		rparts = append(rparts, strings.Join(xs, ","))
	}
	x := e.countDiff(before, after)
	cyc := "ok"
	if !cycOK {
		cyc = "bad"
	}
	ans := fmt.Sprintf("r=%s cyc=%s x=%s", strings.Join(rparts, "|"), cyc, x)
	if keys {
		ans += " " + e.keysField()
	}
	if len(seenCycles) > 0 {
		// the cycles actually reported depend on the schedule: they go behind " ~ " where the Lean
		// oracle checks them but the model is not asked to predict them
		ans += " ~ " + strings.Join(seenCycles, ";")
	}
	return ans
}

func (e *incrEngine) dump() string {
	ts := e.ex.VerifDump()
	sort.Slice(ts, func(i, j int) bool { return incrKeyInt(ts[i].Key) < incrKeyInt(ts[j].Key) })
	var parts []string
	for _, t := range ts {
		var ds, cs []int
		for _, d := range t.Deps {
			ds = append(ds, incrKeyInt(d))
		}
		for _, c := range t.Callers {
			cs = append(cs, incrKeyInt(c))
		}
		sort.Ints(ds)
		sort.Ints(cs)
		st := "n"
		switch t.State {
		case 1:
			st = "p"
		case 2:
			st = "d"
		}
		parts = append(parts, fmt.Sprintf("%d[%s]d=%s;c=%s", incrKeyInt(t.Key), st, incrJoin(ds), incrJoin(cs)))
	}
	if len(parts) == 0 {
		return "tasks -"
	}
	return "tasks " + strings.Join(parts, " ")
}

// incrGoroutines returns the goroutine dump split into one block per goroutine.
func incrGoroutines() []string {
	buf := make([]byte, 1<<20)
	for {
		n := runtime.Stack(buf, true)
		if n < len(buf) {
			buf = buf[:n]
			break
		}
		buf = make([]byte, 2*len(buf))
	}
	return strings.Split(string(buf), "\n\n")
}

// incrParkedIn counts the goroutines blocked in a select inside the given function.
func incrParkedIn(fn string) int {
	c := 0
	for _, g := range incrGoroutines() {
		if strings.Contains(g, fn) && strings.Contains(g, "[select") {
			c++
		}
	}
	return c
}

// incrGoroutineState extracts the wait state from "goroutine 12 [select, 2 minutes]:".
func incrGoroutineState(g string) string {
	i := strings.IndexByte(g, '[')
	j := strings.IndexByte(g, ']')
	if i < 0 || j < i {
		return "?"
	}
	st := g[i+1 : j]
	if k := strings.IndexByte(st, ','); k >= 0 {
		st = st[:k]
	}
	return st
}

// incrIsParkedState: blocked on a channel, select, semaphore or sync primitive -- a state that
// only another goroutine can end. running / runnable / preempted / sleep / syscall / GC waits
// are not: the goroutine will go on by itself once it gets a CPU.
func incrIsParkedState(st string) bool {
	return strings.HasPrefix(st, "chan ") || strings.HasPrefix(st, "select") ||
		strings.HasPrefix(st, "semacquire") || strings.HasPrefix(st, "sync.")
}

// incrAllParked reports whether every goroutine that is inside the incremental executor or inside
// one of the harness's queries is parked (goroutines stranded by earlier cases are parked for ever
// and do not matter). Only then can a missed deadline be blamed on the code rather than on load.
func incrAllParked() bool {
	for _, g := range incrGoroutines() {
		if !strings.Contains(g, "protocompile/experimental/") && !strings.Contains(g, "engines.incrQ.Execute") {
			continue
		}
		if !incrIsParkedState(incrGoroutineState(g)) {
			return false
		}
	}
	return true
}

// incrWaitFor polls cond. After the soft deadline it gives up only once the executor has been
// quiescent (incrAllParked) for incrQuietSamples consecutive samples, or after incrHardCap.
func incrWaitFor(soft time.Duration, cond func() bool) bool {
	start := time.Now()
	quiet := 0
	var nextSample time.Time
	for {
		if cond() {
			return true
		}
		now := time.Now()
		if el := now.Sub(start); el >= soft {
			if el >= incrHardCap {
				return false
			}
			if !now.Before(nextSample) {
				if incrAllParked() {
					quiet++
				} else {
					quiet = 0
				}
				if quiet >= incrQuietSamples {
					return cond()
				}
				nextSample = now.Add(incrSampleEvery)
			}
		}
		time.Sleep(200 * time.Microsecond)
	}
}

// incrWaitSignal waits for a value on ch with the same soft-deadline rule.
func incrWaitSignal(soft time.Duration, ch <-chan struct{}) bool {
	got := false
	return incrWaitFor(soft, func() bool {
		if got {
			return true
		}
		select {
		case <-ch:
			got = true
		default:
		}
		return got
	})
}

// gateClosedPending reports whether a gate op is in progress and its gate has not been opened yet.
func (e *incrEngine) gateClosedPending() bool {
	e.w.mu.Lock()
	defer e.w.mu.Unlock()
	if e.w.gateCh == nil {
		return false
	}
	select {
	case <-e.w.gateCh:
		return false
	default:
		return true
	}
}

// incrParkedEvictions counts the goroutines parked inside Executor.EvictWithCleanup (at its lock).
func incrParkedEvictions() int {
	c := 0
	for _, g := range incrGoroutines() {
		if strings.Contains(g, "(*Executor).EvictWithCleanup") && incrIsParkedState(incrGoroutineState(g)) {
			c++
		}
	}
	return c
}

// incrParkedLateRuns counts the goroutines that are parked inside incremental.Run but not inside a
// query: blocked at the executor's lock or at the semaphore of the root task.
func incrParkedLateRuns() int {
	c := 0
	for _, g := range incrGoroutines() {
		if strings.Contains(g, "incremental.Run[") && !strings.Contains(g, "engines.incrQ.Execute") && incrIsParkedState(incrGoroutineState(g)) {
			c++
		}
	}
	return c
}

// incrParkedCount counts the goroutines blocked in the select of (*task).waitUntilDone.
func incrParkedCount() int { return incrParkedIn("(*task).waitUntilDone") }

// incrWaitParked waits until more than base goroutines are parked in waitUntilDone (goroutines
// stranded by earlier cases stay parked for ever); gives up when the executor is quiescent.
func incrWaitParked(base int, soft time.Duration) bool {
	return incrWaitFor(soft, func() bool { return incrParkedCount() > base })
}

func (e *incrEngine) Exec(op string) string {
	w := strings.Fields(op)
	if len(w) == 0 {
		return "bad-op"
	}
	if e.hung && w[0] != "new" {
		return "after-hang"
	}
	if incrSlowCount >= incrSlowBudget && (strings.HasPrefix(w[0], "run") || w[0] == "permits") {
		return "slow-budget-exhausted"
	}
	switch w[0] {
	case "new":
		if len(w) != 2 {
			return "bad-op"
		}
		p, err := strconv.Atoi(w[1])
		if err != nil || p < 1 || p > 64 {
			return "bad-op"
		}
		e.p = p
		e.ex = incremental.New(incremental.WithParallelism(int64(p)))
		e.hung = false
		return "ok"
	case "def":
		if len(w) < 3 {
			return "bad-op"
		}
		k, err := strconv.Atoi(w[1])
		if err != nil || k < 0 {
			return "bad-op"
		}
		n := &incrNode{}
		if w[2] != "-" {
			for _, c := range w[2] {
				switch c {
				case 'e':
					n.env = true
				case 'f':
					n.fat = true
				case 'p':
					n.panicEnd = true
				case 'q':
					n.panicStart = true
				default:
					return "bad-op"
				}
			}
		}
		for _, s := range w[3:] {
			if len(s) < 2 || !strings.ContainsRune("aov", rune(s[0])) {
				return "bad-op"
			}
			ks, ok := incrInts(s[1:])
			if !ok || len(ks) == 0 {
				return "bad-op"
			}
			n.steps = append(n.steps, incrStep{guard: s[0], keys: ks})
		}
		e.w.mu.Lock()
		e.w.nodes[k] = n
		e.w.mu.Unlock()
		return "ok"
	case "set":
		if len(w) != 3 {
			return "bad-op"
		}
		k, err1 := strconv.Atoi(w[1])
		v, err2 := strconv.ParseInt(w[2], 10, 64)
		if err1 != nil || err2 != nil || k < 0 || v < 0 {
			return "bad-op"
		}
		e.w.mu.Lock()
		e.w.env[k] = v
		e.w.mu.Unlock()
		return "ok"
	case "evict":
		var keys []any
		for _, s := range w[1:] {
			k, err := strconv.Atoi(s)
			if err != nil || k < 0 {
				return "bad-op"
			}
			keys = append(keys, k)
		}
		e.ex.Evict(keys...)
		return e.keysField()
	case "run":
		var roots []int
		for _, s := range w[1:] {
			k, err := strconv.Atoi(s)
			if err != nil || k < 0 || e.w.nodes[k] == nil {
				return "bad-op"
			}
			roots = append(roots, k)
		}
		return e.runGroup([][]int{roots}, true, e.name == "incr_fail" && !(len(roots) == 1 && e.seqDefs()), nil)
	case "runc":
		if len(w) != 2 {
			return "bad-op"
		}
		var groups [][]int
		for _, g := range strings.Split(w[1], "|") {
			ks, ok := incrInts(g)
			if !ok {
				return "bad-op"
			}
			for _, k := range ks {
				if e.w.nodes[k] == nil {
					return "bad-op"
				}
			}
			groups = append(groups, ks)
		}
		if len(groups) < 2 {
			return "bad-op"
		}
		return e.runGroup(groups, false, e.name == "incr_fail", nil)
	case "runw":
		if len(w) != 4 {
			return "bad-op"
		}
		gk, err := strconv.Atoi(w[1])
		a, ok1 := incrInts(w[2])
		b, ok2 := incrInts(w[3])
		if err != nil || !ok1 || !ok2 || e.w.nodes[gk] == nil {
			return "bad-op"
		}
		for _, k := range append(append([]int{}, a...), b...) {
			if e.w.nodes[k] == nil {
				return "bad-op"
			}
		}
		e.w.mu.Lock()
		e.w.gateKey = gk
		e.w.gateCh = make(chan struct{})
		e.w.gateStarted = make(chan struct{}, 1)
		gate, started := e.w.gateCh, e.w.gateStarted
		e.w.mu.Unlock()
		parkedBefore := incrParkedCount()
		ans := e.runGroup([][]int{a, b}, false, false, func(i int) {
			if i == 1 {
				// second Run starts only once the first one is inside Execute of the gate key
				incrWaitSignal(incrWatchdog/2, started)
				go func() {
					// let the gate key proceed once the second Run is parked on it
					incrWaitParked(parkedBefore, incrWatchdog/3)
					e.w.mu.Lock()
					select {
					case <-gate:
					default:
						close(gate)
					}
					e.w.mu.Unlock()
				}()
			}
		})
		e.w.mu.Lock()
		e.w.gateCh = nil
		e.w.mu.Unlock()
		return ans
	case "runev":
		// runev <g> <evict keys> <k=v,..|->: Run(g) and EvictWithCleanup(keys, cleanup = the input
		// changes) issued CONCURRENTLY: the Run is held at the start of Execute(g); the eviction
		// call is entered and has reached the executor's exclusive lock before the Run goes on.
		if len(w) != 4 {
			return "bad-op"
		}
		g, err := strconv.Atoi(w[1])
		evk, ok := incrInts(w[2])
		if err != nil || !ok || g < 0 || e.w.nodes[g] == nil {
			return "bad-op"
		}
		type change struct {
			k int
			v int64
		}
		var changes []change
		if w[3] != "-" {
			for _, kv := range strings.Split(w[3], ",") {
				a, b, ok := strings.Cut(kv, "=")
				k, err1 := strconv.Atoi(a)
				v, err2 := strconv.ParseInt(b, 10, 64)
				if !ok || err1 != nil || err2 != nil || k < 0 || v < 0 {
					return "bad-op"
				}
				changes = append(changes, change{k, v})
			}
		}
		var keys []any
		for _, k := range evk {
			keys = append(keys, k)
		}
		e.w.mu.Lock()
		e.w.gateKey = g
		e.w.gateCh = make(chan struct{})
		e.w.gateStarted = make(chan struct{}, 1)
		gate, started := e.w.gateCh, e.w.gateStarted
		e.w.mu.Unlock()
		openGate := func() {
			e.w.mu.Lock()
			select {
			case <-gate:
			default:
				close(gate)
			}
			e.w.mu.Unlock()
		}
		evDone := make(chan struct{})
		isDone := func() bool {
			select {
			case <-evDone:
				return true
			default:
				return false
			}
		}
		e.postStart = func() {
			// the Run is inside Execute(g) -- or has returned without executing g (g memoized)
			gotStarted := false
			incrWaitFor(incrWatchdog/2, func() bool {
				select {
				case <-started:
					gotStarted = true
				default:
				}
				return gotStarted || e.runsReturned.Load() > 0
			})
			base := incrParkedEvictions()
			go func() {
				defer close(evDone)
				defer func() { _ = recover() }()
				e.ex.EvictWithCleanup(keys, func() {
					e.w.mu.Lock()
					for _, c := range changes {
						e.w.env[c.k] = c.v
					}
					e.w.mu.Unlock()
				})
			}()
			// the eviction call has been entered and is blocked at the lock (or has returned)
			incrWaitFor(incrWatchdog/3, func() bool { return isDone() || incrParkedEvictions() > base })
			openGate()
		}
		e.preAnswer = func() string {
			if !incrWaitFor(incrWatchdog, isDone) {
				return "hang evict"
			}
			return ""
		}
		ans := e.runGroup([][]int{{g}}, true, false, nil)
		e.postStart, e.preAnswer = nil, nil
		openGate()
		e.w.mu.Lock()
		e.w.gateCh = nil
		e.w.mu.Unlock()
		return ans
	case "runel":
		// runel <g> <evict keys|-> <k=v,..|-> <late groups>: three parties. Run(g) is held at the start
		// of Execute(g); EvictWithCleanup(keys, cleanup = the input changes) is entered and parked at
		// the executor's exclusive lock; only then one Run per late group is started and given time to
		// reach its blocking point (behind the pending eviction); then g proceeds. A pending writer
		// holds new readers off, so the history is Run(g); eviction; late Runs.
		if len(w) != 5 {
			return "bad-op"
		}
		g, err := strconv.Atoi(w[1])
		evk, ok := incrInts(w[2])
		if err != nil || !ok || g < 0 || e.w.nodes[g] == nil {
			return "bad-op"
		}
		type change struct {
			k int
			v int64
		}
		var changes []change
		if w[3] != "-" {
			for _, kv := range strings.Split(w[3], ",") {
				a, b, ok := strings.Cut(kv, "=")
				k, err1 := strconv.Atoi(a)
				v, err2 := strconv.ParseInt(b, 10, 64)
				if !ok || err1 != nil || err2 != nil || k < 0 || v < 0 {
					return "bad-op"
				}
				changes = append(changes, change{k, v})
			}
		}
		groups := [][]int{{g}}
		for _, gs := range strings.Split(w[4], "|") {
			ks, ok := incrInts(gs)
			if !ok || len(ks) == 0 {
				return "bad-op"
			}
			for _, k := range ks {
				if e.w.nodes[k] == nil {
					return "bad-op"
				}
			}
			groups = append(groups, ks)
		}
		nlate := len(groups) - 1
		var keys []any
		for _, k := range evk {
			keys = append(keys, k)
		}
		e.w.mu.Lock()
		e.w.gateKey = g
		e.w.gateCh = make(chan struct{})
		e.w.gateStarted = make(chan struct{}, 1)
		gate, started := e.w.gateCh, e.w.gateStarted
		e.w.mu.Unlock()
		openGate := func() {
			e.w.mu.Lock()
			select {
			case <-gate:
			default:
				close(gate)
			}
			e.w.mu.Unlock()
		}
		evDone := make(chan struct{})
		isDone := func() bool {
			select {
			case <-evDone:
				return true
			default:
				return false
			}
		}
		// execution counters at the moment the eviction holds the exclusive lock: Run(g) has
		// returned, no late Run has got past the lock
		var mid map[int]int
		var lateBase int
		coarse := e.name == "incr_fail"
		startEviction := func() {
			// Run(g) is inside Execute(g) -- or has returned without executing g (g memoized)
			gotStarted := false
			incrWaitFor(incrWatchdog/2, func() bool {
				select {
				case <-started:
					gotStarted = true
				default:
				}
				return gotStarted || e.runsReturned.Load() > 0
			})
			if !gotStarted {
				openGate() // nothing is held: a late Run that executes g must not wait for the gate
			}
			base := incrParkedEvictions()
			entered := make(chan struct{})
			go func() {
				defer close(evDone)
				defer func() { _ = recover() }()
				close(entered)
				e.ex.EvictWithCleanup(keys, func() {
					e.w.mu.Lock()
					for _, c := range changes {
						e.w.env[c.k] = c.v
					}
					mid = map[int]int{}
					for k, c := range e.w.count {
						mid[k] = c
					}
					e.w.mu.Unlock()
				})
			}()
			<-entered
			// the eviction call is blocked at the lock (or has returned)
			incrWaitFor(incrWatchdog/3, func() bool { return isDone() || incrParkedEvictions() > base })
			lateBase = incrParkedLateRuns()
		}
		e.postStart = func() {
			// every late Run has returned or is parked inside incremental.Run outside any query (at the
			// executor's lock or at the semaphore)
			incrWaitFor(incrWatchdog/3, func() bool {
				return int(e.runsReturned.Load()) >= nlate || incrParkedLateRuns()-lateBase+int(e.runsReturned.Load()) >= nlate
			})
			openGate()
		}
		e.preAnswer = func() string {
			if !incrWaitFor(incrWatchdog, isDone) {
				return "hang evict"
			}
			return ""
		}
		e.render = func(outs []*incrRunOut, before map[int]int) string {
			if mid == nil {
				return "cleanup-not-run"
			}
			var a, b string
			if coarse {
				a, b = e.coarseAnswer(outs[:1], before, mid, false), e.coarseAnswer(outs[1:], mid, nil, true)
			} else {
				a, b = e.detailedAnswer(outs[:1], before, mid, true, false), e.detailedAnswer(outs[1:], mid, nil, false, true)
			}
			// schedule-dependent detail (after " ~ ") of both phases goes to the end
			a0, at, _ := strings.Cut(a, " ~ ")
			b0, bt, _ := strings.Cut(b, " ~ ")
			ans := a0 + " ;; " + b0
			if t := strings.Trim(at+";"+bt, ";"); t != "" {
				ans += " ~ " + t
			}
			return ans
		}
		ans := e.runGroup(groups, false, false, func(i int) {
			if i == 1 {
				startEviction()
			}
		})
		e.postStart, e.preAnswer, e.render = nil, nil, nil
		openGate()
		e.w.mu.Lock()
		e.w.gateCh = nil
		e.w.mu.Unlock()
		return ans
	case "runp":
		// Run(k, others...): Execute of k (the synchronous first query) is held until the goroutines
		// of all the other queries are leaders parked in Task.acquire; then k proceeds (and panics)
		if len(w) < 3 {
			return "bad-op"
		}
		var roots []int
		for _, s := range w[1:] {
			k, err := strconv.Atoi(s)
			if err != nil || k < 0 || e.w.nodes[k] == nil {
				return "bad-op"
			}
			roots = append(roots, k)
		}
		e.w.mu.Lock()
		e.w.gateKey = roots[0]
		e.w.gateCh = make(chan struct{})
		e.w.gateStarted = make(chan struct{}, 1)
		gate, started := e.w.gateCh, e.w.gateStarted
		e.w.mu.Unlock()
		base := incrParkedIn("(*Task).acquire")
		want := base + len(roots) - 1
		go func() {
			incrWaitSignal(incrWatchdog/2, started)
			incrWaitFor(incrWatchdog/3, func() bool { return incrParkedIn("(*Task).acquire") >= want })
			e.w.mu.Lock()
			select {
			case <-gate:
			default:
				close(gate)
			}
			e.w.mu.Unlock()
		}()
		ans := e.runGroup([][]int{roots}, true, false, nil)
		e.w.mu.Lock()
		e.w.gateCh = nil
		e.w.mu.Unlock()
		return ans
	case "dump":
		return e.dump()
	case "permits":
		// goroutines spawned by Resolve may outlive a Run that failed (its context is cancelled and
		// the root stops waiting for them); give such stragglers a moment to release their permit
		// (soft deadline: a leak is concluded only when no straggler can still make progress)
		if incrWaitFor(500*time.Millisecond, func() bool { return e.ex.VerifPermitsFree(int64(e.p)) }) {
			return "free"
		}
		incrSlowCount++
		return "leak"
	}
	return "bad-op"
}

func (e *incrEngine) Trivial(op, ans string) bool { return ans == "ok" }

func (e *incrEngine) Class(op, ans string) string {
	w := strings.Fields(op)
	c := w[0]
	switch {
	case strings.HasPrefix(ans, "hang"):
		return c + "-hang"
	case strings.Contains(ans, "cyc["):
		return c + "-cycle"
	case strings.Contains(ans, "E:pan"):
		return c + "-panic"
	case strings.Contains(ans, "pan"):
		return c + "-poisoned"
	case c == "run" && strings.Contains(ans, "x=- "):
		return c + "-allcached"
	}
	return c
}

// ---- generator

type incrGenNode struct {
	flags string
	steps []incrStep
}

func incrDefLine(k int, n incrGenNode) string {
	fl := n.flags
	if fl == "" {
		fl = "-"
	}
	parts := []string{"def", strconv.Itoa(k), fl}
	for _, s := range n.steps {
		parts = append(parts, string(s.guard)+incrJoin(s.keys))
	}
	return strings.Join(parts, " ")
}

// incrSplitSteps turns a dependency list into Resolve calls: one call for all, one per key,
// or two groups, the later ones possibly guarded.
func incrSplitSteps(r *Rand, deps []int, guards bool) []incrStep {
	if len(deps) == 0 {
		return nil
	}
	g := func() byte {
		if guards && r.Chance(1, 3) {
			return Pick(r, []byte{'o', 'v'})
		}
		return 'a'
	}
	switch r.Intn(3) {
	case 0:
		return []incrStep{{guard: 'a', keys: deps}}
	case 1:
		var out []incrStep
		for i, d := range deps {
			gd := byte('a')
			if i > 0 {
				gd = g()
			}
			out = append(out, incrStep{guard: gd, keys: []int{d}})
		}
		return out
	default:
		if len(deps) == 1 {
			return []incrStep{{guard: 'a', keys: deps}}
		}
		c := 1 + r.Intn(len(deps)-1)
		return []incrStep{{guard: 'a', keys: deps[:c]}, {guard: g(), keys: deps[c:]}}
	}
}

func incrShuffle(r *Rand, xs []int) []int {
	out := append([]int{}, xs...)
	for i := len(out) - 1; i > 0; i-- {
		j := r.Intn(i + 1)
		out[i], out[j] = out[j], out[i]
	}
	return out
}

// incrDagDefs builds the def lines of a DAG given as an edge mask over pairs (i -> j, j < i).
func incrDagDefs(r *Rand, n int, mask uint64, guards bool) ([]string, [][]int) {
	var lines []string
	deps := make([][]int, n)
	bit := 0
	for i := 0; i < n; i++ {
		for j := 0; j < i; j++ {
			if mask&(1<<uint(bit)) != 0 {
				deps[i] = append(deps[i], j)
			}
			bit++
		}
	}
	for i := 0; i < n; i++ {
		d := deps[i]
		if r.Chance(1, 2) {
			d = incrShuffle(r, d)
		}
		if len(d) > 0 && r.Chance(1, 6) {
			d = append(d, d[r.Intn(len(d))]) // the same dependency resolved twice
		}
		nd := incrGenNode{steps: incrSplitSteps(r, d, guards)}
		if len(deps[i]) == 0 || r.Chance(1, 4) {
			nd.flags += "e"
		}
		if r.Chance(1, 5) {
			nd.flags += "f"
		}
		lines = append(lines, incrDefLine(i, nd))
	}
	return lines, deps
}

func incrAll(n int) []string {
	s := make([]string, n)
	for i := range s {
		s[i] = strconv.Itoa(i)
	}
	return s
}

func incrRandRoots(r *Rand, n int, max int) []int {
	c := 1 + r.Intn(max)
	var out []int
	for i := 0; i < c; i++ {
		out = append(out, r.Intn(n))
	}
	return out
}

func incrIntsToStrs(xs []int) []string {
	s := make([]string, len(xs))
	for i, x := range xs {
		s[i] = strconv.Itoa(x)
	}
	return s
}

func (e *incrEngine) Gen(r *Rand, tier string) [][]string {
	if e.name == "incr_fail" {
		return e.genFail(r, tier)
	}
	var cases [][]string
	// directed: the repository's own TestSum shape (diamond through a shared root) and a chain
	cases = append(cases,
		[]string{"new 4", "def 0 e", "def 1 e a0", "def 2 e a0", "def 3 e a0", "def 4 - a1,2,2,3", "run 4", "dump", "run 4", "evict 3", "dump", "run 4",
			"set 0 5", "evict 0", "dump", "run 4 4 1", "runc 4|4,1|2", "evict 7 1", "run 4"},
		[]string{"new 1", "def 0 e", "def 1 - a0", "def 2 - a1", "def 3 - a2 o0 v1", "run 3", "set 0 1", "run 3", "evict 0", "run 3", "evict 2", "dump", "run 3 0", "evict", "evict 0 0 3", "dump", "run 2", "run 3"},
	)
	cases = append(cases,
		// an eviction issued while a Run is in flight: the Run is about to add a NEW dependent (1) of the
		// evicted, already memoized key (0)
		[]string{"new 4", "def 0 e", "def 1 - a0", "run 0", "runev 1 0 0=2", "run 0", "run 1", "dump"},
		// ... the in-flight Run is about to memoize the evicted key itself
		[]string{"new 2", "def 0 e", "def 1 - a0", "runev 1 0 0=2", "dump", "run 0", "run 1"},
		// ... the Run's root is itself evicted; a diamond above the changed input; no input change
		[]string{"new 3", "def 0 e", "def 1 - a0", "def 2 - a0", "def 3 - a1,2", "run 1", "runev 3 0,3 0=4", "run 3 1 2 0", "dump", "runev 3 2 -", "run 3", "runev 3 1 -", "dump", "run 3"},
	)
	// exhaustive: every DAG on n <= 4 (thorough: 5) nodes with edges towards smaller keys,
	// each under every parallelism 1..4, with a fixed eviction walk
	maxN := 4
	if tier == "thorough" {
		maxN = 5
	}
	for n := 1; n <= maxN; n++ {
		pairs := n * (n - 1) / 2
		for mask := uint64(0); mask < 1<<uint(pairs); mask++ {
			for p := 1; p <= 4; p++ {
				if tier != "thorough" && n == 4 && int(mask%4) != p-1 {
					continue // quick: each 4-node DAG under one parallelism
				}
				defs, _ := incrDagDefs(r, n, mask, true)
				c := []string{fmt.Sprintf("new %d", p)}
				c = append(c, defs...)
				top := strconv.Itoa(n - 1)
				all := strings.Join(incrAll(n), " ")
				c = append(c, "run "+top, "dump", "run "+all, "run "+all)
				for k := 0; k < n; k++ {
					if tier != "thorough" && n >= 3 && r.Chance(1, 2) {
						continue
					}
					c = append(c, fmt.Sprintf("set %d %d", k, 1+r.Intn(5)), fmt.Sprintf("evict %d", k), "dump")
					if r.Chance(1, 3) {
						c = append(c, fmt.Sprintf("runc %s|%s", top, strings.Join(incrAll(n), ",")))
					} else {
						c = append(c, "run "+all)
					}
				}
				// a concurrent Run/Evict pair: the top query was evicted, so the in-flight Run re-executes it
				// and registers it as a new dependent of already memoized keys while the eviction waits
				k := r.Intn(n)
				c = append(c, "evict "+top, fmt.Sprintf("runev %s %d %d=%d", top, k, k, 6+r.Intn(3)), "run "+all, "dump")
				cases = append(cases, c)
			}
		}
	}
	// random: larger DAGs, random histories
	nr := 150
	if tier == "thorough" {
		nr = 6000
	}
	for i := 0; i < nr; i++ {
		n := 2 + r.Intn(6)
		pairs := n * (n - 1) / 2
		mask := r.U64() & (1<<uint(pairs) - 1)
		if r.Chance(1, 2) {
			mask &= r.U64() // sparser
		}
		defs, _ := incrDagDefs(r, n, mask, true)
		c := []string{fmt.Sprintf("new %d", 1+r.Intn(4))}
		c = append(c, defs...)
		stale := i%7 == 3 // these histories change inputs without evicting (model must predict stale values)
		nops := 4 + r.Intn(9)
		for j := 0; j < nops; j++ {
			switch x := r.Intn(10); {
			case x < 4:
				c = append(c, "run "+strings.Join(incrIntsToStrs(incrRandRoots(r, n, 3)), " "))
			case x < 5:
				g := 2 + r.Intn(2)
				var gs []string
				for q := 0; q < g; q++ {
					gs = append(gs, incrJoin(incrRandRoots(r, n, 2)))
				}
				c = append(c, "runc "+strings.Join(gs, "|"))
			case x < 8:
				k := r.Intn(n)
				c = append(c, fmt.Sprintf("set %d %d", k, r.Intn(6)))
				if !stale || r.Chance(1, 2) {
					ev := []int{k}
					for r.Chance(1, 4) {
						ev = append(ev, r.Intn(n+1))
					}
					c = append(c, "evict "+strings.Join(incrIntsToStrs(ev), " "))
				}
			case x < 9 && !stale && r.Chance(1, 2):
				g := r.Intn(n)
				ev := incrRandRoots(r, n, 2)
				var ch []string
				for _, k := range ev {
					if r.Chance(2, 3) {
						ch = append(ch, fmt.Sprintf("%d=%d", k, r.Intn(6)))
					}
				}
				chs := "-"
				if len(ch) > 0 {
					chs = strings.Join(ch, ",")
				}
				if r.Chance(1, 2) {
					c = append(c, fmt.Sprintf("evict %d", g)) // make sure the Run has something to execute
				}
				c = append(c, fmt.Sprintf("runev %d %s %s", g, incrJoin(ev), chs))
			case x < 9:
				c = append(c, "evict "+strings.Join(incrIntsToStrs(incrRandRoots(r, n+1, 3)), " "))
			default:
				c = append(c, "dump")
			}
		}
		c = append(c, "run "+strings.Join(incrAll(n), " "), "dump")
		cases = append(cases, c)
	}
	// after the older families: their cases stay the same for a given seed
	cases = append(cases, incrRunelCases(r, tier, false)...)
	return cases
}

// incrDigraphDefs builds def lines for a digraph given as an n*n adjacency mask (bit i*n+j: i -> j,
// self-loops included). seq: every Resolve has one key. panics: bit k set = query k panics
// (flag p or q) while its env value is even.
func incrDigraphDefs(r *Rand, n int, mask uint64, seq bool, panics uint64) ([]string, [][]int) {
	var lines []string
	deps := make([][]int, n)
	for i := 0; i < n; i++ {
		for j := 0; j < n; j++ {
			if mask&(1<<uint(i*n+j)) != 0 {
				deps[i] = append(deps[i], j)
			}
		}
	}
	for i := 0; i < n; i++ {
		d := deps[i]
		if r.Chance(1, 2) {
			d = incrShuffle(r, d)
		}
		var nd incrGenNode
		if seq {
			for j, k := range d {
				g := byte('a')
				if j > 0 && r.Chance(1, 5) {
					g = Pick(r, []byte{'o', 'v'})
				}
				nd.steps = append(nd.steps, incrStep{guard: g, keys: []int{k}})
			}
		} else {
			nd.steps = incrSplitSteps(r, d, true)
		}
		if panics&(1<<uint(i)) != 0 {
			nd.flags += "e"
			if r.Chance(1, 3) {
				nd.flags += "q"
			} else {
				nd.flags += "p"
			}
		} else {
			if len(d) == 0 || r.Chance(1, 4) {
				nd.flags += "e"
			}
			if r.Chance(1, 6) {
				nd.flags += "f"
			}
		}
		lines = append(lines, incrDefLine(i, nd))
	}
	return lines, deps
}

func incrBits(x uint64, n int) []int {
	var out []int
	for i := 0; i < n; i++ {
		if x&(1<<uint(i)) != 0 {
			out = append(out, i)
		}
	}
	return out
}

// incrSeqCase: one goroutine, deterministic: every node is run as the single root in turn.
func incrSeqCase(r *Rand, n int, mask, panics uint64, p int) []string {
	defs, _ := incrDigraphDefs(r, n, mask, true, panics)
	c := []string{fmt.Sprintf("new %d", p)}
	c = append(c, defs...)
	order := incrShuffle(r, func() []int {
		a := make([]int, n)
		for i := range a {
			a[i] = i
		}
		return a
	}())
	for _, k := range order {
		c = append(c, fmt.Sprintf("run %d", k))
	}
	c = append(c, "dump", "permits")
	c = append(c, fmt.Sprintf("run %d", order[0]))
	pk := incrBits(panics, n)
	if len(pk) > 0 {
		// repair the panicking queries one by one: change the input, evict it, run again
		for _, k := range pk {
			c = append(c, fmt.Sprintf("set %d 1", k), fmt.Sprintf("evict %d", k), "dump", fmt.Sprintf("run %d", order[len(order)-1]), "permits")
		}
		for _, k := range order {
			c = append(c, fmt.Sprintf("run %d", k))
		}
	} else {
		k := r.Intn(n)
		c = append(c, fmt.Sprintf("evict %d", k), "dump", fmt.Sprintf("run %d", order[len(order)-1]))
	}
	c = append(c, "dump", "permits")
	return c
}

// incrParCase: multi-query Resolve calls, several roots, concurrent Runs: only
// schedule-independent facts are compared.
func incrParCase(r *Rand, n int, mask, panics uint64, p int) []string {
	defs, _ := incrDigraphDefs(r, n, mask, false, panics)
	// make sure the case is in the parallel class: at least one Resolve with two keys
	multi := false
	for _, d := range defs {
		if strings.Contains(d, ",") {
			multi = true
		}
	}
	c := []string{fmt.Sprintf("new %d", p)}
	c = append(c, defs...)
	roots := incrRandRoots(r, n, 3)
	if !multi && len(roots) < 2 {
		roots = append(roots, r.Intn(n))
	}
	all := make([]int, n)
	for i := range all {
		all[i] = i
	}
	if panics != 0 {
		// after a panicking run under real concurrency the memo state depends on the schedule:
		// check the permits, then start over with a fresh executor and the panics repaired
		c = append(c, "run "+strings.Join(incrIntsToStrs(roots), " "), "permits", fmt.Sprintf("new %d", p))
		for _, k := range incrBits(panics, n) {
			c = append(c, fmt.Sprintf("set %d 1", k))
		}
		c = append(c, "run "+strings.Join(incrIntsToStrs(incrShuffle(r, all)), " "), "permits")
		return c
	}
	c = append(c, "run "+strings.Join(incrIntsToStrs(roots), " "), "permits")
	if r.Chance(1, 2) {
		c = append(c, fmt.Sprintf("runc %s|%s", incrJoin(incrRandRoots(r, n, 2)), incrJoin(incrShuffle(r, all))), "permits")
	}
	k := r.Intn(n)
	c = append(c, fmt.Sprintf("evict %d", k), "run "+strings.Join(incrIntsToStrs(incrShuffle(r, all)), " "), "permits")
	if n >= 2 && r.Chance(1, 2) {
		c = append(c, fmt.Sprintf("evict %d %d", r.Intn(n), r.Intn(n)),
			fmt.Sprintf("runc %s|%s|%s", incrJoin(incrRandRoots(r, n, 2)), incrJoin(incrRandRoots(r, n, 2)), incrJoin(incrRandRoots(r, n, 2))), "permits")
	}
	return c
}

// incrRunelCases: the three-party choreography `runel` (a Run in flight, an eviction pending behind it,
// late Runs arriving behind the pending eviction). fail = cases for engine incr_fail (cyclic random
// graphs, `permits` after every step, no panicking queries).
//
// directed: root T resolves d = 2..4 dependencies in ONE Resolve call (so that it gives up its permit
// while it waits for them), parallelism 1..4, the evicted key is a dependency of T (memoized only by
// the in-flight Run) / an unrelated memoized key / a key that is never memoized, and there are as
// many late Runs as permits (sometimes one more or one fewer) asking for T again / an unrelated fresh
// key / a memoized key / a mix.
func incrRunelCases(r *Rand, tier string, fail bool) [][]string {
	var cases [][]string
	tail := func(c []string) []string {
		if fail {
			return append(c, "permits")
		}
		return c
	}
	for p := 1; p <= 4; p++ {
		for d := 2; d <= 4; d++ {
			for evKind := 0; evKind < 3; evKind++ {
				for lateKind := 0; lateKind < 4; lateKind++ {
					if tier != "thorough" && (p+d+evKind+lateKind)%2 == 1 && !(p <= 2 && d == 2) {
						continue
					}
					T, U, V, F := d, d+1, d+2, d+3
					c := []string{fmt.Sprintf("new %d", p)}
					for k := 0; k < d; k++ {
						c = append(c, fmt.Sprintf("def %d e", k))
					}
					deps := make([]int, d)
					for k := range deps {
						deps[k] = k
					}
					c = append(c, fmt.Sprintf("def %d - a%s", T, incrJoin(incrShuffle(r, deps))),
						fmt.Sprintf("def %d e", U), fmt.Sprintf("def %d e", V), fmt.Sprintf("def %d e a%d", F, V))
					c = tail(append(c, fmt.Sprintf("run %d", V)))
					if d >= 3 && r.Chance(1, 3) {
						c = tail(append(c, fmt.Sprintf("run %d", d-1))) // one dependency is memoized already
					}
					ev, ch := 0, fmt.Sprintf("0=%d", 1+r.Intn(5))
					switch evKind {
					case 1:
						ev, ch = V, fmt.Sprintf("%d=%d", V, 1+r.Intn(5))
					case 2:
						ev, ch = U, "-"
						if r.Chance(1, 2) {
							ev = 99 // not even defined
						}
					}
					nl := p
					switch r.Intn(6) {
					case 0:
						nl = p + 1
					case 1:
						if p > 1 {
							nl = p - 1
						}
					}
					var late []string
					for i := 0; i < nl; i++ {
						k := []int{T, U, V, F}[lateKind]
						if lateKind == 3 {
							k = Pick(r, []int{T, U, V, F})
						}
						late = append(late, strconv.Itoa(k))
					}
					c = tail(append(c, fmt.Sprintf("runel %d %d %s %s", T, ev, ch, strings.Join(late, "|"))))
					all := []int{}
					for k := 0; k <= F; k++ {
						all = append(all, k)
					}
					c = tail(append(c, "run "+strings.Join(incrIntsToStrs(incrShuffle(r, all)), " ")))
					if !fail {
						c = append(c, "dump")
					}
					cases = append(cases, c)
				}
			}
		}
	}
	// random graphs
	nr := 30
	if tier == "thorough" {
		nr = 800
	}
	for i := 0; i < nr; i++ {
		n := 3 + r.Intn(5)
		p := 1 + r.Intn(4)
		var defs []string
		if fail {
			n = 3 + r.Intn(3)
			mask := r.U64() & r.U64() & (1<<uint(n*n) - 1)
			defs, _ = incrDigraphDefs(r, n, mask, false, 0)
			// parallel class only (a Resolve call with two keys): the coarse answers are the ones
			// the model of incr_fail predicts for concurrent Runs
			multi := false
			for _, d := range defs {
				if strings.Contains(d, ",") {
					multi = true
				}
			}
			if !multi {
				continue
			}
		} else {
			pairs := n * (n - 1) / 2
			mask := r.U64() & (1<<uint(pairs) - 1)
			if r.Chance(1, 3) {
				mask &= r.U64()
			}
			defs, _ = incrDagDefs(r, n, mask, true)
		}
		c := []string{fmt.Sprintf("new %d", p)}
		c = append(c, defs...)
		if r.Chance(1, 2) {
			c = tail(append(c, "run "+strings.Join(incrIntsToStrs(incrRandRoots(r, n, 2)), " ")))
		}
		for j := 0; j < 1+r.Intn(3); j++ {
			g := n - 1 - r.Intn((n+1)/2) // the larger keys have the dependencies
			if r.Chance(2, 3) {
				c = append(c, fmt.Sprintf("evict %d", g)) // make sure the in-flight Run has something to execute
			}
			ev := incrRandRoots(r, n+1, 2)
			var ch []string
			for _, k := range ev {
				if r.Chance(1, 2) {
					ch = append(ch, fmt.Sprintf("%d=%d", k, r.Intn(6)))
				}
			}
			chs := "-"
			if len(ch) > 0 {
				chs = strings.Join(ch, ",")
			}
			nl := p
			if r.Chance(1, 4) {
				nl = 1 + r.Intn(p+1)
			}
			var late []string
			for q := 0; q < nl; q++ {
				late = append(late, incrJoin(incrRandRoots(r, n, 2)))
			}
			c = tail(append(c, fmt.Sprintf("runel %d %s %s %s", g, incrJoin(ev), chs, strings.Join(late, "|"))))
		}
		all := make([]int, n)
		for k := range all {
			all[k] = k
		}
		c = tail(append(c, "run "+strings.Join(incrIntsToStrs(incrShuffle(r, all)), " ")))
		if !fail {
			c = append(c, "dump")
		}
		cases = append(cases, c)
	}
	return cases
}

func (e *incrEngine) genFail(r *Rand, tier string) [][]string {
	thorough := tier == "thorough"
	var cases [][]string
	// directed
	cases = append(cases,
		// the repository's cyclic test shape: a ring of 5 entered at 3
		[]string{"new 4", "def 0 - a1", "def 1 - a2", "def 2 - a3", "def 3 - a4", "def 4 - a0", "run 3", "dump", "permits", "run 0", "evict 2", "run 4", "permits"},
		// self loop; cycle behind a DAG prefix; two cycles
		[]string{"new 1", "def 0 - a0", "run 0", "dump", "permits"},
		[]string{"new 2", "def 0 e", "def 1 - a0 a2", "def 2 - a3", "def 3 - a1 a3", "def 4 - a0 a1", "run 4", "dump", "run 3", "evict 0", "run 4", "permits"},
		// a panicking leaf below two callers: the callers memoize the panic error
		[]string{"new 1", "def 0 e", "def 1 ep a0", "def 2 - a1", "def 3 - a2 a0", "run 3", "dump", "permits", "run 3", "run 2", "run 1", "set 1 1", "evict 1", "dump", "run 3", "permits"},
		// panic at the root itself: nothing is memoized
		[]string{"new 3", "def 0 eq", "run 0", "dump", "permits", "run 0", "set 0 1", "run 0", "permits"},
		// a second Run parks on a task whose leader (another Run) then panics / completes / closes a cycle
		[]string{"new 2", "def 0 e", "def 1 ep a0", "def 2 - a1", "runw 1 1 2", "permits"},
		[]string{"new 2", "def 0 e", "def 1 ep a0", "def 2 - a1", "set 1 1", "runw 1 1 2", "permits", "run 2", "dump"},
		[]string{"new 2", "def 0 e", "def 1 - a0 a2", "def 2 - a1", "runw 1 1 2", "dump", "permits"},
		[]string{"new 1", "def 0 eq", "def 1 - a0", "runw 0 0 1", "permits"},
		// leaders parked in acquire when the synchronous query panics (parallelism 1): they give up
		// without withdrawing their pending results; the next run that needs one never returns
		[]string{"new 1", "def 0 eq", "def 1 e", "def 2 e", "def 3 - a1", "runp 0 1 2", "permits", "dump", "run 2"},
		[]string{"new 1", "def 0 eq", "def 1 e", "def 2 e", "def 3 - a1", "runp 0 2 3", "permits", "dump", "run 1", "dump", "set 0 1", "run 0", "run 3"},
		// parallel class: diamonds with a back edge, several roots, concurrent Runs
		[]string{"new 1", "def 0 e", "def 1 - a0,3", "def 2 - a0", "def 3 - a1,2", "run 3 2", "permits", "runc 1|3,2", "permits", "evict 0", "run 0 1 2 3", "permits"},
		[]string{"new 4", "def 0 ep", "def 1 - a0,2", "def 2 - a0", "def 3 - a1,2", "run 3 1", "permits", "new 4", "set 0 1", "run 3 1", "permits"},
	)
	// exhaustive, sequential class: every digraph (self-loops included) on 1..3 nodes x panicking subsets
	maxN := 3
	for n := 1; n <= maxN; n++ {
		for mask := uint64(0); mask < 1<<uint(n*n); mask++ {
			var subsets []uint64
			switch {
			case n <= 2 || thorough:
				for ps := uint64(0); ps < 1<<uint(n); ps++ {
					subsets = append(subsets, ps)
				}
			default:
				subsets = []uint64{0, 1 + r.U64()%(1<<uint(n)-1)}
			}
			for _, ps := range subsets {
				cases = append(cases, incrSeqCase(r, n, mask, ps, 1+int((mask+ps)%4)))
			}
		}
	}
	// exhaustive-ish, parallel class: digraphs on 2..3 nodes (all), panicking subsets sampled
	for n := 2; n <= 3; n++ {
		for mask := uint64(0); mask < 1<<uint(n*n); mask++ {
			if !thorough && n == 3 && mask%4 != uint64(r.Intn(4)) {
				continue
			}
			ps := uint64(0)
			if r.Chance(1, 3) {
				ps = 1 + r.U64()%(1<<uint(n)-1)
			}
			cases = append(cases, incrParCase(r, n, mask, ps, 1+int(mask%4)))
		}
	}
	// random: 4..6 nodes, both classes, sparse and dense
	nr := 120
	if thorough {
		nr = 6000
	}
	for i := 0; i < nr; i++ {
		n := 4 + r.Intn(3)
		mask := r.U64() & r.U64()
		if r.Chance(1, 2) {
			mask &= r.U64()
		}
		mask &= 1<<uint(n*n) - 1
		ps := uint64(0)
		if r.Chance(1, 3) {
			ps = 1 << uint(r.Intn(n))
			if r.Chance(1, 3) {
				ps |= 1 << uint(r.Intn(n))
			}
		}
		p := 1 + r.Intn(4)
		if i%2 == 0 {
			cases = append(cases, incrSeqCase(r, n, mask, ps, p))
		} else {
			cases = append(cases, incrParCase(r, n, mask, ps, p))
		}
	}
	// random runw scenarios (thorough only beyond the directed ones: a stranded waiter costs a watchdog period)
	if thorough {
		for i := 0; i < 60; i++ {
			n := 3 + r.Intn(3)
			mask := r.U64() & r.U64() & (1<<uint(n*n) - 1)
			k := r.Intn(n)
			b := (k + 1 + r.Intn(n-1)) % n
			mask |= 1 << uint(b*n+k) // b -> k, so that the second Run reaches k
			ps := uint64(0)
			if i%10 == 0 {
				ps = 1 << uint(k)
			}
			defs, _ := incrDigraphDefs(r, n, mask, true, ps)
			c := []string{fmt.Sprintf("new %d", 1+r.Intn(4))}
			c = append(c, defs...)
			c = append(c, fmt.Sprintf("runw %d %d %d", k, k, b), "permits", "dump")
			cases = append(cases, c)
		}
	}
	cases = append(cases, incrRunelCases(r, tier, true)...)
	return cases
}
