package engines

// pipeline engines (builder b09): forms (C09), relink (C10), clone (C24).
//
// All three are self-consistency checks of the real compiler on generated accepted
// workspaces. The answers have the shape
//
//	ok <projection> ~ <observations>
//
// where <projection> is the part the Lean model predicts (modelled descriptor fields)
// and <observations> are facts (digests of deterministic marshalling per input-form
// assignment, before/after snapshots of supplied objects, node identities) that the
// Lean property oracle judges.

import (
	"context"
	"crypto/sha256"
	"encoding/hex"
	"fmt"
	"os"
	"path/filepath"
	"reflect"
	"regexp"
	"runtime/debug"
	"sort"
	"strconv"
	"strings"
	"sync"

	"github.com/bufbuild/protocompile"
	"github.com/bufbuild/protocompile/ast"
	"github.com/bufbuild/protocompile/linker"
	"github.com/bufbuild/protocompile/options"
	"github.com/bufbuild/protocompile/parser"
	"github.com/bufbuild/protocompile/protoutil"
	"github.com/bufbuild/protocompile/reporter"
	"google.golang.org/protobuf/proto"
	"google.golang.org/protobuf/reflect/protodesc"
	"google.golang.org/protobuf/reflect/protoreflect"
	"google.golang.org/protobuf/reflect/protoregistry"
	"google.golang.org/protobuf/types/descriptorpb"
)

type b09Engine struct{ name string }

func init() {
	Register("forms", func() Engine { return &b09Engine{"forms"} })
	Register("relink", func() Engine { return &b09Engine{"relink"} })
	Register("clone", func() Engine { return &b09Engine{"clone"} })
}

func (e *b09Engine) Name() string { return e.name }
func (e *b09Engine) Reset()       {}

// ---------------------------------------------------------------- projection

func b09Dash(s string) string {
	if s == "" {
		return "-"
	}
	return s
}

func b09ProjField(f *descriptorpb.FieldDescriptorProto) string {
	oo := "-"
	if f.OneofIndex != nil {
		oo = strconv.Itoa(int(f.GetOneofIndex()))
	}
	p3 := "0"
	if f.GetProto3Optional() {
		p3 = "1"
	}
	lbl := "-"
	if f.Label != nil {
		lbl = strconv.Itoa(int(f.GetLabel()))
	}
	typ := "-"
	if f.Type != nil {
		typ = strconv.Itoa(int(f.GetType()))
	}
	js := "-"
	if f.JsonName != nil {
		js = f.GetJsonName()
	}
	return fmt.Sprintf("%s#%d#%s#%s#%s#%s#%s#%s#%s", f.GetName(), f.GetNumber(), lbl, typ,
		b09Dash(f.GetTypeName()), b09Dash(f.GetExtendee()), js, oo, p3)
}

func b09ProjEnum(e *descriptorpb.EnumDescriptorProto) string {
	var vs []string
	for _, v := range e.Value {
		vs = append(vs, fmt.Sprintf("%s:%d", v.GetName(), v.GetNumber()))
	}
	return "E(" + e.GetName() + ",[" + strings.Join(vs, ",") + "])"
}

// b09ProjMsg appends the message and then, pre-order, its nested messages; path is the
// chain of message names.
func b09ProjMsg(out *[]string, path string, m *descriptorpb.DescriptorProto) {
	var fs, os, es, rs, xs []string
	if path != "" {
		path += "."
	}
	path += m.GetName()
	for _, f := range m.Field {
		fs = append(fs, b09ProjField(f))
	}
	for _, o := range m.OneofDecl {
		os = append(os, o.GetName())
	}
	for _, e := range m.EnumType {
		es = append(es, b09ProjEnum(e))
	}
	for _, r := range m.ExtensionRange {
		rs = append(rs, fmt.Sprintf("%d-%d", r.GetStart(), r.GetEnd()))
	}
	for _, x := range m.Extension {
		xs = append(xs, b09ProjField(x))
	}
	me := "0"
	if m.GetOptions().GetMapEntry() {
		me = "1"
	}
	*out = append(*out, "M("+path+",["+strings.Join(fs, ",")+"],["+strings.Join(os, ",")+"],["+
		strings.Join(es, ",")+"],["+strings.Join(rs, ",")+"],["+strings.Join(xs, ",")+"],"+me+")")
	for _, n := range m.NestedType {
		b09ProjMsg(out, path, n)
	}
}

func b09ProjFile(fd *descriptorpb.FileDescriptorProto) string {
	var ms, es, xs, ss, pubs []string
	for _, m := range fd.MessageType {
		b09ProjMsg(&ms, "", m)
	}
	for _, e := range fd.EnumType {
		es = append(es, b09ProjEnum(e))
	}
	for _, x := range fd.Extension {
		xs = append(xs, b09ProjField(x))
	}
	for _, s := range fd.Service {
		var mt []string
		for _, m := range s.Method {
			cs, sv := "0", "0"
			if m.GetClientStreaming() {
				cs = "1"
			}
			if m.GetServerStreaming() {
				sv = "1"
			}
			mt = append(mt, fmt.Sprintf("%s#%s#%s#%s#%s", m.GetName(), m.GetInputType(), m.GetOutputType(), cs, sv))
		}
		ss = append(ss, "S("+s.GetName()+",["+strings.Join(mt, ",")+"])")
	}
	for _, p := range fd.PublicDependency {
		pubs = append(pubs, strconv.Itoa(int(p)))
	}
	syn := fd.GetSyntax()
	if syn == "" {
		syn = "proto2"
	}
	if syn == "editions" {
		syn = "editions:" + strconv.Itoa(int(fd.GetEdition()))
	}
	return "F(" + fd.GetName() + "," + b09Dash(fd.GetPackage()) + "," + syn + ",[" + strings.Join(fd.Dependency, ",") + "],[" +
		strings.Join(pubs, ",") + "],[" + strings.Join(ms, ",") + "],[" + strings.Join(es, ",") + "],[" +
		strings.Join(xs, ",") + "],[" + strings.Join(ss, ",") + "])"
}

// ---------------------------------------------------------------- workspace objects

func b09Digest(parts ...[]byte) string {
	h := sha256.New()
	for _, p := range parts {
		h.Write(p)
		h.Write([]byte{0})
	}
	return hex.EncodeToString(h.Sum(nil))[:12]
}

func b09Marshal(m proto.Message) []byte {
	b, err := proto.MarshalOptions{Deterministic: true}.Marshal(m)
	if err != nil {
		return []byte("marshal-error " + err.Error())
	}
	return b
}

// b09FileDigests returns the digest of the compiled file with and without source info.
// Both the descriptor proto held by the result and the proto re-derived through the
// protoreflect view are covered.
func b09FileDigests(f protoreflect.FileDescriptor) (full, nosci string) {
	fdp := protoutil.ProtoFromFileDescriptor(f)
	view := protodesc.ToFileDescriptorProto(f)
	full = b09Digest(b09Marshal(fdp), b09Marshal(view))
	a := proto.Clone(fdp).(*descriptorpb.FileDescriptorProto)
	a.SourceCodeInfo = nil
	view.SourceCodeInfo = nil
	nosci = b09Digest(b09Marshal(a), b09Marshal(view))
	return
}

type b09WS struct {
	files []*b09N
	paths []string
	texts []string
	asts  []*ast.FileNode
	pres  []parser.Result
	bare  []*descriptorpb.FileDescriptorProto
	noast []parser.Result
}

func b09NewWS(files []*b09N) (*b09WS, string) {
	ws := &b09WS{files: files}
	for _, f := range files {
		ws.paths = append(ws.paths, f.A[0])
		txt := b09Render(f)
		ws.texts = append(ws.texts, txt)
	}
	return ws, ""
}

// prepare builds the alternative input forms of every file. Returns an error class if the
// parser rejects a file.
func (ws *b09WS) prepare() string {
	for i, p := range ws.paths {
		h := reporter.NewHandler(nil)
		a, err := parser.Parse(p, strings.NewReader(ws.texts[i]), h)
		if err != nil {
			return "rejected parse " + Canon(err.Error())
		}
		ws.asts = append(ws.asts, a)
		a2, _ := parser.Parse(p, strings.NewReader(ws.texts[i]), reporter.NewHandler(nil))
		r, err := parser.ResultFromAST(a2, true, reporter.NewHandler(nil))
		if err != nil {
			return "rejected todesc " + Canon(err.Error())
		}
		ws.pres = append(ws.pres, r)
		a3, _ := parser.Parse(p, strings.NewReader(ws.texts[i]), reporter.NewHandler(nil))
		r3, _ := parser.ResultFromAST(a3, true, reporter.NewHandler(nil))
		bare := proto.Clone(r3.FileDescriptorProto()).(*descriptorpb.FileDescriptorProto)
		ws.bare = append(ws.bare, bare)
		ws.noast = append(ws.noast, parser.ResultWithoutAST(proto.Clone(bare).(*descriptorpb.FileDescriptorProto)))
	}
	return ""
}

type b09Run struct {
	files linker.Files
	err   error
}

// extra objects for one source-info mode / for relinking
type b09Extra struct {
	withSCI []*descriptorpb.FileDescriptorProto // form q
	linked  []*descriptorpb.FileDescriptorProto // form P (outputs of a previous compilation)
	presQ   []parser.Result                     // form Q
	presT   []parser.Result                     // form T
	lres    []linker.File                       // form R
	wire    []*descriptorpb.FileDescriptorProto // form B (form P as loaded from its wire encoding: custom options are unknown bytes)
	hand    []*descriptorpb.FileDescriptorProto // form H (form P with the propagated map key/value features stripped)
	lfiles  []linker.File                       // form L
	dfiles  []protoreflect.FileDescriptor       // form D
}

func (ws *b09WS) compile(asg string, mode protocompile.SourceInfoMode, ex *b09Extra, par int) b09Run {
	idx := map[string]int{}
	for i, p := range ws.paths {
		idx[p] = i
	}
	res := protocompile.ResolverFunc(func(path string) (protocompile.SearchResult, error) {
		i, ok := idx[path]
		if !ok {
			return protocompile.SearchResult{}, protoregistry.NotFound
		}
		switch asg[i] {
		case 's':
			return protocompile.SearchResult{Source: strings.NewReader(ws.texts[i])}, nil
		case 'a':
			return protocompile.SearchResult{AST: ws.asts[i]}, nil
		case 'r':
			return protocompile.SearchResult{ParseResult: ws.pres[i]}, nil
		case 'p':
			return protocompile.SearchResult{Proto: ws.bare[i]}, nil
		case 'q':
			return protocompile.SearchResult{Proto: ex.withSCI[i]}, nil
		case 'n':
			return protocompile.SearchResult{ParseResult: ws.noast[i]}, nil
		case 'P':
			return protocompile.SearchResult{Proto: ex.linked[i]}, nil
		case 'H':
			return protocompile.SearchResult{Proto: ex.hand[i]}, nil
		case 'B':
			return protocompile.SearchResult{Proto: ex.wire[i]}, nil
		case 'Q':
			return protocompile.SearchResult{ParseResult: ex.presQ[i]}, nil
		case 'T':
			return protocompile.SearchResult{ParseResult: ex.presT[i]}, nil
		case 'R':
			pr, ok := ex.lres[i].(parser.Result)
			if !ok {
				return protocompile.SearchResult{}, fmt.Errorf("prior result is not a parser.Result")
			}
			return protocompile.SearchResult{ParseResult: pr}, nil
		case 'L':
			return protocompile.SearchResult{Desc: ex.lfiles[i]}, nil
		case 'D':
			return protocompile.SearchResult{Desc: ex.dfiles[i]}, nil
		}
		return protocompile.SearchResult{}, fmt.Errorf("bad form %c", asg[i])
	})
	c := protocompile.Compiler{Resolver: protocompile.WithStandardImports(res), SourceInfoMode: mode, MaxParallelism: par}
	fs, err := c.Compile(context.Background(), ws.paths...)
	return b09Run{fs, err}
}

func b09ErrClass(err error) string {
	msg := err.Error()
	if i := strings.Index(msg, ": "); i >= 0 && strings.Contains(msg[:i], ".proto") {
		msg = msg[i+2:]
	}
	return Canon(msg)
}

// snapshot of every supplied object: proto bytes, node index identities, AST digest.
func (ws *b09WS) snapshots() []string {
	var out []string
	for i := range ws.paths {
		out = append(out, fmt.Sprintf("a%d:%s", i, b09ASTDigest(ws.asts[i])))
		out = append(out, fmt.Sprintf("r%d:%s", i, b09ResultSnapshot(ws.pres[i])))
		out = append(out, fmt.Sprintf("p%d:%s", i, b09Digest(b09Marshal(ws.bare[i]))))
		out = append(out, fmt.Sprintf("n%d:%s", i, b09Digest(b09Marshal(ws.noast[i].FileDescriptorProto()))))
	}
	return out
}

// extraSnap snapshots the objects created for one source-info mode (forms q, P, L, D).
func (ws *b09WS) extraSnap(k int, e *b09Extra) []string {
	var out []string
	for i := range ws.paths {
		if e.withSCI != nil {
			out = append(out, fmt.Sprintf("q%d.%d:%s", k, i, b09Digest(b09Marshal(e.withSCI[i]))))
		}
		if e.linked != nil {
			out = append(out, fmt.Sprintf("P%d.%d:%s", k, i, b09Digest(b09Marshal(e.linked[i]))))
		}
		if e.hand != nil {
			out = append(out, fmt.Sprintf("H%d.%d:%s", k, i, b09Digest(b09Marshal(e.hand[i]))))
		}
		if e.wire != nil {
			out = append(out, fmt.Sprintf("B%d.%d:%s", k, i, b09Digest(b09Marshal(e.wire[i]))))
		}
		if e.presQ != nil {
			out = append(out, fmt.Sprintf("Q%d.%d:%s", k, i, b09ResultSnapshot(e.presQ[i])))
		}
		if e.presT != nil {
			out = append(out, fmt.Sprintf("T%d.%d:%s", k, i, b09ResultSnapshot(e.presT[i])))
		}
		if e.lres != nil {
			full, _ := b09FileDigests(e.lres[i])
			out = append(out, fmt.Sprintf("R%d.%d:%s", k, i, full))
		}
		if e.lfiles != nil {
			full, _ := b09FileDigests(e.lfiles[i])
			out = append(out, fmt.Sprintf("L%d.%d:%s", k, i, full))
		}
		if e.dfiles != nil {
			full, _ := b09FileDigests(e.dfiles[i])
			out = append(out, fmt.Sprintf("D%d.%d:%s", k, i, full))
		}
	}
	return out
}

func b09ASTDigest(f *ast.FileNode) string {
	if f == nil {
		return "nil"
	}
	h := sha256.New()
	_ = ast.Walk(f, &ast.SimpleVisitor{DoVisitNode: func(n ast.Node) error {
		fmt.Fprintf(h, "%T|", n)
		if _, ok := n.(ast.TerminalNode); ok {
			info := f.NodeInfo(n)
			fmt.Fprintf(h, "%d:%d:%q|", info.Start().Offset, info.End().Offset, info.RawText())
			for i := 0; i < info.LeadingComments().Len(); i++ {
				fmt.Fprintf(h, "lc%q|", info.LeadingComments().Index(i).RawText())
			}
			for i := 0; i < info.TrailingComments().Len(); i++ {
				fmt.Fprintf(h, "tc%q|", info.TrailingComments().Index(i).RawText())
			}
		}
		return nil
	}})
	return hex.EncodeToString(h.Sum(nil))[:12]
}

// b09Elem is one indexed element of a parse result: the proto message and how to look it up.
type b09Elem struct {
	kind string
	msg  proto.Message
	node func(r parser.Result) ast.Node
}

// b09Elements lists every element of fd for which result.go registers an AST node, in a
// canonical order (the same order for an original and its clone).
func b09Elements(fd *descriptorpb.FileDescriptorProto) []b09Elem {
	var out []b09Elem
	add := func(kind string, m proto.Message, f func(r parser.Result) ast.Node) {
		out = append(out, b09Elem{kind, m, f})
	}
	optsOf := func(uos []*descriptorpb.UninterpretedOption) {
		for _, uo := range uos {
			uo := uo
			add("U", uo, func(r parser.Result) ast.Node { return r.OptionNode(uo) })
			for _, np := range uo.Name {
				np := np
				add("P", np, func(r parser.Result) ast.Node { return r.OptionNamePartNode(np) })
			}
		}
	}
	field := func(f *descriptorpb.FieldDescriptorProto) {
		add("F", f, func(r parser.Result) ast.Node { return r.FieldNode(f) })
		optsOf(f.GetOptions().GetUninterpretedOption())
	}
	var enum func(e *descriptorpb.EnumDescriptorProto)
	enum = func(e *descriptorpb.EnumDescriptorProto) {
		add("N", e, func(r parser.Result) ast.Node { return r.EnumNode(e) })
		optsOf(e.GetOptions().GetUninterpretedOption())
		for _, v := range e.Value {
			v := v
			add("V", v, func(r parser.Result) ast.Node { return r.EnumValueNode(v) })
			optsOf(v.GetOptions().GetUninterpretedOption())
		}
		for _, rr := range e.ReservedRange {
			rr := rr
			add("w", rr, func(r parser.Result) ast.Node { return r.EnumReservedRangeNode(rr) })
		}
	}
	var msg func(m *descriptorpb.DescriptorProto)
	msg = func(m *descriptorpb.DescriptorProto) {
		add("M", m, func(r parser.Result) ast.Node { return r.MessageNode(m) })
		optsOf(m.GetOptions().GetUninterpretedOption())
		for _, f := range m.Field {
			field(f)
		}
		for _, o := range m.OneofDecl {
			o := o
			add("O", o, func(r parser.Result) ast.Node { return r.OneofNode(o) })
			optsOf(o.GetOptions().GetUninterpretedOption())
		}
		for _, er := range m.ExtensionRange {
			er := er
			add("R", er, func(r parser.Result) ast.Node { return r.ExtensionRangeNode(er) })
			add("Rp", er, func(r parser.Result) ast.Node { return r.ExtensionsNode(er) })
			optsOf(er.GetOptions().GetUninterpretedOption())
		}
		for _, rr := range m.ReservedRange {
			rr := rr
			add("v", rr, func(r parser.Result) ast.Node { return r.MessageReservedRangeNode(rr) })
		}
		for _, n := range m.NestedType {
			msg(n)
		}
		for _, e := range m.EnumType {
			enum(e)
		}
		for _, x := range m.Extension {
			field(x)
		}
	}
	add("File", fd, func(r parser.Result) ast.Node { return r.FileNode() })
	optsOf(fd.GetOptions().GetUninterpretedOption())
	for _, m := range fd.MessageType {
		msg(m)
	}
	for _, e := range fd.EnumType {
		enum(e)
	}
	for _, x := range fd.Extension {
		field(x)
	}
	for _, s := range fd.Service {
		s := s
		add("S", s, func(r parser.Result) ast.Node { return r.ServiceNode(s) })
		optsOf(s.GetOptions().GetUninterpretedOption())
		for _, m := range s.Method {
			m := m
			add("C", m, func(r parser.Result) ast.Node { return r.MethodNode(m) })
			optsOf(m.GetOptions().GetUninterpretedOption())
		}
	}
	return out
}

func b09SafeNode(e b09Elem, r parser.Result) (n ast.Node, panicked bool) {
	defer func() {
		if recover() != nil {
			n, panicked = nil, true
		}
	}()
	return e.node(r), false
}

// b09ResultSnapshot digests the proto bytes, the AST and the node index (as the sequence of
// node pointers, one per indexed element) of a parse result.
func b09ResultSnapshot(r parser.Result) string {
	h := sha256.New()
	h.Write(b09Marshal(r.FileDescriptorProto()))
	fmt.Fprintf(h, "|%s|", b09ASTDigest(r.AST()))
	for _, e := range b09Elements(r.FileDescriptorProto()) {
		n, p := b09SafeNode(e, r)
		fmt.Fprintf(h, "%s:%p:%v|", e.kind, n, p)
	}
	return hex.EncodeToString(h.Sum(nil))[:12]
}

// ---------------------------------------------------------------- assignments

func b09Assignments(alpha string, n int, spec string) []string {
	var out []string
	if spec == "x" {
		cur := make([]byte, n)
		var rec func(i int)
		rec = func(i int) {
			if i == n {
				out = append(out, string(cur))
				return
			}
			for k := 0; k < len(alpha); k++ {
				cur[i] = alpha[k]
				rec(i + 1)
			}
		}
		rec(0)
		return out
	}
	// "s<count>:<seed>": the uniform assignments plus <count> random ones
	var cnt int
	var seed uint64
	if _, err := fmt.Sscanf(spec, "s%d:%d", &cnt, &seed); err != nil {
		return nil
	}
	seen := map[string]bool{}
	for k := 0; k < len(alpha); k++ {
		a := strings.Repeat(string(alpha[k]), n)
		seen[a] = true
		out = append(out, a)
	}
	r := NewRand(seed)
	for i := 0; i < cnt; i++ {
		cur := make([]byte, n)
		for j := range cur {
			cur[j] = alpha[r.Intn(len(alpha))]
		}
		if !seen[string(cur)] {
			seen[string(cur)] = true
			out = append(out, string(cur))
		}
	}
	return out
}

func b09ParseModes(s string) ([]protocompile.SourceInfoMode, bool) {
	var out []protocompile.SourceInfoMode
	for _, p := range strings.Split(s, ",") {
		n, err := strconv.Atoi(p)
		if err != nil || n < 0 || n > 7 {
			return nil, false
		}
		out = append(out, protocompile.SourceInfoMode(n))
	}
	return out, len(out) > 0
}

var b09LastErr sync.Map

// b09Canon re-encodes a descriptor proto through the wire with no extension types known, so
// that a custom option held as a known extension and the same option held as unknown bytes
// (a descriptor loaded from a file) compare equal, while duplicated or lost bytes still differ.
func b09Canon(m *descriptorpb.FileDescriptorProto) []byte {
	n := &descriptorpb.FileDescriptorProto{}
	if err := (proto.UnmarshalOptions{Resolver: new(protoregistry.Types)}).Unmarshal(b09Marshal(m), n); err != nil {
		return []byte("canon-error " + err.Error())
	}
	return b09Marshal(n)
}

func b09CanonDigest(f protoreflect.FileDescriptor) string {
	return b09Digest(b09Canon(protoutil.ProtoFromFileDescriptor(f)), b09Canon(protodesc.ToFileDescriptorProto(f)))
}

// b09WireLoaded returns the proto as it looks after being written to and loaded from a file.
func b09WireLoaded(m *descriptorpb.FileDescriptorProto) *descriptorpb.FileDescriptorProto {
	n := &descriptorpb.FileDescriptorProto{}
	_ = (proto.UnmarshalOptions{Resolver: new(protoregistry.Types)}).Unmarshal(b09Marshal(m), n)
	return n
}

func b09RunDigestsFor(run b09Run, asg string) string {
	if run.err != nil {
		return b09RunDigests(run)
	}
	var ds []string
	for i, f := range run.files {
		if f == nil {
			return "ERR"
		}
		if i < len(asg) && asg[i] == 'B' {
			ds = append(ds, b09CanonDigest(f))
			continue
		}
		full, _ := b09FileDigests(f)
		ds = append(ds, full)
	}
	return strings.Join(ds, ",")
}

func b09RunDigests(run b09Run) string {
	if run.err != nil {
		b09LastErr.Store(b09ErrClass(run.err), true)
		return "ERR"
	}
	var ds []string
	for _, f := range run.files {
		if f == nil {
			return "ERR"
		}
		full, _ := b09FileDigests(f)
		ds = append(ds, full)
	}
	return strings.Join(ds, ",")
}

// ---------------------------------------------------------------- forms / relink

// formsOp: forms <modes> <spec> <ws>   |   noast <ws>   |   relink <modes> <spec> <ws>
func (e *b09Engine) formsOp(kind string, w []string) string {
	var modes []protocompile.SourceInfoMode
	spec := "x"
	var rest []string
	if kind == "noast" {
		modes = []protocompile.SourceInfoMode{0}
		rest = w[1:]
	} else {
		if len(w) < 4 {
			return "bad-op"
		}
		var ok bool
		modes, ok = b09ParseModes(w[1])
		if !ok {
			return "bad-op"
		}
		spec = w[2]
		rest = w[3:]
	}
	files, ok := b09Decode(rest)
	if !ok {
		return "bad-op"
	}
	ws, _ := b09NewWS(files)
	n := len(files)
	b09LastErr.Clear()
	if why := ws.prepare(); why != "" {
		return why
	}
	var proj []string
	var sections []string
	extras := make([]*b09Extra, len(modes))
	exSnap0 := make([][]string, len(modes))
	snap0 := ws.snapshots()
	var stdRef *b09Run
	var aliasMu sync.Mutex
	var X []string // supplied protos that a result shares memory with
	for mi, mode := range modes {
		ref := ws.compile(strings.Repeat("s", n), mode, nil, 0)
		if ref.err != nil {
			return "rejected " + b09ErrClass(ref.err)
		}
		ex := &b09Extra{}
		extras[mi] = ex
		var refs []string
		for i, f := range ref.files {
			full, nosci := b09FileDigests(f)
			if kind == "relink" {
				refs = append(refs, full+"/"+nosci+"/"+b09CanonDigest(f)) // canonical form: only form B needs it
			} else {
				refs = append(refs, full+"/"+nosci)
			}
			fdp := protoutil.ProtoFromFileDescriptor(f)
			priorP := fdp
			if kind == "forms" {
				// form q: the unlinked proto carrying source code info. Under mode "none" it
				// carries the standard source info, which task.link must strip.
				q := proto.Clone(ws.bare[i]).(*descriptorpb.FileDescriptorProto)
				sci := fdp.SourceCodeInfo
				if mode == 0 {
					if stdRef == nil {
						r := ws.compile(strings.Repeat("s", n), protocompile.SourceInfoStandard, nil, 0)
						stdRef = &r
					}
					if stdRef.err == nil {
						sci = protoutil.ProtoFromFileDescriptor(stdRef.files[i]).SourceCodeInfo
					}
				}
				if sci != nil {
					q.SourceCodeInfo = proto.Clone(sci).(*descriptorpb.SourceCodeInfo)
				}
				ex.withSCI = append(ex.withSCI, q)
				// ParseResult-side forms that already carry source code info:
				// Q = parser.ResultWithoutAST over the output of a prior compilation with source info,
				// T = a parser.ResultFromAST result (with AST) to whose proto source info was attached,
				// R = the prior linker.Result itself handed back as a parse result.
				prior := fdp
				if mode == 0 && stdRef != nil && stdRef.err == nil {
					prior = protoutil.ProtoFromFileDescriptor(stdRef.files[i])
				}
				ex.presQ = append(ex.presQ, parser.ResultWithoutAST(proto.Clone(prior).(*descriptorpb.FileDescriptorProto)))
				var t parser.Result
				if a, err := parser.Parse(ws.paths[i], strings.NewReader(ws.texts[i]), reporter.NewHandler(nil)); err == nil {
					if r, err := parser.ResultFromAST(a, true, reporter.NewHandler(nil)); err == nil {
						if sci != nil {
							r.FileDescriptorProto().SourceCodeInfo = proto.Clone(sci).(*descriptorpb.SourceCodeInfo)
						}
						t = r
					}
				}
				if t == nil {
					return "rejected parse"
				}
				ex.presT = append(ex.presT, t)
				ex.lres = append(ex.lres, f)
				priorP = prior
			}
			if kind == "relink" || kind == "relinkd" || kind == "forms" {
				// form P: the output of a previous compilation; form H: the same with the
				// features that were propagated to synthetic map key/value fields removed again
				// (under mode "none" the forms engine supplies P with the standard source info,
				// which must be stripped)
				ex.linked = append(ex.linked, proto.Clone(priorP).(*descriptorpb.FileDescriptorProto))
				ex.hand = append(ex.hand, b09StripPropagated(fdp))
				ex.wire = append(ex.wire, b09WireLoaded(fdp))
			}
			if kind == "relink" || kind == "relinkd" {
				ex.lfiles = append(ex.lfiles, f)
			}
			if mi == 0 && kind != "relink" && kind != "relinkd" {
				proj = append(proj, b09ProjFile(fdp))
			}
		}
		var alpha string
		switch kind {
		case "forms":
			alpha = "sarpq"
		case "noast":
			alpha = "sn"
		case "relink":
			alpha = "PHBL"
		case "relinkd":
			alpha = "PD"
			// form D: descriptors built by protobuf-go from the output protos
			set := &descriptorpb.FileDescriptorSet{}
			set.File = append(set.File, protodesc.ToFileDescriptorProto(descriptorpb.File_google_protobuf_descriptor_proto))
			for _, imp := range []string{"google/protobuf/any.proto"} {
				if d, err := protoregistry.GlobalFiles.FindFileByPath(imp); err == nil {
					set.File = append(set.File, protodesc.ToFileDescriptorProto(d))
				}
			}
			set.File = append(set.File, ex.linked...)
			reg, err := protodesc.NewFiles(set)
			if err != nil {
				return "relinkd-protodesc-rejected " + Canon(err.Error())
			}
			for _, p := range ws.paths {
				d, err := reg.FindFileByPath(p)
				if err != nil {
					return "relinkd-protodesc-rejected " + Canon(err.Error())
				}
				ex.dfiles = append(ex.dfiles, d)
			}
		}
		noConc := strings.HasSuffix(spec, "n") // spec suffix n: no concurrent batch
		asgs := b09Assignments(alpha, n, strings.TrimSuffix(spec, "n"))
		if asgs == nil {
			return "bad-op"
		}
		if kind == "forms" {
			asgs = append(asgs, b09LinkedAssignments(n)...)
		}
		exSnap0[mi] = ws.extraSnap(mi, ex)
		if kind == "relink" || kind == "relinkd" {
			// a file supplied as an already linked descriptor (L, D) brings its own dependencies:
			// only assignments in which its imports are supplied in the same form are consistent
			var keep []string
			for _, a := range asgs {
				ok := true
				for i := range ws.paths {
					if a[i] == 'P' || a[i] == 'H' || a[i] == 'B' {
						continue
					}
					for _, d := range ws.bare[i].Dependency {
						for j, p := range ws.paths {
							if p == d && a[j] != a[i] {
								ok = false
							}
						}
					}
				}
				if ok {
					keep = append(keep, a)
				}
			}
			asgs = keep
		}
		if kind == "noast" {
			// exactly one file without AST at a time
			asgs = nil
			for i := 0; i < n; i++ {
				a := []byte(strings.Repeat("s", n))
				a[i] = 'n'
				asgs = append(asgs, string(a))
			}
		}
		var A []string
		for _, a := range asgs {
			run := ws.compile(a, mode, ex, 0)
			A = append(A, a+":"+b09RunDigestsFor(run, a))
			ws.aliases(a, ex, run, &aliasMu, &X)
			if (kind == "relink" || kind == "relinkd") && mi == 0 && a == strings.Repeat("P", n) {
				if run.err != nil {
					// the re-link failed: the failure is reported through the ERR digest of this
					// assignment (oracle verdict relink-rejected); the projection falls back to
					// the first compilation's so that the remaining observations stay readable
					for _, f := range ref.files {
						proj = append(proj, b09ProjFile(protoutil.ProtoFromFileDescriptor(f)))
					}
					continue
				}
				for _, f := range run.files {
					proj = append(proj, b09ProjFile(protoutil.ProtoFromFileDescriptor(f)))
				}
				// second generation: relink the relinked output
				ex2 := &b09Extra{}
				for _, f := range run.files {
					ex2.linked = append(ex2.linked, proto.Clone(protoutil.ProtoFromFileDescriptor(f)).(*descriptorpb.FileDescriptorProto))
				}
				run2 := ws.compile(a, mode, ex2, 0)
				A = append(A, strings.Repeat("P", n)+":"+b09RunDigests(run2))
			}
		}
		// concurrent reuse: the same supplied objects in several compilations at once
		var C []string
		conc := asgs
		if noConc {
			conc = nil
		}
		if len(conc) > 16 {
			conc = conc[:16]
			if kind == "forms" {
				conc = append(conc[:8:8], b09LinkedAssignments(n)...)
				if len(conc) > 22 {
					conc = conc[:22]
				}
			}
		}
		cres := make([]string, len(conc))
		var wg sync.WaitGroup
		for k, a := range conc {
			wg.Add(1)
			go func(k int, a string) {
				defer wg.Done()
				defer func() {
					if r := recover(); r != nil {
						cres[k] = a + ":ERR"
					}
				}()
				run := ws.compile(a, mode, ex, 2)
				cres[k] = a + ":" + b09RunDigestsFor(run, a)
				ws.aliases(a, ex, run, &aliasMu, &X)
			}(k, a)
		}
		wg.Wait()
		C = append(C, cres...)
		sections = append(sections, fmt.Sprintf("M%d ref=%s A=%s C=%s", int(mode), strings.Join(refs, ","), strings.Join(A, ";"), strings.Join(C, ";")))
	}
	snap1 := ws.snapshots()
	var S []string
	for i := range snap0 {
		id, before, _ := strings.Cut(snap0[i], ":")
		_, after, _ := strings.Cut(snap1[i], ":")
		S = append(S, id+":"+before+":"+after)
	}
	for mi, ex := range extras {
		if ex == nil {
			continue
		}
		after := ws.extraSnap(mi, ex)
		for i := range after {
			id, aft, _ := strings.Cut(after[i], ":")
			_, bef, _ := strings.Cut(exSnap0[mi][i], ":")
			S = append(S, id+":"+bef+":"+aft)
		}
	}
	errNote := ""
	var errs []string
	b09LastErr.Range(func(k, _ any) bool { errs = append(errs, k.(string)); return true })
	sort.Strings(errs)
	if len(errs) > 0 {
		errNote = " err=" + strings.Join(errs, " || ")
	}
	sort.Strings(X)
	if len(X) > 4 {
		X = X[:4]
	}
	return "ok " + strings.Join(proj, " ") + " ~ " + strings.Join(sections, " ") + " S=" + strings.Join(S, ",") + " X=" + b09Dash(strings.Join(X, ",")) + errNote
}

// aliases records every file that was supplied as a descriptor proto and whose compilation
// result (its FileDescriptorProto) shares mutable memory with the supplied object: the
// compiler must work on a defensive copy, never link the resolver's object in place.
func (ws *b09WS) aliases(asg string, ex *b09Extra, run b09Run, mu *sync.Mutex, out *[]string) {
	if run.err != nil {
		return
	}
	for i, f := range run.files {
		if f == nil || i >= len(asg) {
			continue
		}
		var sup *descriptorpb.FileDescriptorProto
		switch asg[i] {
		case 'p':
			sup = ws.bare[i]
		case 'q':
			sup = ex.withSCI[i]
		case 'P':
			sup = ex.linked[i]
		case 'H':
			sup = ex.hand[i]
		case 'B':
			sup = ex.wire[i]
		case 'Q':
			sup = ex.presQ[i].FileDescriptorProto()
		case 'T':
			sup = ex.presT[i].FileDescriptorProto()
		default:
			continue
		}
		var at []string
		b09SharedMem(reflect.ValueOf(sup), reflect.ValueOf(protoutil.ProtoFromFileDescriptor(f)), "fd", &at)
		if len(at) > 0 {
			mu.Lock()
			*out = append(*out, fmt.Sprintf("%s:%d:%s", asg, i, at[0]))
			mu.Unlock()
		}
	}
}

// b09LinkedAssignments: the assignments that use already-linked protos (P) and their
// hand-stripped variants (H): uniform, and one file at a time among source files.
func b09LinkedAssignments(n int) []string {
	out := []string{strings.Repeat("P", n), strings.Repeat("H", n), strings.Repeat("Q", n), strings.Repeat("T", n), strings.Repeat("R", n)}
	if n > 1 {
		for i := 0; i < n; i++ {
			for _, c := range []byte{'Q', 'T'} {
				a := []byte(strings.Repeat("s", n))
				a[i] = c
				out = append(out, string(a))
			}
		}
		// the last file (nothing imports it) as Q / T on top of already linked inputs
		for _, c := range []byte{'Q', 'T'} {
			b := []byte(strings.Repeat("P", n))
			b[n-1] = c
			out = append(out, string(b))
		}
	}
	if n > 1 {
		for i := 0; i < n; i++ {
			for _, c := range []byte{'P', 'H'} {
				a := []byte(strings.Repeat("s", n))
				a[i] = c
				out = append(out, string(a))
				b := []byte(strings.Repeat("P", n))
				if c == 'H' {
					b[i] = 'H'
					out = append(out, string(b))
				}
			}
		}
	}
	return out
}

// b09StripPropagated returns a copy of a linked descriptor proto in which the features that
// option interpretation copied from map fields onto the synthetic key/value fields are
// removed again (the compiler re-derives them: the result must not change).
func b09StripPropagated(fd *descriptorpb.FileDescriptorProto) *descriptorpb.FileDescriptorProto {
	c := proto.Clone(fd).(*descriptorpb.FileDescriptorProto)
	var walk func(m *descriptorpb.DescriptorProto)
	walk = func(m *descriptorpb.DescriptorProto) {
		if m.GetOptions().GetMapEntry() {
			for _, f := range m.Field {
				if f.Options != nil && f.Options.Features != nil {
					f.Options.Features = nil
					if proto.Size(f.Options) == 0 {
						f.Options = nil
					}
				}
			}
		}
		for _, n := range m.NestedType {
			walk(n)
		}
	}
	for _, m := range c.MessageType {
		walk(m)
	}
	return c
}

// ---------------------------------------------------------------- clone

func b09Scribble(fd *descriptorpb.FileDescriptorProto) {
	var walk func(m protoreflect.Message, depth int)
	walk = func(m protoreflect.Message, depth int) {
		fds := m.Descriptor().Fields()
		for i := 0; i < fds.Len(); i++ {
			f := fds.Get(i)
			if !m.Has(f) {
				continue
			}
			switch {
			case f.IsList():
				l := m.Mutable(f).List()
				for j := 0; j < l.Len(); j++ {
					switch f.Kind() {
					case protoreflect.MessageKind:
						walk(l.Get(j).Message(), depth+1)
					case protoreflect.StringKind:
						l.Set(j, protoreflect.ValueOfString(l.Get(j).String()+"_scribbled"))
					case protoreflect.Int32Kind:
						l.Set(j, protoreflect.ValueOfInt32(int32(l.Get(j).Int())^0x55))
					}
				}
				if f.Kind() == protoreflect.MessageKind && depth < 3 {
					l.Append(l.NewElement())
				}
			case f.IsMap():
			case f.Kind() == protoreflect.MessageKind:
				walk(m.Mutable(f).Message(), depth+1)
			case f.Kind() == protoreflect.StringKind:
				m.Set(f, protoreflect.ValueOfString(m.Get(f).String()+"_scribbled"))
			case f.Kind() == protoreflect.BytesKind:
				b := m.Get(f).Bytes()
				for k := range b {
					b[k] ^= 0xff // in place: shared backing arrays would show
				}
			case f.Kind() == protoreflect.Int32Kind:
				m.Set(f, protoreflect.ValueOfInt32(int32(m.Get(f).Int())^0x55))
			case f.Kind() == protoreflect.BoolKind:
				m.Set(f, protoreflect.ValueOfBool(!m.Get(f).Bool()))
			case f.Kind() == protoreflect.Int64Kind:
				m.Set(f, protoreflect.ValueOfInt64(m.Get(f).Int()^0x55))
			case f.Kind() == protoreflect.Uint64Kind:
				m.Set(f, protoreflect.ValueOfUint64(m.Get(f).Uint()^0x55))
			case f.Kind() == protoreflect.DoubleKind:
				m.Set(f, protoreflect.ValueOfFloat64(m.Get(f).Float()+1))
			case f.Kind() == protoreflect.EnumKind:
				m.Clear(f)
			}
		}
	}
	walk(fd.ProtoReflect(), 0)
}

var b09CountKinds = []string{"File", "M", "F", "O", "R", "v", "N", "V", "w", "S", "C", "U"}

func b09Counts(fd *descriptorpb.FileDescriptorProto) string {
	cnt := map[string]int{}
	for _, e := range b09Elements(fd) {
		cnt[e.kind]++
	}
	var parts []string
	for _, k := range b09CountKinds {
		parts = append(parts, fmt.Sprintf("%s=%d", k, cnt[k]))
	}
	return strings.Join(parts, ",")
}

func b09StdFiles() map[string]linker.File {
	out := map[string]linker.File{}
	for _, p := range []string{"google/protobuf/descriptor.proto", "google/protobuf/any.proto"} {
		d, err := protoregistry.GlobalFiles.FindFileByPath(p)
		if err != nil {
			continue
		}
		if f, err := linker.NewFileRecursive(d); err == nil {
			out[p] = f
		}
	}
	return out
}

func b09Ptr(m proto.Message) uintptr { return reflect.ValueOf(m).Pointer() }

// cloneOp: clone ast|noast <ws>
func (e *b09Engine) cloneOp(w []string) string {
	if len(w) < 3 || (w[1] != "ast" && w[1] != "noast" && w[1] != "astsci" && w[1] != "noastsci") {
		return "bad-op"
	}
	withSCI := strings.HasSuffix(w[1], "sci")
	noAST := strings.HasPrefix(w[1], "noast")
	files, ok := b09Decode(w[2:])
	if !ok {
		return "bad-op"
	}
	ws, _ := b09NewWS(files)
	n := len(files)
	ref := ws.compile(strings.Repeat("s", n), 0, nil, 0)
	if ref.err != nil {
		return "rejected " + b09ErrClass(ref.err)
	}
	byPath := b09StdFiles()
	for i, f := range ref.files {
		byPath[ws.paths[i]] = f
	}
	// results that already carry source code info (as after a compilation with source info
	// enabled, or a descriptor loaded with source info): take it from a standard compilation
	var scis []*descriptorpb.SourceCodeInfo
	if withSCI {
		std := ws.compile(strings.Repeat("s", n), protocompile.SourceInfoStandard, nil, 0)
		if std.err != nil {
			return "rejected " + b09ErrClass(std.err)
		}
		for _, f := range std.files {
			sci := protoutil.ProtoFromFileDescriptor(f).GetSourceCodeInfo()
			if sci == nil {
				return "rejected no-source-info"
			}
			scis = append(scis, sci)
		}
	}
	var counts, obs []string
	for i, p := range ws.paths {
		mk := func() parser.Result {
			a, err := parser.Parse(p, strings.NewReader(ws.texts[i]), reporter.NewHandler(nil))
			if err != nil {
				return nil
			}
			r, err := parser.ResultFromAST(a, true, reporter.NewHandler(nil))
			if err != nil {
				return nil
			}
			if withSCI {
				r.FileDescriptorProto().SourceCodeInfo = proto.Clone(scis[i]).(*descriptorpb.SourceCodeInfo)
			}
			if noAST {
				return parser.ResultWithoutAST(proto.Clone(r.FileDescriptorProto()).(*descriptorpb.FileDescriptorProto))
			}
			return r
		}
		orig := mk()
		if orig == nil {
			return "rejected parse"
		}
		counts = append(counts, fmt.Sprintf("f%d:%s", i, b09Counts(orig.FileDescriptorProto())))
		snap0 := b09ResultSnapshot(orig)
		c := parser.Clone(orig)
		equal := proto.Equal(orig.FileDescriptorProto(), c.FileDescriptorProto())
		eo, ec := b09Elements(orig.FileDescriptorProto()), b09Elements(c.FileDescriptorProto())
		ident, shared := 0, 0
		missing := map[string]bool{}
		if len(eo) != len(ec) {
			missing["shape"] = true
		} else {
			for k := range eo {
				no, po := b09SafeNode(eo[k], orig)
				nc, pc := b09SafeNode(ec[k], c)
				if !po && !pc && no != nil && no == nc {
					ident++
				} else {
					missing[eo[k].kind] = true
				}
				if b09Ptr(eo[k].msg) == b09Ptr(ec[k].msg) {
					shared++
				}
			}
		}
		// generic: any pointer to mutable memory (message, scalar box, slice backing array)
		// reachable from both descriptor protos
		var sharedAt []string
		b09SharedMem(reflect.ValueOf(orig.FileDescriptorProto()), reflect.ValueOf(c.FileDescriptorProto()), "fd", &sharedAt)
		shared += len(sharedAt)
		astSame := c.AST() == orig.AST()
		// experiment 1: scribble over the clone, the original must not change
		b09Scribble(c.FileDescriptorProto())
		indep1 := b09ResultSnapshot(orig) == snap0
		// experiment 2: really link a clone (the linker resolves names and interprets options in place)
		c2 := parser.Clone(orig)
		var deps linker.Files
		for _, d := range c2.FileDescriptorProto().Dependency {
			if f, ok := byPath[d]; ok {
				deps = append(deps, f)
			}
		}
		linked := "0"
		func() {
			defer func() {
				if r := recover(); r != nil {
					linked = "panic"
				}
			}()
			h := reporter.NewHandler(nil)
			lr, err := linker.Link(c2, deps, nil, h)
			if err == nil {
				_, err = options.InterpretOptions(lr, h)
			}
			if err == nil {
				linked = "1"
			}
		}()
		indep2 := b09ResultSnapshot(orig) == snap0
		// experiment 3: scribble over the original, a clone taken before must not change
		c3 := parser.Clone(orig)
		s3 := b09ResultSnapshot(c3)
		b09Scribble(orig.FileDescriptorProto())
		indep3 := b09ResultSnapshot(c3) == s3
		var ms []string
		for k := range missing {
			ms = append(ms, k)
		}
		sort.Strings(ms)
		b := func(x bool) string {
			if x {
				return "1"
			}
			return "0"
		}
		at := "-"
		if len(sharedAt) > 0 {
			at = sharedAt[0]
		}
		obs = append(obs, fmt.Sprintf("f%d equal=%s shared=%d ident=%d/%d ast=%s indep=%s%s%s linked=%s missing=%s sharedat=%s",
			i, b(equal), shared, ident, len(eo), b(astSame), b(indep1), b(indep2), b(indep3), linked, b09Dash(strings.Join(ms, ",")), at))
	}
	return "ok " + strings.Join(counts, " ") + " ~ " + strings.Join(obs, " ; ")
}

// b09SharedMem walks two generated proto structs in parallel (Go reflection, so that slice
// backing arrays and scalar boxes are seen too) and records the path of every piece of mutable
// memory that both reach: message pointers, pointers to scalars, and non-empty slices with the
// same backing array (repeated fields, bytes, unknown fields).
func b09SharedMem(a, b reflect.Value, path string, out *[]string) {
	if !a.IsValid() || !b.IsValid() || a.Type() != b.Type() || len(*out) > 64 {
		return
	}
	switch a.Kind() {
	case reflect.Ptr:
		if a.IsNil() || b.IsNil() {
			return
		}
		if a.Pointer() == b.Pointer() {
			*out = append(*out, path)
			return // everything below is shared too
		}
		if a.Elem().Kind() == reflect.Struct {
			b09SharedMem(a.Elem(), b.Elem(), path, out)
		}
	case reflect.Struct:
		t := a.Type()
		for i := 0; i < t.NumField(); i++ {
			f := t.Field(i)
			if f.Name == "state" || f.Name == "sizeCache" || f.Name == "extensionFields" {
				continue // runtime bookkeeping of protoimpl
			}
			if !f.IsExported() && f.Name != "unknownFields" {
				continue
			}
			fa, fb := a.Field(i), b.Field(i)
			if !f.IsExported() {
				// unknownFields []byte: compare the backing arrays without Interface()
				if fa.Kind() == reflect.Slice && fa.Len() > 0 && fb.Len() > 0 && fa.Pointer() == fb.Pointer() {
					*out = append(*out, path+"."+f.Name)
				}
				continue
			}
			b09SharedMem(fa, fb, path+"."+f.Name, out)
		}
	case reflect.Slice:
		if a.Len() > 0 && b.Len() > 0 && a.Pointer() == b.Pointer() {
			*out = append(*out, path+"[]")
			return
		}
		ek := a.Type().Elem().Kind()
		if ek == reflect.Ptr || ek == reflect.Struct || ek == reflect.Slice {
			for i := 0; i < a.Len() && i < b.Len(); i++ {
				b09SharedMem(a.Index(i), b.Index(i), fmt.Sprintf("%s[%d]", path, i), out)
			}
		}
	case reflect.Interface:
		if !a.IsNil() && !b.IsNil() {
			b09SharedMem(a.Elem(), b.Elem(), path, out)
		}
	}
}

// ---------------------------------------------------------------- index completeness (static extraction)

func b09RepoDir() string {
	if d := os.Getenv("VERIF_REPO"); d != "" {
		return d
	}
	if bi, ok := debug.ReadBuildInfo(); ok {
		for _, d := range bi.Deps {
			if d.Path == "github.com/bufbuild/protocompile" && d.Replace != nil && strings.HasPrefix(d.Replace.Path, "/") {
				return d.Replace.Path
			}
		}
	}
	return "/repo"
}

func b09GoTypeName(m protoreflect.MessageDescriptor) string {
	name := string(m.Name())
	for p := m.Parent(); p != nil; p = p.Parent() {
		if pm, ok := p.(protoreflect.MessageDescriptor); ok {
			name = string(pm.Name()) + "_" + name
		} else {
			break
		}
	}
	return name
}

func b09GoCamel(s string) string {
	var b strings.Builder
	up := true
	for _, c := range s {
		if c == '_' {
			up = true
			continue
		}
		if up {
			b.WriteString(strings.ToUpper(string(c)))
			up = false
		} else {
			b.WriteRune(c)
		}
	}
	return b.String()
}

// b09SchemaEdges lists (parent type, Go field name, child type) for every message-typed
// field reachable from FileDescriptorProto in the linked descriptorpb package.
func b09SchemaEdges() []string {
	root := (&descriptorpb.FileDescriptorProto{}).ProtoReflect().Descriptor()
	seen := map[protoreflect.FullName]bool{}
	var out []string
	var visit func(m protoreflect.MessageDescriptor)
	visit = func(m protoreflect.MessageDescriptor) {
		if seen[m.FullName()] {
			return
		}
		seen[m.FullName()] = true
		for i := 0; i < m.Fields().Len(); i++ {
			f := m.Fields().Get(i)
			if f.Kind() != protoreflect.MessageKind && f.Kind() != protoreflect.GroupKind {
				continue
			}
			out = append(out, b09GoTypeName(m)+"."+b09GoCamel(string(f.Name()))+"."+b09GoTypeName(f.Message()))
			visit(f.Message())
		}
	}
	visit(root)
	return out
}

var (
	b09RePut     = regexp.MustCompile(`^func \(r \*result\) put(\w+)Node\((\w+) \*descriptorpb\.(\w+),`)
	b09RePutKeyX = regexp.MustCompile(`^\s*r\.nodes\[asExtsNode\((\w+)\)\] =`)
	b09RePutKey  = regexp.MustCompile(`^\s*r\.nodes\[(\w+)\] =`)
	b09ReFn      = regexp.MustCompile(`^func recreateNodeIndexFor(\w+)\(orig, clone \*result, origProto, cloneProto \*descriptorpb\.(\w+)\) \{`)
	b09ReOptFn   = regexp.MustCompile(`^func recreateNodeIndexForOptions\(orig, clone \*result, origProtos, cloneProtos \[\]\*descriptorpb\.UninterpretedOption\) \{`)
	b09ReLoop    = regexp.MustCompile(`^\s*for \w+, (\w+) := range (\w+)\.(\w+) \{`)
	b09ReLoop0   = regexp.MustCompile(`^\s*for \w+, (\w+) := range origProtos \{`)
	b09ReCall    = regexp.MustCompile(`^\s*recreateNodeIndexFor(\w+)\(orig, clone, (\w+), \w+\)`)
	b09ReUpdOpts = regexp.MustCompile(`^\s*updateNodeIndexWithOptions\[[^\]]*\]\(orig, clone, (\w+), \w+\)`)
	b09ReUpdX    = regexp.MustCompile(`^\s*updateNodeIndex\(orig, clone, asExtsNode\((\w+)\), asExtsNode\(\w+\)\)`)
	b09ReUpd     = regexp.MustCompile(`^\s*updateNodeIndex\(orig, clone, (\w+), \w+\)`)
	b09ReAssign  = regexp.MustCompile(`^\s*\w+ := \w+\.\w+\[\w+\]$|^\s*\w+ := cloneProtos\[\w+\]$`)
)

// b09ExtractIndexSpec reads parser/result.go and parser/clone.go and returns the words of the
// `index` op: registered types, schema edges, and the traversal program of clone.go.
func b09ExtractIndexSpec(repo string) ([]string, error) {
	res, err := os.ReadFile(filepath.Join(repo, "parser", "result.go"))
	if err != nil {
		return nil, err
	}
	cl, err := os.ReadFile(filepath.Join(repo, "parser", "clone.go"))
	if err != nil {
		return nil, err
	}
	var w []string
	// 1. registered types
	w = append(w, "reg")
	lines := strings.Split(string(res), "\n")
	for i := 0; i < len(lines); i++ {
		m := b09RePut.FindStringSubmatch(lines[i])
		if m == nil {
			continue
		}
		param, typ := m[2], m[3]
		for j := i + 1; j < len(lines) && lines[j] != "}"; j++ {
			if k := b09RePutKeyX.FindStringSubmatch(lines[j]); k != nil && k[1] == param {
				w = append(w, "x:"+typ)
			} else if k := b09RePutKey.FindStringSubmatch(lines[j]); k != nil && k[1] == param {
				w = append(w, "s:"+typ)
			} else if strings.TrimSpace(lines[j]) != "" {
				w = append(w, "weird:"+typ)
			}
		}
	}
	// 2. schema
	w = append(w, "edges")
	w = append(w, b09SchemaEdges()...)
	// 3. traversal program
	w = append(w, "prog")
	lines = strings.Split(string(cl), "\n")
	fnTypes := map[string]string{}
	for _, l := range lines {
		if m := b09ReFn.FindStringSubmatch(l); m != nil {
			fnTypes[m[1]] = m[2]
		}
	}
	inFn := false
	var vars []string // loop variable stack; vars[0] is origProto (or the option variable)
	for i := 0; i < len(lines); i++ {
		l := lines[i]
		if !inFn {
			if m := b09ReFn.FindStringSubmatch(l); m != nil {
				w = append(w, "fn", m[2])
				inFn = true
				vars = []string{"origProto"}
			} else if b09ReOptFn.MatchString(l) {
				w = append(w, "ofn")
				inFn = true
				vars = []string{"origProtos"}
			} else if strings.HasPrefix(l, "func updateNodeIndexWithOptions[") {
				self, opts := "0", "0"
				for j := i + 1; j < len(lines) && lines[j] != "}"; j++ {
					if strings.TrimSpace(lines[j]) == "updateNodeIndex(orig, clone, origProto, cloneProto)" {
						self = "1"
					}
					if strings.Contains(lines[j], "recreateNodeIndexForOptions(orig, clone, origOpts.GetUninterpretedOption(), cloneOpts.GetUninterpretedOption())") {
						opts = "1"
					}
				}
				w = append(w, "wo", self, opts)
			} else if strings.HasPrefix(l, "func updateNodeIndex[") {
				a, b := false, false
				for j := i + 1; j < len(lines) && lines[j] != "}"; j++ {
					t := strings.TrimSpace(lines[j])
					if t == "node := orig.nodes[origProto]" {
						a = true
					}
					if t == "clone.nodes[cloneProto] = node" {
						b = true
					}
				}
				if a && b {
					w = append(w, "un", "1")
				} else {
					w = append(w, "un", "0")
				}
			} else if strings.Contains(l, "recreateNodeIndexForFile(res, newResult, res.proto, newProto)") {
				w = append(w, "root", "FileDescriptorProto")
			}
			continue
		}
		cur := vars[len(vars)-1]
		switch {
		case l == "}":
			w = append(w, "end")
			inFn = false
		case strings.TrimSpace(l) == "}":
			if len(vars) > 1 {
				vars = vars[:len(vars)-1]
				w = append(w, "end")
			} else {
				w = append(w, "weird")
			}
		case b09ReLoop0.MatchString(l):
			// the option function iterates its argument: statements apply to each option
			m := b09ReLoop0.FindStringSubmatch(l)
			vars = append(vars, m[1])
			w = append(w, "each")
		case b09ReLoop.MatchString(l):
			m := b09ReLoop.FindStringSubmatch(l)
			if m[2] != cur {
				w = append(w, "weird")
			}
			vars = append(vars, m[1])
			w = append(w, "loop", m[3])
		case b09ReCall.MatchString(l):
			m := b09ReCall.FindStringSubmatch(l)
			t, ok := fnTypes[m[1]]
			if !ok || m[2] != cur {
				w = append(w, "weird")
			} else {
				w = append(w, "call", t)
			}
		case b09ReUpdOpts.MatchString(l):
			m := b09ReUpdOpts.FindStringSubmatch(l)
			if m[1] != cur {
				w = append(w, "weird")
			} else {
				w = append(w, "updopts")
			}
		case b09ReUpdX.MatchString(l):
			m := b09ReUpdX.FindStringSubmatch(l)
			if m[1] != cur {
				w = append(w, "weird")
			} else {
				w = append(w, "updexts")
			}
		case b09ReUpd.MatchString(l):
			m := b09ReUpd.FindStringSubmatch(l)
			if m[1] != cur {
				w = append(w, "weird")
			} else {
				w = append(w, "upd")
			}
		case b09ReAssign.MatchString(l), strings.TrimSpace(l) == "":
			// clone-side bookkeeping: cloneX := cloneProto.Field[i]
		default:
			w = append(w, "weird")
		}
	}
	return w, nil
}

// b09KitchenSink is a file with every indexed element kind on every edge of the descriptor tree.
const b09KitchenSink = `syntax = "proto2";
package ks;
import "google/protobuf/descriptor.proto";
option java_package = "x";
option (fo).a.b = 1;
message M {
  option deprecated = true;
  optional int32 f = 1 [deprecated = true, (fdo) = {a: {b: 2}}];
  map<string, M> mp = 2 [deprecated = false];
  optional group Grp = 3 [deprecated = true] { optional int32 g = 1 [deprecated = true]; }
  oneof o { option (oo) = 1; int32 of = 4 [deprecated = true]; group OG = 5 { } }
  extensions 100 to 199, 300 [verification = UNVERIFIED];
  extensions 1000 to max;
  reserved 50 to 59, 70;
  reserved "zz";
  message N { option deprecated = true; optional int32 nf = 1 [deprecated = true];
    enum NE { option deprecated = true; NE0 = 0 [deprecated = true]; reserved 5 to 7; }
    extend M { optional int32 nx = 101 [deprecated = true]; }
    extensions 10 to 20 [verification = UNVERIFIED];
    reserved 30;
    oneof no { option (oo) = 2; int32 nof = 2; }
  }
  enum E { option allow_alias = true; E0 = 0 [deprecated = true]; E1 = 0; reserved 9, 11 to max; reserved "q"; }
  extend M { optional int32 mx = 102 [deprecated = true]; optional group XG = 103 { } }
}
message P3 { }
enum TE { option deprecated = true; TE0 = 0 [deprecated = true, (evo) = 1]; reserved -5 to -1; }
extend M { optional int32 tx = 104 [deprecated = true, (fdo).a.b = 1]; optional group TG = 105 [deprecated = true] { optional int32 tgf = 1; } }
message Opt { optional Opt a = 1; optional int32 b = 2; }
extend google.protobuf.FileOptions { optional Opt fo = 50001; }
extend google.protobuf.FieldOptions { optional Opt fdo = 50001; }
extend google.protobuf.OneofOptions { optional int32 oo = 50001; }
extend google.protobuf.EnumValueOptions { optional int32 evo = 50001; }
service S { option deprecated = true; rpc A(M) returns (M); rpc B(stream M) returns (stream M) { option deprecated = true; option idempotency_level = IDEMPOTENT; } }
`

// b09DynamicIndexCheck clones the kitchen-sink parse result and reports which element kinds
// lost their AST node in the clone.
func b09DynamicIndexCheck() (string, string) {
	a, err := parser.Parse("ks.proto", strings.NewReader(b09KitchenSink), reporter.NewHandler(nil))
	if err != nil {
		return "kitchen-sink-rejected", Canon(err.Error())
	}
	orig, err := parser.ResultFromAST(a, true, reporter.NewHandler(nil))
	if err != nil {
		return "kitchen-sink-rejected", Canon(err.Error())
	}
	c := parser.Clone(orig)
	eo, ec := b09Elements(orig.FileDescriptorProto()), b09Elements(c.FileDescriptorProto())
	if len(eo) != len(ec) {
		return "incomplete", "shape"
	}
	kinds := map[string]int{}
	missing := map[string]bool{}
	for k := range eo {
		kinds[eo[k].kind]++
		no, po := b09SafeNode(eo[k], orig)
		nc, pc := b09SafeNode(ec[k], c)
		if po || pc || no == nil || no != nc {
			missing[eo[k].kind] = true
		}
	}
	var ks []string
	for _, k := range []string{"File", "M", "F", "O", "R", "Rp", "v", "N", "V", "w", "S", "C", "U", "P"} {
		if kinds[k] == 0 {
			return "kitchen-sink-lacks-" + k, "-"
		}
		ks = append(ks, fmt.Sprintf("%s=%d", k, kinds[k]))
	}
	if len(missing) > 0 {
		var ms []string
		for k := range missing {
			ms = append(ms, k)
		}
		sort.Strings(ms)
		return "incomplete", "missing=" + strings.Join(ms, ",")
	}
	return "complete", strings.Join(ks, ",")
}

// ---------------------------------------------------------------- Exec

func (e *b09Engine) Exec(op string) string {
	w := strings.Fields(op)
	if len(w) == 0 {
		return "bad-op"
	}
	switch {
	case e.name == "forms" && (w[0] == "forms" || w[0] == "formsx"):
		return e.formsOp("forms", w)
	case e.name == "forms" && w[0] == "noast":
		return e.formsOp(w[0], w)
	case e.name == "relink" && (w[0] == "relink" || w[0] == "relinkd"):
		return e.formsOp(w[0], w)
	case e.name == "clone" && w[0] == "clone":
		return e.cloneOp(w)
	case e.name == "clone" && w[0] == "index":
		a, b := b09DynamicIndexCheck()
		return a + " ~ " + b
	}
	return "bad-op"
}

func (e *b09Engine) Trivial(op, ans string) bool {
	return !strings.HasPrefix(ans, "ok ") && !strings.HasPrefix(ans, "complete")
}

func (e *b09Engine) Class(op, ans string) string {
	w := strings.Fields(op)
	a, _, _ := strings.Cut(ans, " ")
	nf := len(b09ReFileTok.FindAllString(op, -1))
	if w[0] == "index" {
		return "index:" + a
	}
	return fmt.Sprintf("%s:%s:files=%d", w[0], a, nf)
}

// ---------------------------------------------------------------- Gen

// b09Accepted reports whether the real compiler accepts the workspace compiled from source.
func b09Accepted(files []*b09N) bool {
	ws, _ := b09NewWS(files)
	run := ws.compile(strings.Repeat("s", len(files)), 0, nil, 0)
	return run.err == nil
}

func b09Msg(name string, body ...*b09N) *b09N { return &b09N{K: 'M', A: []string{name}, Body: body} }
func b09File(path, syn, pkg string, body ...*b09N) *b09N {
	return &b09N{K: 'F', A: []string{path, syn, pkg}, Body: body}
}

// b09SmallDomain is the hand-enumerated small domain: one feature at a time, per syntax.
func b09SmallDomain() [][]*b09N {
	var out [][]*b09N
	one := func(fs ...*b09N) { out = append(out, fs) }
	for _, syn := range []string{"2", "3", "e"} {
		lbl := "o"
		if syn != "2" {
			lbl = "n"
		}
		// every scalar type
		var flds []*b09N
		for i, t := range b09Scalars {
			flds = append(flds, b09Fld(lbl, t, "f_"+t, i+1))
		}
		one(b09File("a.proto", syn, "p", b09Msg("A", flds...)))
		// empty file, empty message, no package
		one(b09File("a.proto", syn, "-"))
		one(b09File("a.proto", syn, "-", b09Msg("A")))
		// message / enum references in all spellings, nested shadowing
		enumBody := []*b09N{{K: 'V', A: []string{"Z", "0"}}, {K: 'V', A: []string{"Y", "1"}}}
		for _, ref := range []string{"B", "A.B", "p.q.A.B", ".p.q.A.B", "q.A.B"} {
			for _, eref := range []string{"E", ".p.q.E", "q.E"} {
				one(b09File("a.proto", syn, "p.q",
					b09Msg("A", b09Msg("B"), b09Fld(lbl, ref, "x", 1), b09Fld("r", eref, "y", 2), b09Fld(lbl, "A", "z", 3)),
					b09Msg("B", b09Msg("A", b09Fld(lbl, "A", "inner", 1), b09Fld(lbl, "B", "outer", 2))),
					&b09N{K: 'N', A: []string{"E"}, Body: enumBody}))
			}
		}
		// maps
		for _, k := range b09KeyTypes {
			one(b09File("a.proto", syn, "p", b09Msg("A",
				&b09N{K: 'm', A: []string{k, "string", "m_a", "1", "-"}},
				&b09N{K: 'm', A: []string{k, "A", "mb", "2", "-"}},
				&b09N{K: 'm', A: []string{"string", "E", "m__c", "3", "JM"}}),
				&b09N{K: 'N', A: []string{"E"}, Body: enumBody}))
		}
		// oneofs
		one(b09File("a.proto", syn, "p", b09Msg("A",
			&b09N{K: 'O', A: []string{"o1"}, Body: []*b09N{b09Fld("n", "int32", "a", 1), b09Fld("n", "A", "b", 2)}},
			b09Fld(lbl, "string", "c", 3),
			&b09N{K: 'O', A: []string{"o2"}, Body: []*b09N{b09Fld("n", "bytes", "d", 4)}})))
		// json names
		for _, nm := range b09FldNames {
			one(b09File("a.proto", syn, "-", b09Msg("A", b09Fld(lbl, "int32", nm, 1),
				&b09N{K: 'f', A: []string{lbl, "int32", "other", "2", "J" + nm}})))
		}
		// services
		for _, cs := range []string{"0", "1"} {
			for _, ss := range []string{"0", "1"} {
				one(b09File("a.proto", syn, "p", b09Msg("A"), b09Msg("B"),
					&b09N{K: 'S', A: []string{"Svc"}, Body: []*b09N{
						{K: 'C', A: []string{"Get", "A", ".p.B", cs, ss}, NoBr: true},
						{K: 'C', A: []string{"Put", "p.B", "A", ss, cs}},
						{K: 'C', A: []string{"Del", "B", "B", cs, cs}, Opts: []string{"deprecated = true"}}}}))
			}
		}
		// imports: plain, public, transitive public
		for _, k1 := range []byte{'I', 'P'} {
			for _, k2 := range []byte{'I', 'P'} {
				one(b09File("a.proto", "2", "p", b09Msg("A"), &b09N{K: 'N', A: []string{"E"}, Body: enumBody}),
					b09File("b.proto", syn, "p.q", b09Leaf(k1, "a.proto"), b09Msg("B", b09Fld(lbl, "A", "a", 1))),
					b09File("c.proto", syn, "q", b09Leaf(k2, "b.proto"), b09Msg("C", b09Fld(lbl, "p.q.B", "b", 1))))
			}
		}
		one(b09File("a.proto", syn, "p", b09Msg("A")),
			b09File("b.proto", syn, "p", b09Leaf('P', "a.proto")),
			b09File("c.proto", syn, "p", b09Leaf('I', "b.proto"), b09Msg("C", b09Fld(lbl, "A", "a", 1))))
		// reserved, options
		one(b09File("a.proto", syn, "p", b09Leaf('o', `java_package = "x"`), b09Msg("A",
			b09Leaf('o', "deprecated = true"), b09Leaf('v', "5", "9"), b09Leaf('v', "12", "12"), b09Leaf('v', "100", "max"), b09Leaf('w', "old"),
			&b09N{K: 'f', A: []string{lbl, "int32", "a", "1", "-"}, Opts: []string{"deprecated = true"}}),
			&b09N{K: 'N', A: []string{"E"}, Body: []*b09N{b09Leaf('o', "allow_alias = true"), {K: 'V', A: []string{"Z", "0"}},
				{K: 'V', A: []string{"Y", "0"}, Opts: []string{"deprecated = true"}}, b09Leaf('v', "5", "max"), b09Leaf('v', "-3", "-1"), b09Leaf('w', "X")}}))
	}
	// proto3 optional and the synthetic oneof naming loop
	for _, names := range [][]string{{"a"}, {"a", "_a"}, {"_a", "a"}, {"a", "_a", "X_a"}, {"_a"}, {"a", "b"}, {"X_a", "_a", "a"}} {
		var flds []*b09N
		for i, nm := range names {
			flds = append(flds, b09Fld("o", "int32", nm, i+1))
		}
		one(b09File("a.proto", "3", "p", b09Msg("A", flds...)))
		flds2 := append([]*b09N{{K: 'O', A: []string{"X_a"}, Body: []*b09N{b09Fld("n", "int32", "zz", 9)}}}, flds...)
		if names[0] != "X_a" && len(names) < 3 {
			one(b09File("a.proto", "3", "p", b09Msg("A", flds2...)))
		}
	}
	one(b09File("a.proto", "3", "p", b09Msg("A", b09Fld("o", "int32", "a", 1), b09Msg("_a"), b09Fld("o", "A", "b", 2),
		&b09N{K: 'O', A: []string{"real"}, Body: []*b09N{b09Fld("n", "int32", "c", 3)}}, b09Fld("o", "int32", "d", 4))))
	// proto2: groups, extensions, required, defaults
	for _, l := range []string{"o", "r", "q"} {
		one(b09File("a.proto", "2", "p", b09Msg("A",
			&b09N{K: 'g', A: []string{l, "Grp", "1"}, Body: []*b09N{b09Fld("o", "int32", "a", 1), b09Fld("o", "Grp", "self", 2)}},
			b09Fld("o", "Grp", "again", 2),
			&b09N{K: 'O', A: []string{"o"}, Body: []*b09N{{K: 'g', A: []string{"n", "OG", "3"}}}})))
	}
	for _, ext := range []string{"A", ".p.A", "p.A"} {
		one(b09File("a.proto", "2", "p",
			b09Msg("A", &b09N{K: 'r', A: []string{"2", "100", "199", "1000", "max"}},
				&b09N{K: 'X', A: []string{ext}, Body: []*b09N{b09Fld("o", "int32", "inner_x", 100), b09Fld("r", "A", "ia", 101)}}),
			&b09N{K: 'X', A: []string{ext}, Body: []*b09N{b09Fld("o", "string", "top_x", 102),
				{K: 'g', A: []string{"o", "XG", "103"}, Body: []*b09N{b09Fld("o", "int32", "g", 1)}}}}))
	}
	one(b09File("a.proto", "2", "p", b09Msg("A", &b09N{K: 'r', A: []string{"1", "100", "199"}, Opts: []string{"verification = UNVERIFIED"}})),
		b09File("b.proto", "e", "q", b09Leaf('I', "a.proto"), &b09N{K: 'X', A: []string{"p.A"}, Body: []*b09N{b09Fld("n", "int32", "ex", 100)}}))
	one(b09File("a.proto", "2", "p", b09Msg("A",
		&b09N{K: 'f', A: []string{"o", "int32", "a", "1", "-"}, Opts: []string{"default = -5"}},
		&b09N{K: 'f', A: []string{"o", "string", "b", "2", "-"}, Opts: []string{`default = "x\ty"`}},
		&b09N{K: 'f', A: []string{"o", "double", "c", "3", "-"}, Opts: []string{"default = -inf"}},
		&b09N{K: 'f', A: []string{"o", "float", "c2", "7", "-"}, Opts: []string{"default = nan"}},
		&b09N{K: 'f', A: []string{"o", "bytes", "d", "4", "-"}, Opts: []string{`default = "\000\377"`}},
		&b09N{K: 'f', A: []string{"o", "E", "e", "5", "-"}, Opts: []string{"default = Y"}},
		&b09N{K: 'f', A: []string{"o", "bool", "f", "6", "-"}, Opts: []string{"default = true"}},
		&b09N{K: 'f', A: []string{"r", "int32", "g", "8", "-"}, Opts: []string{"packed = true"}}),
		&b09N{K: 'N', A: []string{"E"}, Body: []*b09N{{K: 'V', A: []string{"Z", "0"}}, {K: 'V', A: []string{"Y", "1"}}}}))
	// editions features
	one(b09File("a.proto", "e", "p", b09Leaf('o', "features.field_presence = IMPLICIT"), b09Msg("A",
		&b09N{K: 'f', A: []string{"n", "int32", "a", "1", "-"}, Opts: []string{"features.field_presence = EXPLICIT"}},
		&b09N{K: 'f', A: []string{"n", "A", "b", "2", "-"}, Opts: []string{"features.message_encoding = DELIMITED"}},
		&b09N{K: 'f', A: []string{"r", "int32", "c", "3", "-"}, Opts: []string{"features.repeated_field_encoding = EXPANDED"}},
		&b09N{K: 'f', A: []string{"n", "int32", "d", "4", "-"}, Opts: []string{"features.field_presence = LEGACY_REQUIRED"}})))
	// custom options, one per element kind
	opts := b09OptsFile()
	cfg := `{ i: 1 s: "x" kids { i: 2 } mp { key: "k" value: 1 } k: K1 d: -1.5 by: "\000\377" ri: [1, 2] [b09o.cfgext]: "e" any { [type.googleapis.com/b09o.Cfg] { i: 5 } } Grp { gi: 1 } }`
	for _, syn := range []string{"2", "3", "e"} {
		lbl := "o"
		if syn != "2" {
			lbl = "n"
		}
		body := []*b09N{b09Leaf('I', "b09o.proto"), b09Leaf('o', "(b09o.fcfg) = "+cfg), b09Leaf('o', "(b09o.fri) = 1"), b09Leaf('o', "(b09o.fri) = 2"),
			b09Msg("A", b09Leaf('o', "(b09o.mcfg).kids = { i: 1 }"), b09Leaf('o', "(b09o.mcfg).kids = { i: 2 }"), b09Leaf('o', "(.b09o.mi) = -1"),
				&b09N{K: 'f', A: []string{lbl, "int32", "a", "1", "JA"}, Opts: []string{"(b09o.fdcfg) = " + cfg, "(b09o.fdk) = K2", `(b09o.fdrs) = "a"`, `(b09o.fdrs) = "b"`}},
				&b09N{K: 'm', A: []string{"string", "int32", "m", "2", "-"}, Opts: []string{"(b09o.fdcfg).i = 1"}},
				&b09N{K: 'O', A: []string{"o"}, Body: []*b09N{b09Leaf('o', "(b09o.ocfg) = "+cfg), b09Fld("n", "int32", "b", 3)}}),
			&b09N{K: 'N', A: []string{"E"}, Body: []*b09N{b09Leaf('o', "(b09o.ecfg) = "+cfg), b09Leaf('o', `(b09o.es) = "e"`),
				{K: 'V', A: []string{"Z", "0"}, Opts: []string{"(b09o.vcfg) = " + cfg, "(b09o.vi) = 3"}}}},
			&b09N{K: 'S', A: []string{"Svc"}, Body: []*b09N{b09Leaf('o', "(b09o.scfg) = "+cfg),
				{K: 'C', A: []string{"Get", "A", "A", "0", "0"}, Opts: []string{"(b09o.tcfg) = " + cfg}}}}}
		one(opts, b09File("a.proto", syn, "p", body...))
	}
	one(opts, b09File("a.proto", "2", "p", b09Leaf('I', "b09o.proto"), b09Msg("A",
		&b09N{K: 'r', A: []string{"2", "100", "199", "300", "300"}, Opts: []string{"(b09o.rcfg) = " + cfg, "(b09o.rgi) = 1"}},
		&b09N{K: 'g', A: []string{"o", "Grp", "1"}, Opts: []string{"(b09o.fdcfg).i = 1", "deprecated = true"}, Body: []*b09N{b09Fld("o", "int32", "a", 1)}})))
	return out
}

// b09SharedOptions: source clauses that yield SEVERAL descriptor elements from one option list:
// `extensions a, b, c [opts];` (every range gets its own options message but the parser lets
// them share the uninterpreted-option storage), groups (field + message), map fields (field +
// entry message), proto3 optional (field + synthetic oneof).  Option lists mix built-in and
// custom options in both orders, singular and repeated custom options, 2-4 ranges.  All of
// them are accepted by the unchanged compiler, so they are not filtered.
func b09SharedOptions() [][]*b09N {
	var out [][]*b09N
	opts := b09OptsFile()
	rangesOf := func(n int) []string {
		a := []string{strconv.Itoa(n)}
		for i := 0; i < n; i++ {
			lo := 100 * (i + 1)
			hi := lo + 99
			if i == 1 {
				hi = lo // a single-number range
			}
			a = append(a, strconv.Itoa(lo), strconv.Itoa(hi))
		}
		return a
	}
	lists := [][]string{
		{"verification = UNVERIFIED", "(b09o.rgi) = 1"},
		{"(b09o.rgi) = 1", "verification = UNVERIFIED"},
		{"verification = UNVERIFIED", `(b09o.rtags) = "x"`},
		{`(b09o.rtags) = "x"`, "verification = UNVERIFIED", `(b09o.rtags) = "y"`},
		{"verification = UNVERIFIED", "(b09o.rcfg).i = 1", `(b09o.rcfg).s = "x"`},
		{"verification = UNVERIFIED", "(b09o.rcfg) = { i: 1 ri: [1, 2] }", "(b09o.rgi) = 2", `(b09o.rtags) = "z"`},
		{"verification = UNVERIFIED"},
		{`(b09o.rtags) = "a"`, `(b09o.rtags) = "b"`},
	}
	for _, syn := range []string{"2", "e"} {
		for n := 2; n <= 4; n++ {
			for _, l := range lists {
				out = append(out, []*b09N{opts, b09File("a.proto", syn, "p", b09Leaf('I', "b09o.proto"),
					b09Msg("A", &b09N{K: 'r', A: rangesOf(n), Opts: l}, b09Msg("B", &b09N{K: 'r', A: rangesOf(2), Opts: l})))})
			}
		}
	}
	fl := [][]string{
		{"deprecated = true", "(b09o.fdk) = K1"},
		{"(b09o.fdk) = K1", "deprecated = true"},
		{"deprecated = true", `(b09o.fdrs) = "a"`, `(b09o.fdrs) = "b"`},
		{`(b09o.fdrs) = "a"`, "deprecated = false", `(b09o.fdrs) = "b"`, "(b09o.fdcfg).i = 1"},
	}
	for _, l := range fl {
		out = append(out, []*b09N{opts, b09File("a.proto", "2", "p", b09Leaf('I', "b09o.proto"), b09Msg("A",
			&b09N{K: 'g', A: []string{"o", "Grp", "1"}, Opts: l, Body: []*b09N{b09Fld("o", "int32", "a", 1)}},
			&b09N{K: 'm', A: []string{"string", "A", "m_x", "2", "-"}, Opts: l},
			&b09N{K: 'f', A: []string{"r", "int32", "r", "3", "JR"}, Opts: l}))})
		for _, syn := range []string{"3", "e"} {
			lbl := "o"
			if syn == "e" {
				lbl = "n"
			}
			out = append(out, []*b09N{opts, b09File("a.proto", syn, "p", b09Leaf('I', "b09o.proto"), b09Msg("A",
				&b09N{K: 'f', A: []string{lbl, "int32", "a", "1", "-"}, Opts: l},
				&b09N{K: 'f', A: []string{lbl, "A", "b", "2", "-"}, Opts: l},
				&b09N{K: 'm', A: []string{"int32", "string", "m_y", "3", "JM"}, Opts: l}))})
		}
	}
	return out
}

// b09Boundaries: field tags exactly at the boundaries of the extension ranges and reserved
// ranges of their message (start-1 and end+1), enum values at start-1 / end+1 of reserved enum
// ranges, `max` ends, several ranges, nested messages; proto2 and editions (and proto3 for
// reserved ranges).  All accepted by the unchanged compiler: not filtered.
func b09Boundaries() [][]*b09N {
	var out [][]*b09N
	for _, syn := range []string{"2", "e", "3"} {
		lbl := "o"
		if syn != "2" {
			lbl = "n"
		}
		fl := func(name string, num int) *b09N { return b09Fld(lbl, "bool", name, num) }
		if syn != "3" {
			// extension ranges 10-19, 30, 1000-max: tags 9, 20, 29, 31, 999
			out = append(out, []*b09N{b09File("a.proto", syn, "p", b09Msg("A",
				&b09N{K: 'r', A: []string{"1", "10", "19"}}, fl("flag", 20)))})
			out = append(out, []*b09N{b09File("a.proto", syn, "p", b09Msg("A",
				&b09N{K: 'r', A: []string{"1", "10", "19"}}, fl("before", 9), fl("after", 20)))})
			out = append(out, []*b09N{b09File("a.proto", syn, "p", b09Msg("A",
				&b09N{K: 'r', A: []string{"3", "10", "19", "30", "30", "1000", "max"}},
				fl("a", 9), fl("b", 20), fl("c", 29), fl("d", 31), fl("e", 999), fl("one", 1),
				b09Msg("B", &b09N{K: 'r', A: []string{"1", "2", "2"}}, fl("x", 1), fl("y", 3),
					b09Msg("C", &b09N{K: 'r', A: []string{"2", "100", "199", "201", "max"}}, fl("z", 200), fl("w", 99)))))})
			out = append(out, []*b09N{b09File("a.proto", syn, "p", b09Msg("A",
				&b09N{K: 'r', A: []string{"1", "10", "19"}}, &b09N{K: 'r', A: []string{"1", "21", "29"}}, fl("mid", 20),
				b09Leaf('v', "30", "39"), fl("after_rsv", 40), fl("before_all", 9)))})
		}
		// reserved ranges 10-19, 30, 1000-max (inclusive ends): tags 9, 20, 29, 31, 999
		out = append(out, []*b09N{b09File("a.proto", syn, "p", b09Msg("A",
			b09Leaf('v', "10", "19"), b09Leaf('v', "30", "30"), b09Leaf('v', "1000", "max"),
			fl("a", 9), fl("b", 20), fl("c", 29), fl("d", 31), fl("e", 999),
			b09Msg("B", b09Leaf('v', "2", "2"), fl("x", 1), fl("y", 3))))})
		// enum values next to reserved enum ranges (-5..-1, 5..9, 100..max)
		first := "0"
		out = append(out, []*b09N{b09File("a.proto", syn, "p", &b09N{K: 'N', A: []string{"E"}, Body: []*b09N{
			{K: 'V', A: []string{"Z", first}}, {K: 'V', A: []string{"M6", "-6"}}, {K: 'V', A: []string{"P4", "4"}},
			{K: 'V', A: []string{"P10", "10"}}, {K: 'V', A: []string{"P99", "99"}},
			b09Leaf('v', "-5", "-1"), b09Leaf('v', "5", "9"), b09Leaf('v', "100", "max")}},
			b09Msg("A", &b09N{K: 'N', A: []string{"F"}, Body: []*b09N{{K: 'V', A: []string{"FZ", "0"}}, {K: 'V', A: []string{"F2", "2"}},
				b09Leaf('v', "1", "1"), b09Leaf('v', "3", "3")}}, b09Fld("r", "F", "f", 1)))})
	}
	return out
}

// b09FeatureFamily: constructs for which the linker / options interpreter synthesises or
// copies something into the descriptor, centred on editions features (map fields whose
// features are propagated to the synthetic key/value fields, file/message/enum level
// defaults, features on ordinary fields, extensions and oneof members), plus packed /
// default / json_name in every syntax that allows them. Candidates the real compiler does
// not accept from source are dropped silently by the caller.
func b09FeatureFamily() [][]*b09N {
	var out [][]*b09N
	one := func(fs ...*b09N) { out = append(out, fs) }
	enumE := func() *b09N {
		return &b09N{K: 'N', A: []string{"E"}, Body: []*b09N{{K: 'V', A: []string{"Z", "0"}}, {K: 'V', A: []string{"Y", "1"}}}}
	}
	mapf := func(k, v, name string, num int, json string, opts ...string) *b09N {
		return &b09N{K: 'm', A: []string{k, v, name, strconv.Itoa(num), json}, Opts: opts}
	}
	fld := func(lbl, typ, name string, num int, opts ...string) *b09N {
		return &b09N{K: 'f', A: []string{lbl, typ, name, strconv.Itoa(num), "-"}, Opts: opts}
	}
	kvs := [][2]string{{"string", "string"}, {"string", "int32"}, {"int32", "string"}, {"string", "E"}, {"string", "A"}, {"int64", "bytes"}, {"bool", ".p.A.B"}, {"sfixed32", "double"}}
	feats := [][]string{
		{"features.utf8_validation = NONE"},
		{"features.repeated_field_encoding = EXPANDED"},
		{"features.utf8_validation = NONE", "features.repeated_field_encoding = EXPANDED"},
		{"features.utf8_validation = VERIFY", "deprecated = true"},
		{"features.message_encoding = DELIMITED"},
		{"features.message_encoding = LENGTH_PREFIXED"},
		{"features.repeated_field_encoding = PACKED"},
	}
	for _, kv := range kvs {
		for _, ft := range feats {
			one(b09File("a.proto", "e", "p", b09Msg("A", b09Msg("B"), mapf(kv[0], kv[1], "m_a", 1, "-", ft...),
				fld("n", "int32", "x", 2)), enumE()))
		}
		// two maps, one with features and a JSON name, nested message, second file importing
		one(b09File("a.proto", "e", "p", b09Msg("A", b09Msg("B", mapf(kv[0], kv[1], "inner", 1, "JI", "features.repeated_field_encoding = EXPANDED")),
			mapf(kv[0], kv[1], "m1", 1, "-"), mapf("string", "string", "m2", 2, "-", "features.utf8_validation = NONE")), enumE()),
			b09File("b.proto", "e", "q", b09Leaf('I', "a.proto"), b09Msg("C", mapf("string", "p.A", "ma", 1, "-", "features.utf8_validation = NONE"),
				mapf("int32", "p.E", "me", 2, "-", "features.repeated_field_encoding = EXPANDED"))))
	}
	body := func() []*b09N {
		return []*b09N{
			b09Msg("A", b09Msg("B"),
				mapf("string", "string", "m", 1, "-"), mapf("int32", "A", "n", 2, "-"), mapf("string", "E", "me", 9, "-"),
				fld("r", "int32", "ri", 3), fld("n", "string", "s", 4), fld("n", "A", "a", 5), fld("n", "E", "e", 6), fld("r", "E", "re", 10),
				&b09N{K: 'O', A: []string{"o"}, Body: []*b09N{fld("n", "string", "os", 7), fld("n", "B", "ob", 8)}},
				&b09N{K: 'r', A: []string{"1", "100", "199"}}),
			enumE(),
			&b09N{K: 'X', A: []string{"A"}, Body: []*b09N{fld("n", "string", "xs", 100), fld("r", "int32", "xr", 101), fld("n", "A", "xa", 102)}},
		}
	}
	for _, fo := range []string{"features.utf8_validation = NONE", "features.repeated_field_encoding = EXPANDED", "features.field_presence = IMPLICIT",
		"features.field_presence = LEGACY_REQUIRED", "features.message_encoding = DELIMITED", "features.enum_type = CLOSED", "features.json_format = LEGACY_BEST_EFFORT"} {
		one(b09File("a.proto", "e", "p", append([]*b09N{b09Leaf('o', fo)}, body()...)...))
		// message- and enum-level
		b := body()
		b[0].Body = append([]*b09N{b09Leaf('o', fo)}, b[0].Body...)
		one(b09File("a.proto", "e", "p", b...))
		b = body()
		b[1].Body = append([]*b09N{b09Leaf('o', fo)}, b[1].Body...)
		one(b09File("a.proto", "e", "p", b...))
	}
	// features on ordinary fields, extensions and oneof members
	for _, c := range []struct{ lbl, typ, opt string }{
		{"r", "int32", "features.repeated_field_encoding = EXPANDED"}, {"r", "int32", "features.repeated_field_encoding = PACKED"},
		{"r", "E", "features.repeated_field_encoding = EXPANDED"}, {"n", "string", "features.utf8_validation = NONE"},
		{"r", "string", "features.utf8_validation = NONE"}, {"n", "A", "features.message_encoding = DELIMITED"},
		{"r", "A", "features.message_encoding = DELIMITED"}, {"n", "int32", "features.field_presence = IMPLICIT"},
		{"n", "int32", "features.field_presence = EXPLICIT"}, {"n", "int32", "features.field_presence = LEGACY_REQUIRED"},
		{"n", "A", "features.field_presence = LEGACY_REQUIRED"}, {"n", "E", "features.field_presence = IMPLICIT"},
		{"n", "int32", "default = 5"}, {"n", "string", `default = "x"`}, {"n", "E", "default = Y"},
	} {
		one(b09File("a.proto", "e", "p", b09Msg("A", fld(c.lbl, c.typ, "f", 1, c.opt), &b09N{K: 'r', A: []string{"1", "100", "199"}}), enumE()))
		one(b09File("a.proto", "e", "p", b09Msg("A", &b09N{K: 'r', A: []string{"1", "100", "199"}}), enumE(),
			&b09N{K: 'X', A: []string{"A"}, Body: []*b09N{fld(c.lbl, c.typ, "xf", 100, c.opt)}}))
		if c.lbl == "n" {
			one(b09File("a.proto", "e", "p", b09Msg("A", &b09N{K: 'O', A: []string{"o"}, Body: []*b09N{fld("n", c.typ, "of", 1, c.opt), fld("n", "int32", "og", 2)}}), enumE()))
		}
	}
	// packed / json_name / defaults on maps and repeated fields in every syntax
	for _, syn := range []string{"2", "3", "e"} {
		lbl := "o"
		if syn != "2" {
			lbl = "n"
		}
		for _, pk := range []string{"packed = true", "packed = false"} {
			one(b09File("a.proto", syn, "p", b09Msg("A", fld("r", "int32", "ri", 1, pk), fld("r", "E", "re", 2, pk), fld("r", "double", "rd", 3)), enumE()))
		}
		one(b09File("a.proto", syn, "p", b09Msg("A", mapf("string", "A", "m_x", 1, "JMX", "deprecated = true"), mapf("int32", "E", "m_y", 2, "-"),
			&b09N{K: 'f', A: []string{lbl, "A", "self_ref", "3", "JS"}}), enumE()))
		one(b09File("a.proto", syn, "p", b09Msg("A", fld(lbl, "int32", "d", 1, "default = 7"), fld(lbl, "E", "de", 2, "default = Y")), enumE()))
	}
	return out
}

// b09DerivedNames: field names that exercise every name derivation the compiler performs from
// a field name and re-checks on descriptor-proto input: map entry type name
// (PascalCase(field)+"Entry"), group field name (lower-cased group name), JSON name
// (camelCase), proto3-optional synthetic oneof name ("_x", "X_x", ...). Candidates the real
// compiler rejects from source are dropped silently by the caller.
func b09DerivedNames() [][]*b09N {
	var out [][]*b09N
	one := func(fs ...*b09N) { out = append(out, fs) }
	// (not used: "_1", "_9_" - protocompile accepts them as map fields although the derived entry
	// type name "1Entry" is not an identifier; protobuf-go refuses to build such a descriptor)
	names := []string{"line_2", "a_1b", "y_1", "x__2", "_x", "x_", "__y", "a", "Z", "fooBar", "FOO", "aB_cD", "x2", "x2y", "x_2y", "_", "a__", "b_9_",
		"very_long_field_name_with_many_words_and_1_digit_9x_and_some_more_words_to_be_long"}
	groups := []string{"Line_2", "A_1b", "X__2", "FooBar", "FOO", "AB_cD", "X2", "G_", "Z", "L_2_x"}
	mapf := func(k, v, name string, num int) *b09N {
		return &b09N{K: 'm', A: []string{k, v, name, strconv.Itoa(num), "-"}}
	}
	for _, syn := range []string{"2", "3", "e"} {
		lbl := "o"
		if syn != "2" {
			lbl = "n"
		}
		for _, nm := range names {
			one(b09File("a.proto", syn, "p", b09Msg("A", mapf("string", "int32", nm, 1))))
			one(b09File("a.proto", syn, "p", b09Msg("A", mapf("int32", "A", nm, 1), b09Fld(lbl, "int32", "other", 2))))
			one(b09File("a.proto", syn, "p", b09Msg("A", b09Fld(lbl, "string", nm, 1), b09Fld("r", "A", "rep", 2))))
			if syn == "3" {
				one(b09File("a.proto", syn, "p", b09Msg("A", b09Fld("o", "int32", nm, 1))))
				one(b09File("a.proto", syn, "p", b09Msg("A", b09Fld("o", "int32", nm, 1), b09Fld("o", "A", "X"+nm, 2), mapf("string", "string", "m"+nm, 3))))
			}
			// inside a oneof, inside a nested message, as an extension
			one(b09File("a.proto", syn, "p", b09Msg("A", b09Msg("B", mapf("string", "B", nm, 1)),
				&b09N{K: 'O', A: []string{"choice"}, Body: []*b09N{b09Fld("n", "int32", nm, 2), b09Fld("n", "string", "alt", 3)}})))
		}
		if syn == "2" {
			for _, gn := range groups {
				one(b09File("a.proto", syn, "p", b09Msg("A", &b09N{K: 'g', A: []string{"o", gn, "1"}, Body: []*b09N{b09Fld("o", "int32", "v", 1)}})))
				one(b09File("a.proto", syn, "p", b09Msg("A", &b09N{K: 'g', A: []string{"r", gn, "1"}, Body: []*b09N{mapf("string", gn, "m_1", 1)}},
					&b09N{K: 'O', A: []string{"o"}, Body: []*b09N{{K: 'g', A: []string{"n", gn + "O", "2"}}}},
					&b09N{K: 'r', A: []string{"1", "100", "199"}}),
					&b09N{K: 'X', A: []string{"A"}, Body: []*b09N{{K: 'g', A: []string{"o", gn + "X", "100"}}}}))
			}
		}
		// several together in one message (sets without JSON-name collisions)
		for _, set := range [][]string{{"line_2", "a_1b", "x2y", "fooBar"}, {"y_1", "x__2", "FOO"}, {"x_", "aB_cD", "x2"}, {"_x", "a", "Z"}, {"__y", "x_2y", "a__"}} {
			var ms, fs, os []*b09N
			for i, nm := range set {
				ms = append(ms, mapf("string", "int32", nm, i+1))
				fs = append(fs, b09Fld(lbl, "int32", nm, i+1))
				os = append(os, b09Fld("o", "int32", nm, i+1))
			}
			one(b09File("a.proto", syn, "p", b09Msg("A", ms...)))
			one(b09File("a.proto", syn, "p", b09Msg("A", fs...)))
			if syn != "e" {
				one(b09File("a.proto", syn, "p", b09Msg("A", os...)))
			}
			mixed := []*b09N{mapf("string", "A", set[0], 1), b09Fld(lbl, "string", set[1], 2)}
			if len(set) > 2 {
				mixed = append(mixed, &b09N{K: 'f', A: []string{"r", "int32", set[2], "3", "J" + set[2]}})
			}
			one(b09File("a.proto", syn, "p", b09Msg("A", mixed...)),
				b09File("b.proto", syn, "q", b09Leaf('I', "a.proto"), b09Msg("B", mapf("int32", "p.A", set[0], 1), mapf("string", "string", set[1], 2))))
		}
	}
	// pairs of fields whose DEFAULT JSON names collide (a warning in proto2 and under
	// json_format = LEGACY_BEST_EFFORT, an error otherwise), with and without an explicit
	// json_name on one of them; enum values that collide after prefix stripping / camel-casing;
	// two fields that derive the same map entry name
	jfld := func(lbl, name string, num int, json string) *b09N {
		return &b09N{K: 'f', A: []string{lbl, "int32", name, strconv.Itoa(num), json}}
	}
	for _, pr := range [][2]string{{"foo_bar", "fooBar"}, {"foo_bar", "foo__bar"}, {"a_b", "aB"}, {"x_1", "x1"}, {"_a", "A"}, {"ab_", "ab"}, {"foo_bar", "foo_Bar"}} {
		for _, js := range [][2]string{{"-", "-"}, {"other", "-"}, {"-", "other"}, {"J1", "J2"}, {"same", "same"}} {
			for _, syn := range []string{"2", "e", "3"} {
				lbl := "o"
				var head []*b09N
				if syn != "2" {
					lbl = "n"
				}
				if syn == "e" {
					head = []*b09N{b09Leaf('o', "features.json_format = LEGACY_BEST_EFFORT")}
				}
				body := append(append([]*b09N{}, head...), b09Msg("A", jfld(lbl, pr[0], 1, js[0]), jfld(lbl, pr[1], 2, js[1]), jfld("r", "third", 3, "-")))
				one(b09File("a.proto", syn, "p", body...))
				if syn == "e" {
					// message-level instead of file-level
					one(b09File("a.proto", syn, "p", b09Msg("A", b09Leaf('o', "features.json_format = LEGACY_BEST_EFFORT"),
						jfld(lbl, pr[0], 1, js[0]), &b09N{K: 'm', A: []string{"string", "int32", pr[1], "2", js[1]}})))
				}
			}
		}
	}
	for _, vs := range [][]string{{"E_FOO", "FOO"}, {"E_A_B", "E_AB"}, {"E_FOO", "e_foo"}, {"FOO_BAR", "FOOBAR"}, {"E_X", "EX"}} {
		for _, syn := range []string{"2", "3", "e"} {
			var vals []*b09N
			for i, v := range vs {
				vals = append(vals, &b09N{K: 'V', A: []string{v, strconv.Itoa(i)}})
			}
			one(b09File("a.proto", syn, "p", &b09N{K: 'N', A: []string{"E"}, Body: vals}, b09Msg("A", b09Fld("r", "E", "e", 1))))
		}
	}
	for _, syn := range []string{"2", "3", "e"} {
		one(b09File("a.proto", syn, "p", b09Msg("A", b09Fld("r", "int32", "Foos", 1), mapf("string", "string", "foos", 2))))
		one(b09File("a.proto", syn, "p", b09Msg("A", mapf("string", "string", "foos", 1), b09Fld("r", "int32", "Foos", 2))))
		one(b09File("a.proto", syn, "p", b09Msg("A", b09Fld("r", "A", "foo_s", 1), mapf("string", "A", "foos", 2))))
	}
	// an editions file with a CUSTOM feature (extension of google.protobuf.FeatureSet) set on a
	// map field, a plain field and at file level: the feature value is propagated to the
	// synthetic key/value fields on every compile
	fld := func(lbl, typ, name string, num int, opts ...string) *b09N {
		return &b09N{K: 'f', A: []string{lbl, typ, name, strconv.Itoa(num), "-"}, Opts: opts}
	}
	cf := func() *b09N {
		return b09File("cf.proto", "e", "cf", b09Leaf('I', "google/protobuf/descriptor.proto"),
			b09Msg("MyFeatures",
				&b09N{K: 'N', A: []string{"Mode"}, Body: []*b09N{{K: 'V', A: []string{"MODE_UNKNOWN", "0"}}, {K: 'V', A: []string{"MA", "1"}}, {K: 'V', A: []string{"MB", "2"}}}},
				fld("n", "Mode", "mode", 1, "retention = RETENTION_RUNTIME", "targets = TARGET_TYPE_FIELD", "targets = TARGET_TYPE_FILE", "targets = TARGET_TYPE_MESSAGE",
					"feature_support = { edition_introduced: EDITION_2023 }", `edition_defaults = { edition: EDITION_LEGACY, value: "MA" }`)),
			&b09N{K: 'X', A: []string{"google.protobuf.FeatureSet"}, Body: []*b09N{fld("n", "MyFeatures", "my", 9990)}})
	}
	one(cf(), b09File("a.proto", "e", "p", b09Leaf('I', "cf.proto"), b09Msg("A",
		&b09N{K: 'm', A: []string{"string", "string", "m", "1", "-"}, Opts: []string{"features.(cf.my).mode = MB"}})))
	one(cf(), b09File("a.proto", "e", "p", b09Leaf('I', "cf.proto"), b09Msg("A",
		&b09N{K: 'm', A: []string{"string", "string", "m", "1", "-"}, Opts: []string{"features.(cf.my).mode = MB", "features.utf8_validation = NONE"}},
		fld("n", "string", "s", 2, "features.(cf.my).mode = MB"))))
	one(cf(), b09File("a.proto", "e", "p", b09Leaf('I', "cf.proto"), b09Leaf('o', "features.(cf.my).mode = MB"), b09Msg("A",
		&b09N{K: 'm', A: []string{"int32", "A", "m", "1", "-"}}, fld("n", "string", "s", 2, "features.(cf.my).mode = MA"))))
	return out
}

func b09Modes(tier string, i int) string {
	if tier == "thorough" {
		return "0,1,2,4,6"
	}
	switch i % 6 {
	case 0:
		return "0,1,2"
	case 3:
		return "0,1,6"
	case 4:
		return "1,0" // the supplied objects go through a compilation WITH source info first
	}
	return "0,1"
}

func (e *b09Engine) Gen(r *Rand, tier string) [][]string {
	var cases [][]string
	add := func(op string) { cases = append(cases, []string{op}) }
	var wss [][]*b09N
	// the hand-made small domain is NOT filtered by acceptance: the model says these workspaces
	// compile, so a rejection by the real compiler shows up as a disagreement
	wss = append(wss, b09SmallDomain()...)
	wss = append(wss, b09SharedOptions()...)
	wss = append(wss, b09Boundaries()...)
	for _, ws := range b09FeatureFamily() {
		if b09Accepted(ws) {
			wss = append(wss, ws)
		}
	}
	for i, ws := range b09DerivedNames() {
		if e.name == "forms" && tier != "thorough" && i%2 == 1 {
			continue // quick forms run: every second workspace of this family (all of them in relink / clone)
		}
		if b09Accepted(ws) {
			wss = append(wss, ws)
		}
	}
	nSmall := len(wss)
	rejected := 0
	want := 45
	if e.name == "clone" {
		want = 150
	}
	if tier == "thorough" {
		if e.name == "forms" {
			want *= 2 // the thorough forms run is executed under the race detector (about 10x slower)
		} else {
			want *= 10
		}
	}
	for tries := 0; len(wss)-nSmall < want && tries < want*6; tries++ {
		seed := r.U64()
		nf := 1 + r.Intn(3)
		useOpts := r.Chance(1, 2)
		ws := b09GenWorkspace(seed, nf, useOpts, false, false)
		if !b09Accepted(ws) {
			rejected++
			continue
		}
		wss = append(wss, ws)
	}
	// workspaces with the float spellings on which the proto form is known to disagree
	var risky [][]*b09N
	if e.name == "forms" {
		for tries := 0; len(risky) < want/6 && tries < want*4; tries++ {
			seed := r.U64()
			ws := b09GenWorkspace(seed, 1, true, false, true)
			if strings.Contains(b09EncodeWS(ws), "2d") && b09Accepted(ws) {
				risky = append(risky, ws)
			}
		}
	}
	_ = rejected
	switch e.name {
	case "forms":
		for i, ws := range wss {
			spec := "x"
			if len(ws) > 3 || tier != "thorough" && len(ws) == 3 && i >= nSmall {
				spec = fmt.Sprintf("s%d:%d", 12, r.U64()%1000000)
			}
			if tier != "thorough" && i%2 == 1 {
				spec += "n" // quick tier: the concurrent batch on every second workspace only
			}
			add("forms " + b09Modes(tier, i) + " " + spec + " " + b09EncodeWS(ws))
			if i%4 == 0 {
				add("noast " + b09EncodeWS(ws))
			}
		}
		for _, lit := range []string{"d: -inf", "d: -nan", "fl: -inf", "d: 0x10", "d: 017", "fl: 0x7f", "fl: 010"} {
			add("formsx 0 x " + b09EncodeWS([]*b09N{b09OptsFile(), b09File("a.proto", "2", "p", b09Leaf('I', "b09o.proto"), b09Leaf('o', "(b09o.fcfg) = { "+lit+" }"))}))
		}
		for _, ws := range risky {
			add("formsx 0,1 s6:1 " + b09EncodeWS(ws))
		}
	case "relink":
		for i, ws := range wss {
			spec := "x"
			if len(ws) > 3 {
				spec = fmt.Sprintf("s%d:%d", 12, r.U64()%1000000)
			}
			add("relink " + b09Modes(tier, i) + " " + spec + " " + b09EncodeWS(ws))
			if i%2 == 0 || tier == "thorough" {
				add("relinkd " + b09Modes(tier, i) + " " + spec + " " + b09EncodeWS(ws))
			}
		}
	case "clone":
		spec, err := b09ExtractIndexSpec(b09RepoDir())
		if err != nil {
			add("index extraction-failed " + Canon(err.Error()))
		} else {
			add("index " + strings.Join(spec, " "))
		}
		for i, ws := range wss {
			add("clone ast " + b09EncodeWS(ws))
			if i%3 == 1 {
				add("clone astsci " + b09EncodeWS(ws))
			}
			if i%5 == 2 {
				add("clone noastsci " + b09EncodeWS(ws))
			}
			if i%5 == 0 {
				add("clone noast " + b09EncodeWS(ws))
			}
		}
	}
	return cases
}

var b09ReFileTok = regexp.MustCompile(` F \S+\.proto [23e] `)
