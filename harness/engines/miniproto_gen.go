package engines

// Generator of the miniproto engines ("link", "dual"): exhaustive small domains, directed
// boundary cases, random valid multi-file workspaces and one-rule mutants of them.

import (
	"fmt"
	"strconv"
	"strings"
)

var mpScalars = []string{"double", "float", "int32", "int64", "uint32", "uint64", "sint32", "sint64",
	"fixed32", "fixed64", "sfixed32", "sfixed64", "bool", "string", "bytes"}
var mpKeyTypes = []string{"int32", "int64", "uint32", "uint64", "sint32", "sint64",
	"fixed32", "fixed64", "sfixed32", "sfixed64", "bool", "string"}
var mpPkgPool = []string{"", "a", "a.b", "b", "a.b.c", "b.a"}
var mpMsgNames = []string{"M", "N", "P", "Q", "a", "b", "Foo"}
var mpFieldNames = []string{"x", "y", "z", "foo_bar", "a", "b", "m", "n", "_u", "v1", "fooBaz", "Foo"}
var mpEnumNames = []string{"E", "F", "G", "Kind", "a"}
var mpValueNames = []string{"A", "B", "C", "D", "ZERO", "ONE", "x", "E_A", "F_B"}

type mpTypeInfo struct {
	fq     string // a.b.M.N
	kind   byte   // 'm' or 'e'
	file   int
	closed bool // enum of a proto2 file
	first  string
	ranges [][2]int // extension ranges (inclusive) for messages
	mapEnt bool
}

type mpGenState struct {
	r        *Rand
	ws       *mpWS
	used     map[string]bool
	types    []*mpTypeInfo
	vis      [][]int // file -> visible files
	extNums  map[string]map[int]bool
	fieldsOf map[string][]string // message fq -> field fq names (for type-not-type mutants)
}

func mpRec1(k string, a ...string) mpRec { return mpRec{K: k, A: a} }

func (g *mpGenState) fresh(scope string, pool []string) (string, bool) {
	for try := 0; try < 12; try++ {
		n := Pick(g.r, pool)
		if try > 6 {
			n = n + strconv.Itoa(g.r.Intn(9))
		}
		fq := mpJoin(scope, n)
		if !g.used[fq] {
			return n, true
		}
	}
	return "", false
}

func mpJoin(scope, n string) string {
	if scope == "" {
		return n
	}
	return scope + "." + n
}

func (g *mpGenState) spell(fileIdx int, scope string, fq string) string {
	switch g.r.Intn(10) {
	case 0:
		return fq // fully qualified, no leading dot
	case 1:
		// relative to the package
		pkg := g.ws.Files[fileIdx].Pkg
		if pkg != "" && strings.HasPrefix(fq, pkg+".") {
			return fq[len(pkg)+1:]
		}
		return "." + fq
	case 2:
		// simple or shortest suffix relative to the enclosing scope
		if scope != "" && strings.HasPrefix(fq, scope+".") {
			return fq[len(scope)+1:]
		}
		if i := strings.LastIndexByte(scope, '.'); i >= 0 && strings.HasPrefix(fq, scope[:i]+".") {
			return fq[i+1:]
		}
		return "." + fq
	default:
		return "." + fq
	}
}

func (g *mpGenState) visibleTypes(fileIdx int, kind byte) []*mpTypeInfo {
	var out []*mpTypeInfo
	for _, t := range g.types {
		if t.mapEnt {
			continue
		}
		if kind != 0 && t.kind != kind {
			continue
		}
		for _, v := range g.vis[fileIdx] {
			if v == t.file {
				out = append(out, t)
				break
			}
		}
	}
	return out
}

// fieldType picks a type for a field; implicit says the field has implicit presence
// (proto3 singular without `optional`), where closed enums are not allowed.
func (g *mpGenState) fieldType(fileIdx int, scope string, implicit bool) (string, *mpTypeInfo) {
	if g.r.Chance(1, 2) {
		return Pick(g.r, mpScalars), nil
	}
	ts := g.visibleTypes(fileIdx, 0)
	var ok []*mpTypeInfo
	for _, t := range ts {
		if implicit && t.kind == 'e' && t.closed {
			continue
		}
		ok = append(ok, t)
	}
	if len(ok) == 0 {
		return Pick(g.r, mpScalars), nil
	}
	t := Pick(g.r, ok)
	return g.spell(fileIdx, scope, t.fq), t
}

func mpJSON(name string) string {
	var b []byte
	up := false
	for i := 0; i < len(name); i++ {
		c := name[i]
		switch {
		case c == '_':
			up = true
		case up:
			if c >= 'a' && c <= 'z' {
				c = c - 'a' + 'A'
			}
			b = append(b, c)
			up = false
		default:
			b = append(b, c)
		}
	}
	return string(b)
}

func mpEntryName(name string) string {
	var b []byte
	up := true
	for i := 0; i < len(name); i++ {
		c := name[i]
		switch {
		case c == '_':
			up = true
		case up:
			if c >= 'a' && c <= 'z' {
				c = c - 'a' + 'A'
			}
			b = append(b, c)
			up = false
		default:
			b = append(b, c)
		}
	}
	return string(b) + "Entry"
}

type mpMsgGen struct {
	fq    string
	body  *mpBody
	tags  map[int]bool
	jsons map[string]bool
	next  int
}

func (mg *mpMsgGen) tag(g *mpGenState) int {
	if g.r.Chance(1, 12) {
		for _, t := range []int{18999, 20000, 536870911, 99, 200} {
			if !mg.tags[t] {
				mg.tags[t] = true
				return t
			}
		}
	}
	for {
		mg.next += 1 + g.r.Intn(2)
		if mg.next >= 50 {
			mg.next += 1000 // never reached in practice; ranges live in 50..999
		}
		if !mg.tags[mg.next] {
			mg.tags[mg.next] = true
			return mg.next
		}
	}
}

func (g *mpGenState) labelFor(syntax string, inOneof bool) string {
	if inOneof {
		return "-"
	}
	switch syntax {
	case "2", "n":
		return Pick(g.r, []string{"o", "o", "o", "r", "q"})
	case "3":
		return Pick(g.r, []string{"-", "-", "o", "r"})
	default:
		return Pick(g.r, []string{"-", "-", "r"})
	}
}

// genField returns a field record (ctx given) or false.
func (g *mpGenState) genField(fi int, mg *mpMsgGen, scope string, ctx string) (mpRec, bool) {
	f := g.ws.Files[fi]
	name, ok := g.fresh(scope, mpFieldNames)
	if !ok {
		return mpRec{}, false
	}
	if ctx != "x" {
		j := mpJSON(name)
		if mg.jsons[j] {
			return mpRec{}, false
		}
		mg.jsons[j] = true
	}
	label := g.labelFor(f.Syntax, ctx == "o")
	if ctx == "x" {
		switch f.Syntax {
		case "2", "n":
			label = Pick(g.r, []string{"o", "r"})
		case "3":
			label = Pick(g.r, []string{"-", "o", "r"})
		default:
			label = Pick(g.r, []string{"-", "r"})
		}
	}
	implicit := f.Syntax == "3" && label == "-" && ctx == "-"
	ty, ti := g.fieldType(fi, scope, implicit)
	g.used[mpJoin(scope, name)] = true
	json, packed, def := "-", "-", "-"
	if ctx != "x" && g.r.Chance(1, 10) {
		cand := "j" + name
		if !mg.jsons[cand] {
			mg.jsons[cand] = true
			json = mpHexS(cand)
		}
	}
	isNum := ti == nil && ty != "string" && ty != "bytes" || ti != nil && ti.kind == 'e'
	if label == "r" && isNum && f.Syntax != "e" && g.r.Chance(1, 4) {
		packed = Pick(g.r, []string{"t", "f"})
	}
	if (f.Syntax == "2" || f.Syntax == "n" || f.Syntax == "e") && label != "r" && g.r.Chance(1, 5) {
		switch {
		case ti == nil && (ty == "int32" || ty == "sint32" || ty == "sfixed32"):
			def = "i" + Pick(g.r, []string{"0", "7", "-1", "2147483647", "-2147483648"})
		case ti == nil && (ty == "int64" || ty == "sint64"):
			def = "i" + Pick(g.r, []string{"0", "-9", "9223372036854775807", "-9223372036854775808"})
		case ti == nil && (ty == "uint32" || ty == "fixed32"):
			def = "i" + Pick(g.r, []string{"0", "4294967295"})
		case ti == nil && (ty == "uint64" || ty == "fixed64"):
			def = "i" + Pick(g.r, []string{"0", "18446744073709551615"})
		case ti == nil && ty == "bool":
			def = "b" + Pick(g.r, []string{"t", "f"})
		case ti == nil && ty == "string":
			def = "s" + mpHexS(Pick(g.r, []string{"", "abc", "a b"}))[1:]
		case ti != nil && ti.kind == 'e' && ti.first != "":
			def = "e" + ti.first
		}
	}
	num := 0
	if ctx == "x" {
		return mpRec{}, false // extension numbers are assigned by genExtend
	}
	num = mg.tag(g)
	if ctx == "-" || ctx == "o" {
		g.fieldsOf[mg.fq] = append(g.fieldsOf[mg.fq], mpJoin(scope, name))
	}
	return mpRec1("f", ctx, label, ty, name, strconv.Itoa(num), json, packed, def), true
}

func (g *mpGenState) genEnum(fi int, scope string) (int, bool) {
	f := g.ws.Files[fi]
	name, ok := g.fresh(scope, mpEnumNames)
	if !ok {
		return 0, false
	}
	fq := mpJoin(scope, name)
	g.used[fq] = true
	b := &mpBody{Name: name}
	idx := len(f.Enums)
	f.Enums = append(f.Enums, b)
	n := 1 + g.r.Intn(4)
	nums := map[int]bool{}
	first := ""
	alias := g.r.Chance(1, 6)
	if alias {
		b.Elems = append(b.Elems, mpRec1("aa", "t"))
	} else if g.r.Chance(1, 12) {
		b.Elems = append(b.Elems, mpRec1("aa", "f"))
	}
	lastNum := 0
	added := 0
	for i := 0; i < n; i++ {
		vn, ok := g.fresh(scope, mpValueNames)
		if !ok {
			continue
		}
		num := 0
		if added > 0 || (f.Syntax == "2" || f.Syntax == "n") && g.r.Chance(1, 3) {
			for {
				num = g.r.Intn(12) - 3
				if g.r.Chance(1, 15) {
					num = Pick(g.r, []int{2147483647, -2147483648})
				}
				if !nums[num] {
					break
				}
			}
		}
		if alias && added == 1 {
			num = lastNum
		}
		nums[num] = true
		lastNum = num
		g.used[mpJoin(scope, vn)] = true
		if first == "" {
			first = vn
		}
		b.Elems = append(b.Elems, mpRec1("v", vn, strconv.Itoa(num)))
		added++
	}
	if added == 0 {
		// could not name a value: give it a unique one
		vn := name + "_V" + strconv.Itoa(idx)
		g.used[mpJoin(scope, vn)] = true
		b.Elems = append(b.Elems, mpRec1("v", vn, "0"))
		first = vn
		added = 1
	}
	if alias && added < 2 {
		vn := name + "_W" + strconv.Itoa(idx)
		g.used[mpJoin(scope, vn)] = true
		b.Elems = append(b.Elems, mpRec1("v", vn, strconv.Itoa(lastNum)))
	}
	if g.r.Chance(1, 4) {
		b.Elems = append(b.Elems, mpRec1("rr", "100", Pick(g.r, []string{"-", "110", "max"})))
		if g.r.Chance(1, 2) {
			b.Elems = append(b.Elems, mpRec1("rr", "-20", "-10"))
		}
	}
	if g.r.Chance(1, 5) {
		style := "s"
		if f.Syntax == "e" {
			style = "i"
		}
		b.Elems = append(b.Elems, mpRec1("rn", mpHexS("OLD_"+name), style))
	}
	// the position of `option allow_alias` inside the body is free: first, middle or last
	if len(b.Elems) > 1 && b.Elems[0].K == "aa" {
		aa := b.Elems[0]
		rest := append([]mpRec{}, b.Elems[1:]...)
		pos := g.r.Intn(len(rest) + 1)
		b.Elems = append(append(append([]mpRec{}, rest[:pos]...), aa), rest[pos:]...)
	}
	g.types = append(g.types, &mpTypeInfo{fq: fq, kind: 'e', file: fi, closed: f.Syntax == "2" || f.Syntax == "n", first: first})
	return idx, true
}

func (g *mpGenState) genMsgBody(fi int, fq string, b *mpBody, depth int) *mpTypeInfo {
	f := g.ws.Files[fi]
	mg := &mpMsgGen{fq: fq, body: b, tags: map[int]bool{}, jsons: map[string]bool{}}
	ti := &mpTypeInfo{fq: fq, kind: 'm', file: fi}
	g.types = append(g.types, ti)
	nElems := 1 + g.r.Intn(6)
	extVariant := -1
	if f.Syntax != "3" && g.r.Chance(1, 3) {
		extVariant = g.r.Intn(3)
		if extVariant != 0 {
			mg.tags[18999], mg.tags[20000], mg.tags[536870911] = true, true, true
		}
		mg.tags[200] = true
	}
	rsvd, rsvdDone := g.r.Chance(1, 3), false
	if rsvd {
		mg.tags[99], mg.tags[200] = true, true
	}
	for i := 0; i < nElems; i++ {
		switch g.r.Intn(14) {
		case 0:
			if idx, ok := g.genEnum(fi, fq); ok {
				b.Elems = append(b.Elems, mpRec1("n", strconv.Itoa(idx)))
			}
		case 1:
			if depth < 2 {
				if idx, ok := g.genMsg(fi, fq, depth+1); ok {
					b.Elems = append(b.Elems, mpRec1("c", strconv.Itoa(idx)))
				}
			}
		case 2:
			// oneof
			on, ok := g.fresh(fq, []string{"o", "oo", "choice", "kind"})
			if !ok {
				continue
			}
			g.used[mpJoin(fq, on)] = true
			var members []mpRec
			for k := 0; k < 1+g.r.Intn(3); k++ {
				if r, ok := g.genField(fi, mg, fq, "o"); ok {
					members = append(members, r)
				}
			}
			if len(members) > 0 {
				b.Elems = append(b.Elems, mpRec1("o", on))
				b.Elems = append(b.Elems, members...)
			}
		case 3:
			// map field
			name, ok := g.fresh(fq, mpFieldNames)
			if !ok {
				continue
			}
			en := mpEntryName(name)
			if g.used[mpJoin(fq, en)] || mg.jsons[mpJSON(name)] {
				continue
			}
			g.used[mpJoin(fq, name)] = true
			g.used[mpJoin(fq, en)] = true
			mg.jsons[mpJSON(name)] = true
			vt, _ := g.fieldType(fi, fq, false)
			b.Elems = append(b.Elems, mpRec1("m", Pick(g.r, mpKeyTypes), vt, name, strconv.Itoa(mg.tag(g))))
			g.types = append(g.types, &mpTypeInfo{fq: mpJoin(fq, en), kind: 'm', file: fi, mapEnt: true})
		case 4:
			// group (proto2 only)
			if f.Syntax != "2" && f.Syntax != "n" {
				continue
			}
			gn, ok := g.fresh(fq, []string{"Grp", "G", "Data", "Inner"})
			if !ok {
				continue
			}
			ln := strings.ToLower(gn)
			if g.used[mpJoin(fq, ln)] || mg.jsons[mpJSON(ln)] {
				continue
			}
			g.used[mpJoin(fq, gn)] = true
			g.used[mpJoin(fq, ln)] = true
			mg.jsons[mpJSON(ln)] = true
			gb := &mpBody{Name: gn}
			idx := len(f.Msgs)
			f.Msgs = append(f.Msgs, gb)
			tag := mg.tag(g)
			g.genMsgBody(fi, mpJoin(fq, gn), gb, depth+1)
			b.Elems = append(b.Elems, mpRec1("g", "-", Pick(g.r, []string{"o", "r", "q"}), gn, strconv.Itoa(tag), strconv.Itoa(idx)))
		case 5:
			// extension ranges (not proto3); live in 100..199 and 1000..max
			if extVariant < 0 || len(ti.ranges) > 0 {
				continue
			}
			switch extVariant {
			case 0:
				b.Elems = append(b.Elems, mpRec1("er", "100", "199"))
				ti.ranges = append(ti.ranges, [2]int{100, 199})
			case 1:
				b.Elems = append(b.Elems, mpRec1("er", "1000", "max"))
				ti.ranges = append(ti.ranges, [2]int{1000, 536870911})
			default:
				b.Elems = append(b.Elems, mpRec1("er", "100", "-"), mpRec1("er", "150", "160"), mpRec1("er", "1000", "max"))
				ti.ranges = append(ti.ranges, [2]int{100, 100}, [2]int{150, 160}, [2]int{1000, 536870911})
			}
		case 6:
			// reserved ranges live in 50..99 (tags never land there) and 201..299
			if !rsvd || rsvdDone {
				continue
			}
			rsvdDone = true
			b.Elems = append(b.Elems, mpRec1("rr", "50", Pick(g.r, []string{"-", "59", "99"})))
			if g.r.Chance(1, 2) {
				b.Elems = append(b.Elems, mpRec1("rr", "201", "299"))
			}
		case 7:
			style := "s"
			if f.Syntax == "e" {
				style = "i"
			}
			b.Elems = append(b.Elems, mpRec1("rn", mpHexS("old_"+strconv.Itoa(i)), style))
		default:
			if r, ok := g.genField(fi, mg, fq, "-"); ok {
				b.Elems = append(b.Elems, r)
			}
		}
	}
	// nested extend block
	if g.r.Chance(1, 8) {
		b.Elems = append(b.Elems, g.genExtend(fi, fq)...)
	}
	return ti
}

func (g *mpGenState) genMsg(fi int, scope string, depth int) (int, bool) {
	f := g.ws.Files[fi]
	name, ok := g.fresh(scope, mpMsgNames)
	if !ok {
		return 0, false
	}
	fq := mpJoin(scope, name)
	g.used[fq] = true
	b := &mpBody{Name: name}
	idx := len(f.Msgs)
	f.Msgs = append(f.Msgs, b)
	g.genMsgBody(fi, fq, b, depth)
	return idx, true
}

// genExtend returns the records of an extend block (or nil) declared in scope.
func (g *mpGenState) genExtend(fi int, scope string) []mpRec {
	f := g.ws.Files[fi]
	if f.Syntax == "3" {
		return nil
	}
	var cands []*mpTypeInfo
	for _, t := range g.visibleTypes(fi, 'm') {
		if len(t.ranges) > 0 {
			cands = append(cands, t)
		}
	}
	if len(cands) == 0 {
		return nil
	}
	t := Pick(g.r, cands)
	out := []mpRec{mpRec1("x", g.spell(fi, scope, t.fq))}
	if g.extNums[t.fq] == nil {
		g.extNums[t.fq] = map[int]bool{}
	}
	for k := 0; k < 1+g.r.Intn(2); k++ {
		name, ok := g.fresh(scope, []string{"ext", "e1", "e2", "x", "ext_a"})
		if !ok {
			continue
		}
		rg := Pick(g.r, t.ranges)
		num := rg[0] + g.r.Intn(rg[1]-rg[0]+1)
		if g.r.Chance(1, 3) {
			num = Pick(g.r, []int{rg[0], rg[1]})
		}
		if num >= 19000 && num <= 19999 {
			num = 20000
		}
		if g.extNums[t.fq][num] {
			continue
		}
		g.extNums[t.fq][num] = true
		g.used[mpJoin(scope, name)] = true
		label := "o"
		if f.Syntax == "e" {
			label = Pick(g.r, []string{"-", "r"})
		} else {
			label = Pick(g.r, []string{"o", "o", "r"})
		}
		ty, _ := g.fieldType(fi, scope, false)
		out = append(out, mpRec1("f", "x", label, ty, name, strconv.Itoa(num), "-", "-", "-"))
	}
	if len(out) == 1 {
		return nil
	}
	return out
}

func mpValidWorkspace(r *Rand) *mpWS {
	g := &mpGenState{r: r, ws: &mpWS{}, used: map[string]bool{}, extNums: map[string]map[int]bool{}, fieldsOf: map[string][]string{}}
	nFiles := 1 + r.Intn(3)
	if r.Chance(1, 6) {
		nFiles = 4
	}
	// packages first: a full name may not equal a package prefix
	for i := 0; i < nFiles; i++ {
		f := &mpFile{Path: fmt.Sprintf("f%d.proto", i), Syntax: Pick(r, []string{"2", "2", "3", "3", "e", "e", "n"}), Pkg: Pick(r, mpPkgPool)}
		g.ws.Files = append(g.ws.Files, f)
		parts := strings.Split(f.Pkg, ".")
		for k := 1; k <= len(parts) && f.Pkg != ""; k++ {
			g.used[strings.Join(parts[:k], ".")] = true
		}
	}
	g.vis = make([][]int, nFiles)
	pub := make([][]int, nFiles) // public imports of each file
	for i := 0; i < nFiles; i++ {
		f := g.ws.Files[i]
		g.vis[i] = []int{i}
		for j := 0; j < i; j++ {
			if r.Chance(2, 3) {
				kind := "n"
				if r.Chance(1, 3) {
					kind = "p"
					pub[i] = append(pub[i], j)
				}
				f.Imports = append(f.Imports, mpRec1("I", g.ws.Files[j].Path, kind))
				// direct import + its public closure
				var add func(k int)
				add = func(k int) {
					for _, v := range g.vis[i] {
						if v == k {
							return
						}
					}
					g.vis[i] = append(g.vis[i], k)
					for _, p := range pub[k] {
						add(p)
					}
				}
				add(j)
			}
		}
		// body
		for k := 0; k < 1+r.Intn(3); k++ {
			switch r.Intn(6) {
			case 0:
				if idx, ok := g.genEnum(i, f.Pkg); ok {
					f.Top = append(f.Top, mpRec1("n", strconv.Itoa(idx)))
				}
			default:
				if idx, ok := g.genMsg(i, f.Pkg, 0); ok {
					f.Top = append(f.Top, mpRec1("c", strconv.Itoa(idx)))
				}
			}
		}
		if r.Chance(1, 3) {
			f.Top = append(f.Top, g.genExtend(i, f.Pkg)...)
		}
		if r.Chance(1, 3) {
			ms := g.visibleTypes(i, 'm')
			if name, ok := g.fresh(f.Pkg, []string{"Svc", "S", "Api"}); ok && len(ms) > 0 {
				g.used[mpJoin(f.Pkg, name)] = true
				sb := &mpBody{Name: name}
				for k := 0; k < 1+r.Intn(2); k++ {
					in, out := Pick(r, ms), Pick(r, ms)
					sb.Elems = append(sb.Elems, mpRec1("rpc", fmt.Sprintf("Do%d", k), g.spell(i, mpJoin(f.Pkg, name), in.fq), g.spell(i, mpJoin(f.Pkg, name), out.fq),
						strconv.Itoa(r.Intn(2)), strconv.Itoa(r.Intn(2))))
				}
				f.Top = append(f.Top, mpRec1("s", strconv.Itoa(len(f.Svcs))))
				f.Svcs = append(f.Svcs, sb)
			}
		}
	}
	// requested order: sometimes dependencies last (the root first)
	if r.Chance(1, 3) {
		for i, j := 0, len(g.ws.Files)-1; i < j; i, j = i+1, j-1 {
			g.ws.Files[i], g.ws.Files[j] = g.ws.Files[j], g.ws.Files[i]
		}
	}
	return g.ws
}

// ---------------------------------------------------------------- mutants

func mpClone(w *mpWS) *mpWS {
	c, _ := mpParse(w.op())
	return c
}

type mpMutation struct {
	name  string
	apply func(r *Rand, w *mpWS) bool
}

func mpPickFile(r *Rand, w *mpWS, syn string) *mpFile {
	var c []*mpFile
	for _, f := range w.Files {
		if strings.Contains(syn, f.Syntax) {
			c = append(c, f)
		}
	}
	if len(c) == 0 {
		return nil
	}
	return Pick(r, c)
}

func mpPickMsg(r *Rand, f *mpFile) *mpBody {
	if f == nil || len(f.Msgs) == 0 {
		return nil
	}
	return Pick(r, f.Msgs)
}

func mpLabelOK(f *mpFile) string {
	switch f.Syntax {
	case "2", "n":
		return "o"
	}
	return "-"
}

// inMsg builds a mutation appending records (made by mk) to a random message of a file whose
// syntax is one of syn.
func mpInMsg(name, syn string, mk func(r *Rand, f *mpFile, m *mpBody) []mpRec) mpMutation {
	return mpMutation{name, func(r *Rand, w *mpWS) bool {
		f := mpPickFile(r, w, syn)
		m := mpPickMsg(r, f)
		if m == nil {
			return false
		}
		recs := mk(r, f, m)
		if recs == nil {
			return false
		}
		m.Elems = append(m.Elems, recs...)
		return true
	}}
}

func mpFld(f *mpFile, name string, num int) mpRec {
	return mpRec1("f", "-", mpLabelOK(f), "int32", name, strconv.Itoa(num), "-", "-", "-")
}

func mpFldT(label, ty, name string, num int) mpRec {
	return mpRec1("f", "-", label, ty, name, strconv.Itoa(num), "-", "-", "-")
}

func mpNewEnum(f *mpFile, name string, elems ...mpRec) mpRec {
	f.Enums = append(f.Enums, &mpBody{Name: name, Elems: elems})
	return mpRec1("n", strconv.Itoa(len(f.Enums)-1))
}

func mpNewMsg(f *mpFile, name string, elems ...mpRec) mpRec {
	f.Msgs = append(f.Msgs, &mpBody{Name: name, Elems: elems})
	return mpRec1("c", strconv.Itoa(len(f.Msgs)-1))
}

func mpRsvdStyle(f *mpFile) string {
	if f.Syntax == "e" {
		return "i"
	}
	return "s"
}

var mpAll = "23en"

var mpMutations = []mpMutation{
	mpInMsg("dup-tag", mpAll, func(r *Rand, f *mpFile, m *mpBody) []mpRec {
		return []mpRec{mpFld(f, "zz1", 40001), mpFld(f, "zz2", 40001)}
	}),
	mpInMsg("tag-zero", mpAll, func(r *Rand, f *mpFile, m *mpBody) []mpRec { return []mpRec{mpFld(f, "zz1", 0)} }),
	mpInMsg("tag-too-high", mpAll, func(r *Rand, f *mpFile, m *mpBody) []mpRec {
		return []mpRec{mpRec1("f", "-", mpLabelOK(f), "int32", "zz1", Pick(r, []string{"536870912", "4294967296", "18446744073709551615"}), "-", "-", "-")}
	}),
	mpInMsg("tag-19000", mpAll, func(r *Rand, f *mpFile, m *mpBody) []mpRec {
		return []mpRec{mpFld(f, "zz1", Pick(r, []int{19000, 19999, 19500}))}
	}),
	mpInMsg("tag-boundary-ok", mpAll, func(r *Rand, f *mpFile, m *mpBody) []mpRec {
		return []mpRec{mpFld(f, "zz1", Pick(r, []int{18999, 20000, 536870911, 1}))}
	}),
	mpInMsg("rsvd-overlap", mpAll, func(r *Rand, f *mpFile, m *mpBody) []mpRec {
		a := 40000 + r.Intn(5)
		return []mpRec{mpRec1("rr", "40000", "40010"), mpRec1("rr", strconv.Itoa(a+6), "40020"), mpRec1("rr", "40030", "-")}
	}),
	mpInMsg("rsvd-adjacent-ok", mpAll, func(r *Rand, f *mpFile, m *mpBody) []mpRec {
		return []mpRec{mpRec1("rr", "40011", "40020"), mpRec1("rr", "40000", "40010"), mpRec1("rr", "40021", "-")}
	}),
	mpInMsg("ext-overlap", "2en", func(r *Rand, f *mpFile, m *mpBody) []mpRec {
		return []mpRec{mpRec1("er", "41000", "41010"), mpRec1("er", "41010", Pick(r, []string{"-", "41020", "max"}))}
	}),
	mpInMsg("ext-adjacent-ok", "2en", func(r *Rand, f *mpFile, m *mpBody) []mpRec {
		return []mpRec{mpRec1("er", "41011", "41020"), mpRec1("er", "41000", "41010")}
	}),
	mpInMsg("p3-ext-range", "3", func(r *Rand, f *mpFile, m *mpBody) []mpRec { return []mpRec{mpRec1("er", "41000", "41010")} }),
	mpInMsg("ext-rsvd-overlap", "2en", func(r *Rand, f *mpFile, m *mpBody) []mpRec {
		if r.Bool() {
			return []mpRec{mpRec1("er", "42000", "42010"), mpRec1("rr", "42010", "42020")}
		}
		return []mpRec{mpRec1("rr", "42000", "42010"), mpRec1("er", "42005", "42007"), mpRec1("er", "42100", "max")}
	}),
	mpInMsg("ext-rsvd-adjacent-ok", "2en", func(r *Rand, f *mpFile, m *mpBody) []mpRec {
		return []mpRec{mpRec1("er", "42000", "42010"), mpRec1("rr", "42011", "42020"), mpRec1("rr", "41990", "41999")}
	}),
	mpInMsg("in-rsvd-range", mpAll, func(r *Rand, f *mpFile, m *mpBody) []mpRec {
		return []mpRec{mpRec1("rr", "43000", "43010"), mpRec1("rr", "43020", "43030"), mpFld(f, "zz1", Pick(r, []int{43000, 43010, 43005, 43020, 43030}))}
	}),
	mpInMsg("near-rsvd-range-ok", mpAll, func(r *Rand, f *mpFile, m *mpBody) []mpRec {
		return []mpRec{mpRec1("rr", "43000", "43010"), mpRec1("rr", "43020", "43030"), mpFld(f, "zz1", Pick(r, []int{42999, 43011, 43019, 43031}))}
	}),
	mpInMsg("tag-in-ext-range", "2en", func(r *Rand, f *mpFile, m *mpBody) []mpRec {
		return []mpRec{mpRec1("er", "44000", "44010"), mpFld(f, "zz1", Pick(r, []int{44000, 44010, 44003}))}
	}),
	mpInMsg("field-rsvd-name", mpAll, func(r *Rand, f *mpFile, m *mpBody) []mpRec {
		return []mpRec{mpRec1("rn", mpHexS("zz1"), mpRsvdStyle(f)), mpFld(f, "zz1", 40001)}
	}),
	mpInMsg("rsvd-name-dup", mpAll, func(r *Rand, f *mpFile, m *mpBody) []mpRec {
		return []mpRec{mpRec1("rn", mpHexS("zz1"), mpRsvdStyle(f)), mpRec1("rn", mpHexS("zz1"), mpRsvdStyle(f))}
	}),
	mpInMsg("rsvd-name-invalid", "23n", func(r *Rand, f *mpFile, m *mpBody) []mpRec {
		return []mpRec{mpRec1("rn", mpHexS(Pick(r, []string{"1a", "", "a b", "a-b", "a.b"})), "s")}
	}),
	mpInMsg("rsvd-name-style", mpAll, func(r *Rand, f *mpFile, m *mpBody) []mpRec {
		if f.Syntax == "e" {
			return []mpRec{mpRec1("rn", mpHexS("zz1"), "s")}
		}
		return []mpRec{mpRec1("rn", mpHexS("zz1"), "i")}
	}),
	mpInMsg("range-inverted", mpAll, func(r *Rand, f *mpFile, m *mpBody) []mpRec { return []mpRec{mpRec1("rr", "40010", "40005")} }),
	mpInMsg("range-oob", mpAll, func(r *Rand, f *mpFile, m *mpBody) []mpRec {
		return []mpRec{Pick(r, []mpRec{mpRec1("rr", "0", "5"), mpRec1("rr", "40000", "536870912"), mpRec1("rr", "536870912", "-"), mpRec1("rr", "4294967297", "4294967296")})}
	}),
	mpInMsg("range-max-ok", mpAll, func(r *Rand, f *mpFile, m *mpBody) []mpRec {
		return []mpRec{mpRec1("rr", "40000", Pick(r, []string{"max", "536870911"}))}
	}),
	mpInMsg("required-non-p2", "3e", func(r *Rand, f *mpFile, m *mpBody) []mpRec { return []mpRec{mpFldT("q", "int32", "zz1", 40001)} }),
	mpInMsg("p2-no-label", "2n", func(r *Rand, f *mpFile, m *mpBody) []mpRec { return []mpRec{mpFldT("-", "int32", "zz1", 40001)} }),
	mpInMsg("optional-editions", "e", func(r *Rand, f *mpFile, m *mpBody) []mpRec { return []mpRec{mpFldT("o", "int32", "zz1", 40001)} }),
	mpInMsg("group-non-p2", "3e", func(r *Rand, f *mpFile, m *mpBody) []mpRec {
		f.Msgs = append(f.Msgs, &mpBody{Name: "Zzg"})
		return []mpRec{mpRec1("g", "-", Pick(r, []string{"o", "r"}), "Zzg", "40001", strconv.Itoa(len(f.Msgs)-1))}
	}),
	mpInMsg("group-lowercase", "2n", func(r *Rand, f *mpFile, m *mpBody) []mpRec {
		f.Msgs = append(f.Msgs, &mpBody{Name: "zzg"})
		return []mpRec{mpRec1("g", "-", "o", "zzg", "40001", strconv.Itoa(len(f.Msgs)-1))}
	}),
	mpInMsg("oneof-empty", mpAll, func(r *Rand, f *mpFile, m *mpBody) []mpRec { return []mpRec{mpRec1("o", "zzo")} }),
	mpInMsg("extend-empty", "2en", func(r *Rand, f *mpFile, m *mpBody) []mpRec { return []mpRec{mpRec1("x", m.Name)} }),
	mpInMsg("enum-empty", mpAll, func(r *Rand, f *mpFile, m *mpBody) []mpRec { return []mpRec{mpNewEnum(f, "Zze")} }),
	mpInMsg("p3-enum-first", "3", func(r *Rand, f *mpFile, m *mpBody) []mpRec {
		return []mpRec{mpNewEnum(f, "Zze", mpRec1("v", "ZZ_A", "1"), mpRec1("v", "ZZ_B", "0"))}
	}),
	mpInMsg("open-enum-first", "e", func(r *Rand, f *mpFile, m *mpBody) []mpRec {
		return []mpRec{mpNewEnum(f, "Zze", mpRec1("v", "ZZ_A", "1"), mpRec1("v", "ZZ_B", "0"))}
	}),
	mpInMsg("p2-enum-first-nonzero-ok", "2n", func(r *Rand, f *mpFile, m *mpBody) []mpRec {
		return []mpRec{mpNewEnum(f, "Zze", mpRec1("v", "ZZ_A", "1"), mpRec1("v", "ZZ_B", "0"))}
	}),
	mpInMsg("enum-dup-number", mpAll, func(r *Rand, f *mpFile, m *mpBody) []mpRec {
		var aa []mpRec
		if r.Bool() {
			aa = append(aa, mpRec1("aa", "f"))
		}
		return []mpRec{mpNewEnum(f, "Zze", append(aa, mpRec1("v", "ZZ_A", "0"), mpRec1("v", "ZZ_B", "1"), mpRec1("v", "ZZ_C", "1"))...)}
	}),
	mpInMsg("enum-alias-ok", mpAll, func(r *Rand, f *mpFile, m *mpBody) []mpRec {
		return []mpRec{mpNewEnum(f, "Zze", mpRec1("aa", "t"), mpRec1("v", "ZZ_A", "0"), mpRec1("v", "ZZ_B", "1"), mpRec1("v", "ZZ_C", "1"))}
	}),
	mpInMsg("alias-unused", mpAll, func(r *Rand, f *mpFile, m *mpBody) []mpRec {
		return []mpRec{mpNewEnum(f, "Zze", mpRec1("aa", "t"), mpRec1("v", "ZZ_A", "0"), mpRec1("v", "ZZ_B", "1"))}
	}),
	mpInMsg("enum-rsvd-overlap", mpAll, func(r *Rand, f *mpFile, m *mpBody) []mpRec {
		return []mpRec{mpNewEnum(f, "Zze", mpRec1("v", "ZZ_A", "0"), mpRec1("rr", "10", "20"), mpRec1("rr", Pick(r, []string{"20", "15", "5"}), "30"))}
	}),
	mpInMsg("enum-rsvd-adjacent-ok", mpAll, func(r *Rand, f *mpFile, m *mpBody) []mpRec {
		return []mpRec{mpNewEnum(f, "Zze", mpRec1("v", "ZZ_A", "0"), mpRec1("rr", "21", "30"), mpRec1("rr", "10", "20"), mpRec1("rr", "-5", "-1"))}
	}),
	mpInMsg("enum-in-rsvd-range", mpAll, func(r *Rand, f *mpFile, m *mpBody) []mpRec {
		return []mpRec{mpNewEnum(f, "Zze", mpRec1("v", "ZZ_A", "0"), mpRec1("v", "ZZ_B", Pick(r, []string{"10", "20", "15", "-7"})), mpRec1("rr", "10", "20"), mpRec1("rr", "-9", "-7"))}
	}),
	mpInMsg("enum-near-rsvd-ok", mpAll, func(r *Rand, f *mpFile, m *mpBody) []mpRec {
		return []mpRec{mpNewEnum(f, "Zze", mpRec1("v", "ZZ_A", "0"), mpRec1("v", "ZZ_B", Pick(r, []string{"9", "21", "-6", "-10"})), mpRec1("rr", "10", "20"), mpRec1("rr", "-9", "-7"))}
	}),
	mpInMsg("value-rsvd-name", mpAll, func(r *Rand, f *mpFile, m *mpBody) []mpRec {
		return []mpRec{mpNewEnum(f, "Zze", mpRec1("v", "ZZ_A", "0"), mpRec1("rn", mpHexS("ZZ_A"), mpRsvdStyle(f)))}
	}),
	mpInMsg("enum-value-oob", mpAll, func(r *Rand, f *mpFile, m *mpBody) []mpRec {
		return []mpRec{mpNewEnum(f, "Zze", mpRec1("v", "ZZ_A", "0"), mpRec1("v", "ZZ_B", Pick(r, []string{"2147483648", "-2147483649", "4294967296"})))}
	}),
	mpInMsg("enum-range-oob", mpAll, func(r *Rand, f *mpFile, m *mpBody) []mpRec {
		return []mpRec{mpNewEnum(f, "Zze", mpRec1("v", "ZZ_A", "0"), Pick(r, []mpRec{mpRec1("rr", "5", "2147483648"), mpRec1("rr", "-2147483649", "5"), mpRec1("rr", "7", "6")}))}
	}),
	mpInMsg("dup-symbol", mpAll, func(r *Rand, f *mpFile, m *mpBody) []mpRec {
		switch r.Intn(4) {
		case 0:
			return []mpRec{mpNewMsg(f, "Zzm"), mpNewMsg(f, "Zzm")}
		case 1:
			return []mpRec{mpNewMsg(f, "zz1"), mpFld(f, "zz1", 40001)}
		case 2:
			return []mpRec{mpNewMsg(f, "ZZ_A"), mpNewEnum(f, "Zze", mpRec1("v", "ZZ_A", "0"))}
		default:
			return []mpRec{mpFld(f, "zz1", 40001), mpFld(f, "zz1", 40002)}
		}
	}),
	mpInMsg("type-unknown", mpAll, func(r *Rand, f *mpFile, m *mpBody) []mpRec {
		return []mpRec{mpFldT(mpLabelOK(f), Pick(r, []string{".no.Such", "NoSuch", m.Name + ".NoSuch", "a.NoSuch", ".a"}), "zz1", 40001)}
	}),
	mpInMsg("type-not-type", mpAll, func(r *Rand, f *mpFile, m *mpBody) []mpRec {
		return []mpRec{mpFld(f, "zz1", 40001), mpFldT(mpLabelOK(f), Pick(r, []string{"zz1", m.Name + ".zz1"}), "zz2", 40002)}
	}),
	mpInMsg("self-ref-ok", mpAll, func(r *Rand, f *mpFile, m *mpBody) []mpRec {
		return []mpRec{mpFldT(mpLabelOK(f), m.Name, "zz1", 40001)}
	}),
	mpInMsg("map-entry-ref", mpAll, func(r *Rand, f *mpFile, m *mpBody) []mpRec {
		return []mpRec{mpRec1("m", "string", "int32", "zz_m", "40001"), mpFldT("r", "ZzMEntry", "zz2", 40002)}
	}),
	mpInMsg("json-conflict", mpAll, func(r *Rand, f *mpFile, m *mpBody) []mpRec {
		if r.Bool() {
			return []mpRec{mpFld(f, "zz_a", 40001), mpFld(f, "zzA", 40002)}
		}
		return []mpRec{mpFld(f, "zz1", 40001), mpRec1("f", "-", mpLabelOK(f), "int32", "zz2", "40002", mpHexS("zz1"), "-", "-")}
	}),
	mpInMsg("json-custom-same-as-default", mpAll, func(r *Rand, f *mpFile, m *mpBody) []mpRec {
		return []mpRec{mpRec1("f", "-", mpLabelOK(f), "int32", "zz_a", "40001", mpHexS("zzA"), "-", "-"), mpRec1("f", "-", mpLabelOK(f), "int32", "zz2", "40002", mpHexS("zz_a"), "-", "-")}
	}),
	mpInMsg("json-brackets", mpAll, func(r *Rand, f *mpFile, m *mpBody) []mpRec {
		return []mpRec{mpRec1("f", "-", mpLabelOK(f), "int32", "zz1", "40001", mpHexS(Pick(r, []string{"[x]", "[]", "[", "a]"})), "-", "-")}
	}),
	mpInMsg("packed-non-repeated", "23n", func(r *Rand, f *mpFile, m *mpBody) []mpRec {
		return []mpRec{mpRec1("f", "-", mpLabelOK(f), "int32", "zz1", "40001", "-", Pick(r, []string{"t", "f"}), "-")}
	}),
	mpInMsg("packed-non-numeric", "23n", func(r *Rand, f *mpFile, m *mpBody) []mpRec {
		return []mpRec{mpRec1("f", "-", "r", Pick(r, []string{"string", "bytes", m.Name}), "zz1", "40001", "-", Pick(r, []string{"t", "f"}), "-")}
	}),
	mpInMsg("packed-editions", "e", func(r *Rand, f *mpFile, m *mpBody) []mpRec {
		return []mpRec{mpRec1("f", "-", "r", "int32", "zz1", "40001", "-", Pick(r, []string{"t", "f"}), "-")}
	}),
	mpInMsg("p3-default", "3", func(r *Rand, f *mpFile, m *mpBody) []mpRec {
		return []mpRec{mpRec1("f", "-", Pick(r, []string{"-", "o"}), "int32", "zz1", "40001", "-", "-", "i5")}
	}),
	mpInMsg("default-repeated", "2en", func(r *Rand, f *mpFile, m *mpBody) []mpRec {
		return []mpRec{mpRec1("f", "-", "r", "int32", "zz1", "40001", "-", "-", "i5")}
	}),
	mpInMsg("default-message", "2en", func(r *Rand, f *mpFile, m *mpBody) []mpRec {
		return []mpRec{mpRec1("f", "-", mpLabelOK(f), m.Name, "zz1", "40001", "-", "-", "i5")}
	}),
	mpInMsg("default-range", "2en", func(r *Rand, f *mpFile, m *mpBody) []mpRec {
		return []mpRec{mpRec1("f", "-", mpLabelOK(f), Pick(r, []string{"int32", "uint32", "sint32", "int64", "uint64", "bool", "string"}), "zz1", "40001", "-", "-",
			Pick(r, []string{"i2147483648", "i-2147483649", "i-1", "i4294967296", "i18446744073709551615", "i9223372036854775808", "bt", "s6162", "eFOO"}))}
	}),
	mpInMsg("closed-enum-implicit", "3", func(r *Rand, f *mpFile, m *mpBody) []mpRec {
		return nil // needs a proto2 enum in another file: see mpClosedEnumMutation
	}),
	{"closed-enum-implicit-x", func(r *Rand, w *mpWS) bool {
		// a proto3 file importing a proto2 file with an enum
		w.Files = append(w.Files,
			&mpFile{Path: "zz2.proto", Syntax: "2", Pkg: "zzp", Top: []mpRec{mpRec1("n", "0")}, Enums: []*mpBody{{Name: "Zze", Elems: []mpRec{mpRec1("v", "ZZ_A", Pick(r, []string{"0", "1"}))}}}},
			&mpFile{Path: "zz3.proto", Syntax: "3", Pkg: "zzq", Imports: []mpRec{mpRec1("I", "zz2.proto", "n")}, Top: []mpRec{mpRec1("c", "0")},
				Msgs: []*mpBody{{Name: "Zzm", Elems: []mpRec{mpFldT(Pick(r, []string{"-", "o", "r"}), ".zzp.Zze", "zz1", 1)}}}})
		return true
	}},
	{"import-missing", func(r *Rand, w *mpWS) bool {
		f := Pick(r, w.Files)
		f.Imports = append(f.Imports, mpRec1("I", "nope.proto", Pick(r, []string{"n", "p"})))
		return true
	}},
	{"import-dup", func(r *Rand, w *mpWS) bool {
		for _, f := range w.Files {
			if len(f.Imports) > 0 {
				f.Imports = append(f.Imports, mpRec1("I", f.Imports[0].A[0], Pick(r, []string{"n", "p"})))
				return true
			}
		}
		return false
	}},
	{"import-self", func(r *Rand, w *mpWS) bool {
		f := Pick(r, w.Files)
		f.Imports = append(f.Imports, mpRec1("I", f.Path, "n"))
		return true
	}},
	{"import-cycle", func(r *Rand, w *mpWS) bool {
		if len(w.Files) < 2 {
			return false
		}
		// find a file that imports another and close the cycle
		for _, f := range w.Files {
			for _, i := range f.Imports {
				for _, g := range w.Files {
					if g.Path == i.A[0] {
						g.Imports = append(g.Imports, mpRec1("I", f.Path, "n"))
						return true
					}
				}
			}
		}
		return false
	}},
	{"unimported-type", func(r *Rand, w *mpWS) bool {
		// a second file defines a type that the first one uses without importing it
		w.Files = append(w.Files, &mpFile{Path: "zz2.proto", Syntax: "2", Pkg: "zzp", Top: []mpRec{mpRec1("c", "0")}, Msgs: []*mpBody{{Name: "Zzm"}}})
		f := w.Files[0]
		if len(f.Msgs) == 0 {
			return false
		}
		f.Msgs[0].Elems = append(f.Msgs[0].Elems, mpFldT(mpLabelOK(f), ".zzp.Zzm", "zz1", 40001))
		return true
	}},
	{"cross-file-dup-symbol", func(r *Rand, w *mpWS) bool {
		pkg := Pick(r, []string{"", "zzp"})
		w.Files = append(w.Files,
			&mpFile{Path: "zz2.proto", Syntax: "2", Pkg: pkg, Top: []mpRec{mpRec1("c", "0")}, Msgs: []*mpBody{{Name: "Zzm"}}},
			&mpFile{Path: "zz3.proto", Syntax: "3", Pkg: pkg, Top: []mpRec{mpRec1("c", "0")}, Msgs: []*mpBody{{Name: "Zzm"}}})
		if r.Bool() {
			w.Files[len(w.Files)-1].Imports = []mpRec{mpRec1("I", "zz2.proto", "n")}
		}
		return true
	}},
	{"symbol-vs-package", func(r *Rand, w *mpWS) bool {
		w.Files = append(w.Files,
			&mpFile{Path: "zz2.proto", Syntax: "2", Pkg: "zzp.zzq", Top: []mpRec{mpRec1("c", "0")}, Msgs: []*mpBody{{Name: "Zzm"}}},
			&mpFile{Path: "zz3.proto", Syntax: "3", Pkg: "zzp", Top: []mpRec{mpRec1("c", "0")}, Msgs: []*mpBody{{Name: "zzq"}}})
		return true
	}},
	{"ext-mutants", func(r *Rand, w *mpWS) bool {
		// an extendable message and extensions of it in a second file
		base := &mpFile{Path: "zz2.proto", Syntax: "2", Pkg: "zzp", Top: []mpRec{mpRec1("c", "0"), mpRec1("n", "0")},
			Msgs:  []*mpBody{{Name: "Zzm", Elems: []mpRec{mpRec1("er", "100", "199"), mpRec1("er", "1000", "max"), mpFldT("o", "int32", "zz1", 1)}}},
			Enums: []*mpBody{{Name: "Zze", Elems: []mpRec{mpRec1("v", "ZZ_A", "0")}}}}
		syn := Pick(r, []string{"2", "e", "3"})
		lbl := "o"
		if syn == "e" {
			lbl = "-"
		}
		ext := &mpFile{Path: "zz3.proto", Syntax: syn, Pkg: Pick(r, []string{"zzp", "zzq", ""}), Imports: []mpRec{mpRec1("I", "zz2.proto", "n")}}
		x := func(extendee string, num int, name string) {
			ext.Top = append(ext.Top, mpRec1("x", extendee), mpRec1("f", "x", lbl, "int32", name, strconv.Itoa(num), "-", "-", "-"))
		}
		switch r.Intn(9) {
		case 0:
			w.Note += ":ok"
			x(".zzp.Zzm", Pick(r, []int{100, 199, 1000, 536870911}), "zx1")
		case 1:
			w.Note += ":not-in-range"
			x(".zzp.Zzm", Pick(r, []int{99, 200, 999, 1}), "zx1")
		case 2:
			w.Note += ":dup-number"
			x(".zzp.Zzm", 150, "zx1")
			x(".zzp.Zzm", 150, "zx2")
		case 3:
			w.Note += ":extendee-unknown"
			x(Pick(r, []string{".zzp.Nope", "Nope", "zzp.Zzm.Nope"}), 150, "zx1")
		case 4:
			w.Note += ":extendee-not-message"
			x(Pick(r, []string{".zzp.Zze", ".zzp.Zzm.zz1"}), 150, "zx1")
		case 5:
			w.Note += ":too-high"
			x(".zzp.Zzm", 536870912, "zx1")
		case 6:
			w.Note += ":required"
			ext.Syntax = "2"
			ext.Top = append(ext.Top, mpRec1("x", ".zzp.Zzm"), mpRec1("f", "x", "q", "int32", "zx1", "150", "-", "-", "-"))
		case 7:
			w.Note += ":json"
			ext.Top = append(ext.Top, mpRec1("x", ".zzp.Zzm"), mpRec1("f", "x", lbl, "int32", "zx_a", "150", mpHexS(Pick(r, []string{"zxA", "other", ""})), "-", "-"))
		default:
			w.Note += ":dup-number-other-file"
			x(".zzp.Zzm", 150, "zx1")
			other := &mpFile{Path: "zz4.proto", Syntax: "2", Pkg: "zzr", Imports: []mpRec{mpRec1("I", "zz2.proto", "n")},
				Top: []mpRec{mpRec1("x", ".zzp.Zzm"), mpRec1("f", "x", "o", "int32", "zx1", "150", "-", "-", "-")}}
			w.Files = append(w.Files, other)
		}
		w.Files = append(w.Files, base, ext)
		return true
	}},
	{"method-mutants", func(r *Rand, w *mpWS) bool {
		f := Pick(r, w.Files)
		if len(f.Msgs) == 0 {
			return false
		}
		ok := f.Msgs[0].Name
		bad := Pick(r, []string{".no.Such", "NoSuch", "Zzs", "Zzs.Do"})
		in, out := ok, bad
		if r.Bool() {
			in, out = bad, ok
		}
		f.Svcs = append(f.Svcs, &mpBody{Name: "Zzs", Elems: []mpRec{mpRec1("rpc", "Do", in, out, "0", "1")}})
		f.Top = append(f.Top, mpRec1("s", strconv.Itoa(len(f.Svcs)-1)))
		return true
	}},
	{"deep-nesting", func(r *Rand, w *mpWS) bool {
		depth := Pick(r, []int{30, 31, 32, 33})
		f := &mpFile{Path: "zz2.proto", Syntax: "3", Pkg: "zzp"}
		for i := 0; i < depth; i++ {
			b := &mpBody{Name: "D" + strconv.Itoa(i)}
			if i+1 < depth {
				b.Elems = []mpRec{mpRec1("c", strconv.Itoa(i+1))}
			}
			f.Msgs = append(f.Msgs, b)
		}
		f.Top = []mpRec{mpRec1("c", "0")}
		w.Files = append(w.Files, f)
		w.Note += ":" + strconv.Itoa(depth)
		return true
	}},
	{"p3-optional-synthetic", func(r *Rand, w *mpWS) bool {
		// synthetic oneof naming: collisions with fields / oneofs / nested names
		f := &mpFile{Path: "zz2.proto", Syntax: "3", Pkg: "zzp", Top: []mpRec{mpRec1("c", "0")}}
		m := &mpBody{Name: "Zzm"}
		f.Msgs = append(f.Msgs, m)
		names := []string{"x", "_x", "X_x", "XX_x", "y", "_y"}
		tag := 1
		for _, n := range names {
			switch r.Intn(6) {
			case 0:
				m.Elems = append(m.Elems, mpFldT("o", "int32", n, tag))
				tag++
			case 1:
				m.Elems = append(m.Elems, mpFldT("-", "int32", n, tag))
				tag++
			case 2:
				m.Elems = append(m.Elems, mpRec1("o", n), mpRec1("f", "o", "-", "int32", n+"_m", strconv.Itoa(tag), "-", "-", "-"))
				tag++
			case 3:
				f.Msgs = append(f.Msgs, &mpBody{Name: n})
				m.Elems = append(m.Elems, mpRec1("c", strconv.Itoa(len(f.Msgs)-1)))
			}
		}
		w.Files = append(w.Files, f)
		return true
	}},
}

// ---------------------------------------------------------------- exhaustive small domains

func mpSingle(note, syntax string, top []mpRec, msgs []*mpBody, enums []*mpBody) string {
	w := &mpWS{Note: note, Files: []*mpFile{{Path: "t.proto", Syntax: syntax, Pkg: "p", Top: top, Msgs: msgs, Enums: enums}}}
	return w.op()
}

func mpExhaustive(tier string) []string {
	var ops []string
	// 1. all pairs/triples of reserved and extension ranges with bounds in 1..4 (+ a field)
	hi := 4
	var rs [][2]int
	for a := 1; a <= hi; a++ {
		for b := a; b <= hi; b++ {
			rs = append(rs, [2]int{a, b})
		}
	}
	rec := func(k string, r [2]int) mpRec {
		if r[0] == r[1] {
			return mpRec1(k, strconv.Itoa(r[0]), "-")
		}
		return mpRec1(k, strconv.Itoa(r[0]), strconv.Itoa(r[1]))
	}
	for _, k1 := range []string{"rr", "er"} {
		for _, k2 := range []string{"rr", "er"} {
			for _, r1 := range rs {
				for _, r2 := range rs {
					for tag := 1; tag <= 5; tag += 2 {
						m := &mpBody{Name: "M", Elems: []mpRec{rec(k1, r1), rec(k2, r2), mpFldT("o", "int32", "f", tag)}}
						ops = append(ops, mpSingle("x-ranges2", "2", []mpRec{mpRec1("c", "0")}, []*mpBody{m}, nil))
					}
				}
			}
		}
	}
	step := 7
	if tier == "thorough" {
		step = 1
	}
	n := 0
	for _, r1 := range rs {
		for _, r2 := range rs {
			for _, r3 := range rs {
				for _, ks := range [][3]string{{"rr", "rr", "rr"}, {"rr", "er", "rr"}, {"er", "rr", "er"}, {"er", "er", "er"}} {
					n++
					if n%step != 0 {
						continue
					}
					m := &mpBody{Name: "M", Elems: []mpRec{rec(ks[0], r1), rec(ks[1], r2), rec(ks[2], r3)}}
					ops = append(ops, mpSingle("x-ranges3", "2", []mpRec{mpRec1("c", "0")}, []*mpBody{m}, nil))
				}
			}
		}
	}
	// 1b. an extension number against one or two extension ranges with bounds in 1..4
	for _, r1 := range rs {
		for _, r2 := range append([][2]int{{0, 0}}, rs...) {
			for tag := 1; tag <= 5; tag++ {
				elems := []mpRec{rec("er", r1)}
				if r2[0] != 0 {
					elems = append(elems, rec("er", r2))
				}
				m := &mpBody{Name: "M", Elems: elems}
				ops = append(ops, mpSingle("x-ext-number", "2", []mpRec{mpRec1("c", "0"), mpRec1("x", "M"),
					mpRec1("f", "x", "o", "int32", "e", strconv.Itoa(tag), "-", "-", "-")}, []*mpBody{m}, nil))
			}
		}
	}
	// 2. enums: up to 3 values with numbers in {0,1}, allow_alias in {-,t,f}, every syntax;
	//    enum reserved ranges in -1..1
	for _, syn := range []string{"2", "3", "e"} {
		for _, aa := range []string{"-", "t", "f"} {
			for nv := 0; nv <= 3; nv++ {
				for bits := 0; bits < 1<<nv; bits++ {
					var es []mpRec
					if aa != "-" {
						es = append(es, mpRec1("aa", aa))
					}
					for i := 0; i < nv; i++ {
						es = append(es, mpRec1("v", "V"+strconv.Itoa(i), strconv.Itoa((bits>>i)&1)))
					}
					ops = append(ops, mpSingle("x-enum", syn, []mpRec{mpRec1("n", "0")}, nil, []*mpBody{{Name: "E", Elems: es}}))
				}
			}
		}
		for a := -1; a <= 1; a++ {
			for b := a; b <= 1; b++ {
				for c := -1; c <= 1; c++ {
					for d := c; d <= 1; d++ {
						for v := -1; v <= 1; v++ {
							es := []mpRec{mpRec1("v", "V0", "0"), mpRec1("v", "V1", strconv.Itoa(v)), mpRec1("aa", "t"),
								mpRec1("rr", strconv.Itoa(a), strconv.Itoa(b)), mpRec1("rr", strconv.Itoa(c), strconv.Itoa(d))}
							if syn != "2" && v != 0 {
								es = es[:len(es)-0]
							}
							ops = append(ops, mpSingle("x-enum-rsvd", syn, []mpRec{mpRec1("n", "0")}, nil, []*mpBody{{Name: "E", Elems: es}}))
						}
					}
				}
			}
		}
	}
	// 3. one field: syntax x label x type kind x packed x json x default-presence, in a message,
	//    in a oneof and as an extension
	types := []string{"int32", "string", "bytes", "double", "bool", "M", "E", "E2", "Nope", "f"}
	for _, syn := range []string{"2", "3", "e", "n"} {
		for _, lbl := range []string{"-", "o", "q", "r"} {
			for _, ty := range types {
				for _, packed := range []string{"-", "t", "f"} {
					for _, def := range []string{"-", "i1"} {
						if packed != "-" && def != "-" {
							continue
						}
						m := &mpBody{Name: "M", Elems: []mpRec{mpRec1("f", "-", lbl, ty, "f", "1", "-", packed, def)}}
						e := &mpBody{Name: "E", Elems: []mpRec{mpRec1("v", "A", "0")}}
						e2 := &mpBody{Name: "E2", Elems: []mpRec{mpRec1("v", "B", "1"), mpRec1("v", "C", "0")}}
						if syn == "3" || syn == "e" {
							e2 = &mpBody{Name: "E2", Elems: []mpRec{mpRec1("v", "C", "0"), mpRec1("v", "B", "1")}}
						}
						ops = append(ops, mpSingle("x-field", syn, []mpRec{mpRec1("c", "0"), mpRec1("n", "0"), mpRec1("n", "1")}, []*mpBody{m}, []*mpBody{e, e2}))
					}
				}
				if lbl == "-" {
					m := &mpBody{Name: "M", Elems: []mpRec{mpRec1("o", "oo"), mpRec1("f", "o", "-", ty, "f", "1", "-", "-", "-")}}
					e := &mpBody{Name: "E", Elems: []mpRec{mpRec1("v", "A", "0")}}
					e2 := &mpBody{Name: "E2", Elems: []mpRec{mpRec1("v", "C", "0")}}
					ops = append(ops, mpSingle("x-oneof-field", syn, []mpRec{mpRec1("c", "0"), mpRec1("n", "0"), mpRec1("n", "1")}, []*mpBody{m}, []*mpBody{e, e2}))
				}
				if syn != "3" {
					m := &mpBody{Name: "M", Elems: []mpRec{mpRec1("er", "1", "10")}}
					e := &mpBody{Name: "E", Elems: []mpRec{mpRec1("v", "A", "0")}}
					e2 := &mpBody{Name: "E2", Elems: []mpRec{mpRec1("v", "C", "0")}}
					ops = append(ops, mpSingle("x-ext-field", syn, []mpRec{mpRec1("c", "0"), mpRec1("n", "0"), mpRec1("n", "1"),
						mpRec1("x", "M"), mpRec1("f", "x", lbl, ty, "f", "1", "-", "-", "-")}, []*mpBody{m}, []*mpBody{e, e2}))
				}
			}
		}
	}
	// 4. proto3 optional naming: all assignments of {absent, optional field, plain field, oneof,
	//    nested message} to the names x, _x, X_x
	kinds := 5
	for a := 0; a < kinds; a++ {
		for b := 0; b < kinds; b++ {
			for c := 0; c < kinds; c++ {
				f := &mpFile{Path: "t.proto", Syntax: "3", Pkg: "p", Top: []mpRec{mpRec1("c", "0")}}
				m := &mpBody{Name: "M"}
				f.Msgs = append(f.Msgs, m)
				tag := 1
				for i, k := range []int{a, b, c} {
					nm := []string{"x", "_x", "X_x"}[i]
					switch k {
					case 1:
						m.Elems = append(m.Elems, mpFldT("o", "int32", nm, tag))
					case 2:
						m.Elems = append(m.Elems, mpFldT("-", "int32", nm, tag))
					case 3:
						m.Elems = append(m.Elems, mpRec1("o", nm), mpRec1("f", "o", "-", "int32", "m"+strconv.Itoa(i), strconv.Itoa(tag), "-", "-", "-"))
					case 4:
						f.Msgs = append(f.Msgs, &mpBody{Name: nm})
						m.Elems = append(m.Elems, mpRec1("c", strconv.Itoa(len(f.Msgs)-1)))
					}
					tag++
				}
				ops = append(ops, (&mpWS{Note: "x-synthetic-oneof", Files: []*mpFile{f}}).op())
			}
		}
	}
	// 5. JSON names: all pairs from a small pool, with/without custom names, every syntax
	pool := []string{"a_b", "aB", "a__b", "_a_b", "AB", "a_b_"}
	for _, syn := range []string{"2", "3", "e"} {
		lbl := "o"
		if syn == "e" {
			lbl = "-"
		}
		for _, n1 := range pool {
			for _, n2 := range pool {
				if n1 == n2 {
					continue
				}
				for _, j := range []string{"-", mpHexS("aB"), mpHexS("zz")} {
					m := &mpBody{Name: "M", Elems: []mpRec{mpFldT(lbl, "int32", n1, 1), mpRec1("f", "-", lbl, "int32", n2, "2", j, "-", "-")}}
					ops = append(ops, mpSingle("x-json", syn, []mpRec{mpRec1("c", "0")}, []*mpBody{m}, nil))
				}
			}
		}
	}
	return ops
}

// mpSynthFamily is the deterministic "synthetic oneof collision" family: a proto3 message with an
// `optional` field F and siblings named like the candidates of the naming loop (`_F`, `X_F`,
// `XX_F`) of every kind that lives in the message's scope, singly and in pairs. Kinds: plain field,
// map field, oneof, nested message, nested enum, VALUE of a nested enum (enum values are scoped
// to the enclosing message), extension declared inside the message (of
// google.protobuf.MessageOptions from the standard import descriptor.proto, since proto3 may only
// extend options).
// Not expressible: a map ENTRY type name (always `…Entry` without underscore, never a candidate)
// and groups (not allowed in proto3, where synthetic oneofs exist).
func mpSynthFamily() []string {
	kinds := []string{"field", "map", "oneof", "msg", "enum", "value", "ext"}
	var ops []string
	build := func(f string, sibs [][2]string) string {
		file := &mpFile{Path: "t.proto", Syntax: "3", Pkg: "p", Top: []mpRec{mpRec1("c", "0")}}
		m := &mpBody{Name: "M", Elems: []mpRec{mpFldT("o", "int32", f, 1)}}
		file.Msgs = append(file.Msgs, m)
		w := &mpWS{Files: []*mpFile{file}}
		needGP := false
		for i, sb := range sibs {
			name, kind := sb[0], sb[1]
			tag := strconv.Itoa(2 + i)
			switch kind {
			case "field":
				m.Elems = append(m.Elems, mpFldT("-", "int32", name, 2+i))
			case "map":
				m.Elems = append(m.Elems, mpRec1("m", "string", "int32", name, tag))
			case "oneof":
				m.Elems = append(m.Elems, mpRec1("o", name), mpRec1("f", "o", "-", "int32", "m"+tag, tag, "-", "-", "-"))
			case "msg":
				file.Msgs = append(file.Msgs, &mpBody{Name: name})
				m.Elems = append(m.Elems, mpRec1("c", strconv.Itoa(len(file.Msgs)-1)))
			case "enum":
				m.Elems = append(m.Elems, mpNewEnum(file, name, mpRec1("v", "V"+tag, "0")))
			case "value":
				m.Elems = append(m.Elems, mpNewEnum(file, "E"+tag, mpRec1("v", name, "0")))
			case "ext":
				needGP = true
				m.Elems = append(m.Elems, mpRec1("x", ".google.protobuf.MessageOptions"),
					mpRec1("f", "x", "-", "int32", name, strconv.Itoa(1000+i), "-", "-", "-"))
			}
		}
		if needGP {
			file.Imports = append(file.Imports, mpRec1("I", "google/protobuf/descriptor.proto", "n"))
		}
		note := "synth:" + f
		for _, sb := range sibs {
			note += ":" + sb[1] + "=" + sb[0]
		}
		w.Note = note
		return w.op()
	}
	// several `optional` fields in one message whose synthetic names interact (a name generated
	// for an earlier field is taken for a later one), in both declaration orders, alone and next to
	// a plain field that occupies a candidate
	multi := func(note string, opts []string, plain string) string {
		file := &mpFile{Path: "t.proto", Syntax: "3", Pkg: "p", Top: []mpRec{mpRec1("c", "0")}}
		m := &mpBody{Name: "M"}
		file.Msgs = append(file.Msgs, m)
		for i, o := range opts {
			m.Elems = append(m.Elems, mpFldT("o", "int32", o, 1+i))
		}
		if plain != "" {
			m.Elems = append(m.Elems, mpFldT("-", "int32", plain, 1+len(opts)))
		}
		return (&mpWS{Note: note, Files: []*mpFile{file}}).op()
	}
	pool := []string{"x", "_x", "__x", "___x", "X_x", "XX_x", "x_", "_x_"}
	for _, a := range pool {
		for _, b := range pool {
			if a == b {
				continue
			}
			for _, plain := range []string{"", "X_x", "_x", "X__x"} {
				if plain == a || plain == b {
					continue
				}
				ops = append(ops, multi("synth-multi:"+a+":"+b+":"+plain, []string{a, b}, plain))
			}
		}
	}
	three := []string{"__two", "two", "_two"}
	for _, pm := range [][3]int{{0, 1, 2}, {0, 2, 1}, {1, 0, 2}, {1, 2, 0}, {2, 0, 1}, {2, 1, 0}} {
		ops = append(ops, multi("synth-multi3", []string{three[pm[0]], three[pm[1]], three[pm[2]]}, ""))
		ops = append(ops, multi("synth-multi3", []string{three[pm[0]], three[pm[1]], three[pm[2]]}, "X__two"))
	}
	for fi, f := range []string{"x", "_x", "X", "a_b", "__x", "___x", "x_", "_x_", "__", "_"} {
		pairs := fi < 4 // pairs of kinds for the first four names only
		base := f
		if !strings.HasPrefix(base, "_") {
			base = "_" + base
		}
		cands := []string{base, "X" + base, "XX" + base}
		ops = append(ops, build(f, nil))
		for _, k := range kinds {
			for _, c := range cands {
				ops = append(ops, build(f, [][2]string{{c, k}}))
			}
		}
		if !pairs {
			continue
		}
		for _, k1 := range kinds {
			for _, k2 := range kinds {
				ops = append(ops, build(f, [][2]string{{cands[0], k1}, {cands[1], k2}}))
			}
		}
	}
	return ops
}

// mpMsgSetFamily is the directed family for message-set messages: `option
// message_set_wire_format` (true / false / absent) written first, in the middle or last in the
// body, with `extensions … to max`, explicit ends around 2^29-1 and 2^31-2, `reserved … to max`,
// extension fields with tags around both limits (message-typed, scalar, repeated), a plain field,
// in proto2, edition 2023 and proto3. `max` must mean 2147483646 (exclusive end 2147483647) in a
// message-set message and 536870911 otherwise, wherever the option stands.
func mpMsgSetFamily() []string {
	var ops []string
	type ext struct {
		name, label, ty, tag string
	}
	build := func(syn, msv, at string, ers, rrs [][2]string, x *ext, field bool) string {
		lbl := "o"
		if syn != "2" {
			lbl = "-"
		}
		var stmts []mpRec
		for _, e := range ers {
			stmts = append(stmts, mpRec1("er", e[0], e[1]))
		}
		for _, r := range rrs {
			stmts = append(stmts, mpRec1("rr", r[0], r[1]))
		}
		if field {
			stmts = append(stmts, mpFldT(lbl, "int32", "fld", 3))
		}
		var elems []mpRec
		if msv != "-" {
			opt := mpRec1("ms", msv)
			switch at {
			case "first":
				elems = append([]mpRec{opt}, stmts...)
			case "last":
				elems = append(append([]mpRec{}, stmts...), opt)
			default:
				mid := (len(stmts) + 1) / 2
				elems = append(append(append([]mpRec{}, stmts[:mid]...), opt), stmts[mid:]...)
			}
		} else {
			elems = stmts
		}
		file := &mpFile{Path: "t.proto", Syntax: syn, Pkg: "p", Top: []mpRec{mpRec1("c", "0"), mpRec1("c", "1")},
			Msgs: []*mpBody{{Name: "S", Elems: elems}, {Name: "T"}}}
		if x != nil {
			l := x.label
			if syn != "2" && l == "o" {
				l = "-"
			}
			file.Top = append(file.Top, mpRec1("x", "S"), mpRec1("f", "x", l, x.ty, x.name, x.tag, "-", "-", "-"))
		}
		return (&mpWS{Note: "msgset:" + msv + ":" + at, Files: []*mpFile{file}}).op()
	}
	erVariants := [][][2]string{
		{{"4", "max"}}, {{"4", "536870911"}}, {{"4", "536870912"}}, {{"4", "2147483646"}}, {{"4", "2147483647"}},
		{{"4", "100"}, {"1000", "max"}},
	}
	rrVariants := [][][2]string{nil, {{"1", "2"}}, {{"1", "2"}, {"3", "-"}}}
	exts := []*ext{nil, {"e", "o", "T", "536870912"}, {"e", "o", "T", "2147483646"}, {"e", "o", "int32", "5"}, {"e", "r", "T", "5"}, {"e", "o", "T", "536870911"}}
	for _, at := range []string{"first", "mid", "last"} {
		for _, msv := range []string{"t", "f", "-"} {
			if msv == "-" && at != "first" {
				continue
			}
			for _, er := range erVariants {
				for _, rr := range rrVariants {
					for _, x := range exts {
						ops = append(ops, build("2", msv, at, er, rr, x, false))
					}
				}
			}
			// reserved ... to max / above FieldMax next to a bounded extension range
			for _, rr := range [][][2]string{{{"200", "max"}}, {{"200", "536870912"}}, {{"200", "2147483646"}}, {{"200", "2147483647"}}} {
				ops = append(ops, build("2", msv, at, [][2]string{{"4", "100"}}, rr, nil, false))
				ops = append(ops, build("e", msv, at, [][2]string{{"4", "100"}}, rr, nil, false))
			}
			// no extension range at all; a plain field; other syntaxes
			ops = append(ops, build("2", msv, at, nil, [][2]string{{"1", "max"}}, nil, false))
			ops = append(ops, build("2", msv, at, [][2]string{{"4", "max"}}, nil, nil, true))
			for _, syn := range []string{"e", "3"} {
				for _, x := range []*ext{nil, {"e", "o", "T", "536870912"}} {
					ops = append(ops, build(syn, msv, at, [][2]string{{"4", "max"}}, [][2]string{{"1", "2"}}, x, false))
				}
			}
		}
	}
	// the option twice
	f := &mpFile{Path: "t.proto", Syntax: "2", Pkg: "p", Top: []mpRec{mpRec1("c", "0")},
		Msgs: []*mpBody{{Name: "S", Elems: []mpRec{mpRec1("ms", "t"), mpRec1("er", "4", "max"), mpRec1("ms", "t")}}}}
	ops = append(ops, (&mpWS{Note: "msgset:twice:-", Files: []*mpFile{f}}).op())
	return ops
}

func mpGen(r *Rand, tier string, dual bool) [][]string {
	var cases [][]string
	add := func(op string) { cases = append(cases, []string{op}) }
	anchors, _ := mpAnchorOps()
	for _, op := range anchors {
		add(op)
	}
	for _, op := range mpSynthFamily() {
		add(op)
	}
	for i, op := range mpMsgSetFamily() {
		// the experimental compiler is slow: the dual engine takes every 4th op in the quick tier
		if !dual || tier == "thorough" || i%4 == 0 {
			add(op)
		}
	}
	if !dual {
		for _, op := range mpProtosetOps() {
			add(op)
		}
		for _, op := range mpNamingOps(r, tier) {
			add(op)
		}
	}
	ex := mpExhaustive(tier)
	if dual {
		// the experimental compiler is slower: sample the exhaustive domain
		step := 9
		if tier == "thorough" {
			step = 2
		}
		for i, op := range ex {
			if i%step == 0 {
				add(op)
			}
		}
	} else {
		for _, op := range ex {
			add(op)
		}
	}
	nValid, nMut := 150, 6
	if tier == "thorough" {
		nValid, nMut = 4000, 12
	}
	if dual {
		nValid /= 3
	}
	for i := 0; i < nValid; i++ {
		w := mpValidWorkspace(r)
		add(w.op())
		for k := 0; k < nMut; k++ {
			m := Pick(r, mpMutations)
			c := mpClone(w)
			c.Note = m.name
			if m.apply(r, c) {
				add(c.op())
			}
		}
	}
	// every mutation at least a few times on small workspaces
	for _, m := range mpMutations {
		for k := 0; k < 3; k++ {
			w := mpValidWorkspace(r)
			w.Note = m.name
			if m.apply(r, w) {
				add(w.op())
			}
		}
	}
	return cases
}
