package engines

import (
	"bytes"
	"context"
	"errors"
	"fmt"
	"sort"
	"strconv"
	"strings"

	"github.com/bufbuild/protocompile"
	"github.com/bufbuild/protocompile/linker"
	"github.com/bufbuild/protocompile/reporter"
	"google.golang.org/protobuf/encoding/protowire"
	"google.golang.org/protobuf/proto"
	"google.golang.org/protobuf/reflect/protoreflect"
	"google.golang.org/protobuf/types/descriptorpb"
)

// unusedimports: unused-import warnings of the real compiler vs the removal experiment (C19).
//
// One op describes a whole workspace and the file under test:
//
//	c19 F <path> <pkg> <imports> <syms> ... F test.proto <pkg> <imports> <syms> R <item> ...
//
// <imports> is a comma list of <fileIndex><n|p> (p = public) or "-"; <syms> a comma list of
// symbol tokens or "-"  (m:Rel.Name  e:Rel.Name/VAL1/VAL2  x:rel.name@<extendee>#<tag>:<type>
// f:Rel.field  s:Svc  r:Svc.Method — names relative to the file's package).  Library files
// are rendered from their symbol tokens, the file under test from its items (its symbol
// tokens are what the Lean model sees; Exec verifies them against the compiled file):
//
//	lm;<Rel>            local message          le;<Rel>/<V>..   local enum
//	ft;<C>;<ref>        field of type <ref> in message <C>
//	ex;<C|->;<ref>;<type ref|->   extension x<k> of <ref> (file level or nested in <C>)
//	rp;<in>;<out>       rpc M<k> in service Svc
//	fo;<ext>;<val>      file option (<ext>) = val     mo;<C>;<ext>;<val>  message option
//	lo;<C>;<ext>;<val>  field with option            po;<C|file>  pf;<C>   plain options
//	so;<ext>;<val>      service option               ro;<in>;<out>;<ext>;<val>  rpc with option
//	eo;<C|->;<ext>;<val> enum LE<k> with option       vo;<C|->;<ext>;<val>  enum value with option
//	val: i | m | l:<ext ref> | a:<message name>
//
// The answer is `err` when the file under test does not compile, else
// `ok w=<positions warned> rm=<E|N per import> res=<resolved type names> opts=<option names>`
// where rm is the REMOVAL EXPERIMENT with the real compiler: the import line is deleted and
// the file recompiled; E = compiles and the descriptor is identical apart from the
// dependency lists.

type b19Imp struct {
	idx int
	pub bool
}

type b19File struct {
	path string
	pkg  string
	imps []b19Imp
	syms []string
}

type b19Case struct {
	files []b19File
	items []string
}

type unusedImportsEngine struct{}

func init() { Register("unusedimports", func() Engine { return unusedImportsEngine{} }) }

func (unusedImportsEngine) Name() string { return "unusedimports" }
func (unusedImportsEngine) Reset()       {}

const (
	b19DescPath = "google/protobuf/descriptor.proto"
	b19AnyPath  = "google/protobuf/any.proto"
	b19TestPath = "test.proto"
)

// ---------------------------------------------------------------- wire format

func b19CSV(xs []string) string {
	if len(xs) == 0 {
		return "-"
	}
	return strings.Join(xs, ",")
}

func b19UnCSV(s string) []string {
	if s == "-" || s == "" {
		return nil
	}
	return strings.Split(s, ",")
}

func (c *b19Case) op() string {
	var b strings.Builder
	b.WriteString("c19")
	for _, f := range c.files {
		var imps []string
		for _, i := range f.imps {
			m := "n"
			if i.pub {
				m = "p"
			}
			imps = append(imps, strconv.Itoa(i.idx)+m)
		}
		pkg := f.pkg
		if pkg == "" {
			pkg = "-"
		}
		fmt.Fprintf(&b, " F %s %s %s %s", f.path, pkg, b19CSV(imps), b19CSV(f.syms))
	}
	b.WriteString(" R")
	for _, it := range c.items {
		b.WriteString(" " + it)
	}
	return b.String()
}

func b19Parse(op string) (*b19Case, bool) {
	w := strings.Fields(op)
	if len(w) < 2 || w[0] != "c19" {
		return nil, false
	}
	c := &b19Case{}
	i := 1
	for i < len(w) && w[i] == "F" {
		if i+4 >= len(w) {
			return nil, false
		}
		f := b19File{path: w[i+1], pkg: w[i+2], syms: b19UnCSV(w[i+4])}
		if f.pkg == "-" {
			f.pkg = ""
		}
		for _, t := range b19UnCSV(w[i+3]) {
			if len(t) < 2 {
				return nil, false
			}
			n, err := strconv.Atoi(t[:len(t)-1])
			m := t[len(t)-1]
			if err != nil || (m != 'n' && m != 'p') || n < 0 || n >= len(c.files) {
				return nil, false
			}
			f.imps = append(f.imps, b19Imp{n, m == 'p'})
		}
		c.files = append(c.files, f)
		i += 5
	}
	if i >= len(w) || w[i] != "R" || len(c.files) == 0 {
		return nil, false
	}
	c.items = w[i+1:]
	return c, true
}

// ---------------------------------------------------------------- rendering

type b19Msg struct {
	name  string
	lines []string
	kids  []*b19Msg
}

type b19Tree struct {
	top   []*b19Msg
	lines []string // file-level declarations after the messages
	head  []string // file-level options
}

func (t *b19Tree) get(rel string) *b19Msg {
	parts := strings.Split(rel, ".")
	list := &t.top
	var cur *b19Msg
	for _, p := range parts {
		var found *b19Msg
		for _, m := range *list {
			if m.name == p {
				found = m
			}
		}
		if found == nil {
			found = &b19Msg{name: p}
			*list = append(*list, found)
		}
		cur = found
		list = &found.kids
	}
	return cur
}

// container "-" or "" = file level
func (t *b19Tree) add(container, line string) {
	if container == "-" || container == "" || container == "file" {
		t.lines = append(t.lines, line)
		return
	}
	m := t.get(container)
	m.lines = append(m.lines, line)
}

func (m *b19Msg) render(b *strings.Builder, ind string) {
	fmt.Fprintf(b, "%smessage %s {\n%s  extensions 100 to max;\n", ind, m.name, ind)
	for _, l := range m.lines {
		fmt.Fprintf(b, "%s  %s\n", ind, l)
	}
	for _, k := range m.kids {
		k.render(b, ind+"  ")
	}
	fmt.Fprintf(b, "%s}\n", ind)
}

func b19SplitParent(rel string) (string, string) {
	i := strings.LastIndexByte(rel, '.')
	if i < 0 {
		return "-", rel
	}
	return rel[:i], rel[i+1:]
}

func b19EnumLine(tok string) (container, line string, ok bool) {
	parts := strings.Split(tok, "/")
	if len(parts) < 2 {
		return "", "", false
	}
	container, name := b19SplitParent(parts[0])
	var vals []string
	for i, v := range parts[1:] {
		vals = append(vals, fmt.Sprintf("%s = %d;", v, i))
	}
	return container, fmt.Sprintf("enum %s { %s }", name, strings.Join(vals, " ")), true
}

func b19Header(c *b19Case, f *b19File, skipImport int) string {
	var b strings.Builder
	b.WriteString("syntax = \"proto2\";\n")
	if f.pkg != "" {
		fmt.Fprintf(&b, "package %s;\n", f.pkg)
	}
	for p, i := range f.imps {
		if p == skipImport {
			continue
		}
		if i.pub {
			fmt.Fprintf(&b, "import public %q;\n", c.files[i.idx].path)
		} else {
			fmt.Fprintf(&b, "import %q;\n", c.files[i.idx].path)
		}
	}
	return b.String()
}

func (t *b19Tree) render(header string) string {
	var b strings.Builder
	b.WriteString(header)
	for _, l := range t.head {
		b.WriteString(l + "\n")
	}
	for _, m := range t.top {
		m.render(&b, "")
	}
	for _, l := range t.lines {
		b.WriteString(l + "\n")
	}
	return b.String()
}

// library file from its symbol tokens
func b19RenderLib(c *b19Case, f *b19File) (string, bool) {
	t := &b19Tree{}
	for _, s := range f.syms {
		k, rest, ok := strings.Cut(s, ":")
		if !ok {
			return "", false
		}
		switch k {
		case "m":
			t.get(rest)
		case "e":
			cont, line, ok := b19EnumLine(rest)
			if !ok {
				return "", false
			}
			t.add(cont, line)
		case "x":
			name, attrs, ok := strings.Cut(rest, "@")
			if !ok {
				return "", false
			}
			extendee, tt, ok := strings.Cut(attrs, "#")
			if !ok {
				return "", false
			}
			tag, typ, ok := strings.Cut(tt, ":")
			if !ok {
				return "", false
			}
			cont, nm := b19SplitParent(name)
			t.add(cont, fmt.Sprintf("extend %s { optional %s %s = %s; }", extendee, typ, nm, tag))
		default:
			return "", false
		}
	}
	return t.render(b19Header(c, f, -1)), true
}

func b19Val(v string) (string, bool) {
	switch {
	case v == "i":
		return "1", true
	case v == "m":
		return "{ }", true
	case strings.HasPrefix(v, "l:"):
		return fmt.Sprintf("{ [%s]: 1 }", v[2:]), true
	case strings.HasPrefix(v, "a:"):
		return fmt.Sprintf("{ [type.googleapis.com/%s] { } }", v[2:]), true
	}
	return "", false
}

// the file under test from its items; skipImport = position of an import line to leave out
func b19RenderTest(c *b19Case, skipImport int) (string, bool) {
	f := &c.files[len(c.files)-1]
	t := &b19Tree{}
	var rpcs []string
	hasSvc := false
	for k, it := range c.items {
		p := strings.Split(it, ";")
		bad := func(n int) bool { return len(p) != n }
		switch p[0] {
		case "lm":
			if bad(2) {
				return "", false
			}
			t.get(p[1])
		case "le":
			if bad(2) {
				return "", false
			}
			cont, line, ok := b19EnumLine(p[1])
			if !ok {
				return "", false
			}
			t.add(cont, line)
		case "ft":
			if bad(3) || p[1] == "-" {
				return "", false
			}
			t.add(p[1], fmt.Sprintf("optional %s f%d = %d;", p[2], k, k+1))
		case "ex":
			if bad(4) {
				return "", false
			}
			typ := p[3]
			if typ == "-" {
				typ = "int32"
			}
			t.add(p[1], fmt.Sprintf("extend %s { optional %s x%d = %d; }", p[2], typ, k, 1000+k))
		case "rp":
			if bad(3) {
				return "", false
			}
			rpcs = append(rpcs, fmt.Sprintf("  rpc M%d(%s) returns (%s);", k, p[1], p[2]))
		case "ro":
			if bad(5) {
				return "", false
			}
			v, ok := b19Val(p[4])
			if !ok {
				return "", false
			}
			rpcs = append(rpcs, fmt.Sprintf("  rpc M%d(%s) returns (%s) { option (%s) = %s; }", k, p[1], p[2], p[3], v))
		case "so":
			if bad(3) {
				return "", false
			}
			v, ok := b19Val(p[2])
			if !ok {
				return "", false
			}
			hasSvc = true
			rpcs = append([]string{fmt.Sprintf("  option (%s) = %s;", p[1], v)}, rpcs...)
		case "eo", "vo":
			if bad(4) {
				return "", false
			}
			v, ok := b19Val(p[3])
			if !ok {
				return "", false
			}
			if p[0] == "eo" {
				t.add(p[1], fmt.Sprintf("enum LE%d { option (%s) = %s; LE%d_V = 0; }", k, p[2], v, k))
			} else {
				t.add(p[1], fmt.Sprintf("enum LE%d { LE%d_V = 0 [(%s) = %s]; }", k, k, p[2], v))
			}
		case "fo":
			if bad(3) {
				return "", false
			}
			v, ok := b19Val(p[2])
			if !ok {
				return "", false
			}
			t.head = append(t.head, fmt.Sprintf("option (%s) = %s;", p[1], v))
		case "mo":
			if bad(4) || p[1] == "-" {
				return "", false
			}
			v, ok := b19Val(p[3])
			if !ok {
				return "", false
			}
			t.add(p[1], fmt.Sprintf("option (%s) = %s;", p[2], v))
		case "lo":
			if bad(4) || p[1] == "-" {
				return "", false
			}
			v, ok := b19Val(p[3])
			if !ok {
				return "", false
			}
			t.add(p[1], fmt.Sprintf("optional int32 f%d = %d [(%s) = %s];", k, k+1, p[2], v))
		case "po":
			if bad(2) {
				return "", false
			}
			if p[1] == "file" {
				t.head = append(t.head, "option java_package = \"x\";")
			} else {
				t.add(p[1], "option deprecated = true;")
			}
		case "pf":
			if bad(2) || p[1] == "-" {
				return "", false
			}
			t.add(p[1], fmt.Sprintf("optional int32 f%d = %d [deprecated = true];", k, k+1))
		default:
			return "", false
		}
	}
	if len(rpcs) > 0 || hasSvc {
		t.lines = append(t.lines, "service Svc {\n"+strings.Join(rpcs, "\n")+"\n}")
	}
	return t.render(b19Header(c, f, skipImport)), true
}

// symbol tokens of the file under test implied by its items (what the model is told)
func b19TestSyms(items []string) []string {
	var out []string
	svc := false
	for k, it := range items {
		p := strings.Split(it, ";")
		switch p[0] {
		case "lm":
			out = append(out, "m:"+p[1])
		case "le":
			out = append(out, "e:"+p[1])
		case "ft", "lo", "pf":
			out = append(out, fmt.Sprintf("f:%s.f%d", p[1], k))
		case "ex":
			if p[1] == "-" {
				out = append(out, fmt.Sprintf("x:x%d", k))
			} else {
				out = append(out, fmt.Sprintf("x:%s.x%d", p[1], k))
			}
		case "rp", "ro":
			if !svc {
				svc = true
				out = append(out, "s:Svc")
			}
			out = append(out, fmt.Sprintf("r:Svc.M%d", k))
		case "so":
			if !svc {
				svc = true
				out = append(out, "s:Svc")
			}
		case "eo", "vo":
			if p[1] == "-" {
				out = append(out, fmt.Sprintf("e:LE%d/LE%d_V", k, k))
			} else {
				out = append(out, fmt.Sprintf("e:%s.LE%d/LE%d_V", p[1], k, k))
			}
		}
	}
	return out
}

// ---------------------------------------------------------------- compiling

type b19Result struct {
	ok     bool
	errMsg string
	unused map[string]bool
	file   linker.File
}

func b19Compile(sources map[string]string) b19Result {
	res := b19Result{unused: map[string]bool{}}
	var firstErr error
	rep := reporter.NewReporter(
		func(e reporter.ErrorWithPos) error {
			if firstErr == nil {
				firstErr = e
			}
			return e
		},
		func(w reporter.ErrorWithPos) {
			var u linker.ErrorUnusedImport
			if errors.As(w, &u) {
				res.unused[u.UnusedImport()] = true
			}
		})
	c := protocompile.Compiler{
		Resolver: protocompile.WithStandardImports(&protocompile.SourceResolver{
			Accessor: protocompile.SourceAccessorFromMap(sources),
		}),
		Reporter: rep,
	}
	files, err := c.Compile(context.Background(), b19TestPath)
	if err != nil || firstErr != nil || len(files) != 1 {
		if err == nil {
			err = firstErr
		}
		if err != nil {
			res.errMsg = err.Error()
		}
		return res
	}
	res.ok = true
	res.file = files[0]
	return res
}

func b19Stripped(f linker.File) []byte {
	fd := proto.Clone(b19FD(f)).(*descriptorpb.FileDescriptorProto)
	fd.Dependency = nil
	fd.PublicDependency = nil
	fd.WeakDependency = nil
	fd.SourceCodeInfo = nil
	b, err := proto.MarshalOptions{Deterministic: true}.Marshal(fd)
	if err != nil {
		return []byte("marshal-error " + err.Error())
	}
	return b
}

func b19FD(f linker.File) *descriptorpb.FileDescriptorProto {
	if r, ok := f.(linker.Result); ok {
		return r.FileDescriptorProto()
	}
	return nil
}

// all files reachable from f
func b19Closure(f linker.File, seen map[string]linker.File) {
	if _, ok := seen[f.Path()]; ok {
		return
	}
	seen[f.Path()] = f
	imps := f.Imports()
	for i := 0; i < imps.Len(); i++ {
		if d := f.FindImportByPath(imps.Get(i).Path()); d != nil {
			b19Closure(d, seen)
		}
	}
}

// (relative name, kind) pairs actually defined by a compiled file
func b19ActualSyms(fd protoreflect.FileDescriptor) map[string]bool {
	out := map[string]bool{}
	pkg := string(fd.Package())
	rel := func(n protoreflect.FullName) string {
		s := string(n)
		if pkg != "" {
			s = strings.TrimPrefix(s, pkg+".")
		}
		return s
	}
	var msgs func(ms protoreflect.MessageDescriptors)
	enums := func(es protoreflect.EnumDescriptors) {
		for i := 0; i < es.Len(); i++ {
			e := es.Get(i)
			out["e:"+rel(e.FullName())] = true
			for j := 0; j < e.Values().Len(); j++ {
				out["v:"+rel(e.Values().Get(j).FullName())] = true
			}
		}
	}
	exts := func(xs protoreflect.ExtensionDescriptors) {
		for i := 0; i < xs.Len(); i++ {
			out["x:"+rel(xs.Get(i).FullName())] = true
		}
	}
	msgs = func(ms protoreflect.MessageDescriptors) {
		for i := 0; i < ms.Len(); i++ {
			m := ms.Get(i)
			out["m:"+rel(m.FullName())] = true
			for j := 0; j < m.Fields().Len(); j++ {
				out["f:"+rel(m.Fields().Get(j).FullName())] = true
			}
			for j := 0; j < m.Oneofs().Len(); j++ {
				out["o:"+rel(m.Oneofs().Get(j).FullName())] = true
			}
			enums(m.Enums())
			exts(m.Extensions())
			msgs(m.Messages())
		}
	}
	msgs(fd.Messages())
	enums(fd.Enums())
	exts(fd.Extensions())
	for i := 0; i < fd.Services().Len(); i++ {
		s := fd.Services().Get(i)
		out["s:"+rel(s.FullName())] = true
		for j := 0; j < s.Methods().Len(); j++ {
			out["r:"+rel(s.Methods().Get(j).FullName())] = true
		}
	}
	return out
}

// the same set from symbol tokens
func b19TokenSyms(toks []string) map[string]bool {
	out := map[string]bool{}
	for _, s := range toks {
		k, rest, _ := strings.Cut(s, ":")
		switch k {
		case "e":
			parts := strings.Split(rest, "/")
			out["e:"+parts[0]] = true
			parent, _ := b19SplitParent(parts[0])
			for _, v := range parts[1:] {
				if parent == "-" {
					out["v:"+v] = true
				} else {
					out["v:"+parent+"."+v] = true
				}
			}
		case "x":
			name, _, _ := strings.Cut(rest, "@")
			out["x:"+name] = true
		default:
			out[k+":"+rest] = true
		}
	}
	return out
}

func b19SameSet(a, b map[string]bool) bool {
	if len(a) != len(b) {
		return false
	}
	for k := range a {
		if !b[k] {
			return false
		}
	}
	return true
}

// names of the extensions set on an options message
func b19OptionNames(opts proto.Message, all linker.Files, into map[string]bool) {
	if opts == nil {
		return
	}
	m := opts.ProtoReflect()
	if !m.IsValid() {
		return
	}
	m.Range(func(fd protoreflect.FieldDescriptor, _ protoreflect.Value) bool {
		if fd.IsExtension() {
			into["."+string(fd.FullName())] = true
		}
		return true
	})
	unk := m.GetUnknown()
	res := all.AsResolver()
	for len(unk) > 0 {
		num, typ, n := protowire.ConsumeTag(unk)
		if n < 0 {
			break
		}
		unk = unk[n:]
		n = protowire.ConsumeFieldValue(num, typ, unk)
		if n < 0 {
			break
		}
		unk = unk[n:]
		xt, err := res.FindExtensionByNumber(m.Descriptor().FullName(), num)
		if err != nil {
			into[fmt.Sprintf("?%d", num)] = true
			continue
		}
		into["."+string(xt.TypeDescriptor().FullName())] = true
	}
}

func b19FindField(fd *descriptorpb.FileDescriptorProto, name string) *descriptorpb.FieldDescriptorProto {
	var inMsg func(m *descriptorpb.DescriptorProto) *descriptorpb.FieldDescriptorProto
	inMsg = func(m *descriptorpb.DescriptorProto) *descriptorpb.FieldDescriptorProto {
		for _, f := range m.Field {
			if f.GetName() == name {
				return f
			}
		}
		for _, f := range m.Extension {
			if f.GetName() == name {
				return f
			}
		}
		for _, n := range m.NestedType {
			if f := inMsg(n); f != nil {
				return f
			}
		}
		return nil
	}
	for _, f := range fd.Extension {
		if f.GetName() == name {
			return f
		}
	}
	for _, m := range fd.MessageType {
		if f := inMsg(m); f != nil {
			return f
		}
	}
	return nil
}

func (unusedImportsEngine) Exec(op string) string {
	c, ok := b19Parse(op)
	if !ok {
		return "bad-op"
	}
	sources := map[string]string{}
	for i := range c.files[:len(c.files)-1] {
		f := &c.files[i]
		if f.path == b19DescPath || f.path == b19AnyPath {
			continue
		}
		src, ok := b19RenderLib(c, f)
		if !ok {
			return "bad-op"
		}
		sources[f.path] = src
	}
	tf := &c.files[len(c.files)-1]
	if tf.path != b19TestPath {
		return "bad-op"
	}
	text, ok := b19RenderTest(c, -1)
	if !ok {
		return "bad-op"
	}
	sources[b19TestPath] = text
	base := b19Compile(sources)
	if !base.ok {
		return "err ~ " + Canon(base.errMsg)
	}
	// generator self-check: the symbol tokens the model sees are what the files define
	closure := map[string]linker.File{}
	b19Closure(base.file, closure)
	for i := range c.files {
		f := &c.files[i]
		if f.path == b19DescPath || f.path == b19AnyPath {
			continue
		}
		if cf, ok := closure[f.path]; ok {
			if !b19SameSet(b19ActualSyms(cf), b19TokenSyms(f.syms)) {
				return "bad-syms " + f.path
			}
			if string(cf.Package()) != f.pkg {
				return "bad-syms pkg " + f.path
			}
		}
	}
	var all linker.Files
	var paths []string
	for p := range closure {
		paths = append(paths, p)
	}
	sort.Strings(paths)
	for _, p := range paths {
		all = append(all, closure[p])
	}

	var warned []string
	rm := make([]byte, len(tf.imps))
	baseBytes := b19Stripped(base.file)
	for p, imp := range tf.imps {
		if base.unused[c.files[imp.idx].path] {
			warned = append(warned, strconv.Itoa(p))
		}
		t2, _ := b19RenderTest(c, p)
		src2 := map[string]string{}
		for k, v := range sources {
			src2[k] = v
		}
		src2[b19TestPath] = t2
		r2 := b19Compile(src2)
		if r2.ok && bytes.Equal(b19Stripped(r2.file), baseBytes) {
			rm[p] = 'E'
		} else {
			rm[p] = 'N'
		}
	}
	// resolved names
	fd := b19FD(base.file)
	var res []string
	for k, it := range c.items {
		p := strings.Split(it, ";")
		switch p[0] {
		case "ft":
			if f := b19FindField(fd, fmt.Sprintf("f%d", k)); f != nil {
				res = append(res, f.GetTypeName())
			} else {
				res = append(res, "?")
			}
		case "ex":
			if f := b19FindField(fd, fmt.Sprintf("x%d", k)); f != nil {
				res = append(res, f.GetExtendee())
				if p[3] != "-" {
					res = append(res, f.GetTypeName())
				}
			} else {
				res = append(res, "?")
			}
		case "rp", "ro":
			found := false
			for _, s := range fd.Service {
				for _, m := range s.Method {
					if m.GetName() == fmt.Sprintf("M%d", k) {
						res = append(res, m.GetInputType(), m.GetOutputType())
						found = true
					}
				}
			}
			if !found {
				res = append(res, "?")
			}
		}
	}
	optSet := map[string]bool{}
	if fd.Options != nil {
		b19OptionNames(fd.Options, all, optSet)
	}
	var walk func(m *descriptorpb.DescriptorProto)
	fldOpts := func(fs []*descriptorpb.FieldDescriptorProto) {
		for _, f := range fs {
			if f.Options != nil {
				b19OptionNames(f.Options, all, optSet)
			}
		}
	}
	enumOpts := func(es []*descriptorpb.EnumDescriptorProto) {
		for _, e := range es {
			if e.Options != nil {
				b19OptionNames(e.Options, all, optSet)
			}
			for _, v := range e.Value {
				if v.Options != nil {
					b19OptionNames(v.Options, all, optSet)
				}
			}
		}
	}
	walk = func(m *descriptorpb.DescriptorProto) {
		if m.Options != nil {
			b19OptionNames(m.Options, all, optSet)
		}
		fldOpts(m.Field)
		fldOpts(m.Extension)
		enumOpts(m.EnumType)
		for _, n := range m.NestedType {
			walk(n)
		}
	}
	for _, m := range fd.MessageType {
		walk(m)
	}
	fldOpts(fd.Extension)
	enumOpts(fd.EnumType)
	for _, sv := range fd.Service {
		if sv.Options != nil {
			b19OptionNames(sv.Options, all, optSet)
		}
		for _, m := range sv.Method {
			if m.Options != nil {
				b19OptionNames(m.Options, all, optSet)
			}
		}
	}
	var opts []string
	for k := range optSet {
		opts = append(opts, k)
	}
	sort.Strings(opts)
	rms := string(rm)
	if rms == "" {
		rms = "-"
	}
	return fmt.Sprintf("ok w=%s rm=%s res=%s opts=%s", b19CSV(warned), rms, b19CSV(res), b19CSV(opts))
}

func (unusedImportsEngine) Trivial(op, ans string) bool { return strings.HasPrefix(ans, "err") }

func (unusedImportsEngine) Class(op, ans string) string {
	if !strings.HasPrefix(ans, "ok ") {
		return strings.Fields(ans + " -")[0]
	}
	w := strings.Fields(ans)
	nw := len(b19UnCSV(strings.TrimPrefix(w[1], "w=")))
	rm := strings.TrimPrefix(w[2], "rm=")
	if rm == "-" {
		rm = ""
	}
	return fmt.Sprintf("ok imports=%d warned=%d removable=%d", len(rm), nw, strings.Count(rm, "E"))
}

// ---------------------------------------------------------------- generator

type b19Elem struct {
	file     int
	fqn      string
	kind     byte   // m e x
	extendee string // x: fully-qualified extendee
	typ      string // x: fully-qualified message type, "" = scalar
}

type b19Builder struct {
	c        b19Case
	elems    []b19Elem
	names    map[string]bool // every fully-qualified symbol
	pkgs     map[string]bool // every package prefix
	nextTag  int
	descMsgs []string
}

func b19Join(pkg, rel string) string {
	if pkg == "" {
		return rel
	}
	return pkg + "." + rel
}

func b19Prefixes(pkg string) []string {
	var out []string
	for pkg != "" {
		out = append(out, pkg)
		i := strings.LastIndexByte(pkg, '.')
		if i < 0 {
			break
		}
		pkg = pkg[:i]
	}
	return out
}

func b19NewBuilder() *b19Builder {
	b := &b19Builder{names: map[string]bool{}, pkgs: map[string]bool{}, nextTag: 2000}
	var syms []string
	ms := descriptorpb.File_google_protobuf_descriptor_proto.Messages()
	for i := 0; i < ms.Len(); i++ {
		n := string(ms.Get(i).Name())
		// the model is told about the options messages only: no generated reference can
		// name any other element of descriptor.proto
		if !strings.HasSuffix(n, "Options") {
			continue
		}
		syms = append(syms, "m:"+n)
		b.names["google.protobuf."+n] = true
		b.elems = append(b.elems, b19Elem{file: 0, fqn: "google.protobuf." + n, kind: 'm'})
	}
	b.c.files = append(b.c.files, b19File{path: b19DescPath, pkg: "google.protobuf", syms: syms})
	b.c.files = append(b.c.files, b19File{path: b19AnyPath, pkg: "google.protobuf", syms: []string{"m:Any"}})
	b.names["google.protobuf.Any"] = true
	b.elems = append(b.elems, b19Elem{file: 1, fqn: "google.protobuf.Any", kind: 'm'})
	b.pkgs["google"] = true
	b.pkgs["google.protobuf"] = true
	return b
}

// a package may be used only if none of its prefixes is a symbol
func (b *b19Builder) pkgOK(pkg string) bool {
	for _, p := range b19Prefixes(pkg) {
		if b.names[p] {
			return false
		}
	}
	return true
}

func (b *b19Builder) addLib(pkg string, imps []b19Imp) int {
	idx := len(b.c.files)
	b.c.files = append(b.c.files, b19File{path: fmt.Sprintf("f%d.proto", idx), pkg: pkg, imps: imps})
	for _, p := range b19Prefixes(pkg) {
		b.pkgs[p] = true
	}
	return idx
}

func (b *b19Builder) free(fqn string) bool { return !b.names[fqn] && !b.pkgs[fqn] }

func (b *b19Builder) addImport(idx, dep int, pub bool) {
	f := &b.c.files[idx]
	for _, i := range f.imps {
		if i.idx == dep {
			return
		}
	}
	f.imps = append(f.imps, b19Imp{dep, pub})
}

func (b *b19Builder) addMsg(idx int, rel string) bool {
	f := &b.c.files[idx]
	fqn := b19Join(f.pkg, rel)
	if !b.free(fqn) {
		return false
	}
	b.names[fqn] = true
	f.syms = append(f.syms, "m:"+rel)
	b.elems = append(b.elems, b19Elem{file: idx, fqn: fqn, kind: 'm'})
	return true
}

func (b *b19Builder) addEnum(idx int, rel string, vals ...string) bool {
	f := &b.c.files[idx]
	fqn := b19Join(f.pkg, rel)
	if !b.free(fqn) {
		return false
	}
	parent, _ := b19SplitParent(rel)
	var vf []string
	for _, v := range vals {
		q := v
		if parent != "-" {
			q = parent + "." + v
		}
		q = b19Join(f.pkg, q)
		if !b.free(q) || q == fqn {
			return false
		}
		vf = append(vf, q)
	}
	b.names[fqn] = true
	for _, q := range vf {
		b.names[q] = true
	}
	f.syms = append(f.syms, "e:"+rel+"/"+strings.Join(vals, "/"))
	b.elems = append(b.elems, b19Elem{file: idx, fqn: fqn, kind: 'e'})
	return true
}

// typ: "" scalar int32, else fully-qualified message name
func (b *b19Builder) addExt(idx int, rel, extendee, typ string) bool {
	f := &b.c.files[idx]
	fqn := b19Join(f.pkg, rel)
	if !b.free(fqn) {
		return false
	}
	b.names[fqn] = true
	t := "int32"
	if typ != "" {
		t = "." + typ
	}
	b.nextTag++
	f.syms = append(f.syms, fmt.Sprintf("x:%s@.%s#%d:%s", rel, extendee, b.nextTag, t))
	b.elems = append(b.elems, b19Elem{file: idx, fqn: fqn, kind: 'x', extendee: extendee, typ: typ})
	return true
}

// files visible to file idx: itself, its imports and their public closure
func (c *b19Case) visible(idx int) map[int]bool {
	vis := map[int]bool{idx: true}
	var pub func(i int)
	pub = func(i int) {
		if vis[i] {
			return
		}
		vis[i] = true
		for _, imp := range c.files[i].imps {
			if imp.pub {
				pub(imp.idx)
			}
		}
	}
	for _, imp := range c.files[idx].imps {
		pub(imp.idx)
	}
	return vis
}

// finish: append the file under test
func (b *b19Builder) finish(pkg string, imps []b19Imp, items []string) []string {
	c := b.c
	c.files = append(append([]b19File{}, c.files...), b19File{path: b19TestPath, pkg: pkg, imps: imps, syms: b19TestSyms(items)})
	c.items = items
	return []string{c.op()}
}

func b19Spellings(fqn string) []string {
	out := []string{"." + fqn, fqn}
	parts := strings.Split(fqn, ".")
	for i := 1; i < len(parts); i++ {
		out = append(out, strings.Join(parts[i:], "."))
	}
	return out
}

func b19Perms(xs []int) [][]int {
	if len(xs) <= 1 {
		return [][]int{append([]int{}, xs...)}
	}
	var out [][]int
	for i := range xs {
		rest := append(append([]int{}, xs[:i]...), xs[i+1:]...)
		for _, p := range b19Perms(rest) {
			out = append(out, append([]int{xs[i]}, p...))
		}
	}
	return out
}

// the exhaustive small domain: c defines everything, a and b import c (not / plainly /
// publicly), the file under test imports every ordered non-empty selection of {a,b,c} with
// every public/non-public flag assignment and contains one reference of every kind.
func b19Lattice(emit func([]string), keep func(int) bool) {
	refItems := [][]string{
		{"lm;T"},
		{"lm;T", "ft;T;.p.c.M"},
		{"lm;T", "ft;T;c.E"},
		{"ex;-;.p.c.M;-"},
		{"rp;.p.c.M;p.c.M"},
		{"fo;.p.c.fopt;i"},
		{"lm;T", "mo;T;p.c.mopt;i"},
		{"lm;T", "lo;T;c.flopt;i"},
		{"fo;.p.c.fmsg;l:p.c.lext"},
		{"fo;.p.c.fany;a:p.c.M"},
		{"lm;T", "ft;T;.p.a.A"},
		{"po;file"},
		{"lm;T", "pf;T"},
		{"so;p.c.sopt;i"},
		{"lm;T", "ro;T;.p.t.T;.p.c.ropt;i"},
		{"lm;T", "eo;T;c.eopt;i"},
		{"vo;-;.p.c.vopt;i"},
	}
	n := 0
	modes := []int{0, 1, 2} // none, plain, public
	for _, am := range modes {
		for _, bm := range modes {
			for mask := 1; mask < 8; mask++ {
				var sel []int
				for k := 0; k < 3; k++ {
					if mask&(1<<k) != 0 {
						sel = append(sel, 2+k)
					}
				}
				for _, perm := range b19Perms(sel) {
					for flags := 0; flags < 1<<len(perm); flags++ {
						for _, items := range refItems {
							n++
							if !keep(n) {
								continue
							}
							b := b19NewBuilder()
							ci := b.addLib("p.c", []b19Imp{{0, false}, {1, false}})
							b.addMsg(ci, "M")
							b.addEnum(ci, "E", "EV")
							b.addExt(ci, "fopt", "google.protobuf.FileOptions", "")
							b.addExt(ci, "mopt", "google.protobuf.MessageOptions", "")
							b.addExt(ci, "flopt", "google.protobuf.FieldOptions", "")
							b.addExt(ci, "fmsg", "google.protobuf.FileOptions", "p.c.M")
							b.addExt(ci, "lext", "p.c.M", "")
							b.addExt(ci, "fany", "google.protobuf.FileOptions", "google.protobuf.Any")
							b.addExt(ci, "sopt", "google.protobuf.ServiceOptions", "")
							b.addExt(ci, "ropt", "google.protobuf.MethodOptions", "")
							b.addExt(ci, "eopt", "google.protobuf.EnumOptions", "")
							b.addExt(ci, "vopt", "google.protobuf.EnumValueOptions", "")
							ai := b.addLib("p.a", nil)
							b.addMsg(ai, "A")
							bi := b.addLib("p.b", nil)
							b.addMsg(bi, "B")
							if am > 0 {
								b.addImport(ai, ci, am == 2)
							}
							if bm > 0 {
								b.addImport(bi, ci, bm == 2)
							}
							var imps []b19Imp
							for k, f := range perm {
								// file indices: c=2, a=3, b=4
								imps = append(imps, b19Imp{f, flags&(1<<k) != 0})
							}
							emit(b.finish("p.t", imps, items))
						}
					}
				}
			}
		}
	}
}

// hand-made boundary workspaces
func b19Directed(emit func([]string)) {
	// 1. package-namespace match marks an import (a: package q.r, nothing used; b: q.r.M used as r.M)
	for _, order := range [][]int{{2, 3}, {3, 2}} {
		b := b19NewBuilder()
		a := b.addLib("q.r.s", nil)
		b.addMsg(a, "Z")
		bb := b.addLib("q.r", nil)
		b.addMsg(bb, "M")
		emit(b.finish("q", []b19Imp{{order[0], false}, {order[1], false}}, []string{"lm;T", "ft;T;r.M"}))
	}
	// 2. leaf match of the first name continues with the next package prefix
	for _, order := range [][]int{{2, 3}, {3, 2}} {
		b := b19NewBuilder()
		a := b.addLib("q.r", []b19Imp{{0, false}})
		b.addExt(a, "X", "google.protobuf.FileOptions", "")
		bb := b.addLib("q", nil)
		b.addMsg(bb, "X")
		b.addMsg(bb, "X.Y")
		emit(b.finish("q.r", []b19Imp{{order[0], false}, {order[1], false}}, []string{"lm;T", "ft;T;X.Y"}))
	}
	// 3. descriptor.proto imported, no custom option, but some plain option present
	for _, items := range [][]string{{"lm;T"}, {"po;file"}, {"lm;T", "po;T"}, {"lm;T", "pf;T"}} {
		b := b19NewBuilder()
		emit(b.finish("q", []b19Imp{{0, false}}, items))
	}
	// 4. the same file directly and through a public re-export, both orders, both flags
	for _, order := range [][]int{{2, 3}, {3, 2}} {
		for flags := 0; flags < 4; flags++ {
			b := b19NewBuilder()
			cc := b.addLib("q", nil)
			b.addMsg(cc, "M")
			a := b.addLib("q.a", []b19Imp{{cc, true}})
			b.addMsg(a, "A")
			emit(b.finish("q", []b19Imp{{order[0], flags&1 != 0}, {order[1], flags&2 != 0}}, []string{"lm;T", "ft;T;M"}))
		}
	}
	// 5. nested scopes: a local nested message shadows the imported one
	for _, ref := range []string{"M", "T.M", ".q.M", "q.M", "I.M"} {
		b := b19NewBuilder()
		cc := b.addLib("q", nil)
		b.addMsg(cc, "M")
		emit(b.finish("q", []b19Imp{{cc, false}}, []string{"lm;T", "lm;T.M", "lm;T.I", "ft;T.I;" + ref}))
	}
	// 6. import of an import is not visible
	{
		b := b19NewBuilder()
		cc := b.addLib("q", nil)
		b.addMsg(cc, "M")
		a := b.addLib("q.a", []b19Imp{{cc, false}})
		b.addMsg(a, "A")
		emit(b.finish("q", []b19Imp{{a, false}}, []string{"lm;T", "ft;T;M"}))
	}
	// 7. chain of public imports, depth 3
	{
		b := b19NewBuilder()
		c0 := b.addLib("q", nil)
		b.addMsg(c0, "M")
		c1 := b.addLib("q1", []b19Imp{{c0, true}})
		c2 := b.addLib("q2", []b19Imp{{c1, true}})
		c3 := b.addLib("q3", []b19Imp{{c2, true}})
		emit(b.finish("t", []b19Imp{{c3, false}, {c0, false}}, []string{"lm;T", "ft;T;.q.M"}))
		_ = c3
	}
}

var b19PkgPool = []string{"", "a", "a.b", "a.b.c", "b", "a.c", "b.a"}
var b19NamePool = []string{"M", "N", "P", "Q", "a", "b", "c"}

type b19OptUse struct{ where, ext string }

func b19Random(r *Rand) []string {
	b := b19NewBuilder()
	nlibs := 2 + r.Intn(4)
	for i := 0; i < nlibs; i++ {
		pkg := Pick(r, b19PkgPool)
		b.addLib(pkg, nil)
	}
	testPkg := Pick(r, b19PkgPool)
	for _, p := range b19Prefixes(testPkg) {
		b.pkgs[p] = true
	}
	for idx := 2; idx < 2+nlibs; idx++ {
		for j := 2; j < idx; j++ {
			if r.Chance(35, 100) {
				b.addImport(idx, j, r.Chance(4, 10))
			}
		}
		if r.Chance(1, 8) {
			b.addImport(idx, 0, r.Chance(1, 2))
		}
		var own []string
		nm := 1 + r.Intn(2)
		for k := 0; k < nm; k++ {
			rel := Pick(r, b19NamePool)
			if b.addMsg(idx, rel) {
				own = append(own, b19Join(b.c.files[idx].pkg, rel))
				if r.Chance(1, 3) {
					in := rel + "." + Pick(r, b19NamePool)
					if b.addMsg(idx, in) {
						own = append(own, b19Join(b.c.files[idx].pkg, in))
					}
				}
			}
		}
		if r.Chance(1, 3) {
			b.addEnum(idx, "E"+strconv.Itoa(idx), Pick(r, b19NamePool)+"V"+strconv.Itoa(idx))
		}
		if r.Chance(1, 2) {
			target := Pick(r, []string{"File", "File", "Message", "Field", "File", "Message", "Field", "Service", "Method", "Enum", "EnumValue"})
			typ := ""
			switch {
			case r.Chance(1, 10):
				typ = "google.protobuf.Any"
				b.addImport(idx, 1, false)
			case len(own) > 0 && r.Chance(1, 2):
				typ = Pick(r, own)
			}
			b.addImport(idx, 0, r.Chance(1, 6))
			b.addExt(idx, Pick(r, []string{"o" + strconv.Itoa(idx), "opt", Pick(r, b19NamePool)}), "google.protobuf."+target+"Options", typ)
		}
		if r.Chance(1, 3) {
			// extension of a message visible to this library
			vis := b.c.visible(idx)
			var cands []string
			for _, e := range b.elems {
				if e.kind == 'm' && e.file >= 2 && vis[e.file] {
					cands = append(cands, e.fqn)
				}
			}
			if len(cands) > 0 {
				b.addExt(idx, Pick(r, []string{"l" + strconv.Itoa(idx), Pick(r, b19NamePool)}), Pick(r, cands), "")
			}
		}
	}
	// the file under test
	var pool []int
	for idx := 2; idx < 2+nlibs; idx++ {
		pool = append(pool, idx)
	}
	if r.Chance(1, 4) {
		pool = append(pool, 0)
	}
	for i := len(pool) - 1; i > 0; i-- {
		j := r.Intn(i + 1)
		pool[i], pool[j] = pool[j], pool[i]
	}
	ni := 2 + r.Intn(4)
	if ni > len(pool) {
		ni = len(pool)
	}
	var imps []b19Imp
	for _, f := range pool[:ni] {
		imps = append(imps, b19Imp{f, r.Chance(1, 5)})
	}
	tcase := b19Case{files: append(append([]b19File{}, b.c.files...), b19File{pkg: testPkg, imps: imps})}
	vis := tcase.visible(len(tcase.files) - 1)
	items := []string{"lm;T"}
	conts := []string{"T"}
	if r.Chance(2, 5) {
		items = append(items, "lm;T.I")
		conts = append(conts, "T.I")
	}
	if r.Chance(1, 6) {
		// a local message that may shadow an imported one (never a colliding symbol)
		if n := Pick(r, []string{"M", "T.M", "T.N", "N"}); b.free(b19Join(testPkg, n)) {
			items = append(items, "lm;"+n)
		}
	}
	var visEl, allEl []b19Elem
	for _, e := range b.elems {
		if e.file < 2 && e.fqn != "google.protobuf.Any" {
			continue
		}
		allEl = append(allEl, e)
		if vis[e.file] {
			visEl = append(visEl, e)
		}
	}
	spell := func(fqn string) string {
		sp := b19Spellings(fqn)
		switch {
		case r.Chance(4, 10):
			return sp[0]
		case r.Chance(1, 2):
			return sp[1]
		}
		return Pick(r, sp)
	}
	// inside a message literal a leading dot is a syntax error
	spellLit := func(fqn string) string {
		sp := b19Spellings(fqn)[1:]
		if r.Chance(1, 2) {
			return sp[0]
		}
		return Pick(r, sp)
	}
	used := map[b19OptUse]bool{}
	// a visible option extension (on File) whose value type is msg
	optOfType := func(msg string) (b19Elem, bool) {
		var c []b19Elem
		for _, e := range visEl {
			if e.kind == 'x' && e.typ == msg && strings.HasPrefix(e.extendee, "google.protobuf.") && strings.HasSuffix(e.extendee, "Options") {
				c = append(c, e)
			}
		}
		if len(c) == 0 {
			return b19Elem{}, false
		}
		return Pick(r, c), true
	}
	optItem := func(e b19Elem, val string) (string, bool) {
		cont := Pick(r, conts)
		switch e.extendee {
		case "google.protobuf.FileOptions":
			if used[b19OptUse{"file", e.fqn}] {
				return "", false
			}
			used[b19OptUse{"file", e.fqn}] = true
			return "fo;" + spell(e.fqn) + ";" + val, true
		case "google.protobuf.MessageOptions":
			if used[b19OptUse{cont, e.fqn}] {
				return "", false
			}
			used[b19OptUse{cont, e.fqn}] = true
			return "mo;" + cont + ";" + spell(e.fqn) + ";" + val, true
		case "google.protobuf.FieldOptions":
			return "lo;" + cont + ";" + spell(e.fqn) + ";" + val, true
		case "google.protobuf.ServiceOptions":
			if used[b19OptUse{"svc", e.fqn}] {
				return "", false
			}
			used[b19OptUse{"svc", e.fqn}] = true
			return "so;" + spell(e.fqn) + ";" + val, true
		case "google.protobuf.MethodOptions":
			var ms []b19Elem
			for _, x := range visEl {
				if x.kind == 'm' {
					ms = append(ms, x)
				}
			}
			if len(ms) == 0 {
				return "", false
			}
			return "ro;" + spell(Pick(r, ms).fqn) + ";" + spell(Pick(r, ms).fqn) + ";" + spell(e.fqn) + ";" + val, true
		case "google.protobuf.EnumOptions", "google.protobuf.EnumValueOptions":
			c := cont
			if r.Chance(1, 2) {
				c = "-"
			}
			k := "eo;"
			if e.extendee == "google.protobuf.EnumValueOptions" {
				k = "vo;"
			}
			return k + c + ";" + spell(e.fqn) + ";" + val, true
		}
		return "", false
	}
	nrefs := r.Intn(5)
	for k := 0; k < nrefs; k++ {
		src := visEl
		if r.Chance(1, 10) {
			src = allEl
		}
		if len(src) == 0 {
			break
		}
		e := Pick(r, src)
		cont := Pick(r, conts)
		switch e.kind {
		case 'm':
			switch r.Intn(5) {
			case 0, 1:
				items = append(items, "ft;"+cont+";"+spell(e.fqn))
			case 2:
				c := cont
				if r.Chance(1, 2) {
					c = "-"
				}
				if e.fqn == "google.protobuf.Any" {
					items = append(items, "ft;"+cont+";"+spell(e.fqn))
				} else {
					items = append(items, "ex;"+c+";"+spell(e.fqn)+";-")
				}
			case 3:
				o := e
				if len(visEl) > 0 {
					if x := Pick(r, visEl); x.kind == 'm' {
						o = x
					}
				}
				items = append(items, "rp;"+spell(e.fqn)+";"+spell(o.fqn))
			case 4:
				if a, ok := optOfType("google.protobuf.Any"); ok {
					if it, ok := optItem(a, "a:"+e.fqn); ok {
						items = append(items, it)
						break
					}
				}
				items = append(items, "ft;"+cont+";"+spell(e.fqn))
			}
		case 'e':
			items = append(items, "ft;"+cont+";"+spell(e.fqn))
		case 'x':
			if strings.HasPrefix(e.extendee, "google.protobuf.") {
				val := "i"
				if e.typ == "google.protobuf.Any" {
					val = "m"
					if len(visEl) > 0 {
						if x := Pick(r, visEl); x.kind == 'm' {
							val = "a:" + x.fqn
						}
					}
				} else if e.typ != "" {
					val = "m"
					// an extension of the option's message type, if one is visible
					for _, x := range visEl {
						if x.kind == 'x' && x.extendee == e.typ && r.Chance(2, 3) {
							val = "l:" + spellLit(x.fqn)
							break
						}
					}
				}
				if it, ok := optItem(e, val); ok {
					items = append(items, it)
				}
			} else if o, ok := optOfType(e.extendee); ok {
				if it, ok := optItem(o, "l:"+spellLit(e.fqn)); ok {
					items = append(items, it)
				}
			}
		}
	}
	if r.Chance(1, 4) {
		items = append(items, Pick(r, []string{"po;file", "po;T", "pf;T"}))
	}
	return b.finish(testPkg, imps, items)
}

func (unusedImportsEngine) Gen(r *Rand, tier string) [][]string {
	var cases [][]string
	emit := func(c []string) { cases = append(cases, c) }
	// NewRand(seed+1) is NewRand(seed) shifted by one draw; re-seed through the output
	// function so that consecutive VERIF_SEEDs give unrelated streams
	r = NewRand(r.U64())
	b19Directed(emit)
	stride := 5
	nrand := 1500
	if tier == "thorough" {
		stride = 1
		nrand = 120000
	}
	off := r.Intn(stride)
	b19Lattice(emit, func(n int) bool { return n%stride == off })
	for i := 0; i < nrand; i++ {
		emit(b19Random(r))
	}
	return cases
}
