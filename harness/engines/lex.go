package engines

// Engines for the stable lexer and ast.FileInfo (E-LEX): "lex" (C11), "lexpos" (C13),
// "literal" (C14), "lextotal" (C12). All of them run the real lexer/parser in-process.

import (
	"bytes"
	"context"
	"fmt"
	"math"
	"math/big"
	"reflect"
	"strconv"
	"strings"
	"sync"

	"github.com/bufbuild/protocompile"
	"github.com/bufbuild/protocompile/ast"
	"github.com/bufbuild/protocompile/linker"
	"github.com/bufbuild/protocompile/parser"
	"github.com/bufbuild/protocompile/reporter"
)

// ---------------------------------------------------------------- shared observation code

type lexErr struct {
	cls            string
	off, line, col int
}

// lexErrClass maps an error message of the lexer onto the model's error classes.
func lexErrClass(msg string) string {
	type pc struct{ p, c string }
	for _, x := range []pc{
		{"encountered end-of-line before end of string literal", "eol"},
		{"unexpected EOF", "ueof"},
		{"EOF", "eof"},
		{"null character ('\\0') not allowed in string literal", "nul"},
		{"invalid hex escape: ", "hex"},
		{"invalid octal escape: ", "oct"},
		{"octal escape is out range, must be between 0 and 377: ", "octrange"},
		{"invalid unicode escape: ", "uni"},
		{"unicode escape is out of range, must be between 0 and 0x10ffff: ", "unirange"},
		{"invalid escape sequence: ", "esc"},
		{"invalid control character", "ctl"},
		{"invalid character", "inv"},
		{"block comment never terminates, unexpected EOF", "blk"},
		{"invalid syntax in float value: ", "syn-float"},
		{"invalid syntax in hexadecimal integer value: ", "syn-hex"},
		{"invalid syntax in octal integer value: ", "syn-octal"},
		{"invalid syntax in integer value: ", "syn-integer"},
		{"value out of range for float: ", "rng-float"},
		{"value out of range for hexadecimal integer: ", "rng-hex"},
		{"value out of range for octal integer: ", "rng-octal"},
		{"value out of range for integer: ", "rng-integer"},
		{"compact option must have a value", "novalue"},
		{"compact options must have at least one option", "noopts"},
		{"syntax error", "syntax"},
	} {
		if strings.HasPrefix(msg, x.p) {
			return x.c
		}
	}
	return "other"
}

// lexCollector is a reporter that records every error; lenient: keep going.
type lexCollector struct {
	lenient bool
	errs    []lexErr
	warns   int
}

func (c *lexCollector) handler() *reporter.Handler {
	return reporter.NewHandler(reporter.NewReporter(func(e reporter.ErrorWithPos) error {
		p := e.GetPosition()
		c.errs = append(c.errs, lexErr{lexErrClass(e.Unwrap().Error()), p.Offset, p.Line, p.Col})
		if c.lenient {
			return nil
		}
		return e
	}, func(reporter.ErrorWithPos) { c.warns++ }))
}

func lexJoinOr(xs []string, sep string) string {
	if len(xs) == 0 {
		return "-"
	}
	return strings.Join(xs, sep)
}

func lexFmtTok(t parser.VerifTok) string {
	switch t.Kind {
	case "e":
		return "e"
	case "n", "k":
		return fmt.Sprintf("%s@%d", t.Kind, t.Item)
	case "i":
		return fmt.Sprintf("i@%d:%d", t.Item, t.Int)
	case "f":
		return fmt.Sprintf("f@%d:%016x", t.Item, math.Float64bits(t.Float))
	case "s":
		return fmt.Sprintf("s@%d:%s", t.Item, Hex([]byte(t.Str)))
	case "r":
		return fmt.Sprintf("r@%d:%d", t.Item, t.Rune)
	}
	return "?"
}

func lexFmtErrs(errs []lexErr) string {
	var xs []string
	for _, e := range errs {
		xs = append(xs, fmt.Sprintf("%s@%d:%d:%d", e.cls, e.off, e.line, e.col))
	}
	return lexJoinOr(xs, ",")
}

func lexFmtPairs(ps [][2]int, sep string) string {
	var xs []string
	for _, p := range ps {
		xs = append(xs, fmt.Sprintf("%d%s%d", p[0], sep, p[1]))
	}
	return lexJoinOr(xs, ",")
}

func lexFmtInts(ns []int) string {
	var xs []string
	for _, n := range ns {
		xs = append(xs, strconv.Itoa(n))
	}
	return lexJoinOr(xs, ",")
}

func lexCatchPanic(ans *string) {
	if r := recover(); r != nil {
		*ans = "PANIC " + Canon(fmt.Sprint(r))
	}
}

func lexMode(w string) (lenient, ok bool) {
	switch w {
	case "l":
		return true, true
	case "s":
		return false, true
	}
	return false, false
}

// ---------------------------------------------------------------- engine "lex" (C11)

type lexEngine struct{}

func init() { Register("lex", func() Engine { return lexEngine{} }) }

func (lexEngine) Name() string { return "lex" }
func (lexEngine) Reset()       {}

func lexAnswer(data []byte, lenient bool) (ans string) {
	defer lexCatchPanic(&ans)
	c := &lexCollector{lenient: lenient}
	res := parser.VerifLex(data, c.handler())
	var toks []string
	for _, t := range res.Toks {
		toks = append(toks, lexFmtTok(t))
	}
	x := "noeof"
	if res.EOF >= 0 {
		x = fmt.Sprintf("eof%d", res.EOF)
	}
	return fmt.Sprintf("T=%s I=%s C=%s L=%s E=%s X=%s N=%d", lexJoinOr(toks, ";"),
		lexFmtPairs(res.Info.VerifItems(), "+"), lexFmtPairs(res.Info.VerifComments(), ">"),
		lexFmtInts(res.Info.VerifLines()), lexFmtErrs(c.errs), x, res.Pos)
}

// lexAstAnswer parses with the real parser (default reporter) and prints the AST the way the
// repository's round-trip test does, also recording which items the walk visits.
func lexAstAnswer(data []byte) (ans string) {
	defer lexCatchPanic(&ans)
	root, err := parser.Parse("f", bytes.NewReader(data), reporter.NewHandler(nil))
	if err != nil {
		return "rejected"
	}
	fi := root.VerifFileInfo()
	var out []byte
	var visit []string
	var vals []string
	itemOf := func(c ast.Comment) int { return int(c.AsItem()) }
	printComments := func(cs ast.Comments) {
		for i := 0; i < cs.Len(); i++ {
			c := cs.Index(i)
			out = append(out, c.LeadingWhitespace()...)
			out = append(out, c.RawText()...)
			visit = append(visit, strconv.Itoa(itemOf(c)))
		}
	}
	_ = ast.Walk(root, &ast.SimpleVisitor{
		DoVisitTerminalNode: func(tn ast.TerminalNode) error {
			info := root.NodeInfo(tn)
			printComments(info.LeadingComments())
			out = append(out, info.LeadingWhitespace()...)
			out = append(out, info.RawText()...)
			visit = append(visit, strconv.Itoa(int(tn.Token())))
			printComments(info.TrailingComments())
			switch n := tn.(type) {
			case *ast.StringLiteralNode:
				vals = append(vals, "s:"+Hex([]byte(n.Val)))
			case *ast.UintLiteralNode:
				vals = append(vals, fmt.Sprintf("i:%d", n.Val))
			case *ast.FloatLiteralNode:
				vals = append(vals, fmt.Sprintf("f:%016x", math.Float64bits(n.Val)))
			case *ast.RuneNode:
				vals = append(vals, fmt.Sprintf("r:%d", n.Rune))
			default:
				vals = append(vals, "id")
			}
			return nil
		},
	})
	_ = fi
	return fmt.Sprintf("V=%s P=%s K=%s", lexJoinOr(visit, ","), Hex(out), lexJoinOr(vals, ";"))
}

func (lexEngine) Exec(op string) string {
	w := strings.Fields(op)
	switch {
	case len(w) == 3 && w[0] == "lex":
		lenient, ok := lexMode(w[1])
		if !ok {
			return "bad-op"
		}
		return lexAnswer(UnHex(w[2]), lenient)
	case len(w) == 2 && w[0] == "ast":
		return lexAstAnswer(UnHex(w[1]))
	}
	return "bad-op"
}

func (lexEngine) Trivial(op, ans string) bool { return strings.HasSuffix(op, " -") }

func (lexEngine) Class(op, ans string) string {
	w := strings.Fields(op)
	c := w[0]
	if strings.HasPrefix(ans, "PANIC") {
		return c + ":panic"
	}
	if c == "lex" {
		if strings.Contains(ans, " E=- ") {
			return c + ":clean"
		}
		return c + ":errors"
	}
	return c
}

func lexAccepted(data []byte) bool {
	ok := false
	func() {
		defer func() { _ = recover() }()
		_, err := parser.Parse("f", bytes.NewReader(data), reporter.NewHandler(nil))
		ok = err == nil
	}()
	return ok
}

func (lexEngine) Gen(r *Rand, tier string) [][]string {
	g := lexNewSrcGen(r)
	var ops []string
	add := func(o string) { ops = append(ops, o) }
	// exhaustive: every byte string of length <= 1, and every 2-byte string over a boundary alphabet
	add("lex l -")
	add("lex s -")
	for a := 0; a < 256; a++ {
		add("lex l " + Hex([]byte{byte(a)}))
		add("lex l " + Hex([]byte{'/', '/', byte(a)}))
		add("lex l " + Hex([]byte{'"', byte(a), '"'}))
		add("lex s " + Hex([]byte{'a', byte(a), 'b'}))
	}
	alpha := lexAlphabet
	n := 3
	if tier == "thorough" {
		n = 4
	}
	var rec func(prefix []byte, d int)
	rec = func(prefix []byte, d int) {
		if d == 0 {
			return
		}
		for _, c := range alpha {
			p := append(append([]byte{}, prefix...), c)
			add("lex l " + Hex(p))
			rec(p, d-1)
		}
	}
	rec(nil, n)
	// directed comment-attribution shapes
	for _, s := range lexCommentShapes() {
		add("lex l " + Hex([]byte(s)))
		add("lex s " + Hex([]byte(s)))
		if lexAccepted([]byte(s)) {
			add("ast " + Hex([]byte(s)))
		}
	}
	// directed: compound identifiers assembled from separately collected tokens
	for _, s := range lexQualifiedNameShapes() {
		if lexAccepted([]byte(s)) {
			add("ast " + Hex([]byte(s)))
		} else {
			add("lex l " + Hex([]byte(s)))
		}
	}
	cnt := 700
	if tier == "thorough" {
		cnt = 40000
	}
	for i := 0; i < cnt; i++ {
		src := g.file()
		if lexAccepted(src) {
			add("ast " + Hex(src))
			add("lex s " + Hex(src))
		} else {
			add("lex l " + Hex(src))
		}
		if i%2 == 0 {
			m := g.mutate(src)
			mode := "l"
			if r.Chance(1, 3) {
				mode = "s"
			}
			add("lex " + mode + " " + Hex(m))
			if lexAccepted(m) {
				add("ast " + Hex(m))
			}
		}
		if i%4 == 0 {
			add("lex l " + Hex(g.soup(1+r.Intn(40))))
		}
	}
	return lexSingleOpCases(ops)
}

func lexSingleOpCases(ops []string) [][]string {
	cases := make([][]string, 0, len(ops))
	for _, o := range ops {
		cases = append(cases, []string{o})
	}
	return cases
}

// lexAlphabet: one or two representatives of every character class the lexer distinguishes.
var lexAlphabet = []byte{'a', '_', '0', '1', '8', 'e', 'x', '.', '-', '+', '"', '\'', '\\', '/', '*',
	'\n', ' ', '\t', ';', '=', '$', 0, 0x7f, 0xc3, 0xa9, 0xff}

func lexCommentShapes() []string {
	return []string{
		"a // t\nb", "a /* t */\nb", "a /* t */ b", "a /* t\n */ b", "a /* t\n */\n b", "a // t\n// l\nb",
		"a /* t */ /* u */ b", "a /* t */ // u\nb", "a\n// l\nb", "a\n/* l */ b", "// only", "/* only */",
		"a // t", "a /* t */", "a /* t */ /* u */", "a\n// l", "a;\n\n// detached\n\n// lead\nb;", "// first\na",
		"a /* x */ $ /* d */ \n y", "a /* x */ $ y", "a /*\n\n*/ b", "a //\n//\n//\nb", "/**/", "/***/", "/*/", "/*/*/",
		"syntax = \"proto3\"; // t\nmessage M { /* in */ } // end\n", "\xef\xbb\xbfsyntax = \"proto2\";\n", "\xef\xbb\xbf", "\xef\xbb",
		"a /* t */\n\n\n b", "a // t\r\nb", "a /* \r */ b",
	}
}

// ---------------------------------------------------------------- source generator

type lexSrcGen struct{ r *Rand }

func lexNewSrcGen(r *Rand) *lexSrcGen { return &lexSrcGen{r} }

func (g *lexSrcGen) ws() string {
	r := g.r
	switch r.Intn(12) {
	case 0:
		return "\n"
	case 1:
		return "\t"
	case 2:
		return "\r\n"
	case 3:
		return "\f"
	case 4:
		return "\v"
	case 5:
		return "  "
	case 6:
		return "\n\n"
	case 7:
		return " \t "
	case 8:
		return " // c" + Pick(r, []string{"", " é", "\t", " *", "/"}) + "\n"
	case 9:
		return " /* b" + Pick(r, []string{"", "\n", " * ", "é", "\n\n", "**"}) + " */" + Pick(r, []string{"", " ", "\n"})
	case 10:
		return " /**/ "
	}
	return " "
}

func (g *lexSrcGen) sep() string {
	if g.r.Chance(1, 3) {
		return ""
	}
	return g.ws()
}

func (g *lexSrcGen) strLit() string {
	r := g.r
	q := Pick(r, []string{"\"", "'"})
	var b strings.Builder
	b.WriteString(q)
	for i, n := 0, r.Intn(6); i < n; i++ {
		b.WriteString(Pick(r, []string{"a", "Z", " ", "é", "€", "😀", "\\n", "\\t", "\\\\", "\\\"", "\\'", "\\?", "\\a",
			"\\0", "\\12", "\\377", "\\x41", "\\xf", "\\X7a", "\\u00e9", "\\U0001F600", "\\u0041", "/*", "//", "\t"}))
	}
	b.WriteString(q)
	return b.String()
}

func (g *lexSrcGen) numLit() string {
	return Pick(g.r, []string{"0", "1", "42", "0x1F", "0XaB", "017", "1.5", ".5", "1e10", "1E-3", "2.5e+7", "0.0",
		"18446744073709551615", "18446744073709551616", "1e400", "00", "1.", "0e0", "9999999999999999999999"})
}

func (g *lexSrcGen) ident() string {
	return Pick(g.r, []string{"a", "Foo", "_b1", "x_y", "message1", "int32x", "É"[:0] + "q"})
}

// file returns a mostly well-formed proto source with arbitrary trivia between tokens.
func (g *lexSrcGen) file() []byte {
	r := g.r
	var toks []string
	t := func(xs ...string) { toks = append(toks, xs...) }
	if r.Chance(2, 3) {
		t("syntax", "=", Pick(r, []string{"\"proto2\"", "\"proto3\"", "'proto3'"}), ";")
	}
	if r.Chance(1, 3) {
		t("package", "p", ".", "q", ";")
	}
	if r.Chance(1, 3) {
		t("import", g.strLit(), ";")
	}
	for i, n := 0, r.Intn(4); i < n; i++ {
		switch r.Intn(5) {
		case 0:
			t("option", g.ident(), "=", Pick(r, []string{g.strLit(), g.numLit(), "true", "-" + g.numLit(), "inf", "-nan"}), ";")
		case 1:
			t("message", g.ident(), "{")
			for j, m := 0, r.Intn(3); j < m; j++ {
				t(Pick(r, []string{"optional", "repeated", "required"}), Pick(r, []string{"int32", "string", "bytes", "Foo", ".p.Q"}),
					g.ident(), "=", strconv.Itoa(1+r.Intn(100)))
				if r.Chance(1, 2) {
					t("[", "default", "=", Pick(r, []string{g.strLit(), g.numLit()}), "]")
				}
				t(";")
			}
			t("}")
		case 2:
			t("enum", g.ident(), "{", g.ident(), "=", "0", ";", "}")
		case 3:
			t("option", "(", "a", ".", "b", ")", ".", "c", "=", "{", "x", ":", g.numLit(), "y", ":", g.strLit(), "}", ";")
		case 4:
			t(";")
		}
	}
	var b strings.Builder
	if r.Chance(1, 10) {
		b.WriteString("\xef\xbb\xbf")
	}
	b.WriteString(g.sep())
	for _, x := range toks {
		b.WriteString(x)
		w := g.sep()
		if w == "" && lexNeedSpace(x) {
			w = " "
		}
		b.WriteString(w)
	}
	return []byte(b.String())
}

func lexNeedSpace(tok string) bool {
	c := tok[len(tok)-1]
	return c == '_' || c == '.' || (c >= '0' && c <= '9') || (c >= 'a' && c <= 'z') || (c >= 'A' && c <= 'Z') || c == '-' || c == '+'
}

var lexSoupPieces = []string{"a", "B", "_", "0", "9", "08", "0x", "0xg", "1e", "1e+", ".", "..", ".5", "-", "+", ";", "=", "{", "}", "(", "[", "<",
	"\"", "'", "\\", "\\x", "\\u", "\\U", "\\0", "\\8", "\\400", "/", "//", "/*", "*/", "*", "\n", "\r", "\t", "\f", "\v", " ",
	"\x00", "\x01", "\x7f", "$", "@", "é", "€", "😀", "\xc3", "\xa9", "\xff", "\xe2\x82", "\xed\xa0\x80", "\xef\xbb\xbf", "\xc0\x80",
	"syntax", "message", "\"abc\"", "'x'", "1.5", "inf", "+4", "1f", "1_0", "e5"}

// soup returns n random lexer-relevant pieces glued together.
func (g *lexSrcGen) soup(n int) []byte {
	var b []byte
	for i := 0; i < n; i++ {
		b = append(b, Pick(g.r, lexSoupPieces)...)
	}
	return b
}

// mutate applies 1-3 small edits (delete / insert piece / replace byte / truncate).
func (g *lexSrcGen) mutate(src []byte) []byte {
	r := g.r
	b := append([]byte{}, src...)
	for k, n := 0, 1+r.Intn(3); k < n; k++ {
		if len(b) == 0 {
			b = append(b, Pick(r, lexSoupPieces)...)
			continue
		}
		i := r.Intn(len(b))
		switch r.Intn(5) {
		case 0:
			b = append(b[:i], b[i+1:]...)
		case 1:
			p := Pick(r, lexSoupPieces)
			b = append(b[:i], append([]byte(p), b[i:]...)...)
		case 2:
			b[i] = Pick(r, lexAlphabet)
		case 3:
			b = b[:i]
		case 4:
			j := i + r.Intn(len(b)-i)
			b = append(b[:i], b[j:]...)
		}
	}
	return b
}

// ---------------------------------------------------------------- engine "lexpos" (C13)

type lexposEngine struct{}

func init() { Register("lexpos", func() Engine { return lexposEngine{} }) }

func (lexposEngine) Name() string { return "lexpos" }
func (lexposEngine) Reset()       {}

func lexPosAnswer(data []byte, lenient bool) (ans string) {
	defer lexCatchPanic(&ans)
	c := &lexCollector{lenient: lenient}
	res := parser.VerifLex(data, c.handler())
	fi := res.Info
	var ps []string
	for o := 0; o <= res.Pos; o++ {
		p := fi.SourcePos(o)
		ps = append(ps, fmt.Sprintf("%d:%d", p.Line, p.Col))
	}
	var ss []string
	for i := range fi.VerifItems() {
		ii := fi.ItemInfo(ast.Item(i))
		if ii == nil {
			ss = append(ss, "nil")
			continue
		}
		s, e := ii.Start(), ii.End()
		ss = append(ss, fmt.Sprintf("%d:%d:%d-%d:%d:%d", s.Offset, s.Line, s.Col, e.Offset, e.Line, e.Col))
	}
	return fmt.Sprintf("P=%s S=%s E=%s", lexJoinOr(ps, ","), lexJoinOr(ss, ","), lexFmtErrs(c.errs))
}

func (lexposEngine) Exec(op string) string {
	w := strings.Fields(op)
	if len(w) == 3 && (w[0] == "pos" || w[0] == "cpos") {
		lenient, ok := lexMode(w[1])
		if !ok {
			return "bad-op"
		}
		if w[0] == "cpos" {
			return lexConcurrentPosAnswer(UnHex(w[2]), lenient)
		}
		return lexPosAnswer(UnHex(w[2]), lenient)
	}
	return "bad-op"
}

// lexConcurrentPosAnswer parses the file once with the real parser, records SourcePos of every
// offset and Start/End of every item sequentially, then asks the same questions from 8 goroutines
// at once (several rounds, each goroutine walking the questions in a different order) and reports
// the first answer that differs from the sequential one. One FileInfo is shared between goroutines
// by the compiler (source info generation vs diagnostics), so the answers must not depend on who
// else is asking.
func lexConcurrentPosAnswer(data []byte, lenient bool) (ans string) {
	defer lexCatchPanic(&ans)
	c := &lexCollector{lenient: lenient}
	root, _ := parser.Parse("f.proto", bytes.NewReader(data), c.handler())
	if root == nil {
		return "nil-ast"
	}
	fi := root.VerifFileInfo()
	n := len(fi.VerifData())
	nItems := len(fi.VerifItems())
	type q struct {
		kind int // 0 = SourcePos(offset), 1 = item start, 2 = item end
		arg  int
	}
	var qs []q
	for o := 0; o <= n; o++ {
		qs = append(qs, q{0, o})
	}
	for i := 0; i < nItems; i++ {
		if fi.ItemInfo(ast.Item(i)) != nil {
			qs = append(qs, q{1, i}, q{2, i})
		}
	}
	ask := func(x q) [2]int {
		var p ast.SourcePos
		switch x.kind {
		case 0:
			p = fi.SourcePos(x.arg)
		case 1:
			p = fi.ItemInfo(ast.Item(x.arg)).Start()
		default:
			p = fi.ItemInfo(ast.Item(x.arg)).End()
		}
		return [2]int{p.Line, p.Col}
	}
	want := make([][2]int, len(qs))
	for i, x := range qs {
		want[i] = ask(x)
	}
	// a second sequential pass in reverse order must agree as well
	for i := len(qs) - 1; i >= 0; i-- {
		if got := ask(qs[i]); got != want[i] {
			return fmt.Sprintf("differ sequential kind=%d arg=%d got=%d:%d want=%d:%d", qs[i].kind, qs[i].arg, got[0], got[1], want[i][0], want[i][1])
		}
	}
	const workers = 8
	rounds := 6
	if len(qs) > 1500 {
		rounds = 3
	}
	diffs := make([]string, workers)
	for round := 0; round < rounds; round++ {
		var wg sync.WaitGroup
		start := make(chan struct{})
		for g := 0; g < workers; g++ {
			wg.Add(1)
			go func(g int) {
				defer wg.Done()
				defer func() {
					if r := recover(); r != nil && diffs[g] == "" {
						diffs[g] = "panic " + Canon(fmt.Sprint(r))
					}
				}()
				<-start
				m := len(qs)
				for k := 0; k < m; k++ {
					var i int
					switch g % 4 {
					case 0:
						i = k // forward
					case 1:
						i = m - 1 - k // backward
					case 2:
						i = (k*7 + g + round) % m // stride (7 is coprime to most lengths; duplicates are harmless)
					default:
						i = (k/2 + (k%2)*(m/2) + g) % m // two interleaved halves
					}
					if got := ask(qs[i]); got != want[i] && diffs[g] == "" {
						diffs[g] = fmt.Sprintf("kind=%d arg=%d got=%d:%d want=%d:%d", qs[i].kind, qs[i].arg, got[0], got[1], want[i][0], want[i][1])
					}
				}
			}(g)
		}
		close(start)
		wg.Wait()
		for g := 0; g < workers; g++ {
			if diffs[g] != "" {
				return "differ " + diffs[g]
			}
		}
	}
	return "same"
}

func (lexposEngine) Trivial(op, ans string) bool { return strings.HasSuffix(op, " -") }

func (lexposEngine) Class(op, ans string) string {
	if strings.HasPrefix(op, "cpos") {
		return "cpos:" + strings.Fields(ans + " -")[0]
	}
	if strings.HasPrefix(ans, "PANIC") {
		return "pos:panic"
	}
	if strings.HasSuffix(ans, " E=-") {
		return "pos:clean"
	}
	return "pos:errors"
}

var lexPosPieces = []string{"a", "bc", "\t", "\t\t", " ", "\n", "\r\n", "\n\n", "é", "€", "😀", "=", ";", "\"s\"", "\"é\t\"", "'\\t'",
	"// c\t é\n", "/* x\n\ty */", "/*\n*/", "1.5", "\r", "\f", "\v", "        ", "1234567", "\"\n", "$", "\xff", "\xc3", "\x80", "\\"}

func (lexposEngine) Gen(r *Rand, tier string) [][]string {
	g := lexNewSrcGen(r)
	var ops []string
	add := func(mode string, b []byte) { ops = append(ops, "pos "+mode+" "+Hex(b)) }
	add("l", nil)
	add("s", nil)
	// exhaustive over a position-relevant alphabet
	alpha := []byte{'a', '\t', '\n', '\r', ' ', 0xc3, 0xa9, '"', '/', '*', '$'}
	n := 4
	if tier == "thorough" {
		n = 5
	}
	var rec func(prefix []byte, d int)
	rec = func(prefix []byte, d int) {
		if d == 0 {
			return
		}
		for _, c := range alpha {
			p := append(append([]byte{}, prefix...), c)
			add("l", p)
			rec(p, d-1)
		}
	}
	rec(nil, n)
	// tab stops: k columns then a tab, for every k in 0..17, with ASCII and multi-byte filler
	for k := 0; k <= 17; k++ {
		add("l", []byte(strings.Repeat("a", k)+"\tb\t\tc"))
		add("l", []byte(strings.Repeat("é", k)+"\tb"))
		add("l", []byte("x\n"+strings.Repeat(" ", k)+"\t\"s\"\t;"))
	}
	for _, s := range lexCommentShapes() {
		add("l", []byte(s))
		add("s", []byte(s))
	}
	for i, s := range lexEscapeNewlineShapes() {
		add("l", []byte(s))
		if i%4 == 0 {
			add("s", []byte(s))
		}
	}
	// concurrent queries against one shared FileInfo: long lines, tabs, multi-byte characters, CRLF
	for _, t := range lexConcurrentTexts(g, r, tier) {
		ops = append(ops, "cpos l "+Hex(t))
	}
	cnt := 600
	if tier == "thorough" {
		cnt = 30000
	}
	for i := 0; i < cnt; i++ {
		var b []byte
		switch i % 3 {
		case 0:
			b = g.file()
		case 1:
			for j, m := 0, 1+r.Intn(14); j < m; j++ {
				b = append(b, Pick(r, lexPosPieces)...)
			}
		case 2:
			b = g.mutate(g.file())
		}
		mode := "l"
		if r.Chance(1, 4) {
			mode = "s"
		}
		add(mode, b)
	}
	return lexSingleOpCases(ops)
}

// lexConcurrentTexts: texts for the cpos op.
func lexConcurrentTexts(g *lexSrcGen, r *Rand, tier string) [][]byte {
	var out [][]byte
	line := func(n int, piece string) string { return strings.Repeat(piece, n) }
	for _, s := range []string{
		"message M { optional int32 a = 1; }\n",
		"option x = \"" + line(300, "ab") + "\";\n",
		"option x = \"" + line(150, "é€") + "\";\t// c\n",
		line(40, "a\tbc\t") + "\n" + line(40, "\té\t;") + "\r\n" + line(30, "x = 1; "),
		"/* " + line(200, "€ ") + "*/ message M {}\r\n" + line(100, "\t") + "enum E { A = 0; }",
		line(500, "; ") + "\n" + line(500, ";\t"),
		"syntax = \"proto3\";\r\n\r\nmessage Mé { string " + line(120, "x") + " = 1; } // " + line(100, "é") + "\r\n",
		line(60, "a = \"\\t\\u00e9😀\"; ") + "\n$ " + line(80, "b "),
		"// " + line(400, "\t") + "\nmessage M {\n" + line(20, "\toptional string f = 1 [default = \"é\té\"];\n") + "}\n",
		line(800, "x") + " " + line(800, "y"),
	} {
		out = append(out, []byte(s))
	}
	n := 24
	if tier == "thorough" {
		n = 200
	}
	for i := 0; i < n; i++ {
		var b []byte
		for len(b) < 300+r.Intn(900) {
			b = append(b, g.file()...)
			if r.Chance(1, 2) {
				b = append(b, Pick(r, []string{" ", "\t", "\t\t", " é ", " /* € */ ", "\r\n", "\n"})...)
			}
		}
		out = append(out, b)
	}
	return out
}

// ---------------------------------------------------------------- engine "literal" (C14)

type lexLiteralEngine struct{}

func init() { Register("literal", func() Engine { return lexLiteralEngine{} }) }

func (lexLiteralEngine) Name() string { return "literal" }
func (lexLiteralEngine) Reset()       {}

// lexLitAnswer lexes src alone (lenient reporter) and reports the token stream values and errors.
func lexLitAnswer(src []byte) (ans string) {
	defer lexCatchPanic(&ans)
	c := &lexCollector{lenient: true}
	res := parser.VerifLex(src, c.handler())
	var toks []string
	for _, t := range res.Toks {
		toks = append(toks, lexFmtTok(t))
	}
	var es []string
	for _, e := range c.errs {
		es = append(es, e.cls)
	}
	return fmt.Sprintf("T=%s E=%s", lexJoinOr(toks, ";"), lexJoinOr(es, ","))
}

// lexLitShape lexes "option x = <lit>;" and says whether the lexer sees exactly
// [option x = LITERAL ;] without errors ("lit"), reports an error ("err"), or something else.
func lexLitShape(file []byte) (shape string, lit parser.VerifTok) {
	c := &lexCollector{lenient: true}
	res := parser.VerifLex(file, c.handler())
	if len(c.errs) > 0 {
		return "err", lit
	}
	if len(res.Toks) != 5 {
		return "other", lit
	}
	l := res.Toks[3]
	if l.Kind != "s" && l.Kind != "i" && l.Kind != "f" {
		return "other", lit
	}
	return "lit", l
}

// lexOptAnswer: the literal as the value of a file option, through parser.Parse and ResultFromAST.
func lexOptAnswer(lit []byte) (ans string) {
	defer lexCatchPanic(&ans)
	file := append(append([]byte("option x = "), lit...), ';')
	shape, _ := lexLitShape(file)
	if shape == "other" {
		return "unmodelled"
	}
	h := reporter.NewHandler(nil)
	root, err := parser.Parse("f.proto", bytes.NewReader(file), h)
	if err != nil {
		if shape == "err" {
			return "rejected"
		}
		return "rejected-without-lexer-error"
	}
	if shape == "err" {
		return "accepted-despite-lexer-error"
	}
	res, err := parser.ResultFromAST(root, true, h)
	if err != nil {
		return "result-error"
	}
	opts := res.FileDescriptorProto().GetOptions().GetUninterpretedOption()
	if len(opts) != 1 {
		return "no-option"
	}
	o := opts[0]
	switch {
	case o.StringValue != nil:
		return "s:" + Hex(o.StringValue)
	case o.PositiveIntValue != nil:
		return fmt.Sprintf("i:%d", o.GetPositiveIntValue())
	case o.DoubleValue != nil:
		return fmt.Sprintf("f:%016x", math.Float64bits(o.GetDoubleValue()))
	}
	return "other-value"
}

// lexDfltAnswer: the literal as a field default, through the whole compiler.
func lexDfltAnswer(lit []byte) (ans string) {
	defer lexCatchPanic(&ans)
	shape, tok := lexLitShape(append(append([]byte("option x = "), lit...), ';'))
	if shape == "other" || (shape == "lit" && tok.Kind == "f") {
		return "unmodelled"
	}
	typ := "bytes"
	if shape == "lit" && tok.Kind == "i" {
		typ = "uint64"
	}
	src := "syntax = \"proto2\";\nmessage M { optional " + typ + " f = 1 [default = " + string(lit) + "]; }\n"
	comp := protocompile.Compiler{
		Resolver: &protocompile.SourceResolver{Accessor: protocompile.SourceAccessorFromMap(map[string]string{"f.proto": src})},
	}
	files, err := comp.Compile(context.Background(), "f.proto")
	if err != nil {
		if shape == "err" {
			return "rejected"
		}
		return "rejected-without-lexer-error"
	}
	if shape == "err" {
		return "accepted-despite-lexer-error"
	}
	res, ok := files[0].(linker.Result)
	if !ok {
		return "no-result"
	}
	dv := res.FileDescriptorProto().GetMessageType()[0].GetField()[0].GetDefaultValue()
	return "d:" + Hex([]byte(dv))
}

// lexSignedShape lexes "option x = <lit>;" where <lit> may be a numeric literal with a leading
// `-` (and trivia after it): "lit" = exactly [option x = (-)? NUMBER ;] without errors.
func lexSignedShape(lit []byte) string {
	c := &lexCollector{lenient: true}
	res := parser.VerifLex(append(append([]byte("option x = "), lit...), ';'), c.handler())
	if len(c.errs) > 0 {
		return "err"
	}
	t := res.Toks
	if len(t) == 6 && t[3].Kind == "r" && t[3].Rune == '-' {
		t = append(append([]parser.VerifTok{}, t[:3]...), t[4:]...)
	}
	if len(t) != 5 || (t[3].Kind != "i" && t[3].Kind != "f") || t[2].Kind != "r" || t[2].Rune != '=' || t[4].Kind != "r" || t[4].Rune != ';' {
		return "other"
	}
	return "lit"
}

func lexCompile(src string) (linker.Files, error) {
	comp := protocompile.Compiler{
		Resolver: protocompile.WithStandardImports(&protocompile.SourceResolver{
			Accessor: protocompile.SourceAccessorFromMap(map[string]string{"f.proto": src})}),
	}
	return comp.Compile(context.Background(), "f.proto")
}

// lexSignedAnswer: a (possibly negated) numeric literal through the parser / compiler in the
// context ctx: opt | dflt:<type> | copt:<type> | mlit:<type> | enum | tag | res | eres.
func lexSignedAnswer(ctx string, lit []byte) (ans string) {
	defer lexCatchPanic(&ans)
	if lexSignedShape(lit) == "other" {
		return "unmodelled"
	}
	L := string(lit)
	kind, typ, _ := strings.Cut(ctx, ":")
	switch kind {
	case "opt":
		h := reporter.NewHandler(nil)
		root, err := parser.Parse("f.proto", bytes.NewReader([]byte("option x = "+L+";")), h)
		if err != nil {
			return "rej"
		}
		res, err := parser.ResultFromAST(root, true, h)
		if err != nil {
			return "rej"
		}
		opts := res.FileDescriptorProto().GetOptions().GetUninterpretedOption()
		if len(opts) != 1 {
			return "no-option"
		}
		o := opts[0]
		switch {
		case o.PositiveIntValue != nil:
			return fmt.Sprintf("p:%d", o.GetPositiveIntValue())
		case o.NegativeIntValue != nil:
			return fmt.Sprintf("n:%d", o.GetNegativeIntValue())
		case o.DoubleValue != nil:
			return fmt.Sprintf("d:%016x", math.Float64bits(o.GetDoubleValue()))
		}
		return "other-value"
	case "dflt":
		files, err := lexCompile("syntax = \"proto2\";\nmessage M { optional " + typ + " f = 1 [default = " + L + "]; }\n")
		if err != nil {
			return "rej"
		}
		if typ == "float" || typ == "double" {
			return "acc"
		}
		return "acc:" + files[0].(linker.Result).FileDescriptorProto().GetMessageType()[0].GetField()[0].GetDefaultValue()
	case "copt":
		_, err := lexCompile("syntax = \"proto2\";\nimport \"google/protobuf/descriptor.proto\";\n" +
			"extend google.protobuf.FileOptions { optional " + typ + " o = 50000; }\noption (o) = " + L + ";\n")
		if err != nil {
			return "rej"
		}
		return "acc"
	case "mlit":
		_, err := lexCompile("syntax = \"proto2\";\nimport \"google/protobuf/descriptor.proto\";\nmessage T { optional " + typ + " v = 1; }\n" +
			"extend google.protobuf.FileOptions { optional T o = 50000; }\noption (o) = { v: " + L + " };\n")
		if err != nil {
			return "rej"
		}
		return "acc"
	case "enum":
		files, err := lexCompile("syntax = \"proto2\";\nenum E { A = " + L + "; }\n")
		if err != nil {
			return "rej"
		}
		return fmt.Sprintf("acc:%d", files[0].(linker.Result).FileDescriptorProto().GetEnumType()[0].GetValue()[0].GetNumber())
	case "tag":
		_, err := lexCompile("syntax = \"proto2\";\nmessage M { optional int32 f = " + L + "; }\n")
		if err != nil {
			return "rej"
		}
		return "acc"
	case "res":
		_, err := lexCompile("syntax = \"proto2\";\nmessage M { reserved " + L + " to max; }\n")
		if err != nil {
			return "rej"
		}
		return "acc"
	case "eres":
		_, err := lexCompile("syntax = \"proto2\";\nenum E { reserved " + L + "; A = 12345; }\n")
		if err != nil {
			return "rej"
		}
		return "acc"
	}
	return "bad-op"
}

func (lexLiteralEngine) Exec(op string) string {
	w := strings.Fields(op)
	if len(w) == 3 && w[0] == "snum" {
		return lexSignedAnswer(w[1], UnHex(w[2]))
	}
	if len(w) != 2 {
		return "bad-op"
	}
	b := UnHex(w[1])
	switch w[0] {
	case "lit":
		return lexLitAnswer(b)
	case "opt":
		return lexOptAnswer(b)
	case "dflt":
		return lexDfltAnswer(b)
	}
	return "bad-op"
}

func (lexLiteralEngine) Trivial(op, ans string) bool { return strings.HasSuffix(op, " -") }

func (lexLiteralEngine) Class(op, ans string) string {
	w := strings.Fields(op)
	if w[0] == "snum" {
		k, _, _ := strings.Cut(w[1], ":")
		a, _, _ := strings.Cut(ans, ":")
		return "snum:" + k + ":" + a
	}
	k := "num"
	if b := UnHex(w[1]); len(b) > 0 && (b[0] == '"' || b[0] == '\'') {
		k = "str"
	}
	switch {
	case strings.HasPrefix(ans, "PANIC"):
		return w[0] + ":" + k + ":panic"
	case strings.Contains(ans, "E=-") || strings.HasPrefix(ans, "s:") || strings.HasPrefix(ans, "i:") || strings.HasPrefix(ans, "f:") || strings.HasPrefix(ans, "d:"):
		return w[0] + ":" + k + ":accepted"
	}
	return w[0] + ":" + k + ":other"
}

var lexEscAlphabet = []string{"\\", "x", "X", "u", "U", "0", "1", "3", "4", "7", "8", "9", "a", "f", "F", "g", "n", "\"", "'", "?", "+", "-", "_", " ",
	"\n", "\x00", "é", "\xff", "\x80", "z"}

var lexNumAlphabet = []byte("0179afxXeE.+-_")

func (lexLiteralEngine) Gen(r *Rand, tier string) [][]string {
	var ops []string
	seen := map[string]bool{}
	add := func(k string, b []byte) {
		o := k + " " + Hex(b)
		if !seen[o] {
			seen[o] = true
			ops = append(ops, o)
		}
	}
	all := func(b []byte) {
		add("lit", b)
		add("opt", b)
	}
	// strings: every escape body of <= n symbols after a backslash, in both quote styles
	n := 3
	if tier == "thorough" {
		n = 4
	}
	var rec func(prefix string, d int)
	rec = func(prefix string, d int) {
		if d == 0 {
			return
		}
		for _, c := range lexEscAlphabet {
			p := prefix + c
			all([]byte("\"\\" + p + "\""))
			if d == n {
				all([]byte("'\\" + p + "'"))
				add("lit", []byte("\"\\"+p))
			}
			rec(p, d-1)
		}
	}
	rec("", n)
	// every single raw byte inside a string, and every byte after a backslash
	for a := 0; a < 256; a++ {
		all([]byte{'"', byte(a), '"'})
		all([]byte{'"', '\\', byte(a), '"'})
		all([]byte{'\'', '\\', 'x', byte(a), '\''})
		add("dflt", []byte{'"', byte(a), '"'})
	}
	// all 3-digit octal escapes, all 2-digit hex escapes
	for a := 0; a < 512; a++ {
		all([]byte(fmt.Sprintf("\"\\%o\"", a)))
		all([]byte(fmt.Sprintf("\"\\%03o7\"", a)))
	}
	for a := 0; a < 256; a++ {
		all([]byte(fmt.Sprintf("\"\\x%x\"", a)))
		all([]byte(fmt.Sprintf("\"\\X%02Xg\"", a)))
	}
	// unicode escapes at the interesting code points
	for _, cp := range []uint32{0, 1, 0x41, 0x7f, 0x80, 0x7ff, 0x800, 0xd7ff, 0xd800, 0xdbff, 0xdc00, 0xdfff, 0xe000, 0xfffd, 0xffff,
		0x10000, 0x10ffff, 0x110000, 0x1fffff, 0x7fffffff, 0x80000000, 0xffffffff} {
		if cp <= 0xffff {
			all([]byte(fmt.Sprintf("\"\\u%04x\"", cp)))
			all([]byte(fmt.Sprintf("\"\\u%04X\\u%04x\"", cp, cp)))
		}
		all([]byte(fmt.Sprintf("\"\\U%08x\"", cp)))
		add("dflt", []byte(fmt.Sprintf("\"\\U%08x\"", cp)))
	}
	for _, s := range []string{"\"\\u+041\"", "\"\\u-001\"", "\"\\U+0000041\"", "\"\\U-0000001\"", "\"\\x+f\"", "\"\\x-1\"", "\"\\x+\"", "\"\\x-\"",
		"\"\\u 041\"", "\"\\u0x41\"", "\"\\U0x000041\"", "\"\\u_041\"", "\"\\uD83D\\uDE00\"", "\"\\u00e9\\u00E9\"", "\"a\\tb\\nc\"", "\"\"", "''",
		"\"", "'", "\"\\", "\"abc", "\"a\nb\"", "\"a\\\nb\"", "'\"'", "\"'\""} {
		all([]byte(s))
		add("dflt", []byte(s))
	}
	// numbers: every string of <= n symbols over the numeric alphabet that starts like a number
	m := 4
	if tier == "thorough" {
		m = 5
	}
	var recn func(prefix []byte, d int)
	recn = func(prefix []byte, d int) {
		if d == 0 {
			return
		}
		for _, c := range lexNumAlphabet {
			p := append(append([]byte{}, prefix...), c)
			if p[0] == '.' || (p[0] >= '0' && p[0] <= '9') {
				all(p)
			}
			recn(p, d-1)
		}
	}
	recn(nil, m)
	for _, s := range []string{"18446744073709551615", "18446744073709551616", "18446744073709551615z", "99999999999999999999", "99999999999999999999z",
		"01777777777777777777777", "02000000000000000000000", "0xffffffffffffffff", "0x10000000000000000", "0xFFFFFFFFFFFFFFFFg",
		"1e308", "1.7976931348623157e308", "1.7976931348623158e308", "1.7976931348623159e308", "1.797693134862315807e308", "1e309", "1e400", "1e99999",
		"4.9e-324", "2.4703282292062327e-324", "2.4703282292062328e-324", "2.47e-324", "2.5e-324", "1e-400", "1e-99999", "2.2250738585072014e-308",
		"2.2250738585072011e-308", "9007199254740993", "9007199254740993.0", "9007199254740992.5", "9007199254740993.5", "0.1", "0.3", "1e23", "8.5e22",
		"123456789012345678901234567890", "0.000000000000000000000000000001", "1.0000000000000002220446049250313", "1.00000000000000011102230246251565404236316680908203125",
		"1.00000000000000011102230246251565404236316680908203126", "09.5", "00.5", "01e5", "01.", "0.5", "08", "09", "0e", "0e+", "1.e5", ".e5", "1..2", "1.2.3",
		"0x", "0X", "0x.", "0x1p3", "1_000", "1__0", "0_1", "1e1_0", "1f", "1F", "0b1", "0o7", "1e+-1", "1e++1", "+1", "-1", "..", ".", ".a", "7e", "7e-", "7E+5", "1.5e10", "1.5E-10"} {
		all([]byte(s))
		if s[0] >= '0' && s[0] <= '9' {
			add("dflt", []byte(s))
		}
	}
	// signed boundary family: every spelling of every boundary value, with and without `-`, through
	// the parser / compiler wherever the int-vs-float node decision or a range check matters
	for _, o := range lexSignedBoundaryOps(tier) {
		if !seen[o] {
			seen[o] = true
			ops = append(ops, o)
		}
	}
	cnt := 1500
	if tier == "thorough" {
		cnt = 60000
	}
	for i := 0; i < cnt; i++ {
		// random long string literal
		var b []byte
		q := Pick(r, []byte{'"', '\''})
		b = append(b, q)
		for j, k := 0, 1+r.Intn(12); j < k; j++ {
			if r.Chance(1, 2) {
				b = append(b, '\\')
			}
			b = append(b, Pick(r, lexEscAlphabet)...)
		}
		if !r.Chance(1, 10) {
			b = append(b, q)
		}
		all(b)
		if i%8 == 0 {
			add("dflt", b)
		}
		// random number-like token
		var nb []byte
		switch r.Intn(4) {
		case 0: // digits [. digits] [e [sign] digits]
			for j, k := 0, 1+r.Intn(22); j < k; j++ {
				nb = append(nb, byte('0'+r.Intn(10)))
			}
			if r.Chance(1, 2) {
				nb = append(nb, '.')
				for j, k := 0, r.Intn(22); j < k; j++ {
					nb = append(nb, byte('0'+r.Intn(10)))
				}
			}
			if r.Chance(1, 2) {
				nb = append(nb, Pick(r, []byte("eE")))
				if r.Chance(1, 2) {
					nb = append(nb, Pick(r, []byte("+-")))
				}
				nb = append(nb, []byte(strconv.Itoa(r.Intn(340)))...)
			}
		case 1: // around float64 halfway points: 17-19 significant digits
			f := math.Float64frombits(r.U64() & 0x7fefffffffffffff)
			nb = []byte(strconv.FormatFloat(f, 'e', 17+r.Intn(5), 64))
		case 2: // integers near 2^64
			nb = []byte(strconv.FormatUint(math.MaxUint64-uint64(r.Intn(3)), Pick(r, []int{10})))
			if r.Chance(1, 2) {
				nb[len(nb)-1] = byte('0' + r.Intn(10))
			}
		default:
			for j, k := 0, 1+r.Intn(8); j < k; j++ {
				nb = append(nb, Pick(r, lexNumAlphabet))
			}
			if nb[0] != '.' && (nb[0] < '0' || nb[0] > '9') {
				nb = append([]byte{'0'}, nb...)
			}
		}
		all(nb)
		if i%8 == 0 && nb[0] != '.' {
			add("dflt", nb)
		}
	}
	return lexSingleOpCases(ops)
}

// lexEscapeNewlineShapes: string literals (both quote kinds) whose escapes have a raw LF, CR LF,
// a multi-byte character or a blank line at every position among and after the escape's digits,
// followed by more tokens and a later lexer error (so that, with a reporter that continues, a
// newline that missed the line table shows in a reported position); plus LF inside comments right
// before EOF and BOM + LF combinations.
func lexEscapeNewlineShapes() []string {
	var out []string
	type esc struct{ prefix, digits string }
	escs := []esc{{"\\x", "4f"}, {"\\X", "4"}, {"\\u", "0041"}, {"\\U", "00000041"}, {"\\", "101"}, {"\\", "7"},
		{"\\n", ""}, {"\\", ""}, {"\\q", ""}, {"\\u", "00"}, {"\\U", "0010"}}
	inserts := []string{"\n", "\r\n", "\u00e9", "\n\n"}
	tails := []string{" x = 1;\n$ y", "\n\t$"}
	for _, q := range []string{"\"", "'"} {
		for _, e := range escs {
			for i := 0; i <= len(e.digits); i++ {
				for _, ins := range inserts {
					lit := q + "a" + e.prefix + e.digits[:i] + ins + e.digits[i:] + "b" + q
					for _, t := range tails {
						out = append(out, lit+t)
					}
				}
			}
			// unterminated, newline right after the escape prefix
			out = append(out, q+e.prefix+"\n$", "k = "+q+e.prefix+e.digits+"\n"+q+";\n$")
		}
	}
	out = append(out, "// c\n", "// c\r\n", "/* c\n", "/* c\n*/", "/* c\n*/\n", "a // c\n", "a /* c\n\n", "$ // c\n$", "/*\n*/$\n$",
		"\xef\xbb\xbf\n", "\xef\xbb\xbf\n\n$", "\xef\xbb\xbf\"\n$", "\xef\xbb\xbf// c\n$", "\xef\xbb\xbf\"\\u00\n41\"\n$", "\n\xef\xbb\xbf\n$")
	return out
}

// lexQualifiedNameShapes: qualified names of 2-4 components (with and without a leading dot) whose
// first component is a contextual keyword or a plain identifier, with DIFFERENT trivia before each
// dot and each component, in every grammar position that builds a compound identifier from
// separately collected identifier and dot tokens: label-less field types (message, oneof, extend,
// group body, map value), extendees, rpc input/output types, option names with extension parts,
// message-literal extension / Any references; plus reserved and extension ranges with varied trivia.
// The AST round trip (`ast` op) prints these back only if every dot token sits between the right
// components.
func lexQualifiedNameShapes() []string {
	heads := []string{"export", "local", "optional", "repeated", "required", "map", "group", "stream", "returns", "to", "max",
		"inf", "nan", "true", "false", "message", "option", "foo", "Bar_1"}
	rest := []string{"a", "Bz", "c_1"}
	trivia := []string{"", " ", " /* c */ ", "\t", "\n", " /*d*/", "  ", "\n\t// e\n", "/**/"}
	var names []string
	for hi, h := range heads {
		for k := 2; k <= 4; k++ {
			for _, lead := range []bool{false, true} {
				for rot := 0; rot < 2; rot++ {
					t := func(i int) string { return trivia[(hi+3*rot+2*k+i)%len(trivia)] }
					var b strings.Builder
					n := 0
					if lead {
						b.WriteString(".")
						b.WriteString(t(n))
						n++
					}
					b.WriteString(h)
					for j := 1; j < k; j++ {
						b.WriteString(t(n))
						n++
						b.WriteString(".")
						b.WriteString(t(n))
						n++
						b.WriteString(rest[(j-1)%len(rest)])
					}
					names = append(names, b.String())
				}
			}
		}
	}
	var out []string
	for i, nm := range names {
		ctxs := []string{
			"message M { " + nm + " f = 1; }",
			"syntax = \"proto3\";\nmessage M {\n  " + nm + " f = 1;\n}\n",
			"message M { oneof o { " + nm + " f = 1; } }",
			"extend " + nm + " { " + nm + " f = 1; }",
			"extend " + nm + " { optional int32 f = 1; }",
			"message M { optional group G = 1 { " + nm + " f = 2; } }",
			"message M { map<string, " + nm + "> m = 1; }",
			"service S { rpc M(" + nm + ") returns (stream " + nm + "); }",
			"service S { rpc M( stream " + nm + " ) returns ( " + nm + " ) { option (" + nm + ") = 1; } }",
			"option (" + nm + ").x = 1;",
			"option a.(" + nm + ") /*1*/ . /*2*/ b = 1;",
			"message M { optional int32 f = 1 [(" + nm + ") = 1, a /*x*/ . (" + nm + ")\t.b = 2]; }",
			"option x = { [" + nm + "]: 1 };",
			"option x = { [a.b /*s*/ / " + nm + "] { } };",
		}
		// every name in two contexts, rotating through all of them
		out = append(out, ctxs[i%len(ctxs)], ctxs[(i*5+3)%len(ctxs)])
	}
	out = append(out,
		"message M { reserved 1 /*a*/ to /*b*/ 5 , 7\nto max ; extensions 10\tto 20 , 30 ; reserved \"a\" /*x*/ , \"b\" ; }",
		"message M { extensions 1 to /*m*/ max /*o*/ [ (a) /*p*/ = 1 /*q*/ , b\t.c = 2 ] /*r*/ ; }",
		"enum E { A = 0; reserved -1 /*a*/ to\t1 , 5 to /*b*/ max , 9 ; reserved \"X\"\t, \"Y\"; }",
		"message M { reserved a /*1*/ , b\t, c ; }",
		"export .foo.Bar a = 1;", "message M { export .foo.Bar a = 1; local.foo /* c */ .Bar x = 2; }",
		"message M { export /*1*/ . /*2*/ a /*3*/ . /*4*/ B /*5*/ . /*6*/ C x = 1; }",
		"message M { local\t.\na  .\tB\n.C x = 1; }",
		"local message M { export enum E { A = 0; } local.x.Y f = 1; export . x . Y g = 2; }",
	)
	return out
}

// lexRecoveredSemanticShapes: every statement kind whose grammar rule tolerates a missing
// terminator or has an error-recovery production, written WITHOUT its `;` (or with a missing `=`,
// a missing value, a stray token), combined with every semantic check of parser/result.go and
// parser/validate.go that can mention the same node (duplicate package / syntax, unknown syntax,
// message_set_wire_format rules, json_name conflicts, tag ranges, reserved overlaps, proto3
// restrictions, duplicate options, allow_alias, map key types, groups), at the end of the file
// (truncation) and in the middle. With a reporter that keeps going the parser returns a partial AST
// and ResultFromAST then reports about exactly those nodes.
func lexRecoveredSemanticShapes() []string {
	var out []string
	heads := []string{"", "syntax = \"proto2\";\n", "syntax = \"proto3\";\n", "edition = \"2023\";\n"}
	// file scope: (statement with its `;` removed or otherwise damaged)
	fileDamaged := []string{
		"syntax = \"proto3\"", "syntax = \"proto2\"", "syntax = \"proto4\"", "syntax \"proto3\";", "syntax = ;", "edition = \"2023\"", "edition = \"1999\"",
		"package a.b", "package b", "package a.", "package ;", "import \"x.proto\"", "import public \"x.proto\"", "import weak \"y.proto\"", "import \"x.proto\" \"z\"",
		"option java_package = \"x\"", "option (a.b) = 1", "option (a.b).c = { x: 1 }", "option java_package \"x\";", "option java_package = ;", "option = 1;",
		"option message_set_wire_format = true", "option deprecated = true", "option (a) = -", "option optimize_for = SPEED",
	}
	fileTrouble := []string{
		"package a;", "package a.b.c;", "syntax = \"proto3\";", "syntax = \"proto2\";", "import \"x.proto\";", "import \"x.proto\";\nimport \"x.proto\";",
		"option java_package = \"y\";", "option java_package = \"y\";\noption java_package = \"z\";", "message M { }", "message M { } message M { }",
		"message M { option message_set_wire_format = true; }", "enum E { A = 1; }", "enum E { }", "service S { rpc R(M) returns (M); rpc R(M) returns (M); }",
	}
	for _, h := range heads {
		for i, d := range fileDamaged {
			for j, t := range fileTrouble {
				if (i+j)%3 != 0 { // a third of the product, every damaged statement meets every trouble across heads
					continue
				}
				out = append(out, h+t+"\n"+d, h+d+"\n"+t, h+t+"\n"+d+"\n"+t)
			}
			out = append(out, h+d, h+d+"\n"+d, d+"\n"+h)
		}
	}
	// message scope
	msgDamaged := []string{
		"option message_set_wire_format = true", "option message_set_wire_format = true optional int32 f = 1;", "option deprecated = true",
		"option (a.b) = 1", "option no_standard_descriptor_accessor = ", "optional int32 f = 1", "optional int32 f = 0", "optional int32 f = 19000",
		"optional int32 f = 536870912", "optional int32 f = 1 [json_name = \"g\"]", "optional int32 f = 1 [default = 1]", "optional int32 f = 1 [default = ]",
		"optional int32 f = 1 [json_name = \"g\", json_name = \"h\"]", "optional int32 f 1;", "optional int32 = 1;", "optional int32 f = ;", "int32 f = 1",
		"required int32 f = 1", "repeated int32 f = 1 [packed = true]", "optional group G = 1 { }", "optional group g = 1 { }", "map<string, int32> m = 1",
		"map<float, int32> m = 1", "map<string, M> m = 0", "reserved 1 to 5, 3", "reserved 5 to 1", "reserved \"f\", \"f\"", "reserved 1, \"f\"", "reserved 1 to",
		"extensions 5 to 1", "extensions 1 to 5, 3", "extensions 1 to max", "extensions 19000 to 19999", "extensions 1 to 536870912", "extensions 1 [ d ]", "extensions 1 [ ]",
		"oneof o { int32 f = 1 }", "oneof o { }", "oneof o { option (a) = 1 }", "oneof o { optional int32 f = 1; }", "enum E { A = 1 }", "enum E { }", "enum E { option allow_alias = true A = 0; }",
		"enum E { A = 0 B = 0 }", "enum E { A = 0; reserved 0 }", "enum E { A = 0; reserved \"A\" }", "enum E { A = 0 [ d ] }", "enum E { A = 2147483648 }", "message N { option message_set_wire_format = true }",
		"extend N { optional int32 e = 1 }", "extend N { }", "extend N { int32 e = 0 }",
	}
	msgTrouble := []string{
		"", "optional int32 f = 1;", "optional int32 g = 1;", "optional int32 f_g = 2; optional int32 fG = 3;", "optional int32 a = 2 [json_name = \"f\"];",
		"extensions 4 to 10;", "reserved 1;", "reserved \"f\";", "option message_set_wire_format = true;", "option message_set_wire_format = true; extensions 4 to max;",
		"extend N { optional int32 e = 1; }", "map<string, int32> f = 1;",
	}
	for hi, h := range heads {
		for i, d := range msgDamaged {
			for j, t := range msgTrouble {
				if (i+j+hi)%4 != 0 {
					continue
				}
				out = append(out, h+"message M { "+t+" "+d+" }", h+"message M { "+d+" "+t+" }", h+"message M { "+t+" "+d) // the last one is truncated
			}
		}
	}
	// service / method scope
	svcDamaged := []string{
		"rpc R(M) returns (M)", "rpc R(M) returns (M) { option deprecated = true }", "rpc R(M) returns (M) { option (a) = 1 } rpc R(M) returns (M);", "rpc R() returns (M);",
		"rpc R(M) returns ();", "rpc R(stream M) returns (stream", "option deprecated = true", "option (a.b) = ", "rpc R(M) (M);", "rpc (M) returns (M);",
	}
	for _, h := range heads[:3] {
		for _, d := range svcDamaged {
			out = append(out, h+"service S { "+d+" }", h+"service S { rpc R(M) returns (M); "+d+" }", h+"service S { "+d, h+"service S { "+d+" } service S { }")
		}
	}
	return out
}

// lexErrorShapes: inputs that drive the parser through each of its error productions
// ("expecting ';'", "unexpected '.'", "unexpected ','", valueless / empty compact options, bad
// negative identifiers) in every declaration kind that can carry them.
func lexErrorShapes() []string {
	return []string{
		"syntax = \"proto3\"", "syntax = \"proto3\" message M {}", "package a.b", "package a.b message M {}", "import \"x\"", "import \"x\" message M {}",
		"option a = 1", "option a = 1 message M {}", "package a.;", "package .a;", "package a..b;", "option a. = 1;", "option (a.). b = 1;",
		"message M { .a. b = 1; }", "message M { a..b c = 1; }", "message M { optional a. b = 1; }", "extend a. { }", "service S { rpc M(a.) returns (.b.); }",
		"option x = -foo;", "option x = -inf;", "option x = - nan;", "option x = { a: -b };",
		"message m { optional int32 x = 1 []; }", "message m { optional int32 x = 1 [a=1,]; }", "message m { optional int32 x = 1 [,]; }",
		"message m { optional int32 x = 1 [a=1,,b=2]; }", "message m { optional int32 x = 1 [ d ]; }", "message m { optional int32 x = 1 [ (d) ]; }",
		"message m { optional int32 x = 1 [ d, e = 1 ]; }", "message m { optional int32 x = 1 [ e = 1, d ]; }", "message m { optional int32 x = 1 [ d. ]; }",
		"enum E { A = 0 [ d ]; }", "enum E { A = 0 []; }", "message m { extensions 1 to 2 [ d ]; }", "message m { extensions 1 [ ]; }",
		"message m { optional group G = 1 [ d ] { } }", "message m { map<int32,int32> f = 1 [ d ]; }", "message m { oneof o { int32 f = 1 [ d ]; } }",
		"message m { oneof o { group G = 1 [ d ] { } } }", "extend m { optional int32 f = 1 [ d ]; }", "service S { rpc M(A) returns (B) { option d; } }",
		"option d;", "option (d);", "message m { option d; }", "enum E { option d; A = 0; }", "message m { reserved 1 to; }", "message m { reserved \"a\", ; }",
		"message m { optional int32 x = ; }", "message m { optional int32 = 1; }", "message m { int32 x = 1 }", "message m { optional int32 x = 1 [default = ]; }",
		"message m { optional int32 x = 1 [default = {]; }", "option x = { a: [ }; ", "option x = { a: [1, ] };", "option x = { [a.b/c]: 1 };", "option x = { [a.b/]: 1 };",
		"message { }", "enum { }", "service { }", "message m { enum { } }", "rpc M(A) returns (B);", "message m { rpc x = 1; }", "syntax = ;", "edition = 2023;", "import weak public \"x\";",
	}
}

// lexSignedBoundaryOps: the `snum` ops of the signed-boundary family.
func lexSignedBoundaryOps(tier string) []string {
	one := new(big.Int).SetInt64(1)
	pow := func(k uint) *big.Int { return new(big.Int).Lsh(one, k) }
	add := func(a *big.Int, d int64) *big.Int { return new(big.Int).Add(a, big.NewInt(d)) }
	mags := []*big.Int{big.NewInt(0), big.NewInt(1), add(pow(31), -1), pow(31), add(pow(31), 1), add(pow(32), -1), pow(32), add(pow(32), 1),
		add(pow(63), -1), pow(63), add(pow(63), 1), add(pow(64), -1), pow(64), add(pow(64), 1),
		big.NewInt(18999), big.NewInt(19000), big.NewInt(19999), big.NewInt(20000), big.NewInt(536870911), big.NewInt(536870912)}
	if tier == "thorough" {
		for _, k := range []uint{7, 8, 15, 16, 24, 53, 62} {
			mags = append(mags, add(pow(k), -1), pow(k), add(pow(k), 1))
		}
	}
	spell := func(m *big.Int) []string {
		return []string{m.Text(10), "0x" + m.Text(16), "0X" + strings.ToUpper(m.Text(16)), "0x" + strings.ToUpper(m.Text(16)), "0" + m.Text(8)}
	}
	signs := []string{"", "-"}
	var lits []string
	for _, m := range mags {
		for _, sp := range spell(m) {
			for _, sg := range signs {
				lits = append(lits, sg+sp)
			}
		}
	}
	// trivia between the sign and the digits, at the int64 / int32 boundaries
	for _, m := range []*big.Int{pow(63), add(pow(63), 1), pow(31), big.NewInt(0), add(pow(64), -1)} {
		for _, tr := range []string{" ", "\t", "/*c*/", " /* c */ ", "\n", "// c\n"} {
			lits = append(lits, "-"+tr+m.Text(10), "-"+tr+"0x"+m.Text(16))
		}
	}
	// floats and oddities for contrast
	lits = append(lits, "-1.0", "1e3", "-1e3", "-.5", "--1", "- -1", "-", "+1", "-inf", "-0.0", "-9223372036854775808.0", "-1f", "-08")
	types := []string{"int32", "int64", "uint32", "uint64", "sint32", "sint64", "fixed32", "fixed64", "sfixed32", "sfixed64", "float", "double", "bool"}
	ctxs := []string{"opt", "enum", "tag", "res", "eres"}
	for _, t := range types {
		ctxs = append(ctxs, "dflt:"+t)
	}
	for _, t := range []string{"int32", "int64", "uint32", "uint64", "sint64", "sfixed32", "double", "float", "bool"} {
		ctxs = append(ctxs, "copt:"+t, "mlit:"+t)
	}
	var ops []string
	for _, l := range lits {
		for _, c := range ctxs {
			ops = append(ops, "snum "+c+" "+Hex([]byte(l)))
		}
	}
	return ops
}

// ---------------------------------------------------------------- engine "lextotal" (C12)

type lextotalEngine struct{}

func init() { Register("lextotal", func() Engine { return lextotalEngine{} }) }

func (lextotalEngine) Name() string { return "lextotal" }
func (lextotalEngine) Reset()       {}

type lexTotObs struct {
	panicMsg string
	astNil   bool
	err      bool
	errs     []lexErr
	resPanic string
	// errors (with a position) that ResultFromAST + validation reported, lenient reporter
	resErrs []lexErr
	// outcome of touching every node of the returned AST: "ok", "nil-child:<parent type>",
	// "bad-span:<type>", "PANIC:<msg>"
	walk string
}

func lexIsNilNode(n ast.Node) bool {
	if n == nil {
		return true
	}
	v := reflect.ValueOf(n)
	return v.Kind() == reflect.Ptr && v.IsNil()
}

// lexWalkAST touches every node of the AST: Start()/End() tokens, NodeInfo (start and end
// position, raw text, leading whitespace, comments) and the children of every composite node;
// then lets ast.Walk visit everything once more.
func lexWalkAST(root *ast.FileNode, dataLen int) (outcome string) {
	defer func() {
		if r := recover(); r != nil {
			outcome = "PANIC:" + strings.ReplaceAll(Canon(fmt.Sprint(r)), " ", "_")
		}
	}()
	// problems by priority: nil child, bad span, bad EOF token
	var nilChild, badSpan, badEOF string
	fi := root.VerifFileInfo()
	items := fi.VerifItems()
	// the EOF token must be the last item, and empty; when it is not (the lexer stopped before the
	// end of input and never produced one) the file node's own span is meaningless: say so once and
	// keep checking everything else
	eofOK := root.EOF != nil && int(root.EOF.Token()) == len(items)-1 && len(items) > 0 && items[len(items)-1][1] == 0
	if !eofOK {
		badEOF = "bad-eof-token"
	}
	var visit func(n ast.Node, parent string)
	visit = func(n ast.Node, parent string) {
		if lexIsNilNode(n) {
			if nilChild == "" {
				nilChild = "nil-child:" + parent
			}
			return
		}
		typ := strings.TrimPrefix(fmt.Sprintf("%T", n), "*ast.")
		skipSpan := !eofOK && (n == ast.Node(root) || n == ast.Node(root.EOF))
		if cn, ok := n.(ast.CompositeNode); ok {
			// a nil child makes the parent's own Start()/End() meaningless: name it instead
			for _, ch := range cn.Children() {
				if lexIsNilNode(ch) {
					if nilChild == "" {
						nilChild = "nil-child:" + typ
					}
					skipSpan = true
				}
			}
		}
		if !skipSpan {
			st, en := n.Start(), n.End()
			if st > en && badSpan == "" {
				badSpan = "bad-span:" + typ
			}
			info := root.NodeInfo(n)
			if int(st) < 0 || int(en) >= len(items) {
				if badSpan == "" {
					badSpan = "bad-span:" + typ
				}
			} else if st <= en {
				sp, ep := info.Start(), info.End()
				if (sp.Offset < 0 || ep.Offset > dataLen || sp.Offset > ep.Offset+1) && badSpan == "" {
					badSpan = "bad-span:" + typ
				}
				_ = info.RawText()
				_ = info.LeadingWhitespace()
				_ = info.LeadingComments().Len()
				_ = info.TrailingComments().Len()
			}
		}
		if cn, ok := n.(ast.CompositeNode); ok {
			for _, ch := range cn.Children() {
				visit(ch, typ)
			}
		}
	}
	visit(root, "root")
	if nilChild == "" {
		_ = ast.Walk(root, &ast.SimpleVisitor{DoVisitNode: func(n ast.Node) error {
			if !lexIsNilNode(n) && (eofOK || (n != ast.Node(root) && n != ast.Node(root.EOF))) {
				_ = n.Start()
				_ = n.End()
			}
			return nil
		}})
	}
	for _, p := range []string{nilChild, badSpan, badEOF} {
		if p != "" {
			return p
		}
	}
	return "ok"
}

// lexObserveTotal runs parser.Parse and ResultFromAST under recover.
func lexObserveTotal(data []byte, lenient bool) (o lexTotObs) {
	c := &lexCollector{lenient: lenient}
	var root *ast.FileNode
	func() {
		defer func() {
			if r := recover(); r != nil {
				o.panicMsg = Canon(fmt.Sprint(r))
			}
		}()
		var err error
		root, err = parser.Parse("f.proto", bytes.NewReader(data), c.handler())
		o.err = err != nil
		o.astNil = root == nil
	}()
	o.errs = c.errs
	o.walk = "ok"
	if o.panicMsg != "" || root == nil {
		return o
	}
	o.walk = lexWalkAST(root, len(root.VerifFileInfo().VerifData()))
	c2 := &lexCollector{lenient: true}
	func() {
		defer func() {
			if r := recover(); r != nil {
				o.resPanic = Canon(fmt.Sprint(r))
			}
		}()
		_, _ = parser.ResultFromAST(root, true, c2.handler())
	}()
	for _, e := range c2.errs {
		if e.line > 0 { // errors without a position (line 0) carry nothing to check
			o.resErrs = append(o.resErrs, e)
		}
	}
	return o
}

// lexObsOffsets: "offset:class" of every reported error, in order.
func lexObsOffsets(o lexTotObs) string {
	var xs []string
	for _, e := range o.errs {
		xs = append(xs, strconv.Itoa(e.off)+":"+e.cls)
	}
	return lexJoinOr(xs, ",")
}

// Exec: "tot <mode> <hex> <offset:class,...> <parse> <res> <result error offsets> <walk>": offset and
// message class of the errors Parse reported, whether parser.Parse panicked, the outcome of
// ResultFromAST (validation on, reporter that continues), the offsets of the errors it reported and
// the outcome of touching every node of the AST were observed when the case was generated (the LALR automaton, the AST constructors and result.go are not
// modelled); they are re-observed here and must match.
// lexResOffsets: offsets of the positioned errors reported by ResultFromAST, in order.
func lexResOffsets(o lexTotObs) string {
	var xs []string
	for _, e := range o.resErrs {
		xs = append(xs, strconv.Itoa(e.off))
	}
	return lexJoinOr(xs, ",")
}

func lexResOutcome(o lexTotObs) string {
	if o.resPanic != "" {
		return "PANIC:" + strings.ReplaceAll(o.resPanic, " ", "_")
	}
	return "ok"
}

func lexParseOutcome(o lexTotObs) string {
	if o.panicMsg != "" {
		return "PANIC:" + strings.ReplaceAll(o.panicMsg, " ", "_")
	}
	return "ok"
}

func (lextotalEngine) Exec(op string) string {
	w := strings.Fields(op)
	if len(w) != 8 || w[0] != "tot" {
		return "bad-op"
	}
	lenient, ok := lexMode(w[1])
	if !ok {
		return "bad-op"
	}
	o := lexObserveTotal(UnHex(w[2]), lenient)
	if got := lexObsOffsets(o); got != w[3] {
		return "obs-mismatch " + got
	}
	if got := lexParseOutcome(o); got != w[4] {
		return "obs-mismatch parse=" + got
	}
	if got := lexResOutcome(o); got != w[5] {
		return "obs-mismatch res=" + got
	}
	if got := lexResOffsets(o); got != w[6] {
		return "obs-mismatch rerrs=" + got
	}
	if o.walk != w[7] {
		return "obs-mismatch walk=" + o.walk
	}
	if o.panicMsg != "" {
		return "PANIC " + strings.ReplaceAll(o.panicMsg, " ", "_")
	}
	var ps []string
	for _, e := range o.errs {
		ps = append(ps, fmt.Sprintf("%d:%d:%d", e.off, e.line, e.col))
	}
	a, e := "ok", "0"
	if o.astNil {
		a = "nil"
	}
	if o.err {
		e = "1"
	}
	var rps []string
	for _, e := range o.resErrs {
		rps = append(rps, fmt.Sprintf("%d:%d:%d", e.off, e.line, e.col))
	}
	return fmt.Sprintf("ast=%s err=%s rep=%d pos=%s res=%s rpos=%s walk=%s", a, e, len(o.errs), lexJoinOr(ps, ","),
		lexResOutcome(o), lexJoinOr(rps, ","), o.walk)
}

func (lextotalEngine) Trivial(op, ans string) bool { return strings.HasPrefix(op, "tot l - ") || strings.HasPrefix(op, "tot s - ") }

func (lextotalEngine) Class(op, ans string) string {
	switch {
	case strings.HasPrefix(ans, "PANIC"):
		return "tot:panic"
	case strings.Contains(ans, "err=0"):
		return "tot:accepted"
	}
	return "tot:rejected"
}

func (lextotalEngine) Gen(r *Rand, tier string) [][]string {
	g := lexNewSrcGen(r)
	var ops []string
	seen := map[string]bool{}
	add := func(mode string, b []byte) {
		lenient := mode == "l"
		o := lexObserveTotal(b, lenient)
		op := "tot " + mode + " " + Hex(b) + " " + lexObsOffsets(o) + " " + lexParseOutcome(o) + " " + lexResOutcome(o) +
			" " + lexResOffsets(o) + " " + o.walk
		if !seen[op] {
			seen[op] = true
			ops = append(ops, op)
		}
	}
	add("l", nil)
	add("s", nil)
	for a := 0; a < 256; a++ {
		add("s", []byte{byte(a)})
		add("l", []byte{'"', '\\', byte(a), '"'})
		add("l", []byte{'x', '=', byte(a), ';'})
	}
	alpha := lexAlphabet
	n := 2
	if tier == "thorough" {
		n = 3
	}
	var rec func(prefix []byte, d int)
	rec = func(prefix []byte, d int) {
		if d == 0 {
			return
		}
		for _, c := range alpha {
			p := append(append([]byte{}, prefix...), c)
			add("l", p)
			add("s", p)
			rec(p, d-1)
		}
	}
	rec(nil, n)
	for _, s := range lexCommentShapes() {
		add("l", []byte(s))
		add("s", []byte(s))
	}
	// every error-recovery production of the grammar (partial ASTs with a lenient reporter)
	for _, sh := range lexErrorShapes() {
		add("l", []byte(sh))
		add("s", []byte(sh))
		add("l", g.mutate([]byte(sh)))
	}
	for i, sh := range lexEscapeNewlineShapes() {
		add("l", []byte(sh))
		if i%4 == 0 {
			add("s", []byte(sh))
		}
	}
	// a syntax error the parser recovers from x a semantic error about the same node
	for i, sh := range lexRecoveredSemanticShapes() {
		add("l", []byte(sh))
		if i%5 == 0 {
			add("s", []byte(sh))
		}
	}
	// deep nesting
	for _, d := range []int{1, 10, 100, 1000} {
		add("s", []byte("message M {"+strings.Repeat("message N {", d)+strings.Repeat("}", d)+"}"))
		add("l", []byte("option x = "+strings.Repeat("{a:", d)+"1"+strings.Repeat("}", d)+";"))
		add("l", []byte("option x = "+strings.Repeat("[", d)))
		add("l", []byte(strings.Repeat("(", d)))
	}
	cnt := 1200
	if tier == "thorough" {
		cnt = 80000
	}
	for i := 0; i < cnt; i++ {
		var b []byte
		switch i % 4 {
		case 0:
			b = g.file()
		case 1:
			b = g.mutate(g.file())
		case 2:
			b = g.soup(1 + r.Intn(30))
		case 3:
			b = r.Bytes(1 + r.Intn(24))
		}
		mode := "l"
		if r.Chance(1, 3) {
			mode = "s"
		}
		add(mode, b)
		if i%4 == 0 {
			// truncation of a valid file
			add("l", b[:r.Intn(len(b)+1)])
		}
	}
	return lexSingleOpCases(ops)
}
