package engines

import (
	"context"
	"errors"
	"fmt"
	"strconv"
	"strings"
	"sync"

	"github.com/bufbuild/protocompile"
	"github.com/bufbuild/protocompile/ast"
	"github.com/bufbuild/protocompile/linker"
	"github.com/bufbuild/protocompile/reporter"
	"google.golang.org/protobuf/proto"
	"google.golang.org/protobuf/reflect/protodesc"
	"google.golang.org/protobuf/reflect/protoreflect"
	"google.golang.org/protobuf/reflect/protoregistry"
	"google.golang.org/protobuf/types/descriptorpb"
)

// symbols: linker.Symbols import / lookup histories (C16, C17).

type symTok struct {
	kind     string // m f e v x
	name     string
	extendee string
	tag      int
}

type symDef struct {
	id   int
	pkg  string
	deps []int
	src  bool
	syms []symTok
	fd   protoreflect.FileDescriptor
	text string
}

type symbolsEngine struct {
	defs  map[int]*symDef
	order []int
	tab   *linker.Symbols
	// a lenient handler shared by all "import <id> shared" ops of a case
	sharedH   *reporter.Handler
	sharedLog *repLog
}

func init() { Register("symbols", func() Engine { return &symbolsEngine{} }) }

func (e *symbolsEngine) Name() string { return "symbols" }
func (e *symbolsEngine) Reset() {
	e.defs = map[int]*symDef{}
	e.order = nil
	e.tab = &linker.Symbols{}
	e.sharedLog = &repLog{}
	lg := e.sharedLog
	e.sharedH = reporter.NewHandler(reporter.NewReporter(func(err reporter.ErrorWithPos) error {
		lg.items = append(lg.items, classify(err.Unwrap().Error()))
		return nil
	}, nil))
}

func parseSymTok(s string) (symTok, bool) {
	k, rest, ok := strings.Cut(s, ":")
	if !ok {
		return symTok{}, false
	}
	t := symTok{kind: k, name: rest}
	if k == "x" {
		n, et, ok := strings.Cut(rest, ">")
		if !ok {
			return t, false
		}
		ext, tag, ok := strings.Cut(et, "#")
		if !ok {
			return t, false
		}
		t.name, t.extendee = n, ext
		t.tag, _ = strconv.Atoi(tag)
	}
	return t, true
}

type depResolver struct{ files []protoreflect.FileDescriptor }

func (r depResolver) FindFileByPath(p string) (protoreflect.FileDescriptor, error) {
	for _, f := range r.files {
		if f.Path() == p {
			return f, nil
		}
	}
	return nil, protoregistry.NotFound
}

func (r depResolver) FindDescriptorByName(n protoreflect.FullName) (protoreflect.Descriptor, error) {
	for _, f := range r.files {
		if d := findIn(f, n); d != nil {
			return d, nil
		}
	}
	return nil, protoregistry.NotFound
}

func findIn(f protoreflect.FileDescriptor, n protoreflect.FullName) protoreflect.Descriptor {
	var walkMsgs func(ms protoreflect.MessageDescriptors) protoreflect.Descriptor
	walkMsgs = func(ms protoreflect.MessageDescriptors) protoreflect.Descriptor {
		for i := 0; i < ms.Len(); i++ {
			m := ms.Get(i)
			if m.FullName() == n {
				return m
			}
			if d := walkMsgs(m.Messages()); d != nil {
				return d
			}
		}
		return nil
	}
	return walkMsgs(f.Messages())
}

// build a FileDescriptorProto and source text from the flattened symbol list.
func (e *symbolsEngine) build(d *symDef) error {
	fdp := &descriptorpb.FileDescriptorProto{
		Name:   proto.String(fmt.Sprintf("f%d.proto", d.id)),
		Syntax: proto.String("proto2"),
	}
	if d.pkg != "" {
		fdp.Package = proto.String(d.pkg)
	}
	var deps []protoreflect.FileDescriptor
	for _, id := range d.deps {
		dd, ok := e.defs[id]
		if !ok {
			return fmt.Errorf("unknown dep %d", id)
		}
		fdp.Dependency = append(fdp.Dependency, dd.fd.Path())
		deps = append(deps, dd.fd)
	}
	msgs := map[string]*descriptorpb.DescriptorProto{}
	var lastEnum *descriptorpb.EnumDescriptorProto
	parentOf := func(name string) (string, string) {
		i := strings.LastIndexByte(name, '.')
		if i < 0 {
			return "", name
		}
		return name[:i], name[i+1:]
	}
	for _, s := range d.syms {
		par, base := parentOf(s.name)
		pm := msgs[par]
		if pm == nil && par != d.pkg {
			return fmt.Errorf("symbol %s has no parent", s.name)
		}
		switch s.kind {
		case "m":
			m := &descriptorpb.DescriptorProto{Name: proto.String(base),
				ExtensionRange: []*descriptorpb.DescriptorProto_ExtensionRange{{Start: proto.Int32(100), End: proto.Int32(201)}}}
			msgs[s.name] = m
			if pm != nil {
				pm.NestedType = append(pm.NestedType, m)
			} else {
				fdp.MessageType = append(fdp.MessageType, m)
			}
		case "f":
			if pm == nil {
				return fmt.Errorf("field %s outside message", s.name)
			}
			pm.Field = append(pm.Field, &descriptorpb.FieldDescriptorProto{
				Name: proto.String(base), Number: proto.Int32(int32(len(pm.Field) + 1)),
				Label: descriptorpb.FieldDescriptorProto_LABEL_OPTIONAL.Enum(),
				Type:  descriptorpb.FieldDescriptorProto_TYPE_INT32.Enum(), JsonName: proto.String(base)})
		case "e":
			en := &descriptorpb.EnumDescriptorProto{Name: proto.String(base)}
			lastEnum = en
			if pm != nil {
				pm.EnumType = append(pm.EnumType, en)
			} else {
				fdp.EnumType = append(fdp.EnumType, en)
			}
		case "v":
			if lastEnum == nil {
				return fmt.Errorf("value %s without enum", s.name)
			}
			lastEnum.Value = append(lastEnum.Value, &descriptorpb.EnumValueDescriptorProto{
				Name: proto.String(base), Number: proto.Int32(int32(len(lastEnum.Value)))})
		case "x":
			x := &descriptorpb.FieldDescriptorProto{
				Name: proto.String(base), Number: proto.Int32(int32(s.tag)),
				Label:    descriptorpb.FieldDescriptorProto_LABEL_OPTIONAL.Enum(),
				Type:     descriptorpb.FieldDescriptorProto_TYPE_INT32.Enum(),
				Extendee: proto.String("." + s.extendee), JsonName: proto.String(base)}
			if pm != nil {
				pm.Extension = append(pm.Extension, x)
			} else {
				fdp.Extension = append(fdp.Extension, x)
			}
		default:
			return fmt.Errorf("bad kind %s", s.kind)
		}
	}
	d.text = printProto(fdp)
	if !d.src {
		fd, err := protodesc.NewFile(fdp, depResolver{deps})
		if err != nil {
			return err
		}
		d.fd = fd
		return nil
	}
	// compile from source so that the result carries an AST (the *result path)
	self := fmt.Sprintf("f%d.proto", d.id)
	// RetainASTs: without it the compiler drops the AST after linking and Symbols.Import treats the
	// result like a plain descriptor (importFile instead of importResult)
	c := protocompile.Compiler{RetainASTs: true, Resolver: protocompile.ResolverFunc(func(path string) (protocompile.SearchResult, error) {
		if path == self {
			return protocompile.SearchResult{Source: strings.NewReader(d.text)}, nil
		}
		// dependencies: the very descriptor objects defined earlier (file identity matters to Symbols)
		var find func(x *symDef) protoreflect.FileDescriptor
		find = func(x *symDef) protoreflect.FileDescriptor {
			for _, id := range x.deps {
				dd := e.defs[id]
				if dd.fd.Path() == path {
					return dd.fd
				}
				if r := find(dd); r != nil {
					return r
				}
			}
			return nil
		}
		if fd := find(d); fd != nil {
			return protocompile.SearchResult{Desc: fd}, nil
		}
		return protocompile.SearchResult{}, fmt.Errorf("not found: %s", path)
	})}
	files, err := c.Compile(context.Background(), fmt.Sprintf("f%d.proto", d.id))
	if err != nil {
		return err
	}
	d.fd = files[0]
	return nil
}

func printProto(fdp *descriptorpb.FileDescriptorProto) string {
	var b strings.Builder
	b.WriteString("syntax = \"proto2\";\n")
	if fdp.Package != nil {
		fmt.Fprintf(&b, "package %s;\n", fdp.GetPackage())
	}
	for _, d := range fdp.Dependency {
		fmt.Fprintf(&b, "import %q;\n", d)
	}
	var pe func(en *descriptorpb.EnumDescriptorProto)
	pe = func(en *descriptorpb.EnumDescriptorProto) {
		fmt.Fprintf(&b, "enum %s {", en.GetName())
		for _, v := range en.Value {
			fmt.Fprintf(&b, " %s = %d;", v.GetName(), v.GetNumber())
		}
		b.WriteString(" }\n")
	}
	px := func(x *descriptorpb.FieldDescriptorProto) {
		fmt.Fprintf(&b, "extend %s { optional int32 %s = %d; }\n", x.GetExtendee(), x.GetName(), x.GetNumber())
	}
	var pm func(m *descriptorpb.DescriptorProto)
	pm = func(m *descriptorpb.DescriptorProto) {
		fmt.Fprintf(&b, "message %s {\n", m.GetName())
		for _, f := range m.Field {
			fmt.Fprintf(&b, "optional int32 %s = %d;\n", f.GetName(), f.GetNumber())
		}
		for _, n := range m.NestedType {
			pm(n)
		}
		for _, en := range m.EnumType {
			pe(en)
		}
		for _, x := range m.Extension {
			px(x)
		}
		b.WriteString("extensions 100 to 200;\n}\n")
	}
	for _, m := range fdp.MessageType {
		pm(m)
	}
	for _, en := range fdp.EnumType {
		pe(en)
	}
	for _, x := range fdp.Extension {
		px(x)
	}
	return b.String()
}

type repLog struct {
	items []string
}

func classify(msg string) string {
	// symbol "a.M" already defined ... / extension with tag 5 for message a.M already defined / could not register extension
	if strings.HasPrefix(msg, "symbol ") {
		q := strings.SplitN(msg, "\"", 3)
		if len(q) >= 2 {
			return "sym:" + q[1]
		}
	}
	if strings.HasPrefix(msg, "extension with tag ") {
		var tag int
		var m string
		if _, err := fmt.Sscanf(msg, "extension with tag %d for message %s already", &tag, &m); err == nil {
			return fmt.Sprintf("ext:%s#%d", m, tag)
		}
	}
	if strings.Contains(msg, "missing package symbols") {
		q := strings.SplitN(msg, "\"", 3)
		if len(q) >= 2 {
			return "missingpkg:" + q[1]
		}
	}
	if strings.Contains(msg, "does not match package") {
		return "badextendee:" + Canon(msg)
	}
	return "other:" + Canon(msg)
}

func spanPath(s ast.SourceSpan) string {
	if s == nil {
		return "-"
	}
	return s.Start().Filename
}

func (e *symbolsEngine) Exec(op string) string {
	w := strings.Fields(op)
	if len(w) == 0 {
		return "bad-op"
	}
	switch w[0] {
	case "def":
		if len(w) < 5 {
			return "bad-op"
		}
		id, err := strconv.Atoi(w[1])
		if err != nil {
			return "bad-op"
		}
		d := &symDef{id: id, src: w[4] == "1"}
		if w[2] != "-" {
			d.pkg = w[2]
		}
		if w[3] != "-" {
			for _, x := range strings.Split(w[3], ",") {
				n, err := strconv.Atoi(x)
				if err != nil {
					return "bad-op"
				}
				d.deps = append(d.deps, n)
			}
		}
		for _, t := range w[5:] {
			st, ok := parseSymTok(t)
			if !ok {
				return "bad-op"
			}
			d.syms = append(d.syms, st)
		}
		if err := e.build(d); err != nil {
			return "bad-def " + Canon(err.Error())
		}
		e.defs[id] = d
		e.order = append(e.order, id)
		return "ok"
	case "import":
		if len(w) != 3 {
			return "bad-op"
		}
		id, _ := strconv.Atoi(w[1])
		d, ok := e.defs[id]
		if !ok {
			return "bad-op"
		}
		if w[2] == "shared" {
			before := len(e.sharedLog.items)
			err := e.tab.Import(d.fd, e.sharedH)
			r := "ok"
			if err != nil {
				r = "err"
			}
			return fmt.Sprintf("%s reported=[%s]", r, strings.Join(e.sharedLog.items[before:], " "))
		}
		var log repLog
		lenient := w[2] == "lenient"
		h := reporter.NewHandler(reporter.NewReporter(func(err reporter.ErrorWithPos) error {
			log.items = append(log.items, classify(err.Unwrap().Error()))
			if lenient {
				return nil
			}
			return err
		}, nil))
		err := e.tab.Import(d.fd, h)
		r := "ok"
		if err != nil {
			r = "err"
			var ewp reporter.ErrorWithPos
			if !errors.As(err, &ewp) && !errors.Is(err, reporter.ErrInvalidSource) {
				r = "err-other:" + Canon(err.Error())
			}
		}
		return fmt.Sprintf("%s reported=[%s]", r, strings.Join(log.items, " "))
	case "race":
		// concurrent imports (several importers) and lookups on fresh tables; the race detector sees
		// unsynchronised accesses, and independently of it every import that returned nil must be
		// visible to Lookup afterwards (a lost import is an answer, not only a race report)
		ids := append([]int{}, e.order...)
		lost := ""
		rounds := 150
		for round := 0; round < rounds && lost == ""; round++ {
			tab := &linker.Symbols{}
			var wg sync.WaitGroup
			okImp := make([]bool, len(ids))
			start := make(chan struct{})
			for gi := range ids {
				wg.Add(1)
				go func(gi int) {
					defer wg.Done()
					<-start
					h := reporter.NewHandler(reporter.NewReporter(func(err reporter.ErrorWithPos) error { return err }, nil))
					if err := tab.Import(e.defs[ids[gi]].fd, h); err == nil {
						okImp[gi] = true
					}
				}(gi)
			}
			for g := 0; g < 2; g++ {
				wg.Add(1)
				go func() {
					defer wg.Done()
					<-start
					for _, id := range ids {
						for _, sy := range e.defs[id].syms {
							_ = tab.Lookup(protoreflect.FullName(sy.name))
							if sy.kind == "x" {
								_ = tab.LookupExtension(protoreflect.FullName(sy.extendee), protoreflect.FieldNumber(sy.tag))
							}
						}
					}
				}()
			}
			close(start)
			wg.Wait()
			for gi, id := range ids {
				if !okImp[gi] {
					continue
				}
				for _, sy := range e.defs[id].syms {
					if tab.Lookup(protoreflect.FullName(sy.name)) == nil {
						lost = fmt.Sprintf("lost f%d %s", id, sy.name)
						break
					}
				}
				if lost != "" {
					break
				}
			}
			// ... and an import that returned an error must have left nothing behind (C17): a name of
			// a failed file that no successfully imported file defines must not be found. Files with
			// extensions are left out: extension-number collisions are detected after the commit
			// (recorded finding), also without any concurrency.
			if lost == "" {
				// names that may legitimately be visible: those of the successful imports, and those
				// of failed files with extensions (such a file may have been committed before its
				// extension-number collision was noticed — the recorded finding — and then its
				// names are what made ANOTHER file fail)
				okNames := map[string]bool{}
				for gi, id := range ids {
					hasExt := false
					for _, sy := range e.defs[id].syms {
						hasExt = hasExt || sy.kind == "x"
					}
					if okImp[gi] || hasExt {
						for _, sy := range e.defs[id].syms {
							okNames[sy.name] = true
						}
					}
				}
			residue:
				for gi, id := range ids {
					if okImp[gi] {
						continue
					}
					for _, sy := range e.defs[id].syms {
						if sy.kind == "x" {
							continue residue
						}
					}
					for _, sy := range e.defs[id].syms {
						if !okNames[sy.name] && tab.Lookup(protoreflect.FullName(sy.name)) != nil {
							lost = fmt.Sprintf("residue f%d %s", id, sy.name)
							break residue
						}
					}
				}
			}
		}
		if lost != "" {
			return lost
		}
		return "ok"
	case "dump":
		var names []string
		seenN := map[string]bool{}
		type en struct {
			m string
			t int
		}
		var exts []en
		seenE := map[en]bool{}
		for _, id := range e.order {
			d := e.defs[id]
			var local []string
			for _, s := range d.syms {
				local = append(local, s.name)
			}
			if d.pkg != "" {
				parts := strings.Split(d.pkg, ".")
				for i := range parts {
					local = append(local, strings.Join(parts[:i+1], "."))
				}
			}
			for _, n := range local {
				if !seenN[n] {
					seenN[n] = true
					names = append(names, n)
				}
			}
			for _, s := range d.syms {
				if s.kind == "x" {
					k := en{s.extendee, s.tag}
					if !seenE[k] {
						seenE[k] = true
						exts = append(exts, k)
					}
				}
			}
		}
		var a, b []string
		for _, n := range names {
			a = append(a, n+"="+spanPath(e.tab.Lookup(protoreflect.FullName(n))))
		}
		for _, x := range exts {
			b = append(b, fmt.Sprintf("%s#%d=%s", x.m, x.t, spanPath(e.tab.LookupExtension(protoreflect.FullName(x.m), protoreflect.FieldNumber(x.t)))))
		}
		return "syms " + strings.Join(a, " ") + " exts " + strings.Join(b, " ")
	}
	return "bad-op"
}

func (e *symbolsEngine) Trivial(op, ans string) bool { return ans == "ok" }
func (e *symbolsEngine) Class(op, ans string) string {
	w := strings.Fields(op)
	if w[0] == "import" {
		switch {
		case strings.HasPrefix(ans, "ok reported=[]"):
			return "import-ok"
		case strings.Contains(ans, "ext:"):
			return "import-ext-collision"
		case strings.Contains(ans, "sym:"):
			return "import-sym-collision"
		}
		return "import-other"
	}
	return w[0]
}

// ---- generator

type genFile struct {
	id   int
	pkg  string
	deps []int
	src  bool
	syms []symTok
	msgs []string // fq message names defined
}

func (g *genFile) line() string {
	deps := "-"
	if len(g.deps) > 0 {
		var s []string
		for _, d := range g.deps {
			s = append(s, strconv.Itoa(d))
		}
		deps = strings.Join(s, ",")
	}
	pkg := g.pkg
	if pkg == "" {
		pkg = "-"
	}
	src := "0"
	if g.src {
		src = "1"
	}
	var toks []string
	for _, s := range g.syms {
		if s.kind == "x" {
			toks = append(toks, fmt.Sprintf("x:%s>%s#%d", s.name, s.extendee, s.tag))
		} else {
			toks = append(toks, s.kind+":"+s.name)
		}
	}
	return strings.TrimSpace(fmt.Sprintf("def %d %s %s %s %s", g.id, pkg, deps, src, strings.Join(toks, " ")))
}

func genSymFile(r *Rand, id int, prev []*genFile, allowSrc bool) *genFile {
	pkgs := []string{"", "a", "a.b", "b", "a.b.c"}
	names := []string{"M", "N", "b", "c", "E", "x"}
	g := &genFile{id: id, pkg: Pick(r, pkgs), src: allowSrc && r.Chance(1, 3)}
	q := func(n string) string {
		if g.pkg == "" {
			return n
		}
		return g.pkg + "." + n
	}
	used := map[string]bool{}
	// deps: a few previous files (for extendees)
	var extendable []string
	for _, p := range prev {
		if r.Chance(1, 3) && len(p.msgs) > 0 {
			g.deps = append(g.deps, p.id)
			extendable = append(extendable, p.msgs...)
		}
	}
	if g.src {
		// a source-compiled file needs source-compilable deps without mutual collisions: keep at most one dep
		if len(g.deps) > 1 {
			g.deps = g.deps[:1]
			extendable = nil
			for _, p := range prev {
				if p.id == g.deps[0] {
					extendable = append(extendable, p.msgs...)
				}
			}
		}
	}
	nm := r.Intn(3)
	var msgToks, enumToks, extToks []symTok
	for i := 0; i < nm; i++ {
		n := Pick(r, names)
		if used[n] {
			continue
		}
		used[n] = true
		fq := q(n)
		msgToks = append(msgToks, symTok{kind: "m", name: fq})
		g.msgs = append(g.msgs, fq)
		inner := map[string]bool{}
		for j := r.Intn(3); j > 0; j-- {
			f := Pick(r, []string{"f", "g", "M", "b"})
			if !inner[f] {
				inner[f] = true
				msgToks = append(msgToks, symTok{kind: "f", name: fq + "." + f})
			}
		}
		if r.Chance(1, 3) {
			nn := Pick(r, []string{"N", "c", "I"})
			if !inner[nn] {
				inner[nn] = true
				msgToks = append(msgToks, symTok{kind: "m", name: fq + "." + nn})
				g.msgs = append(g.msgs, fq+"."+nn)
			}
		}
	}
	if r.Chance(1, 2) {
		n := Pick(r, []string{"E", "F", "M"})
		if !used[n] {
			used[n] = true
			enumToks = append(enumToks, symTok{kind: "e", name: q(n)})
			nv := 0
			for _, v := range []string{"V", "W", "N", "c"} {
				if (nv == 0 || r.Chance(1, 3)) && !used[v] {
					used[v] = true
					nv++
					enumToks = append(enumToks, symTok{kind: "v", name: q(v)})
				}
			}
		}
	}
	pool := append(append([]string{}, g.msgs...), extendable...)
	if len(pool) > 0 {
		nx := r.Intn(3)
		seen := map[string]bool{}
		for i := 0; i < nx; i++ {
			n := Pick(r, []string{"x", "y", "c"})
			if used[n] {
				continue
			}
			ext := Pick(r, pool)
			tag := 100 + r.Intn(3)
			k := fmt.Sprintf("%s#%d", ext, tag)
			if seen[k] && !r.Chance(1, 8) {
				continue
			}
			seen[k] = true
			used[n] = true
			extToks = append(extToks, symTok{kind: "x", name: q(n), extendee: ext, tag: tag})
		}
	}
	g.syms = append(append(msgToks, enumToks...), extToks...)
	return g
}

func (e *symbolsEngine) Gen(r *Rand, tier string) [][]string {
	var cases [][]string
	// directed cases (boundary histories)
	cases = append(cases,
		// extension-number collision after the symbols were committed
		[]string{"def 1 a - 0 m:a.M", "def 2 a 1 0 m:a.N x:a.x>a.M#100", "def 3 a 1 0 m:a.P x:a.y>a.M#100",
			"import 1 strict", "import 2 strict", "dump", "import 3 strict", "dump", "import 3 strict", "dump"},
		// name collision in a new package: packages get registered before the check
		[]string{"def 1 a - 0 m:a.M", "def 2 a.b - 0 m:a.b.M", "def 3 a - 0 m:a.b", "def 4 c.d - 0 m:c.d.M m:c.d.Q", "def 5 c.d - 0 m:c.d.M", "def 6 c - 0 m:c.d",
			"import 1 strict", "dump", "import 4 strict", "import 5 strict", "dump", "import 6 strict", "dump", "import 2 strict", "dump", "import 3 strict", "dump"},
		// one lenient handler reused across imports: a later collision must still fail and not commit
		[]string{"def 1 d - 0 m:d.M", "def 2 d - 0 m:d.M m:d.OnlyInB", "def 3 d - 0 m:d.M m:d.OnlyInC",
			"import 1 shared", "dump", "import 2 shared", "dump", "import 3 shared", "dump", "import 3 shared", "dump"},
		[]string{"def 1 - - 0 m:M e:E v:V", "def 2 - - 0 m:V", "def 3 - - 0 e:F v:M", "import 1 lenient", "import 2 lenient", "dump", "import 3 strict", "dump", "import 2 strict", "dump"},
	)
	n := 250
	if tier == "thorough" {
		n = 8000
	}
	for i := 0; i < n; i++ {
		var c []string
		var files []*genFile
		nf := 2 + r.Intn(5)
		allowSrc := i%3 == 0
		for id := 1; id <= nf; id++ {
			g := genSymFile(r, id, files, allowSrc)
			files = append(files, g)
			c = append(c, g.line())
		}
		// import order: mostly topological with repeats; dump after each import
		order := r.permN(nf)
		sharedCase := i%5 == 4
		for _, k := range order {
			mode := "strict"
			if r.Chance(1, 3) {
				mode = "lenient"
			}
			if sharedCase && r.Chance(3, 4) {
				mode = "shared"
			}
			c = append(c, fmt.Sprintf("import %d %s", k+1, mode), "dump")
			if r.Chance(1, 4) {
				c = append(c, fmt.Sprintf("import %d %s", k+1, mode), "dump")
			}
		}
		// keep only cases whose files are individually valid (generator hygiene, not filtering of outcomes)
		scratch := &symbolsEngine{}
		scratch.Reset()
		okDefs := true
		for _, l := range c {
			if strings.HasPrefix(l, "def ") && scratch.Exec(l) != "ok" {
				okDefs = false
				break
			}
		}
		if okDefs {
			if i%8 == 0 {
				c = append(c, "race")
			}
			cases = append(cases, c)
		}
	}
	return cases
}

func (r *Rand) permN(n int) []int {
	p := make([]int, n)
	for i := range p {
		p[i] = i
	}
	// mostly ascending (topological), sometimes shuffled
	if r.Chance(1, 3) {
		for i := n - 1; i > 0; i-- {
			j := r.Intn(i + 1)
			p[i], p[j] = p[j], p[i]
		}
	}
	return p
}
