package engines

import (
	"context"
	"fmt"
	"sort"
	"strconv"
	"strings"
	"sync"
	"time"

	"github.com/bufbuild/protocompile/experimental/incremental"
	"github.com/bufbuild/protocompile/experimental/report"
	"github.com/bufbuild/protocompile/experimental/source"
)

// incr_collect (C36, executor clause): the diagnostic-collection walk at the end of
// incremental.Run (executor.go, "Record all diagnostics ...") followed by Report.Canonicalize,
// on synthetic query graphs whose queries only resolve their dependencies and emit diagnostics.
//
// Ops (one case = one executor history):
//   new <p>                               fresh executor, parallelism p (forgets the run/evict history)
//   node <k> <deps|-> <stage> <diag>...   query k: ONE Resolve of the listed queries (a key may be listed twice),
//                                         Report().Options.Stage += stage, then the diagnostics in order
//       diag = <e|w|r>[#<tag>]=<msg>[@<file>:<start>-<end>][+<note>]
//              (error / warning / remark; files 1 and 2 are in-memory sources s1.proto, s2.proto of 40 bytes)
//   evict <k>...                          Executor.Evict
//   run <k>...                            Run with these queries in this order; answer = the ORDERED diagnostics of the report
//   runm <k>...                           the same, answered as a SORTED multiset (graphs with diagnostics that tie on the sort key)
// After " ~ " (not compared with the model): the same history replayed on brand-new executors at the
// other parallelisms of {1,2,4,8} and with the requested queries reversed and rotated: `same` or
// `differs <which> ...`.
// Answer line per diagnostic: L<level>|<tag>|<message>|<path>:<start>-<end>|<notes>

const incrcText = "0123456789012345678901234567890123456789"

type incrcDiag struct {
	level      report.Level
	tag, msg   string
	file       int // 0 = no span
	start, end int
	note       string
}

type incrcNode struct {
	deps  []int
	stage int
	diags []incrcDiag
}

type incrcWorld struct {
	mu    sync.Mutex
	nodes map[int]*incrcNode
	files [3]*source.File
}

type incrcQ struct {
	id int
	w  *incrcWorld
}

func (q incrcQ) Key() any { return q.id }

func (q incrcQ) Execute(t *incremental.Task) (int, error) {
	q.w.mu.Lock()
	n := q.w.nodes[q.id]
	q.w.mu.Unlock()
	if n == nil {
		panic(fmt.Sprintf("undefined query %d", q.id))
	}
	if len(n.deps) > 0 {
		qs := make([]incremental.Query[int], len(n.deps))
		for i, d := range n.deps {
			qs[i] = incrcQ{d, q.w}
		}
		if _, err := incremental.Resolve(t, qs...); err != nil {
			return 0, err
		}
	}
	r := t.Report()
	r.Options.Stage += n.stage
	for _, d := range n.diags {
		var opts []report.DiagnosticOption
		if d.tag != "" {
			opts = append(opts, report.Tag(d.tag))
		}
		if d.file != 0 {
			opts = append(opts, report.Snippet(q.w.files[d.file].Span(d.start, d.end)))
		}
		if d.note != "" {
			opts = append(opts, report.Notef("%s", d.note))
		}
		r.Levelf(d.level, "%s", d.msg).Apply(opts...)
	}
	return q.id, nil
}

type incrcEngine struct {
	p    int
	ex   *incremental.Executor
	w    *incrcWorld
	hist []string // run/evict ops since `new`
}

func init() { Register("incr_collect", func() Engine { return &incrcEngine{} }) }

func (e *incrcEngine) Name() string { return "incr_collect" }

func (e *incrcEngine) Reset() {
	e.w = &incrcWorld{nodes: map[int]*incrcNode{}}
	e.w.files[1] = source.NewFile("s1.proto", incrcText)
	e.w.files[2] = source.NewFile("s2.proto", incrcText)
	e.p = 1
	e.ex = incremental.New(incremental.WithParallelism(1))
	e.hist = nil
}

func incrcParseDiag(s string) (incrcDiag, bool) {
	var d incrcDiag
	if len(s) < 2 {
		return d, false
	}
	switch s[0] {
	case 'e':
		d.level = report.Error
	case 'w':
		d.level = report.Warning
	case 'r':
		d.level = report.Remark
	default:
		return d, false
	}
	rest := s[1:]
	if strings.HasPrefix(rest, "#") {
		i := strings.IndexByte(rest, '=')
		if i < 0 {
			return d, false
		}
		d.tag, rest = rest[1:i], rest[i:]
	}
	if !strings.HasPrefix(rest, "=") {
		return d, false
	}
	rest = rest[1:]
	if i := strings.IndexByte(rest, '+'); i >= 0 {
		d.note, rest = rest[i+1:], rest[:i]
	}
	if i := strings.IndexByte(rest, '@'); i >= 0 {
		sp := rest[i+1:]
		rest = rest[:i]
		var f, a, b int
		if n, err := fmt.Sscanf(sp, "%d:%d-%d", &f, &a, &b); n != 3 || err != nil || f < 1 || f > 2 || a < 0 || b < a || b > len(incrcText) {
			return d, false
		}
		d.file, d.start, d.end = f, a, b
	}
	d.msg = rest
	return d, d.msg != ""
}

func incrcRender(rep *report.Report) []string {
	if rep == nil {
		return nil
	}
	out := make([]string, 0, len(rep.Diagnostics))
	for i := range rep.Diagnostics {
		d := &rep.Diagnostics[i]
		v := report.VerifViewDiagnostic(d)
		pr := d.Primary()
		out = append(out, Canon(fmt.Sprintf("L%d|%s|%s|%s:%d-%d|%s", int(v.Level), v.Tag, v.Message, pr.Path(), pr.Start, pr.End, strings.Join(v.Notes, ","))))
	}
	return out
}

// incrcRunOn performs one Run under a soft deadline.
func (e *incrcEngine) runOn(ex *incremental.Executor, roots []int) ([]string, string) {
	type res struct {
		lines []string
		err   string
	}
	ch := make(chan res, 1)
	go func() {
		defer func() {
			if r := recover(); r != nil {
				ch <- res{err: "PANIC:" + Canon(fmt.Sprint(r))}
			}
		}()
		qs := make([]incremental.Query[int], len(roots))
		for i, k := range roots {
			qs[i] = incrcQ{k, e.w}
		}
		_, rep, err := incremental.Run(context.Background(), ex, qs...)
		if err != nil {
			ch <- res{err: "E:" + incrErrClass(err)}
			return
		}
		ch <- res{lines: incrcRender(rep)}
	}()
	timer := time.NewTimer(5 * time.Second)
	defer timer.Stop()
	hardCap := time.Now().Add(incrHardCap)
	quiet := 0
	for {
		select {
		case r := <-ch:
			return r.lines, r.err
		case <-timer.C:
			if incrAllParked() {
				quiet++
			} else {
				quiet = 0
			}
			if quiet >= incrQuietSamples || time.Now().After(hardCap) {
				return nil, "hang"
			}
			timer.Reset(incrSampleEvery)
		}
	}
}

func incrcShow(lines []string, sorted bool) string {
	if len(lines) == 0 {
		return "-"
	}
	l := append([]string{}, lines...)
	if sorted {
		sort.Strings(l)
	}
	return strings.Join(l, " ; ")
}

func incrcRoots(ws []string) ([]int, bool) {
	var out []int
	for _, s := range ws {
		k, err := strconv.Atoi(s)
		if err != nil || k < 0 {
			return nil, false
		}
		out = append(out, k)
	}
	return out, len(out) > 0
}

// incrcPermute: variant 0 = as given, 1 = reversed, 2 = rotated by one.
func incrcPermute(roots []int, variant int) []int {
	out := append([]int{}, roots...)
	switch variant {
	case 1:
		for i, j := 0, len(out)-1; i < j; i, j = i+1, j-1 {
			out[i], out[j] = out[j], out[i]
		}
	case 2:
		if len(out) > 1 {
			out = append(out[1:], out[0])
		}
	}
	return out
}

// replay runs the recorded history plus the final run on a brand-new executor.
func (e *incrcEngine) replay(p int, variant int, final []int) ([]string, string) {
	ex := incremental.New(incremental.WithParallelism(int64(p)))
	for _, h := range e.hist {
		w := strings.Fields(h)
		ks, _ := incrcRoots(w[1:])
		switch w[0] {
		case "evict":
			var keys []any
			for _, k := range ks {
				keys = append(keys, k)
			}
			ex.Evict(keys...)
		default:
			if _, err := e.runOn(ex, incrcPermute(ks, variant)); err != "" {
				return nil, err
			}
		}
	}
	return e.runOn(ex, incrcPermute(final, variant))
}

func (e *incrcEngine) Exec(op string) string {
	w := strings.Fields(op)
	if len(w) == 0 {
		return "bad-op"
	}
	switch w[0] {
	case "new":
		if len(w) != 2 {
			return "bad-op"
		}
		p, err := strconv.Atoi(w[1])
		if err != nil || p < 1 || p > 64 {
			return "bad-op"
		}
		e.p = p
		e.ex = incremental.New(incremental.WithParallelism(int64(p)))
		e.hist = nil
		return "ok"
	case "node":
		if len(w) < 4 {
			return "bad-op"
		}
		k, err1 := strconv.Atoi(w[1])
		deps, ok := incrInts(w[2])
		stage, err2 := strconv.Atoi(w[3])
		if err1 != nil || err2 != nil || !ok || k < 0 || stage < 0 {
			return "bad-op"
		}
		n := &incrcNode{deps: deps, stage: stage}
		for _, t := range w[4:] {
			d, ok := incrcParseDiag(t)
			if !ok {
				return "bad-op"
			}
			n.diags = append(n.diags, d)
		}
		e.w.mu.Lock()
		e.w.nodes[k] = n
		e.w.mu.Unlock()
		return "ok"
	case "evict":
		ks, ok := incrcRoots(w[1:])
		if !ok {
			return "bad-op"
		}
		var keys []any
		for _, k := range ks {
			keys = append(keys, k)
		}
		e.ex.Evict(keys...)
		e.hist = append(e.hist, op)
		return "ok"
	case "run", "runm":
		roots, ok := incrcRoots(w[1:])
		if !ok {
			return "bad-op"
		}
		for _, k := range roots {
			if e.w.nodes[k] == nil {
				return "bad-op"
			}
		}
		sorted := w[0] == "runm"
		lines, errs := e.runOn(e.ex, roots)
		if errs != "" {
			return errs
		}
		main := incrcShow(lines, sorted)
		// executor clause: the same history on fresh executors, other parallelisms, permuted requests
		verdict := "same"
		type alt struct{ p, variant int }
		alts := []alt{{e.p, 1}, {e.p, 2}}
		for _, p := range []int{1, 2, 4, 8} {
			if p != e.p {
				alts = append(alts, alt{p, 0}, alt{p, 1})
			}
		}
		for _, a := range alts {
			l2, err2 := e.replay(a.p, a.variant, roots)
			got := incrcShow(l2, sorted)
			if err2 != "" {
				got = err2
			}
			if got != main {
				verdict = fmt.Sprintf("differs p=%d roots-variant=%d n=%d/%d got[%s]", a.p, a.variant, len(lines), len(l2), got)
				break
			}
		}
		e.hist = append(e.hist, "run "+strings.Join(w[1:], " "))
		return main + " ~ " + Canon(verdict)
	}
	return "bad-op"
}

func (e *incrcEngine) Trivial(op, ans string) bool {
	return ans == "ok" || strings.HasPrefix(ans, "- ~")
}

func (e *incrcEngine) Class(op, ans string) string {
	w := strings.Fields(op)
	if w[0] == "run" || w[0] == "runm" {
		if strings.Contains(ans, " ~ differs") {
			return w[0] + "-differs"
		}
		if strings.HasPrefix(ans, "- ~") {
			return w[0] + "-no-diagnostics"
		}
		return w[0]
	}
	return w[0]
}

// ---- generator

func incrcDiagTok(r *Rand, k, j int, spans bool) string {
	lv := Pick(r, []string{"e", "w", "r"})
	t := lv
	if r.Chance(1, 4) {
		t += fmt.Sprintf("#T%d_%d", k, j)
	}
	t += fmt.Sprintf("=m%d_%d", k, j)
	if spans && r.Chance(2, 3) {
		a := r.Intn(30)
		t += fmt.Sprintf("@%d:%d-%d", 1+r.Intn(2), a, a+r.Intn(9))
	}
	if r.Chance(1, 5) {
		t += fmt.Sprintf("+n%d", j)
	}
	return t
}

func incrcNodeLine(r *Rand, k int, deps []int, spans bool, maxDiags int) string {
	stage := 0
	if r.Chance(1, 3) {
		stage = r.Intn(3)
	}
	parts := []string{"node", strconv.Itoa(k), incrJoin(deps), strconv.Itoa(stage)}
	for j := r.Intn(maxDiags + 1); j > 0; j-- {
		parts = append(parts, incrcDiagTok(r, k, j, spans))
	}
	return strings.Join(parts, " ")
}

func (e *incrcEngine) Gen(r *Rand, tier string) [][]string {
	thorough := tier == "thorough"
	var cases [][]string
	ps := []int{1, 2, 4, 8}
	// directed
	cases = append(cases,
		// diamond: node 0 reachable over two paths, untagged diagnostics (a double visit would show)
		[]string{"new 2", "node 0 - 0 e=leaf w=leaf2", "node 1 0 0 e=left", "node 2 0 0 e=right", "node 3 1,2 0 w=top", "run 3", "run 3", "run 1 2", "run 2 1 3", "evict 0", "run 3"},
		// a dependency resolved twice in one Resolve; a root that is a dependency of another root
		[]string{"new 4", "node 0 - 0 e=a", "node 1 0,0 1 w=b", "node 2 1,0,1 0 r=c", "run 2 1", "run 1 2 0", "run 0 0"},
		// the same tagged diagnostic (tag + span + message) from two different queries: Canonicalize drops one
		[]string{"new 1", "node 0 - 0 w#T=dup@1:2-5", "node 1 - 0 w#T=dup@1:2-5 e=own1", "node 2 0,1 0 e=top", "run 2", "run 1 0", "run 0"},
		// spans in two files, stages, chains
		[]string{"new 8", "node 0 - 2 e=x@2:0-3 w=y@1:5-9", "node 1 0 0 e=z@1:5-9 r=q", "node 2 1 1 w#K=k@2:0-3", "node 3 2 0", "run 3", "evict 1", "run 3 0", "run 0 3"},
		// diagnostics that tie on the sort key but differ (note / level): order is schedule dependent, compared as multisets
		[]string{"new 4", "node 0 - 0 e=tie", "node 1 - 0 e=tie+note", "node 2 - 0 w=tie", "node 3 0,1,2 0 e=top", "runm 3", "runm 2 1 0", "runm 3 0"},
	)
	// exhaustive: every DAG on n <= 4 nodes (edges towards smaller keys), distinct messages
	maxN := 4
	for n := 1; n <= maxN; n++ {
		pairs := n * (n - 1) / 2
		for mask := uint64(0); mask < 1<<uint(pairs); mask++ {
			if !thorough && n == 4 && mask%3 != uint64(r.Intn(3)) {
				continue
			}
			c := []string{fmt.Sprintf("new %d", ps[int(mask)%4])}
			bit := 0
			for i := 0; i < n; i++ {
				var deps []int
				for j := 0; j < i; j++ {
					if mask&(1<<uint(bit)) != 0 {
						deps = append(deps, j)
					}
					bit++
				}
				if r.Chance(1, 2) {
					deps = incrShuffle(r, deps)
				}
				if len(deps) > 0 && r.Chance(1, 5) {
					deps = append(deps, deps[0])
				}
				c = append(c, incrcNodeLine(r, i, deps, n >= 3 && r.Chance(1, 2), 3))
			}
			all := make([]int, n)
			for i := range all {
				all[i] = i
			}
			c = append(c, fmt.Sprintf("run %d", n-1), "run "+strings.Join(incrIntsToStrs(incrShuffle(r, all)), " "))
			if n > 1 {
				k := r.Intn(n)
				c = append(c, fmt.Sprintf("evict %d", k), "run "+strings.Join(incrIntsToStrs(incrRandRoots(r, n, 3)), " "), fmt.Sprintf("run %d", n-1))
			}
			cases = append(cases, c)
		}
	}
	// random: bigger graphs (chains, shared deep nodes), key-distinct
	nr := 60
	if thorough {
		nr = 2500
	}
	for i := 0; i < nr; i++ {
		n := 3 + r.Intn(7)
		c := []string{fmt.Sprintf("new %d", Pick(r, ps))}
		spans := r.Chance(1, 2)
		for k := 0; k < n; k++ {
			var deps []int
			for j := 0; j < k; j++ {
				if r.Chance(1, 3) || (j == k-1 && r.Chance(1, 2)) || (j == 0 && r.Chance(1, 3)) {
					deps = append(deps, j)
				}
			}
			deps = incrShuffle(r, deps)
			if len(deps) > 0 && r.Chance(1, 6) {
				deps = append(deps, Pick(r, deps))
			}
			c = append(c, incrcNodeLine(r, k, deps, spans, 3))
		}
		for s := 2 + r.Intn(4); s > 0; s-- {
			if r.Chance(1, 4) {
				c = append(c, "evict "+strings.Join(incrIntsToStrs(incrRandRoots(r, n, 2)), " "))
			}
			c = append(c, "run "+strings.Join(incrIntsToStrs(incrRandRoots(r, n, 4)), " "))
		}
		cases = append(cases, c)
	}
	// tie family: pairs of nodes emitting key-equal but different diagnostics; cross-node tagged duplicates
	nt := 12
	if thorough {
		nt = 300
	}
	for i := 0; i < nt; i++ {
		n := 3 + r.Intn(4)
		c := []string{fmt.Sprintf("new %d", Pick(r, ps))}
		for k := 0; k < n; k++ {
			var deps []int
			for j := 0; j < k; j++ {
				if r.Chance(1, 2) {
					deps = append(deps, j)
				}
			}
			line := []string{"node", strconv.Itoa(k), incrJoin(deps), "0"}
			sp := ""
			if r.Chance(1, 2) {
				sp = "@1:3-7"
			}
			switch r.Intn(4) {
			case 0:
				line = append(line, "e=tie"+sp)
			case 1:
				line = append(line, "e=tie"+sp+fmt.Sprintf("+n%d", k))
			case 2:
				line = append(line, "w=tie"+sp)
			default:
				line = append(line, fmt.Sprintf("e=own%d", k))
			}
			c = append(c, strings.Join(line, " "))
		}
		all := make([]int, n)
		for k := range all {
			all[k] = k
		}
		c = append(c, fmt.Sprintf("runm %d", n-1), "runm "+strings.Join(incrIntsToStrs(incrShuffle(r, all)), " "))
		cases = append(cases, c)
	}
	return cases
}
