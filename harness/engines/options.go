package engines

import (
	"context"
	"fmt"
	"math"
	"math/big"
	"sort"
	"strconv"
	"strings"

	"github.com/bufbuild/protocompile"
	"github.com/bufbuild/protocompile/linker"
	"github.com/bufbuild/protocompile/options"
	"github.com/bufbuild/protocompile/parser"
	"github.com/bufbuild/protocompile/reporter"
	"google.golang.org/protobuf/proto"
	"google.golang.org/protobuf/reflect/protodesc"
	"google.golang.org/protobuf/reflect/protoreflect"
	"google.golang.org/protobuf/reflect/protoregistry"
	"google.golang.org/protobuf/types/descriptorpb"
	"google.golang.org/protobuf/types/dynamicpb"
)

// options / optmodes: options.InterpretOptions, InterpretOptionsLenient, InterpretUnlinkedOptions (C20, C21).
//
// A case is   schema <hex s.proto> <hex t.proto> ABS <abstract schema tokens>
//             opt <syntax> <element> <n> <statement>*          (any number of these)
//
// The schema sources are compiled by the real compiler; the abstract schema after ABS (what the Lean
// model reads) is derived from the linked descriptors at generation time and re-derived and compared
// at execution time. An `opt` op is rendered to a file u.proto that imports s.proto and carries the
// option statements on one element; the file is parsed, linked and interpreted by hand (parser.Parse,
// parser.ResultFromAST, linker.Link, options.Interpret*) so that nothing after option interpretation
// (ValidateOptions, ...) contributes to accept/reject.
//
// statement  <nparts> <part>* <value>         part = n:<name> | x:<fqn>
// value      u:<dec> | i:<dec> (the literal -<dec>) | f:<bits16hex> | nf:<bits> | bu:<bits> | bn:<bits>
//            | id:<ident> | ni:<ident> (the literal -<ident>) | s:<hex> | { <field>* } | [ <value>* ]
// field      <fname> <sep> <value>            fname = n:<name> | x:<fqn> | a:<host>/<fqn>   sep = : | _
//
// answers    options:   <mode result of strict>
//            optmodes:  S=<r> L=<r> U=<r> C=<r>     (strict, lenient, unlinked, strict on what unlinked consumed)
// mode result  ok <tree> r=<remaining statement indexes|-> [n=<k> [DIFF <i>:<tree>,r=<rest>]*] d=<hex default|-> j=<hex json_name|->
//              (n=: number of elements sharing the options clause, e.g. the ranges of one `extensions`
//              statement; every one of them is decoded, DIFF lists those that differ from the first)
//            | err <class> | linkerr <class> | parseerr

type optionsEngine struct {
	name string
	st   *optState
}

func init() {
	Register("options", func() Engine { return &optionsEngine{name: "options"} })
	Register("optmodes", func() Engine { return &optionsEngine{name: "optmodes"} })
}

func (e *optionsEngine) Name() string { return e.name }
func (e *optionsEngine) Reset()       { e.st = nil }

// ---------------------------------------------------------------- abstract schema

type optField struct {
	Name     string
	Num      int
	Kind     string // i32 i64 u32 u64 s32 s64 fx32 fx64 sfx32 sfx64 flt dbl bool str byt e<i> m<i> g<i>
	Card     byte   // o q r
	IsMap    bool
	Presence bool
	Oneof    int // -1 none
	Targets  []int
	Intro    int
	Removed  int
	Full     string
	Extendee string // "" for ordinary fields
	Utf8     bool   // string field whose UTF-8 validity the runtime enforces
}

type optMsg struct {
	Full, Short, Parent string
	MsgSet              bool
	Fields              []optField
}

type optEnum struct {
	Full   string
	Closed bool
	Names  []string
	Nums   []int32
	Intro  []int // feature_support.edition_introduced of the values (0 = unset)
	Remov  []int
}

type optSchema struct {
	Enums  []optEnum
	Msgs   []optMsg
	Exts   []optField
	OptIdx [9]int
	Dyn    bool // see optVariant.Dyn
	enumIx map[string]int
	msgIx  map[string]int
}

var optOptionsNames = [9]string{"FileOptions", "MessageOptions", "FieldOptions", "OneofOptions",
	"ExtensionRangeOptions", "EnumOptions", "EnumValueOptions", "ServiceOptions", "MethodOptions"}

// element kind -> (index into optOptionsNames, target type number)
var optElems = map[string][2]int{
	"file": {0, 1}, "message": {1, 3}, "field": {2, 4}, "extfield": {2, 4}, "oneof": {3, 5},
	"extrange": {4, 2}, "enum": {5, 6}, "enumvalue": {6, 7}, "service": {7, 8}, "method": {8, 9},
	// further places where options are attached (same options messages, other traversal paths)
	"oneoffield": {2, 4}, "nfield": {2, 4}, "nextfield": {2, 4}, "mapfield": {2, 4}, "groupfield": {2, 4},
	"groupmsg": {1, 3}, "nmessage": {1, 3}, "nenum": {5, 6}, "nenumvalue": {6, 7},
}

// element kinds that take <kind>:<label>
var optFieldLike = map[string]bool{"field": true, "extfield": true, "oneoffield": true, "nfield": true, "nextfield": true}

// element kinds whose answer carries d= / j=
var optHasPseudo = map[string]bool{"field": true, "extfield": true, "oneoffield": true, "nfield": true, "nextfield": true,
	"mapfield": true, "groupfield": true}

func optKindTok(fd protoreflect.FieldDescriptor, s *optSchema) string {
	switch fd.Kind() {
	case protoreflect.Int32Kind:
		return "i32"
	case protoreflect.Int64Kind:
		return "i64"
	case protoreflect.Uint32Kind:
		return "u32"
	case protoreflect.Uint64Kind:
		return "u64"
	case protoreflect.Sint32Kind:
		return "s32"
	case protoreflect.Sint64Kind:
		return "s64"
	case protoreflect.Fixed32Kind:
		return "fx32"
	case protoreflect.Fixed64Kind:
		return "fx64"
	case protoreflect.Sfixed32Kind:
		return "sfx32"
	case protoreflect.Sfixed64Kind:
		return "sfx64"
	case protoreflect.FloatKind:
		return "flt"
	case protoreflect.DoubleKind:
		return "dbl"
	case protoreflect.BoolKind:
		return "bool"
	case protoreflect.StringKind:
		return "str"
	case protoreflect.BytesKind:
		return "byt"
	case protoreflect.EnumKind:
		return "e" + strconv.Itoa(s.enumIx[string(fd.Enum().FullName())])
	case protoreflect.MessageKind:
		return "m" + strconv.Itoa(s.msgIx[string(fd.Message().FullName())])
	case protoreflect.GroupKind:
		return "g" + strconv.Itoa(s.msgIx[string(fd.Message().FullName())])
	}
	return "?"
}

func optEditionNum(e descriptorpb.Edition) int { return int(e) }

func optFieldOf(fd protoreflect.FieldDescriptor, s *optSchema) optField {
	f := optField{Name: string(fd.Name()), Num: int(fd.Number()), Kind: optKindTok(fd, s), Oneof: -1,
		Full: string(fd.FullName()), IsMap: fd.IsMap(), Presence: fd.HasPresence()}
	switch fd.Cardinality() {
	case protoreflect.Required:
		f.Card = 'q'
	case protoreflect.Repeated:
		f.Card = 'r'
	default:
		f.Card = 'o'
	}
	if oo := fd.ContainingOneof(); oo != nil {
		f.Oneof = oo.Index()
	}
	if fd.IsExtension() {
		f.Extendee = string(fd.ContainingMessage().FullName())
	}
	f.Utf8 = fd.Kind() == protoreflect.StringKind && fd.Syntax() == protoreflect.Proto3
	if fo, ok := fd.Options().(*descriptorpb.FieldOptions); ok && fo != nil {
		for _, t := range fo.GetTargets() {
			f.Targets = append(f.Targets, int(t))
		}
		if fs := fo.GetFeatureSupport(); fs != nil {
			if fs.EditionIntroduced != nil {
				f.Intro = optEditionNum(fs.GetEditionIntroduced())
			}
			if fs.EditionRemoved != nil {
				f.Removed = optEditionNum(fs.GetEditionRemoved())
			}
		}
	}
	return f
}

// optDeriveSchema reads the abstract schema from linked descriptors: the nine options messages and
// everything reachable from them, every message/enum/extension of the given user schema files.
func optDeriveSchema(files []protoreflect.FileDescriptor, find func(protoreflect.FullName) protoreflect.Descriptor) (*optSchema, error) {
	s := &optSchema{enumIx: map[string]int{}, msgIx: map[string]int{}}
	var msgs []protoreflect.MessageDescriptor
	var enums []protoreflect.EnumDescriptor
	var exts []protoreflect.FieldDescriptor
	var addMsg func(md protoreflect.MessageDescriptor)
	addEnum := func(ed protoreflect.EnumDescriptor) {
		if _, ok := s.enumIx[string(ed.FullName())]; ok {
			return
		}
		s.enumIx[string(ed.FullName())] = len(enums)
		enums = append(enums, ed)
	}
	addMsg = func(md protoreflect.MessageDescriptor) {
		if _, ok := s.msgIx[string(md.FullName())]; ok {
			return
		}
		s.msgIx[string(md.FullName())] = len(msgs)
		msgs = append(msgs, md)
		for i := 0; i < md.Fields().Len(); i++ {
			fd := md.Fields().Get(i)
			if fd.Message() != nil {
				addMsg(fd.Message())
			}
			if fd.Enum() != nil {
				addEnum(fd.Enum())
			}
		}
	}
	for i, n := range optOptionsNames {
		d := find(protoreflect.FullName("google.protobuf." + n))
		md, ok := d.(protoreflect.MessageDescriptor)
		if !ok {
			return nil, fmt.Errorf("options type %s not found", n)
		}
		addMsg(md)
		s.OptIdx[i] = s.msgIx[string(md.FullName())]
	}
	if d, ok := find("google.protobuf.Any").(protoreflect.MessageDescriptor); ok {
		addMsg(d)
	}
	var walkMsgs func(ms protoreflect.MessageDescriptors)
	addExts := func(xs protoreflect.ExtensionDescriptors) {
		for i := 0; i < xs.Len(); i++ {
			x := xs.Get(i)
			exts = append(exts, x)
			if x.Message() != nil {
				addMsg(x.Message())
			}
			if x.Enum() != nil {
				addEnum(x.Enum())
			}
			addMsg(x.ContainingMessage())
		}
	}
	walkMsgs = func(ms protoreflect.MessageDescriptors) {
		for i := 0; i < ms.Len(); i++ {
			m := ms.Get(i)
			addMsg(m)
			for j := 0; j < m.Enums().Len(); j++ {
				addEnum(m.Enums().Get(j))
			}
			addExts(m.Extensions())
			walkMsgs(m.Messages())
		}
	}
	for _, f := range files {
		for j := 0; j < f.Enums().Len(); j++ {
			addEnum(f.Enums().Get(j))
		}
		walkMsgs(f.Messages())
		addExts(f.Extensions())
	}
	for _, ed := range enums {
		e := optEnum{Full: string(ed.FullName()), Closed: ed.IsClosed()}
		for i := 0; i < ed.Values().Len(); i++ {
			e.Names = append(e.Names, string(ed.Values().Get(i).Name()))
			e.Nums = append(e.Nums, int32(ed.Values().Get(i).Number()))
			in, rm := 0, 0
			if eo, ok := ed.Values().Get(i).Options().(*descriptorpb.EnumValueOptions); ok && eo != nil {
				if fs := eo.GetFeatureSupport(); fs != nil {
					if fs.EditionIntroduced != nil {
						in = optEditionNum(fs.GetEditionIntroduced())
					}
					if fs.EditionRemoved != nil {
						rm = optEditionNum(fs.GetEditionRemoved())
					}
				}
			}
			e.Intro = append(e.Intro, in)
			e.Remov = append(e.Remov, rm)
		}
		s.Enums = append(s.Enums, e)
	}
	for _, md := range msgs {
		m := optMsg{Full: string(md.FullName()), Short: string(md.Name()), Parent: string(md.FullName().Parent())}
		if mo, ok := md.Options().(*descriptorpb.MessageOptions); ok && mo != nil {
			m.MsgSet = mo.GetMessageSetWireFormat()
		}
		for i := 0; i < md.Fields().Len(); i++ {
			m.Fields = append(m.Fields, optFieldOf(md.Fields().Get(i), s))
		}
		s.Msgs = append(s.Msgs, m)
	}
	for _, x := range exts {
		s.Exts = append(s.Exts, optFieldOf(x, s))
	}
	return s, nil
}

func optDash(s string) string {
	if s == "" {
		return "-"
	}
	return s
}

func optB(b bool) string {
	if b {
		return "1"
	}
	return "0"
}

func (f *optField) tokens() []string {
	oo := "-"
	if f.Oneof >= 0 {
		oo = strconv.Itoa(f.Oneof)
	}
	tg := "-"
	if len(f.Targets) > 0 {
		var ts []string
		for _, t := range f.Targets {
			ts = append(ts, strconv.Itoa(t))
		}
		tg = strings.Join(ts, ".")
	}
	return []string{f.Name, strconv.Itoa(f.Num), f.Kind, string(f.Card), optB(f.IsMap), optB(f.Presence), oo, tg,
		strconv.Itoa(f.Intro), strconv.Itoa(f.Removed), f.Full, optDash(f.Extendee), optB(f.Utf8)}
}

func (s *optSchema) tokens() []string {
	var t []string
	t = append(t, strconv.Itoa(len(s.Enums)))
	for _, e := range s.Enums {
		t = append(t, "E", e.Full, optB(e.Closed), strconv.Itoa(len(e.Names)))
		for i := range e.Names {
			t = append(t, e.Names[i], strconv.Itoa(int(e.Nums[i])), strconv.Itoa(e.Intro[i]), strconv.Itoa(e.Remov[i]))
		}
	}
	t = append(t, strconv.Itoa(len(s.Msgs)))
	for _, m := range s.Msgs {
		t = append(t, "M", m.Full, m.Short, optDash(m.Parent), optB(m.MsgSet), strconv.Itoa(len(m.Fields)))
		for i := range m.Fields {
			t = append(t, m.Fields[i].tokens()...)
		}
	}
	t = append(t, strconv.Itoa(len(s.Exts)))
	for i := range s.Exts {
		t = append(t, "X")
		t = append(t, s.Exts[i].tokens()...)
	}
	t = append(t, "K")
	for _, i := range s.OptIdx {
		t = append(t, strconv.Itoa(i))
	}
	t = append(t, "D", optB(s.Dyn))
	return t
}

// ---------------------------------------------------------------- state: compiled schema

type optState struct {
	override linker.File
	variant  optVariant
	deps     linker.Files
	schema   *optSchema
	types    *dynamicpb.Types
	files    *protoregistry.Files
}

// optVariant: how the world around the schema files is set up.
type optVariant struct {
	// source of a replacement google/protobuf/any.proto ("" = the standard one)
	AnySrc string
	// descriptor.proto is handed to the compiler as a FileDescriptorProto, so its descriptors are built
	// by the linker and differ from the generated Go ones: the interpreter's working message and the
	// generated options struct then have different descriptors and cloneInto goes through
	// Marshal/Unmarshal instead of proto.Merge
	Dyn bool
}

func (v optVariant) token(tHex string) string {
	t := tHex
	if v.AnySrc != "" {
		t += ",A" + Hex([]byte(v.AnySrc))
	}
	if v.Dyn {
		t += ",D"
	}
	return t
}

func optParseVariant(tok string) (tSrc string, v optVariant) {
	for i, p := range strings.Split(tok, ",") {
		switch {
		case i == 0:
			if p != "-" {
				tSrc = string(UnHex(p))
			}
		case p == "D":
			v.Dyn = true
		case strings.HasPrefix(p, "A"):
			v.AnySrc = string(UnHex(p[1:]))
		}
	}
	return tSrc, v
}

func optCompileSchema(sSrc, tSrc string, v optVariant) (*optState, error) {
	srcs := map[string]string{"s.proto": sSrc}
	if tSrc != "" {
		srcs["t.proto"] = tSrc
	}
	if v.AnySrc != "" {
		srcs["google/protobuf/any.proto"] = v.AnySrc
	}
	var base protocompile.Resolver = &protocompile.SourceResolver{Accessor: protocompile.SourceAccessorFromMap(srcs)}
	if v.Dyn {
		base = protocompile.CompositeResolver{
			protocompile.ResolverFunc(func(path string) (protocompile.SearchResult, error) {
				if path == "google/protobuf/descriptor.proto" {
					return protocompile.SearchResult{Proto: protodesc.ToFileDescriptorProto(descriptorpb.File_google_protobuf_descriptor_proto)}, nil
				}
				return protocompile.SearchResult{}, protoregistry.NotFound
			}),
			base,
		}
	}
	c := protocompile.Compiler{Resolver: protocompile.WithStandardImports(base)}
	names := []string{"s.proto"}
	if tSrc != "" {
		names = append(names, "t.proto")
	}
	fs, err := c.Compile(context.Background(), names...)
	if err != nil {
		return nil, err
	}
	st := &optState{deps: fs, variant: v}
	reg := &protoregistry.Files{}
	var reg1 func(fd protoreflect.FileDescriptor)
	reg1 = func(fd protoreflect.FileDescriptor) {
		if _, err := reg.FindFileByPath(fd.Path()); err == nil {
			return
		}
		for i := 0; i < fd.Imports().Len(); i++ {
			reg1(fd.Imports().Get(i).FileDescriptor)
		}
		_ = reg.RegisterFile(fd)
	}
	var user []protoreflect.FileDescriptor
	for _, f := range fs {
		reg1(f)
		user = append(user, f)
	}
	st.files = reg
	st.types = dynamicpb.NewTypes(reg)
	find := func(n protoreflect.FullName) protoreflect.Descriptor {
		d, err := reg.FindDescriptorByName(n)
		if err != nil {
			return nil
		}
		return d
	}
	st.schema, err = optDeriveSchema(user, find)
	if err != nil {
		return nil, err
	}
	st.schema.Dyn = v.Dyn
	return st, nil
}

// ---------------------------------------------------------------- op syntax: statements and values

type optVal struct {
	T      string // u i f nf bu bn id ni s msg arr
	N      string
	Bits   uint64
	S      string
	B      []byte
	Fields []optFld
	Elems  []optVal
}

type optFld struct {
	NK   byte // n x a
	Name string
	Sep  bool
	Val  optVal
}

type optPart struct {
	Ext  bool
	Name string
}

type optStmt struct {
	Parts []optPart
	Val   optVal
}

type optOp struct {
	Syntax string // p2 p3 e23
	Elem   string
	Count  int // elements sharing the one options clause (extension ranges of one statement)
	// render without imports (only for ops that mention nothing of s.proto / t.proto)
	noImports bool
	FKind     string
	FLabel    string
	Stmts     []optStmt
}

func optIsIdent(s string) bool {
	if s == "" {
		return false
	}
	for i, c := range s {
		if !(c == '_' || (c >= 'a' && c <= 'z') || (c >= 'A' && c <= 'Z') || (i > 0 && c >= '0' && c <= '9')) {
			return false
		}
	}
	return true
}

func optIsQName(s string) bool {
	for _, p := range strings.Split(s, ".") {
		if !optIsIdent(p) {
			return false
		}
	}
	return true
}

func optIsDec(s string) bool {
	if s == "" || len(s) > 40 {
		return false
	}
	for _, c := range s {
		if c < '0' || c > '9' {
			return false
		}
	}
	return len(s) == 1 || s[0] != '0'
}

func optParseBits(s string) (uint64, bool) {
	if len(s) != 16 {
		return 0, false
	}
	v, err := strconv.ParseUint(s, 16, 64)
	if err != nil || strings.ToLower(s) != s {
		return 0, false
	}
	return v, true
}

func optParseVal(ts []string, depth int) (optVal, []string, bool) {
	if len(ts) == 0 || depth > 40 {
		return optVal{}, nil, false
	}
	t := ts[0]
	rest := ts[1:]
	switch {
	case t == "{":
		v := optVal{T: "msg"}
		for {
			if len(rest) == 0 {
				return v, nil, false
			}
			if rest[0] == "}" {
				return v, rest[1:], true
			}
			if len(rest) < 3 {
				return v, nil, false
			}
			nm, sep := rest[0], rest[1]
			var f optFld
			switch {
			case strings.HasPrefix(nm, "n:") && optIsIdent(nm[2:]):
				f.NK, f.Name = 'n', nm[2:]
			case strings.HasPrefix(nm, "x:") && optIsQName(nm[2:]):
				f.NK, f.Name = 'x', nm[2:]
			case strings.HasPrefix(nm, "a:"):
				i := strings.IndexByte(nm, '/')
				if i < 0 || !optIsQName(nm[2:i]) || !optIsQName(nm[i+1:]) {
					return v, nil, false
				}
				f.NK, f.Name = 'a', nm[2:]
			default:
				return v, nil, false
			}
			switch sep {
			case ":":
				f.Sep = true
			case "_":
			default:
				return v, nil, false
			}
			var ok bool
			f.Val, rest, ok = optParseVal(rest[2:], depth+1)
			if !ok {
				return v, nil, false
			}
			v.Fields = append(v.Fields, f)
		}
	case t == "[":
		v := optVal{T: "arr"}
		for {
			if len(rest) == 0 {
				return v, nil, false
			}
			if rest[0] == "]" {
				return v, rest[1:], true
			}
			var e optVal
			var ok bool
			e, rest, ok = optParseVal(rest, depth+1)
			if !ok {
				return v, nil, false
			}
			v.Elems = append(v.Elems, e)
		}
	case len(t) > 3 && (t[0] == 'u' || t[0] == 'i') && (t[1] == 'x' || t[1] == 'o') && t[2] == ':':
		// an integer spelled in hex (0x…) or octal (0…); i… = written with a minus sign
		base := 16
		if t[1] == 'o' {
			base = 8
		}
		n, ok := new(big.Int).SetString(t[3:], base)
		if !ok || len(t) > 43 || strings.ToLower(t[3:]) != t[3:] || n.Sign() < 0 || strings.ContainsAny(t[3:], "+-_") {
			return optVal{}, nil, false
		}
		if t[0] == 'u' && !n.IsUint64() || t[0] == 'i' && n.Cmp(new(big.Int).Lsh(big.NewInt(1), 63)) > 0 {
			return optVal{}, nil, false
		}
		return optVal{T: t[:2], N: t[3:]}, rest, true
	case strings.HasPrefix(t, "u:") && optIsDec(t[2:]):
		n, _ := new(big.Int).SetString(t[2:], 10)
		if !n.IsUint64() {
			return optVal{}, nil, false
		}
		return optVal{T: "u", N: t[2:]}, rest, true
	case strings.HasPrefix(t, "i:") && optIsDec(t[2:]):
		n, _ := new(big.Int).SetString(t[2:], 10)
		if n.Cmp(new(big.Int).Lsh(big.NewInt(1), 63)) > 0 {
			return optVal{}, nil, false
		}
		return optVal{T: "i", N: t[2:]}, rest, true
	case strings.HasPrefix(t, "f:") || strings.HasPrefix(t, "nf:") || strings.HasPrefix(t, "bu:") || strings.HasPrefix(t, "bn:"):
		i := strings.IndexByte(t, ':')
		b, ok := optParseBits(t[i+1:])
		f := math.Float64frombits(b)
		if !ok || math.IsNaN(f) || math.IsInf(f, 0) || b>>63 != 0 {
			return optVal{}, nil, false
		}
		if t[0] == 'b' {
			// a float that is an integer too large for (u)int64, written as plain digits
			lim := math.Ldexp(1, 64)
			if t[1] == 'n' {
				lim = math.Ldexp(1, 63) * (1 + 1e-15)
			}
			if f < lim || f != math.Trunc(f) || f > 1e30 {
				return optVal{}, nil, false
			}
		}
		return optVal{T: t[:i], Bits: b}, rest, true
	case strings.HasPrefix(t, "id:") && optIsIdent(t[3:]):
		return optVal{T: "id", S: t[3:]}, rest, true
	case strings.HasPrefix(t, "ni:") && optIsIdent(t[3:]):
		return optVal{T: "ni", S: t[3:]}, rest, true
	case strings.HasPrefix(t, "s:"):
		if t[2:] != "-" && (len(t[2:])%2 != 0 || strings.Trim(t[2:], "0123456789abcdef") != "") {
			return optVal{}, nil, false
		}
		return optVal{T: "s", B: UnHex(t[2:])}, rest, true
	}
	return optVal{}, nil, false
}

var optScalarKinds = []string{"i32", "i64", "u32", "u64", "s32", "s64", "fx32", "fx64", "sfx32", "sfx64", "flt", "dbl", "bool", "str", "byt"}

var optKindProto = map[string]string{"i32": "int32", "i64": "int64", "u32": "uint32", "u64": "uint64", "s32": "sint32",
	"s64": "sint64", "fx32": "fixed32", "fx64": "fixed64", "sfx32": "sfixed32", "sfx64": "sfixed64", "flt": "float",
	"dbl": "double", "bool": "bool", "str": "string", "byt": "bytes"}

func optParseOp(op string, s *optSchema) (*optOp, bool) {
	ts := strings.Fields(op)
	if len(ts) < 4 || ts[0] != "opt" {
		return nil, false
	}
	o := &optOp{Syntax: ts[1]}
	if o.Syntax != "p2" && o.Syntax != "p3" && o.Syntax != "e23" && o.Syntax != "e23s" {
		return nil, false
	}
	el := strings.Split(ts[2], ":")
	o.Elem = el[0]
	if _, ok := optElems[o.Elem]; !ok {
		return nil, false
	}
	o.Count = 1
	if o.Elem == "extrange" && len(el) == 2 {
		c, err := strconv.Atoi(el[1])
		if err != nil || c < 2 || c > 4 {
			return nil, false
		}
		o.Count = c
		el = el[:1]
	}
	if optFieldLike[o.Elem] {
		if len(el) != 3 {
			return nil, false
		}
		o.FKind, o.FLabel = el[1], el[2]
		if o.Elem == "oneoffield" && o.FLabel != "o" {
			return nil, false
		}
		if _, ok := optKindProto[o.FKind]; !ok {
			if len(o.FKind) < 2 || (o.FKind[0] != 'e' && o.FKind[0] != 'm') {
				return nil, false
			}
			i, err := strconv.Atoi(o.FKind[1:])
			if err != nil || i < 0 || (o.FKind[0] == 'e' && i >= len(s.Enums)) || (o.FKind[0] == 'm' && i >= len(s.Msgs)) {
				return nil, false
			}
		}
		if o.FLabel != "o" && o.FLabel != "q" && o.FLabel != "r" {
			return nil, false
		}
	} else if len(el) != 1 {
		return nil, false
	}
	n, err := strconv.Atoi(ts[3])
	if err != nil || n < 0 || n > 64 {
		return nil, false
	}
	rest := ts[4:]
	for i := 0; i < n; i++ {
		if len(rest) == 0 {
			return nil, false
		}
		np, err := strconv.Atoi(rest[0])
		if err != nil || np < 1 || np > 16 || len(rest) < 1+np {
			return nil, false
		}
		var st optStmt
		for _, p := range rest[1 : 1+np] {
			switch {
			case strings.HasPrefix(p, "n:") && optIsIdent(p[2:]):
				st.Parts = append(st.Parts, optPart{false, p[2:]})
			case strings.HasPrefix(p, "x:") && optIsQName(p[2:]):
				st.Parts = append(st.Parts, optPart{true, p[2:]})
			default:
				return nil, false
			}
		}
		var ok bool
		st.Val, rest, ok = optParseVal(rest[1+np:], 0)
		if !ok || st.Val.T == "arr" {
			return nil, false
		}
		o.Stmts = append(o.Stmts, st)
	}
	if len(rest) != 0 {
		return nil, false
	}
	return o, true
}

// ---------------------------------------------------------------- rendering

func optFloatText(bits uint64) string {
	f := math.Float64frombits(bits)
	s := strconv.FormatFloat(f, 'g', -1, 64)
	if !strings.ContainsAny(s, ".e") {
		s += ".0"
	}
	return s
}

func optBigText(bits uint64) string {
	bf := new(big.Float).SetFloat64(math.Float64frombits(bits))
	i, _ := bf.Int(nil)
	return i.String()
}

func optQuote(b []byte) string {
	var sb strings.Builder
	sb.WriteByte('"')
	for _, c := range b {
		switch {
		case c == '"' || c == '\\':
			sb.WriteByte('\\')
			sb.WriteByte(c)
		case c >= 0x20 && c < 0x7f:
			sb.WriteByte(c)
		default:
			fmt.Fprintf(&sb, "\\x%02x", c)
		}
	}
	sb.WriteByte('"')
	return sb.String()
}

func (v *optVal) render(sb *strings.Builder) {
	switch v.T {
	case "u":
		sb.WriteString(v.N)
	case "i":
		sb.WriteString("-" + v.N)
	case "ux":
		sb.WriteString("0x" + v.N)
	case "ix":
		sb.WriteString("-0x" + v.N)
	case "uo":
		sb.WriteString("0" + v.N)
	case "io":
		sb.WriteString("-0" + v.N)
	case "f":
		sb.WriteString(optFloatText(v.Bits))
	case "nf":
		sb.WriteString("-" + optFloatText(v.Bits))
	case "bu":
		sb.WriteString(optBigText(v.Bits))
	case "bn":
		sb.WriteString("-" + optBigText(v.Bits))
	case "id":
		sb.WriteString(v.S)
	case "ni":
		sb.WriteString("-" + v.S)
	case "s":
		sb.WriteString(optQuote(v.B))
	case "msg":
		sb.WriteString("{ ")
		for i := range v.Fields {
			f := &v.Fields[i]
			switch f.NK {
			case 'n':
				sb.WriteString(f.Name)
			default:
				sb.WriteString("[" + f.Name + "]")
			}
			if f.Sep {
				sb.WriteString(": ")
			} else {
				sb.WriteString(" ")
			}
			f.Val.render(sb)
			sb.WriteString(" ")
		}
		sb.WriteString("}")
	case "arr":
		sb.WriteString("[")
		for i := range v.Elems {
			if i > 0 {
				sb.WriteString(", ")
			}
			v.Elems[i].render(sb)
		}
		sb.WriteString("]")
	}
}

func (st *optStmt) render() string {
	var sb strings.Builder
	for i, p := range st.Parts {
		if i > 0 {
			sb.WriteString(".")
		}
		if p.Ext {
			sb.WriteString("(" + p.Name + ")")
		} else {
			sb.WriteString(p.Name)
		}
	}
	sb.WriteString(" = ")
	st.Val.render(&sb)
	return sb.String()
}

func (o *optOp) typeName(s *optSchema) string {
	if p, ok := optKindProto[o.FKind]; ok {
		return p
	}
	i, _ := strconv.Atoi(o.FKind[1:])
	if o.FKind[0] == 'e' {
		return "." + s.Enums[i].Full
	}
	return "." + s.Msgs[i].Full
}

// render returns the source of u.proto with the statements whose index is in keep (nil = all).
func (o *optOp) render(s *optSchema, keep map[int]bool) string {
	var sb strings.Builder
	switch o.Syntax {
	case "p2":
		sb.WriteString("syntax = \"proto2\";\n")
	case "p3":
		sb.WriteString("syntax = \"proto3\";\n")
	default:
		sb.WriteString("edition = \"2023\";\n")
	}
	if !o.noImports {
		sb.WriteString("import \"s.proto\";\nimport \"t.proto\";\n")
	}
	if o.Syntax == "e23s" {
		sb.WriteString("import \"google/protobuf/descriptor.proto\";\n")
	}
	var sts []string
	for i := range o.Stmts {
		if keep == nil || keep[i] {
			sts = append(sts, o.Stmts[i].render())
		}
	}
	long := func(ind string) string {
		var b strings.Builder
		for _, s := range sts {
			b.WriteString(ind + "option " + s + ";\n")
		}
		return b.String()
	}
	compact := ""
	if len(sts) > 0 {
		compact = " [" + strings.Join(sts, ", ") + "]"
	}
	label := func() string {
		switch o.FLabel {
		case "r":
			return "repeated "
		case "q":
			if o.Syntax == "p2" {
				return "required "
			}
			return ""
		default:
			if o.Syntax == "e23" || o.Syntax == "e23s" {
				return ""
			}
			return "optional "
		}
	}
	switch o.Elem {
	case "file":
		sb.WriteString(long(""))
	case "message":
		sb.WriteString("message U {\n" + long("  ") + "}\n")
	case "field":
		sb.WriteString("message U {\n  " + label() + o.typeName(s) + " f = 1" + compact + ";\n}\n")
	case "extfield":
		sb.WriteString("extend s.Host {\n  " + label() + o.typeName(s) + " ux = 150" + compact + ";\n}\n")
	case "oneof":
		sb.WriteString("message U {\n  oneof o {\n" + long("    ") + "    int32 a = 1;\n  }\n}\n")
	case "extrange":
		rs := []string{"100 to 199", "300 to 399", "500", "700 to 799"}[:o.Count]
		sb.WriteString("message U {\n  extensions " + strings.Join(rs, ", ") + compact + ";\n}\n")
	case "oneoffield":
		sb.WriteString("message U {\n  oneof o {\n    " + o.typeName(s) + " f = 1" + compact + ";\n  }\n}\n")
	case "nfield":
		sb.WriteString("message U {\n  message N {\n    " + label() + o.typeName(s) + " f = 1" + compact + ";\n  }\n}\n")
	case "nextfield":
		sb.WriteString("message U {\n  extend s.Host {\n    " + label() + o.typeName(s) + " ux = 150" + compact + ";\n  }\n}\n")
	case "mapfield":
		sb.WriteString("message U {\n  map<string, int32> f = 1" + compact + ";\n}\n")
	case "groupfield":
		sb.WriteString("message U {\n  optional group G = 1" + compact + " {\n    optional int32 a = 1;\n  }\n}\n")
	case "groupmsg":
		sb.WriteString("message U {\n  optional group G = 1 {\n" + long("    ") + "    optional int32 a = 1;\n  }\n}\n")
	case "nmessage":
		sb.WriteString("message U {\n  message N {\n" + long("    ") + "  }\n}\n")
	case "nenum":
		sb.WriteString("message U {\n  enum NE {\n" + long("    ") + "    NE0 = 0;\n  }\n}\n")
	case "nenumvalue":
		sb.WriteString("message U {\n  enum NE {\n    NE0 = 0" + compact + ";\n  }\n}\n")
	case "enum":
		sb.WriteString("enum UE {\n" + long("  ") + "  UE0 = 0;\n}\n")
	case "enumvalue":
		sb.WriteString("enum UE {\n  UE0 = 0" + compact + ";\n}\n")
	case "service":
		sb.WriteString("service US {\n" + long("  ") + "}\n")
	case "method":
		sb.WriteString("message U {}\nservice US {\n  rpc R(U) returns (U) {\n" + long("    ") + "  }\n}\n")
	}
	if o.Syntax == "e23s" {
		// the file defines a feature and uses it (declared last: the element under test stays first)
		sb.WriteString("message UF { int32 a = 1; }\nextend google.protobuf.FeatureSet { UF uf = 9990; }\n")
	}
	return sb.String()
}

// ---------------------------------------------------------------- execution

var optErrTable = []struct{ sub, class string }{
	{"invalid option 'uninterpreted_option'", "uninterp"},
	{"cannot be defined more than once", "pseudodup"},
	{"expecting string value for json_name", "jsontype"},
	{"json_name is not allowed on extensions", "jsonext"},
	{"json_name value cannot start with", "jsonbrackets"},
	{"default value cannot be set because field is repeated", "defrepeated"},
	{"default value cannot be set because field is a message", "defmsg"},
	{"default value cannot be a message", "defmsglit"},
	{"unable to resolve enum type", "defenumtype"},
	{"unrecognized extension", "unkext"},
	{"unknown extension", "unkext"},
	{"failed to serialize message value", "anyser"},
	{"should extend", "extendee"},
	{"does not exist", "nofield"},
	{"may not be used in an option (it declares no allowed target types)", "target"},
	{"is allowed on", "target"},
	{"is not a message", "notmsg"},
	{"is repeated (must use an aggregate)", "reppath"},
	{"already has field", "oneof"},
	{"already set", "dup"},
	{"value is an array but field is not repeated", "notrep"},
	{"is out of range for", "range"},
	{"has no value named", "enumname"},
	{"has no value with number", "enumnum"},
	{"expecting enum name, got", "enumneedname"},
	{"unexpected value, expecting ':'", "colon"},
	{"expecting ", "type"},
	{"any type references cannot be repeated or mixed", "anymix"},
	{"type references are only allowed for google.protobuf.Any", "anynotany"},
	{"could not resolve type reference", "anyurl"},
	{"must have message literal value", "anylit"},
	{"not found", "msgfield"},
	{"unexpected value, expecting ':'", "colon"},
	{"some required fields missing", "validate"},
	{"was not introduced until", "validate"},
	{"was removed in", "validate"},
	{"cannot be used from the same file", "validate"},
	{"message set wire format", "msgset"},
	{"contains invalid UTF-8", "utf8"},
	{"message schema ", "anyschema"},
}

func optErrClass(err error) string {
	m := err.Error()
	for _, e := range optErrTable {
		if strings.Contains(m, e.sub) {
			return e.class
		}
	}
	return "other"
}

type optElemRef struct {
	opts    proto.Message // nil interface when the element has no options message
	def     *string
	json    *string
	uninter []*descriptorpb.UninterpretedOption
}

// optFindElems returns the element(s) of u.proto that carry the statements, in declaration order.
func optFindElems(fd *descriptorpb.FileDescriptorProto, elem string, count int) []optElemRef {
	msg := func() *descriptorpb.DescriptorProto {
		if len(fd.MessageType) > 0 {
			return fd.MessageType[0]
		}
		return &descriptorpb.DescriptorProto{}
	}
	nested := func() *descriptorpb.DescriptorProto {
		if len(msg().NestedType) > 0 {
			return msg().NestedType[0]
		}
		return &descriptorpb.DescriptorProto{}
	}
	fieldRef := func(fs []*descriptorpb.FieldDescriptorProto) optElemRef {
		var r optElemRef
		if len(fs) > 0 {
			f := fs[0]
			r.def, r.json = f.DefaultValue, f.JsonName
			if f.Options != nil {
				r.opts, r.uninter = f.Options, f.Options.UninterpretedOption
			}
		}
		return r
	}
	enumRef := func(es []*descriptorpb.EnumDescriptorProto, value bool) optElemRef {
		var r optElemRef
		if len(es) == 0 {
			return r
		}
		if !value {
			if o := es[0].Options; o != nil {
				r.opts, r.uninter = o, o.UninterpretedOption
			}
		} else if len(es[0].Value) > 0 {
			if o := es[0].Value[0].Options; o != nil {
				r.opts, r.uninter = o, o.UninterpretedOption
			}
		}
		return r
	}
	msgRef := func(m *descriptorpb.DescriptorProto) optElemRef {
		var r optElemRef
		if o := m.Options; o != nil {
			r.opts, r.uninter = o, o.UninterpretedOption
		}
		return r
	}
	var r optElemRef
	switch elem {
	case "file":
		if fd.Options != nil {
			r.opts, r.uninter = fd.Options, fd.Options.UninterpretedOption
		}
	case "message":
		r = msgRef(msg())
	case "groupmsg", "nmessage":
		r = msgRef(nested())
	case "field", "oneoffield", "mapfield", "groupfield":
		r = fieldRef(msg().Field)
	case "nfield":
		r = fieldRef(nested().Field)
	case "extfield":
		r = fieldRef(fd.Extension)
	case "nextfield":
		r = fieldRef(msg().Extension)
	case "oneof":
		if len(msg().OneofDecl) > 0 {
			if o := msg().OneofDecl[0].Options; o != nil {
				r.opts, r.uninter = o, o.UninterpretedOption
			}
		}
	case "extrange":
		var rs []optElemRef
		for i := 0; i < count; i++ {
			var x optElemRef
			if i < len(msg().ExtensionRange) {
				if o := msg().ExtensionRange[i].Options; o != nil {
					x.opts, x.uninter = o, o.UninterpretedOption
				}
			}
			rs = append(rs, x)
		}
		return rs
	case "enum":
		r = enumRef(fd.EnumType, false)
	case "enumvalue":
		r = enumRef(fd.EnumType, true)
	case "nenum":
		r = enumRef(msg().EnumType, false)
	case "nenumvalue":
		r = enumRef(msg().EnumType, true)
	case "service":
		if len(fd.Service) > 0 {
			if o := fd.Service[0].Options; o != nil {
				r.opts, r.uninter = o, o.UninterpretedOption
			}
		}
	case "method":
		if len(fd.Service) > 0 && len(fd.Service[0].Method) > 0 {
			if o := fd.Service[0].Method[0].Options; o != nil {
				r.opts, r.uninter = o, o.UninterpretedOption
			}
		}
	}
	return []optElemRef{r}
}

const (
	optNaN32 = 0x7fc00000
	optNaN64 = 0x7ff8000000000001
)

func (st *optState) dumpScalar(sb *strings.Builder, fd protoreflect.FieldDescriptor, v protoreflect.Value) {
	switch fd.Kind() {
	case protoreflect.BoolKind:
		if v.Bool() {
			sb.WriteString("1")
		} else {
			sb.WriteString("0")
		}
	case protoreflect.EnumKind:
		sb.WriteString(strconv.Itoa(int(v.Enum())))
	case protoreflect.Int32Kind, protoreflect.Sint32Kind, protoreflect.Sfixed32Kind, protoreflect.Int64Kind, protoreflect.Sint64Kind, protoreflect.Sfixed64Kind:
		sb.WriteString(strconv.FormatInt(v.Int(), 10))
	case protoreflect.Uint32Kind, protoreflect.Fixed32Kind, protoreflect.Uint64Kind, protoreflect.Fixed64Kind:
		sb.WriteString(strconv.FormatUint(v.Uint(), 10))
	case protoreflect.FloatKind:
		f := float32(v.Float())
		b := uint64(math.Float32bits(f))
		if f != f {
			b = optNaN32
		}
		sb.WriteString(strconv.FormatUint(b, 10))
	case protoreflect.DoubleKind:
		f := v.Float()
		b := math.Float64bits(f)
		if f != f {
			b = optNaN64
		}
		sb.WriteString(strconv.FormatUint(b, 10))
	case protoreflect.StringKind:
		sb.WriteString("x" + strings.TrimPrefix(Hex([]byte(v.String())), "-"))
	case protoreflect.BytesKind:
		sb.WriteString("x" + strings.TrimPrefix(Hex(v.Bytes()), "-"))
	case protoreflect.MessageKind, protoreflect.GroupKind:
		st.dumpMsg(sb, v.Message())
	}
}

func (st *optState) dumpMsg(sb *strings.Builder, m protoreflect.Message) {
	type fv struct {
		fd protoreflect.FieldDescriptor
		v  protoreflect.Value
	}
	var fs []fv
	m.Range(func(fd protoreflect.FieldDescriptor, v protoreflect.Value) bool {
		if fd.Name() == "uninterpreted_option" && !fd.IsExtension() && fd.Number() == 999 {
			return true
		}
		fs = append(fs, fv{fd, v})
		return true
	})
	sort.Slice(fs, func(i, j int) bool { return fs[i].fd.Number() < fs[j].fd.Number() })
	sb.WriteString("{")
	first := true
	sepf := func() {
		if !first {
			sb.WriteString(";")
		}
		first = false
	}
	isAny := m.Descriptor().FullName() == "google.protobuf.Any"
	for _, f := range fs {
		sepf()
		sb.WriteString(strconv.Itoa(int(f.fd.Number())) + "=")
		switch {
		case f.fd.IsMap():
			type kv struct {
				k protoreflect.MapKey
				v protoreflect.Value
			}
			var es []kv
			f.v.Map().Range(func(k protoreflect.MapKey, v protoreflect.Value) bool {
				es = append(es, kv{k, v})
				return true
			})
			kk := f.fd.MapKey().Kind()
			sort.Slice(es, func(i, j int) bool {
				a, b := es[i].k, es[j].k
				switch kk {
				case protoreflect.StringKind:
					return a.String() < b.String()
				case protoreflect.BoolKind:
					return !a.Bool() && b.Bool()
				case protoreflect.Uint32Kind, protoreflect.Uint64Kind, protoreflect.Fixed32Kind, protoreflect.Fixed64Kind:
					return a.Uint() < b.Uint()
				default:
					return a.Int() < b.Int()
				}
			})
			sb.WriteString("[")
			for i, e := range es {
				if i > 0 {
					sb.WriteString(",")
				}
				sb.WriteString("{1=")
				st.dumpScalar(sb, f.fd.MapKey(), e.k.Value())
				sb.WriteString(";2=")
				st.dumpScalar(sb, f.fd.MapValue(), e.v)
				sb.WriteString("}")
			}
			sb.WriteString("]")
		case f.fd.IsList():
			sb.WriteString("[")
			l := f.v.List()
			for i := 0; i < l.Len(); i++ {
				if i > 0 {
					sb.WriteString(",")
				}
				st.dumpScalar(sb, f.fd, l.Get(i))
			}
			sb.WriteString("]")
		default:
			if isAny && f.fd.Number() == 2 {
				// show the packed message as a tree when the type URL names a known message
				url := m.Get(m.Descriptor().Fields().ByNumber(1)).String()
				if i := strings.LastIndexByte(url, '/'); i >= 0 {
					if mt, err := st.types.FindMessageByName(protoreflect.FullName(url[i+1:])); err == nil {
						inner := mt.New()
						if err := (proto.UnmarshalOptions{Resolver: st.types, AllowPartial: true}).Unmarshal(f.v.Bytes(), inner.Interface()); err == nil {
							st.dumpMsg(sb, inner)
							continue
						}
					}
				}
			}
			st.dumpScalar(sb, f.fd, f.v)
		}
	}
	if u := m.GetUnknown(); len(u) > 0 {
		sepf()
		sb.WriteString("?" + Hex(u))
	}
	sb.WriteString("}")
}

// dumpOptions re-reads the options message against the compiled schema (dynamicpb) and prints it.
func (st *optState) dumpOptions(opts proto.Message) string {
	if opts == nil {
		return "{}"
	}
	b, err := proto.MarshalOptions{AllowPartial: true, Deterministic: true}.Marshal(opts)
	if err != nil {
		return "marshal-error"
	}
	d, err := st.files.FindDescriptorByName(opts.ProtoReflect().Descriptor().FullName())
	if err != nil {
		return "no-options-type"
	}
	dm := dynamicpb.NewMessage(d.(protoreflect.MessageDescriptor))
	if err := (proto.UnmarshalOptions{Resolver: st.types, AllowPartial: true}).Unmarshal(b, dm); err != nil {
		return "unmarshal-error"
	}
	var sb strings.Builder
	st.dumpMsg(&sb, dm)
	return sb.String()
}

func optHexOpt(p *string) string {
	if p == nil {
		return "-"
	}
	return "x" + strings.TrimPrefix(Hex([]byte(*p)), "-")
}

// runMode parses, (links) and interprets src in one mode and describes the chosen element.
func (st *optState) runMode(mode, src, elem string, count int, fkind string) (out string, restIdx []int) {
	defer func() {
		if r := recover(); r != nil {
			// protobuf-go puts a regular or a non-breaking space after "proto:", chosen per build
			m := strings.ReplaceAll(fmt.Sprint(r), "\u00a0", " ")
			const pre, suf = "proto: ", ": field descriptor does not belong to this message"
			if strings.HasPrefix(m, pre) && strings.HasSuffix(m, suf) {
				out = "panic " + m[len(pre):len(m)-len(suf)]
			} else if i := strings.Index(m, " has mismatching containing message"); i > 0 && strings.HasPrefix(m, "extension ") {
				out = "panic " + m[len("extension "):i]
			} else if strings.Contains(m, "nil pointer dereference") {
				out = "panic nil"
			} else {
				out = "panic other"
			}
			restIdx = nil
		}
	}()
	h := reporter.NewHandler(nil)
	ast, err := parser.Parse("u.proto", strings.NewReader(src), h)
	if err != nil {
		return "parseerr", nil
	}
	res, err := parser.ResultFromAST(ast, true, h)
	if err != nil {
		return "parseerr", nil
	}
	// pr is what gets linked and interpreted: the parse result itself, or a descriptor proto without AST
	var pr parser.Result = res
	switch mode {
	case "proto", "proto-lenient", "proto-unlinked":
		// the same file handed over as a FileDescriptorProto with uninterpreted options (no AST):
		// the ...FromProto value paths and prototext for aggregate values
		pr = parser.ResultWithoutAST(proto.Clone(res.FileDescriptorProto()).(*descriptorpb.FileDescriptorProto))
	case "reinterp":
		// interpret, serialize the whole file, read it back without any extension registry (custom
		// options become unknown fields) and interpret the descriptor again: nothing may change
		deps := st.deps
		if d := st.descriptorFile(); d != nil {
			deps = append(append(linker.Files{}, deps...), d)
		}
		lr, err := linker.Link(res, deps, nil, h)
		if err != nil {
			return "linkerr " + optErrClass(err), nil
		}
		if _, err := options.InterpretOptions(lr, h); err != nil {
			return "err " + optErrClass(err), nil
		}
		b, err := proto.MarshalOptions{AllowPartial: true}.Marshal(res.FileDescriptorProto())
		if err != nil {
			return "marshal-error", nil
		}
		fd2 := &descriptorpb.FileDescriptorProto{}
		if err := (proto.UnmarshalOptions{Resolver: (*protoregistry.Types)(nil), AllowPartial: true}).Unmarshal(b, fd2); err != nil {
			return "unmarshal-error", nil
		}
		pr = parser.ResultWithoutAST(fd2)
		h = reporter.NewHandler(nil)
	}
	fd := pr.FileDescriptorProto()
	// per element: the original option objects and copies of them
	var before, beforePtr [][]*descriptorpb.UninterpretedOption
	snapshot := func() {
		for _, ref := range optFindElems(fd, elem, count) {
			var ps, cs []*descriptorpb.UninterpretedOption
			for _, u := range ref.uninter {
				ps = append(ps, u)
				cs = append(cs, proto.Clone(u).(*descriptorpb.UninterpretedOption))
			}
			beforePtr = append(beforePtr, ps)
			before = append(before, cs)
		}
	}
	if mode == "unlinked" || mode == "proto-unlinked" {
		snapshot()
		_, err = options.InterpretUnlinkedOptions(pr)
	} else {
		var lr linker.Result
		deps := st.deps
		if d := st.descriptorFile(); d != nil {
			deps = append(append(linker.Files{}, deps...), d) // for files that import descriptor.proto themselves
		}
		if mode == "override" {
			deps = nil // the file imports nothing; descriptor.proto comes in through the interpreter option
		}
		lr, err = linker.Link(pr, deps, nil, h)
		if err != nil {
			return "linkerr " + optErrClass(err), nil
		}
		snapshot()
		switch mode {
		case "lenient", "proto-lenient":
			_, err = options.InterpretOptionsLenient(lr)
		case "override":
			_, err = options.InterpretOptions(lr, h, options.WithOverrideDescriptorProto(st.overrideFile()))
		default:
			_, err = options.InterpretOptions(lr, h)
		}
	}
	if err != nil {
		return "err " + optErrClass(err), nil
	}
	refs := optFindElems(fd, elem, count)
	describe := func(k int) (string, []int) {
		var rest []string
		var idx []int
		used := map[int]bool{}
		for _, u := range refs[k].uninter {
			// a remaining option must be one of the original objects, unchanged
			found := -1
			for i, b := range before[k] {
				if !used[i] && beforePtr[k][i] == u && proto.Equal(u, b) {
					found = i
					break
				}
			}
			if found < 0 {
				rest = append(rest, "?")
			} else {
				used[found] = true
				rest = append(rest, strconv.Itoa(found))
				idx = append(idx, found)
			}
		}
		r := "-"
		if len(rest) > 0 {
			r = strings.Join(rest, ",")
		}
		return st.dumpOptions(refs[k].opts) + " r=" + r, idx
	}
	ref := refs[0]
	first, idx0 := describe(0)
	restIdx = idx0
	out = "ok " + first
	if len(refs) > 1 {
		// every element that shares the options clause must end up like the first
		out += " n=" + strconv.Itoa(len(refs))
		for k := 1; k < len(refs); k++ {
			if d, _ := describe(k); d != first {
				out += " DIFF " + strconv.Itoa(k) + ":" + strings.ReplaceAll(d, " ", ",")
			}
		}
	}
	if optHasPseudo[elem] {
		def := ref.def
		if (mode == "unlinked" || mode == "proto-unlinked") && fkind != "" && (fkind[0] == 'e' || fkind[0] == 'm') && len(fkind) > 1 && fkind[1] >= '0' && fkind[1] <= '9' {
			fkind = "dbl" // an unlinked field with a named type is treated as TYPE_DOUBLE
		}
		if def != nil && (fkind == "flt" || fkind == "dbl") && *def != "inf" && *def != "-inf" && *def != "nan" {
			// float defaults are compared by value (the text is Go's shortest round-trip form)
			bits := 32
			if fkind == "dbl" {
				bits = 64
			}
			if f, err := strconv.ParseFloat(*def, bits); err == nil {
				var t string
				if bits == 32 {
					t = fmt.Sprintf("float:%d", math.Float32bits(float32(f)))
				} else {
					t = fmt.Sprintf("float:%d", math.Float64bits(f))
				}
				def = &t
			}
		}
		out += " d=" + optHexOpt(def) + " j=" + optHexOpt(ref.json)
	}
	return out, restIdx
}

func (e *optionsEngine) Exec(op string) string {
	if strings.HasPrefix(op, "schema ") {
		ts := strings.Fields(op)
		if len(ts) < 4 || ts[3] != "ABS" {
			return "bad-op"
		}
		tsrc, variant := optParseVariant(ts[2])
		st, err := optCompileSchema(string(UnHex(ts[1])), tsrc, variant)
		if err != nil {
			return "schema-error ~ " + Canon(err.Error())
		}
		if strings.Join(st.schema.tokens(), " ") != strings.Join(ts[4:], " ") {
			return "schema-mismatch"
		}
		e.st = st
		return fmt.Sprintf("ok %d %d %d", len(st.schema.Enums), len(st.schema.Msgs), len(st.schema.Exts))
	}
	if e.st == nil {
		return "no-schema"
	}
	if strings.HasPrefix(op, "calib ") {
		// calib <accept|reject|diff> opt …: the expectation is for the Lean oracle only
		ts := strings.SplitN(op, " ", 3)
		if len(ts) != 3 {
			return "bad-op"
		}
		op = ts[2]
	}
	o, ok := optParseOp(op, e.st.schema)
	if !ok {
		return "bad-op"
	}
	src := o.render(e.st.schema, nil)
	s, _ := e.st.runMode("strict", src, o.Elem, o.Count, o.FKind)
	// runs of the real interpreter that the model does not predict; the oracles compare them with S
	extra := func() string {
		p, _ := e.st.runMode("proto", src, o.Elem, o.Count, o.FKind)
		r, ov := "-", "-"
		if strings.HasPrefix(s, "ok ") {
			r, _ = e.st.runMode("reinterp", src, o.Elem, o.Count, o.FKind)
		}
		if o.selfContained() {
			o.noImports = true
			ov, _ = e.st.runMode("override", o.render(e.st.schema, nil), o.Elem, o.Count, o.FKind)
			o.noImports = false
		}
		return " ~ P=" + p + " R=" + r + " O=" + ov
	}
	if e.name == "options" {
		return s + extra()
	}
	l, _ := e.st.runMode("lenient", src, o.Elem, o.Count, o.FKind)
	u, urest := e.st.runMode("unlinked", src, o.Elem, o.Count, o.FKind)
	c := "-"
	if strings.HasPrefix(u, "ok ") {
		keep := map[int]bool{}
		for i := range o.Stmts {
			keep[i] = true
		}
		for _, i := range urest {
			delete(keep, i)
		}
		c, _ = e.st.runMode("strict", o.render(e.st.schema, keep), o.Elem, o.Count, o.FKind)
	}
	pl, _ := e.st.runMode("proto-lenient", src, o.Elem, o.Count, o.FKind)
	pu, _ := e.st.runMode("proto-unlinked", src, o.Elem, o.Count, o.FKind)
	return "S=" + s + " L=" + l + " U=" + u + " C=" + c + extra() + " PL=" + pl + " PU=" + pu
}

// selfContained: the rendered file needs nothing from s.proto / t.proto (no extension anywhere, scalar
// field type), so it can be compiled without imports.
func (o *optOp) selfContained() bool {
	if o.Syntax == "e23s" || o.Elem == "extfield" || o.Elem == "nextfield" {
		return false
	}
	if o.FKind != "" {
		if _, ok := optKindProto[o.FKind]; !ok {
			return false
		}
	}
	var hasExt func(v *optVal) bool
	hasExt = func(v *optVal) bool {
		for i := range v.Fields {
			if v.Fields[i].NK != 'n' || hasExt(&v.Fields[i].Val) {
				return true
			}
		}
		for i := range v.Elems {
			if hasExt(&v.Elems[i]) {
				return true
			}
		}
		return false
	}
	for i := range o.Stmts {
		for _, p := range o.Stmts[i].Parts {
			if p.Ext {
				return false
			}
		}
		if hasExt(&o.Stmts[i].Val) {
			return false
		}
	}
	return true
}

// overrideFile is a descriptor.proto rebuilt from its FileDescriptorProto: same content as the generated
// one but different descriptor objects, so cloneInto takes its Marshal/Unmarshal path.
func (st *optState) overrideFile() linker.File {
	if st.override == nil {
		fd, err := protodesc.NewFile(protodesc.ToFileDescriptorProto(descriptorpb.File_google_protobuf_descriptor_proto), nil)
		if err != nil {
			panic(err)
		}
		f, err := linker.NewFile(fd, nil)
		if err != nil {
			panic(err)
		}
		st.override = f
	}
	return st.override
}

// descriptorFile is google/protobuf/descriptor.proto as the schema files see it.
func (st *optState) descriptorFile() linker.File {
	for _, f := range st.deps {
		if d, ok := f.FindImportByPath("google/protobuf/descriptor.proto").(linker.File); ok {
			return d
		}
	}
	return nil
}

func (e *optionsEngine) Trivial(op, ans string) bool { return strings.HasPrefix(op, "schema ") }

func (e *optionsEngine) Class(op, ans string) string {
	if strings.HasPrefix(op, "schema ") {
		return "schema"
	}
	ts := strings.Fields(op)
	el := "?"
	if len(ts) > 2 {
		el = strings.Split(ts[2], ":")[0]
	}
	a := strings.Fields(strings.TrimPrefix(ans, "S="))
	switch {
	case len(a) >= 2 && a[0] == "err":
		return el + "/err:" + a[1]
	case len(a) >= 1:
		return el + "/" + a[0]
	}
	return el
}

// ---------------------------------------------------------------- schema generator

var optAllTargets = []string{"", "TARGET_TYPE_FILE", "TARGET_TYPE_EXTENSION_RANGE", "TARGET_TYPE_MESSAGE", "TARGET_TYPE_FIELD",
	"TARGET_TYPE_ONEOF", "TARGET_TYPE_ENUM", "TARGET_TYPE_ENUM_ENTRY", "TARGET_TYPE_SERVICE", "TARGET_TYPE_METHOD"}

func optTargetsOpt(r *Rand, own int, p int) string {
	// p in 0..100: chance of any targets option at all
	if r == nil || r.Intn(100) >= p {
		return ""
	}
	var ts []string
	switch r.Intn(4) {
	case 0: // exactly the own target
		ts = []string{optAllTargets[own]}
	case 1: // own + another
		ts = []string{optAllTargets[own], optAllTargets[1+r.Intn(9)]}
	case 2: // a foreign one
		ts = []string{optAllTargets[1+(own+r.Intn(8))%9]}
	default:
		ts = []string{"TARGET_TYPE_UNKNOWN"}
	}
	var parts []string
	for _, t := range ts {
		parts = append(parts, "targets = "+t)
	}
	return " [" + strings.Join(parts, ", ") + "]"
}

// optGenSchema writes s.proto (proto2, package s) and t.proto (proto3, package t). r == nil gives
// the fixed kitchen-sink schema.
func optGenSchema(r *Rand) (string, string) {
	pick := func(n int) int {
		if r == nil {
			return 0
		}
		return r.Intn(n)
	}
	chance := func(p int) bool { return r == nil || r.Intn(100) < p }
	var t strings.Builder
	t.WriteString("syntax = \"proto3\";\npackage t;\n")
	t.WriteString("enum E1 { e1a = 0; e1b = 1; e1c = -7; ")
	if chance(50) {
		t.WriteString("e1d = 2147483647; ")
	}
	if chance(50) {
		t.WriteString("e1e = -2147483648; ")
	}
	t.WriteString("}\n")
	t.WriteString("message T0 {\n  int32 f1 = 1; uint64 f2 = 2; string f3 = 3; bytes f4 = 4; bool f5 = 5; double f6 = 6; float f7 = 7;\n")
	t.WriteString("  E1 f8 = 8; T0 f9 = 9; optional int32 f10 = 10; repeated sint32 f11 = 11; map<string, T0> f12 = 12;\n")
	t.WriteString("  oneof o { int64 f13 = 13; E1 f14 = 14; }\n  optional string f15 = 15; sfixed64 f16 = 16;\n}\n")

	var s strings.Builder
	s.WriteString("syntax = \"proto2\";\npackage s;\nimport \"google/protobuf/descriptor.proto\";\nimport \"google/protobuf/any.proto\";\nimport \"t.proto\";\n")
	s.WriteString("enum E0 { e0a = 0; e0b = 1; e0c = -5; ")
	if chance(50) {
		s.WriteString("e0d = 2147483647; ")
	}
	if chance(30) {
		s.WriteString("e0e = 77; ")
	}
	s.WriteString("}\n")
	s.WriteString("enum True { t = 5; f = 6; inf = 7; }\n") // names that look like literals
	s.WriteString("message Host { extensions 100 to 199; }\n")
	scal := []string{"int32", "int64", "uint32", "uint64", "sint32", "sint64", "fixed32", "fixed64", "sfixed32", "sfixed64",
		"float", "double", "bool", "string", "bytes"}
	// M0: every scalar kind, enums, messages, repeated, maps, groups, oneof, Any
	s.WriteString("message M0 {\n")
	for i, k := range scal {
		s.WriteString(fmt.Sprintf("  optional %s f%d = %d;\n", k, i+1, i+1))
	}
	s.WriteString("  optional E0 f16 = 16;\n  optional t.E1 f17 = 17;\n  optional M0 f18 = 18;\n  repeated M0 f19 = 19;\n")
	s.WriteString(fmt.Sprintf("  repeated %s f20 = 20;\n  repeated string f21 = 21;\n", scal[pick(13)]))
	s.WriteString("  map<string, int32> f22 = 22;\n  map<int32, M1> f23 = 23;\n  map<bool, E0> f24 = 24;\n")
	s.WriteString("  optional group G25 = 25 { optional int32 f1 = 1; optional M1 f2 = 2; repeated string f3 = 3; }\n")
	s.WriteString("  repeated group G26 = 26 { optional uint32 f1 = 1; }\n")
	s.WriteString("  oneof o { int32 f27 = 27; string f28 = 28; M1 f29 = 29; group G33 = 33 { optional int32 f1 = 1; } }\n")
	s.WriteString("  optional google.protobuf.Any f30 = 30;\n  repeated E0 f31 = 31;\n  optional t.T0 f32 = 32;\n  repeated google.protobuf.Any f34 = 34;\n")
	s.WriteString("  optional True f35 = 35;\n  repeated t.E1 f36 = 36;\n  map<uint64, string> f37 = 37;\n")
	s.WriteString("  extensions 100 to 199;\n}\n")
	s.WriteString("message M1 {\n")
	if chance(70) {
		s.WriteString("  required int32 f1 = 1;\n")
	} else {
		s.WriteString("  optional int32 f1 = 1;\n")
	}
	s.WriteString("  optional string f2 = 2;\n  optional M1 f3 = 3;\n  repeated M1 f4 = 4;\n  optional M2 f5 = 5;\n}\n")
	s.WriteString("message M2 {\n  optional M1 f1 = 1;\n  repeated double f2 = 2;\n  optional bool f3 = 3" + optTargetsOpt(r, 1+pick(9), 60) + ";\n")
	s.WriteString("  optional E0 f4 = 4" + optTargetsOpt(r, 1+pick(9), 40) + ";\n  extensions 100 to 199;\n}\n")
	// extensions of extensions
	s.WriteString("extend M0 {\n  optional int32 x100 = 100;\n  optional M0 x101 = 101;\n  repeated string x102 = 102;\n  optional M2 x103 = 103" + optTargetsOpt(r, 1+pick(9), 30) + ";\n}\n")
	s.WriteString("extend M2 {\n  optional uint64 y100 = 100;\n  optional M0 y101 = 101;\n}\n")
	s.WriteString("message Scope { extend M0 { optional sint64 x110 = 110; } }\n")
	// custom options for every options message
	pfx := []string{"fi", "me", "fl", "oo", "er", "en", "ev", "sv", "mt"}
	for i, on := range optOptionsNames {
		own := optElems[[]string{"file", "message", "field", "oneof", "extrange", "enum", "enumvalue", "service", "method"}[i]][1]
		p := pfx[i]
		s.WriteString("extend google.protobuf." + on + " {\n")
		n := 50000
		for j, k := range scal {
			if chance(75) {
				s.WriteString(fmt.Sprintf("  optional %s %s_%s = %d%s;\n", k, p, optScalarKinds[j], n+j, optTargetsOpt(r, own, 12)))
			}
		}
		s.WriteString(fmt.Sprintf("  optional M0 %s_m0 = %d%s;\n", p, n+20, optTargetsOpt(r, own, 15)))
		s.WriteString(fmt.Sprintf("  repeated M0 %s_rm0 = %d;\n", p, n+21))
		s.WriteString(fmt.Sprintf("  optional M1 %s_m1 = %d;\n", p, n+22))
		s.WriteString(fmt.Sprintf("  optional M2 %s_m2 = %d;\n", p, n+23))
		s.WriteString(fmt.Sprintf("  optional E0 %s_e0 = %d%s;\n", p, n+24, optTargetsOpt(r, own, 15)))
		s.WriteString(fmt.Sprintf("  optional t.E1 %s_e1 = %d;\n", p, n+25))
		s.WriteString(fmt.Sprintf("  repeated %s %s_rs = %d;\n", scal[pick(15)], p, n+26))
		s.WriteString(fmt.Sprintf("  optional t.T0 %s_t0 = %d;\n", p, n+27))
		s.WriteString(fmt.Sprintf("  optional google.protobuf.Any %s_any = %d;\n", p, n+28))
		s.WriteString(fmt.Sprintf("  repeated E0 %s_re0 = %d;\n", p, n+29))
		s.WriteString(fmt.Sprintf("  optional group %s_G = %d { optional int32 f1 = 1; optional string f2 = 2; }\n", strings.ToUpper(p[:1])+p[1:], n+30))
		s.WriteString(fmt.Sprintf("  repeated t.T0 %s_rt0 = %d;\n", p, n+31))
		s.WriteString(fmt.Sprintf("  optional MS %s_ms = %d;\n", p, n+32))
		s.WriteString(fmt.Sprintf("  optional TG %s_tg = %d;\n", p, n+34))
		s.WriteString(fmt.Sprintf("  repeated float %s_rflt = %d;\n  repeated double %s_rdbl = %d;\n", p, n+35, p, n+36))
		s.WriteString(fmt.Sprintf("  repeated google.protobuf.Any %s_rany = %d;\n", p, n+33))
		s.WriteString("}\n")
	}
	// a custom feature
	// feature lifetimes on fields and on enum values (the user files are edition 2023)
	s.WriteString("enum FE { FE0 = 0; FE1 = 1 [feature_support = {edition_introduced: EDITION_2024}]; " +
		"FE2 = 2 [feature_support = {edition_introduced: EDITION_PROTO2 edition_removed: EDITION_2023}]; " +
		"FE3 = 3 [feature_support = {edition_introduced: EDITION_PROTO2 edition_deprecated: EDITION_2023 deprecation_warning: \"old\"}]; " +
		"FE4 = 4 [feature_support = {edition_introduced: EDITION_2023 edition_removed: EDITION_2024}]; }\n")
	s.WriteString("message Feat { optional E0 f1 = 1; optional int32 f2 = 2; optional M1 f3 = 3;\n" +
		"  optional FE f4 = 4 [feature_support = {edition_introduced: EDITION_2023}];\n" +
		"  optional int32 f5 = 5 [feature_support = {edition_introduced: EDITION_PROTO2 edition_removed: EDITION_2023}];\n" +
		"  optional int32 f6 = 6 [feature_support = {edition_introduced: EDITION_PROTO2 edition_deprecated: EDITION_PROTO3 deprecation_warning: \"w\"}];\n" +
		"  optional int32 f7 = 7 [feature_support = {edition_introduced: EDITION_2024}];\n" +
		"  map<string, FE> f8 = 8; repeated FE f9 = 9; map<int32, M1> f10 = 10; optional t.E1 f11 = 11; repeated M2 f12 = 12;\n}\n")
	// a field restricted to files, reachable directly, through a message, a list and a map
	s.WriteString("message TG { optional int32 f1 = 1 [targets = TARGET_TYPE_FILE]; optional TG f2 = 2; map<string, TG> f3 = 3; repeated TG f4 = 4; }\n")
	// message-set wire format (not supported by this build of the Go runtime: gate in checkFieldUsage)
	s.WriteString("message MS { option message_set_wire_format = true; extensions 4 to max; }\n")
	s.WriteString("message MSI { optional int32 f1 = 1; extend MS { optional MSI mse = 100; } }\n")
	s.WriteString("extend google.protobuf.FeatureSet { optional Feat feat = 9995; optional int32 featn = 9996; }\n")
	return s.String(), t.String()
}

func optSchemaOp(r *Rand) (string, *optState, error) {
	return optSchemaOpV(r, optVariant{})
}

func optSchemaOpV(r *Rand, v optVariant) (string, *optState, error) {
	ss, ts := optGenSchema(r)
	st, err := optCompileSchema(ss, ts, v)
	if err != nil {
		return "", nil, err
	}
	return "schema " + Hex([]byte(ss)) + " " + v.token(Hex([]byte(ts))) + " ABS " + strings.Join(st.schema.tokens(), " "), st, nil
}

// ---------------------------------------------------------------- statement generator

// option names whose use parser.ResultFromAST validates on its own (not option interpretation)
var optParserChecked = map[string]bool{"map_entry": true, "message_set_wire_format": true, "allow_alias": true, "packed": true}

type optGen struct {
	syntax string
	r      *Rand
	s      *optSchema
	wrong  int // per-mille chance of a deliberately ill-typed / out-of-range value
	target int
}

func (g *optGen) extsOf(full string) []*optField {
	var out []*optField
	for i := range g.s.Exts {
		if g.s.Exts[i].Extendee == full {
			out = append(out, &g.s.Exts[i])
		}
	}
	return out
}

func (f *optField) msgIdx() int {
	i, _ := strconv.Atoi(f.Kind[1:])
	return i
}

func (f *optField) isMsg() bool { return f.Kind[0] == 'm' || f.Kind[0] == 'g' }

var optBoundaryU = []string{"0", "1", "2", "127", "2147483647", "2147483648", "4294967295", "4294967296",
	"9223372036854775807", "9223372036854775808", "18446744073709551615", "16777217", "9007199254740993"}
var optBoundaryI = []string{"0", "1", "2147483647", "2147483648", "2147483649", "4294967295", "4294967296", "9223372036854775807", "9223372036854775808", "16777217"}
var optFloats = []uint64{0, 0x3ff8000000000000, 0x47efffffe0000000, 0x47efffffefffffff, 0x47effffff0000000, 0x47f0000000000000,
											0x7fefffffffffffff, 1, 0x36a0000000000000, 0x3690000000000000, 0x3ff0000010000000, 0x4024000000000000, 0x3fb999999999999a}
var optBig = []uint64{0x43f0000000000000, 0x43f0000000000001, 0x4450000000000000} // 2^64, next, 2^70
var optIdents = []string{"true", "false", "t", "f", "True", "False", "TRUE", "inf", "nan", "Inf", "INF", "infinity", "Infinity",
	"NaN", "NAN", "e0a", "e0b", "e0c", "e1a", "e1c", "nope", "IMPLICIT", "SPEED"}
var optSignedIdents = []string{"inf", "nan", "Inf", "INF", "infinity", "Infinity", "NaN", "NAN", "iNfInItY"}
var optStrings = []string{"-", "61", "6162", "00", "c3a9", "225c27", "f09f9880", "5b615d", "7472756520", "ff", "c328"}

func optHexBits(b uint64) string { return fmt.Sprintf("%016x", b) }

// scalar literal tokens usable at the given nesting (signed identifiers other than inf/nan need a message literal)
func optAllScalarLits(inside bool) []string {
	var out []string
	for _, u := range optBoundaryU {
		out = append(out, "u:"+u)
	}
	for _, u := range optBoundaryI {
		out = append(out, "i:"+u)
	}
	for _, f := range optFloats {
		out = append(out, "f:"+optHexBits(f), "nf:"+optHexBits(f))
	}
	for _, f := range optBig {
		out = append(out, "bu:"+optHexBits(f), "bn:"+optHexBits(f))
	}
	for _, id := range optIdents {
		out = append(out, "id:"+id)
	}
	for _, id := range optSignedIdents {
		if inside || id == "inf" || id == "nan" {
			out = append(out, "ni:"+id)
		}
	}
	for _, st := range optStrings {
		out = append(out, "s:"+st)
	}
	return out
}

func (g *optGen) anyLit(inside bool) string {
	ls := optAllScalarLits(inside)
	return ls[g.r.Intn(len(ls))]
}

func (g *optGen) enumIdent(k string) string {
	i, _ := strconv.Atoi(k[1:])
	e := g.s.Enums[i]
	return e.Names[g.r.Intn(len(e.Names))]
}

// goodScalar returns a well-typed literal for kind k.
func (g *optGen) goodScalar(k string, inside bool) string {
	r := g.r
	pickS := func(xs ...string) string { return xs[r.Intn(len(xs))] }
	switch k {
	case "i32", "s32", "sfx32":
		return pickS("u:0", "u:1", "u:2147483647", "i:1", "i:2147483648", "i:0", "u:42")
	case "u32", "fx32":
		return pickS("u:0", "u:1", "u:4294967295", "u:2147483648", "u:7")
	case "i64", "s64", "sfx64":
		return pickS("u:0", "u:9223372036854775807", "i:9223372036854775808", "i:1", "u:5")
	case "u64", "fx64":
		return pickS("u:0", "u:18446744073709551615", "u:9223372036854775808", "u:3")
	case "flt", "dbl":
		switch r.Intn(6) {
		case 0:
			return "id:" + pickS("inf", "nan")
		case 1:
			return "ni:" + pickS("inf", "nan")
		case 2:
			return pickS("u:16777217", "i:3", "u:9007199254740993", "u:0")
		case 3:
			return pickS("bu:", "bn:") + optHexBits(optBig[r.Intn(len(optBig))])
		default:
			return pickS("f:", "nf:") + optHexBits(optFloats[r.Intn(len(optFloats))])
		}
	case "bool":
		if inside {
			return "id:" + pickS("true", "false", "t", "f", "True", "False")
		}
		return "id:" + pickS("true", "false")
	case "str", "byt":
		return "s:" + optStrings[r.Intn(len(optStrings))]
	}
	if k[0] == 'e' {
		if inside && r.Intn(4) == 0 {
			i, _ := strconv.Atoi(k[1:])
			e := g.s.Enums[i]
			switch r.Intn(4) {
			case 0:
				return "u:99" // unknown number
			case 1:
				return "i:7"
			default:
				n := e.Nums[r.Intn(len(e.Nums))]
				if n < 0 {
					return "i:" + strconv.FormatInt(-int64(n), 10)
				}
				return "u:" + strconv.Itoa(int(n))
			}
		}
		return "id:" + g.enumIdent(k)
	}
	return "u:0"
}

func (g *optGen) isWrong() bool { return g.r.Intn(1000) < g.wrong }

// value returns the tokens of a value for field f (one occurrence; for repeated fields one element
// unless inside a literal where a list may be produced by the caller).
func (g *optGen) value(f *optField, inside bool, depth int) []string {
	if g.isWrong() {
		switch g.r.Intn(3) {
		case 0:
			return []string{g.anyLit(inside)}
		case 1:
			return []string{"{", "}"}
		default:
			if f.isMsg() {
				return []string{g.anyLit(inside)}
			}
			return []string{g.anyLit(inside)}
		}
	}
	if f.isMsg() {
		return g.literal(f.msgIdx(), depth+1)
	}
	return []string{g.goodScalar(f.Kind, inside)}
}

func (g *optGen) fieldsOf(mi int) []*optField {
	m := &g.s.Msgs[mi]
	var out []*optField
	for i := range m.Fields {
		out = append(out, &m.Fields[i])
	}
	return out
}

// literal returns the tokens of a message literal for message mi.
func (g *optGen) literal(mi int, depth int) []string {
	r := g.r
	m := &g.s.Msgs[mi]
	out := []string{"{"}
	if m.Full == "google.protobuf.Any" && r.Intn(10) < 8 {
		// expanded Any
		cands := []string{"s.M0", "s.M1", "s.M2", "t.T0", "s.Feat"}
		host := "type.googleapis.com"
		switch r.Intn(12) {
		case 0:
			host = "type.googleprod.com"
		case 1:
			host = "example.com"
		}
		nm := cands[r.Intn(len(cands))]
		if r.Intn(15) == 0 {
			nm = "s.Nope"
		}
		var inner []string
		if idx, ok := g.s.msgIx[nm]; ok && depth < 4 {
			inner = g.literal(idx, depth+1)
		} else {
			inner = []string{"{", "}"}
		}
		sep := "_"
		if r.Intn(2) == 0 {
			sep = ":"
		}
		out = append(out, "a:"+host+"/"+nm, sep)
		if g.isWrong() {
			out = append(out, "u:1")
		} else {
			out = append(out, inner...)
		}
		if g.isWrong() {
			out = append(out, "n:type_url", ":", "s:61")
		}
		return append(out, "}")
	}
	fs := g.fieldsOf(mi)
	xs := g.extsOf(m.Full)
	n := 0
	if depth < 4 && len(fs) > 0 {
		n = r.Intn(4)
		if depth <= 1 {
			n = 1 + r.Intn(4)
		}
	}
	usedOneof := map[int]bool{}
	used := map[int]bool{}
	for i := 0; i < n; i++ {
		var f *optField
		name := ""
		if len(xs) > 0 && r.Intn(5) == 0 {
			f = xs[r.Intn(len(xs))]
			name = "x:" + f.Full
		} else {
			f = fs[r.Intn(len(fs))]
			name = "n:" + f.Name
			if f.Kind[0] == 'g' {
				// groups may be named by type name or by field name
				if r.Intn(3) != 0 {
					name = "n:" + g.s.Msgs[f.msgIdx()].Short
				}
			}
		}
		if f.Name == "uninterpreted_option" {
			continue
		}
		// avoid accidental duplicates / oneof clashes most of the time
		if f.Card != 'r' && used[f.Num] && r.Intn(12) != 0 {
			continue
		}
		if f.Oneof >= 0 && f.Extendee == "" && usedOneof[f.Oneof] && r.Intn(12) != 0 {
			continue
		}
		used[f.Num] = true
		if f.Oneof >= 0 && f.Extendee == "" {
			usedOneof[f.Oneof] = true
		}
		if g.isWrong() && r.Intn(3) == 0 {
			switch r.Intn(3) {
			case 0:
				name = "n:nosuch"
			case 1:
				name = "x:s.x100" // an extension of M0, possibly foreign here
			default:
				name = "n:" + strings.ToUpper(f.Name)
			}
		}
		sep := ":"
		if f.isMsg() && r.Intn(2) == 0 {
			sep = "_"
		}
		if !f.isMsg() && g.isWrong() && r.Intn(4) == 0 {
			sep = "_"
		}
		if f.Card == 'r' && r.Intn(3) == 0 {
			// list form
			k := r.Intn(4)
			out = append(out, name, sep, "[")
			for j := 0; j < k; j++ {
				out = append(out, g.value(f, true, depth)...)
			}
			out = append(out, "]")
			continue
		}
		v := g.value(f, true, depth)
		if sep == "_" && v[0] != "{" && v[0] != "[" {
			// "name value" without colon only parses for message/list values; keep the op well-formed
			// but still exercise the interpreter's own check with a message value on a scalar field
			if g.isWrong() {
				v = []string{"{", "}"}
			} else {
				sep = ":"
			}
		}
		out = append(out, name, sep)
		out = append(out, v...)
	}
	return append(out, "}")
}

// statement builds one option statement for the options message mi.
func (g *optGen) statement(mi int, custom int) []string {
	r := g.r
	m := &g.s.Msgs[mi]
	var parts []string
	var f *optField
	xs := g.extsOf(m.Full)
	fs := g.fieldsOf(mi)
	if len(xs) > 0 && r.Intn(100) < custom {
		f = xs[r.Intn(len(xs))]
		parts = append(parts, "x:"+f.Full)
	} else {
		for tries := 0; tries < 40; tries++ {
			f = fs[r.Intn(len(fs))]
			if optParserChecked[f.Name] || (f.Name == "features" && g.syntax != "e23" && r.Intn(8) != 0) {
				continue
			}
			if f.Name != "uninterpreted_option" || r.Intn(40) == 0 {
				break
			}
		}
		if optParserChecked[f.Name] {
			f = fs[0]
			for i := range fs {
				if fs[i].Name == "deprecated" {
					f = fs[i]
				}
			}
		}
		parts = append(parts, "n:"+f.Name)
	}
	cur := f
	for depth := 0; depth < 4; depth++ {
		if !cur.isMsg() || r.Intn(2) == 0 {
			if !(g.isWrong() && r.Intn(3) == 0) {
				break
			}
			// ill-formed path: descend through a scalar / pick a missing field
			parts = append(parts, "n:"+[]string{"f1", "nosuch", "f19"}[r.Intn(3)])
			break
		}
		if cur.Card == 'r' && !(g.isWrong()) {
			break
		}
		sub := cur.msgIdx()
		sfs := g.fieldsOf(sub)
		sxs := g.extsOf(g.s.Msgs[sub].Full)
		if len(sxs) > 0 && r.Intn(4) == 0 {
			nf := sxs[r.Intn(len(sxs))]
			parts = append(parts, "x:"+nf.Full)
			cur = nf
		} else if len(sfs) > 0 {
			nf := sfs[r.Intn(len(sfs))]
			nm := nf.Name
			if nf.Kind[0] == 'g' && g.isWrong() {
				nm = g.s.Msgs[nf.msgIdx()].Short
			}
			parts = append(parts, "n:"+nm)
			cur = nf
		} else {
			break
		}
	}
	out := []string{strconv.Itoa(len(parts))}
	out = append(out, parts...)
	v := g.value(cur, false, 0)
	if v[0] == "[" {
		v = []string{"u:1"}
	}
	return append(out, v...)
}

var optElemKinds = []string{"file", "message", "field", "oneof", "extrange", "enum", "enumvalue", "service", "method", "extfield",
	"oneoffield", "nfield", "nextfield", "mapfield", "groupfield", "groupmsg", "nmessage", "nenum", "nenumvalue", "extrange"}

func (g *optGen) elemTok(kind string, syntax string) string {
	if kind == "extrange" {
		// one to four ranges in one statement, sharing the options clause
		if c := 1 + g.r.Intn(4); c > 1 {
			return "extrange:" + strconv.Itoa(c)
		}
		return kind
	}
	if !optFieldLike[kind] {
		return kind
	}
	r := g.r
	ks := append([]string{}, optScalarKinds...)
	for _, n := range []string{"s.E0", "t.E1"} {
		if i, ok := g.s.enumIx[n]; ok {
			ks = append(ks, "e"+strconv.Itoa(i))
		}
	}
	for _, n := range []string{"s.M1"} {
		if i, ok := g.s.msgIx[n]; ok {
			ks = append(ks, "m"+strconv.Itoa(i))
		}
	}
	k := ks[r.Intn(len(ks))]
	label := "o"
	if r.Intn(5) == 0 && kind != "oneoffield" {
		label = "r"
	}
	if syntax == "p3" && strings.HasPrefix(k, "e") && g.s.Enums[optMustAtoi(k[1:])].Closed {
		k = "i32" // proto3 fields cannot use closed (proto2) enums
	}
	return kind + ":" + k + ":" + label
}

// element kinds that proto3 / editions files cannot contain
var optNoProto3 = map[string]bool{"extrange": true, "extfield": true, "nextfield": true, "groupfield": true, "groupmsg": true}
var optNoEditions = map[string]bool{"groupfield": true, "groupmsg": true}

func optMustAtoi(s string) int { i, _ := strconv.Atoi(s); return i }

func optSyntaxFor(r *Rand, kind string) string {
	switch r.Intn(4) {
	case 0:
		if !optNoProto3[kind] {
			return "p3"
		}
		return "p2"
	case 1:
		if !optNoEditions[kind] {
			return "e23"
		}
	}
	return "p2"
}

// op builds one `opt` line.
func (g *optGen) op(kind string, syntax string, nst int, custom int) string {
	oi := optElems[kind]
	g.target = oi[1]
	g.syntax = syntax
	mi := g.s.OptIdx[oi[0]]
	el := g.elemTok(kind, syntax)
	toks := []string{"opt", syntax, el, strconv.Itoa(nst)}
	for i := 0; i < nst; i++ {
		if optHasPseudo[kind] && syntax != "p3" && g.r.Intn(4) == 0 {
			toks = append(toks, g.pseudo(el)...)
			continue
		}
		if syntax == "e23" && g.r.Intn(4) == 0 {
			toks = append(toks, g.featureStmt(mi)...)
			continue
		}
		toks = append(toks, g.statement(mi, custom)...)
	}
	return strings.Join(toks, " ")
}

// featureStmt: features.<x> = V, features.(s.feat).f = v, features = { … }
func (g *optGen) featureStmt(mi int) []string {
	r := g.r
	var ff *optField
	for _, f := range g.fieldsOf(mi) {
		if f.Name == "features" {
			ff = f
		}
	}
	if ff == nil {
		return g.statement(mi, 50)
	}
	fsi := ff.msgIdx()
	switch r.Intn(5) {
	case 0:
		return append([]string{"1", "n:features"}, g.literal(fsi, 1)...)
	case 1:
		return []string{"3", "n:features", "x:s.feat", "n:f2", g.goodScalar("i32", false)}
	case 2:
		fe := g.s.Msgs[g.s.msgIx["s.Feat"]].Fields[0]
		return []string{"3", "n:features", "x:s.feat", "n:f1", g.goodScalar(fe.Kind, false)}
	case 3:
		return []string{"2", "n:features", "x:s.featn", g.goodScalar("i32", false)}
	}
	fs := g.fieldsOf(fsi)
	f := fs[r.Intn(len(fs))]
	return []string{"2", "n:features", "n:" + f.Name, g.goodScalar(f.Kind, false)}
}

// pseudo: default / json_name statements for a field element token field:<kind>:<label>
func (g *optGen) pseudo(el string) []string {
	r := g.r
	p := strings.Split(el, ":")
	if r.Intn(25) == 0 {
		// a pseudo-option name followed by further name parts
		return [][]string{{"2", "n:default", "n:foo", "u:1"}, {"2", "n:json_name", "n:x", "s:61"}, {"2", "n:default", "x:s.fl_i32", "u:1"}}[r.Intn(3)]
	}
	if r.Intn(3) == 0 {
		js := []string{"s:6162", "s:66", "s:7578", "s:5b615d", "s:-", "s:5b", "u:1", "id:foo"}
		return []string{"1", "n:json_name", js[r.Intn(len(js))]}
	}
	k := "i32"
	if len(p) > 1 {
		k = p[1]
	}
	var v string
	switch {
	case g.isWrong() || r.Intn(10) == 0:
		v = g.anyLit(false)
		if r.Intn(4) == 0 {
			return []string{"1", "n:default", "{", "}"}
		}
	case k == "flt" || k == "dbl":
		v = []string{"id:inf", "id:nan", "ni:inf", "ni:nan", "f:3ff8000000000000", "u:3", "nf:0000000000000000", "f:47efffffe0000000", "i:5", "f:3fb999999999999a"}[r.Intn(10)]
	case k[0] == 'm':
		v = "u:1"
	default:
		v = g.goodScalar(k, false)
	}
	return []string{"1", "n:default", v}
}

// ---------------------------------------------------------------- Gen

func optKitchen() (string, *optState) {
	op, st, err := optSchemaOp(nil)
	if err != nil {
		panic("options: kitchen-sink schema does not compile: " + err.Error())
	}
	return op, st
}

// exhaustive scalar table: every scalar kind (and a closed and an open enum) x every boundary literal,
// as a top-level option value and inside a message literal
func optScalarTable(st *optState) []string {
	var ops []string
	kinds := append([]string{}, optScalarKinds...)
	for _, k := range kinds {
		for _, l := range optAllScalarLits(false) {
			ops = append(ops, "opt p2 file 1 1 x:s.fi_"+k+" "+l)
		}
	}
	for _, x := range []string{"s.fi_e0", "s.fi_e1"} {
		for _, l := range append(optAllScalarLits(false), "u:5", "i:5", "i:7", "i:2147483648", "i:2147483649", "u:77") {
			ops = append(ops, "opt p2 file 1 1 x:"+x+" "+l)
		}
	}
	m0 := st.schema.Msgs[st.schema.msgIx["s.M0"]]
	for i := 0; i < 17; i++ {
		f := m0.Fields[i]
		lits := optAllScalarLits(true)
		if i >= 15 {
			lits = append(lits, "u:5", "i:5", "i:7", "i:2147483648", "i:2147483649", "u:77", "u:2147483648")
		}
		for _, l := range lits {
			ops = append(ops, "opt p2 file 1 1 x:s.fi_m0 { n:"+f.Name+" : "+l+" }")
		}
	}
	return ops
}

// pairs of statements over a fixed list of paths: set-twice, prefix/extension, oneof, repeated
func optPathPairs() []string {
	type pv struct{ path, val string }
	ps := []pv{
		{"1 x:s.fi_m0", "{ n:f1 : u:1 }"}, {"1 x:s.fi_m0", "{ }"}, {"2 x:s.fi_m0 n:f1", "u:2"}, {"2 x:s.fi_m0 n:f14", "s:61"},
		{"2 x:s.fi_m0 n:f18", "{ n:f1 : u:3 }"}, {"3 x:s.fi_m0 n:f18 n:f1", "u:4"}, {"3 x:s.fi_m0 n:f18 n:f2", "u:4"},
		{"4 x:s.fi_m0 n:f18 n:f18 n:f1", "u:5"}, {"2 x:s.fi_m0 n:f19", "{ n:f1 : u:6 }"}, {"3 x:s.fi_m0 n:f19 n:f1", "u:7"},
		{"3 x:s.fi_m0 n:f1 n:f1", "u:8"}, {"2 x:s.fi_m0 n:f27", "u:9"}, {"2 x:s.fi_m0 n:f28", "s:62"},
		{"3 x:s.fi_m0 n:f29 n:f1", "u:1"}, {"3 x:s.fi_m0 n:f29 n:f2", "s:63"}, {"3 x:s.fi_m0 n:g25 n:f1", "u:1"},
		{"3 x:s.fi_m0 n:G25 n:f1", "u:1"}, {"3 x:s.fi_m0 n:g33 n:f1", "u:1"}, {"2 x:s.fi_m0 x:s.x100", "u:1"},
		{"3 x:s.fi_m0 x:s.x101 n:f1", "u:1"}, {"2 x:s.fi_m0 x:s.y100", "u:1"}, {"2 x:s.fi_m0 n:f20", "u:1"},
		{"2 x:s.fi_m0 n:f22", "{ n:key : s:61 n:value : u:1 }"}, {"1 x:s.fi_rm0", "{ n:f1 : u:1 }"},
		{"2 x:s.fi_t0 n:f1", "u:0"}, {"2 x:s.fi_t0 n:f1", "u:3"}, {"2 x:s.fi_t0 n:f10", "u:0"}, {"2 x:s.fi_t0 n:f13", "u:0"},
		{"2 x:s.fi_t0 n:f14", "id:e1a"}, {"2 x:s.fi_t0 n:f14", "id:e1b"}, {"3 x:s.fi_t0 n:f9 n:f3", "s:-"},
		{"1 n:deprecated", "id:true"}, {"1 n:java_package", "s:61"}, {"2 x:s.fi_m1 n:f2", "s:61"}, {"2 x:s.fi_m1 n:f1", "u:1"},
		{"3 x:s.fi_m0 n:f29 n:f3", "{ n:f1 : u:2 }"},
	}
	var ops []string
	for _, a := range ps {
		ops = append(ops, "opt p2 file 1 "+a.path+" "+a.val)
		for _, b := range ps {
			ops = append(ops, "opt p2 file 2 "+a.path+" "+a.val+" "+b.path+" "+b.val)
		}
	}
	return ops
}

// optCalib: option statements transcribed (onto the fixed schema) from test tables of /repo whose
// accept/reject outcome upstream CI compares with protoc (linker/linker_test.go, parser/validate_test.go);
// `diff` marks a case the project documents as an intentional difference (expectedDiffWithProtoc).
func optCalib(st *optState) []string {
	e0 := "e" + strconv.Itoa(st.schema.enumIx["s.E0"])
	c := []struct{ exp, op string }{
		{"reject", "opt p2 file 1 1 n:b u:123"},                                                                                         // failure_unknown_file_option
		{"reject", "opt p2 file 1 1 n:uninterpreted_option { }"},                                                                        // failure_invalid_option
		{"reject", "opt p2 file 1 2 x:s.fi_m0 n:nosuch u:123"},                                                                          // failure_option_unknown_field
		{"reject", "opt p2 file 1 2 x:s.fi_m0 n:f14 u:123"},                                                                             // failure_option_wrong_type
		{"reject", "opt p2 file 1 1 x:s.x100 u:123"},                                                                                    // failure_extension_message_not_file
		{"reject", "opt p2 file 1 1 x:s.fi_m0 { n:f14 : [ u:123 ] }"},                                                                   // failure_option_not_repeated
		{"reject", "opt p2 file 1 1 x:s.fi_m0 { n:f21 : [ s:61 s:62 u:123 ] }"},                                                         // failure_option_repeated_string_integer
		{"reject", "opt p2 file 2 1 x:s.fi_m0 { n:f14 : s:61 } 1 x:s.fi_m0 { n:f14 : s:62 }"},                                           // failure_option_non_repeated_override
		{"reject", "opt p2 file 2 1 x:s.fi_m0 { n:f14 : s:61 } 2 x:s.fi_m0 n:f14 s:62"},                                                 // failure_option_non_repeated_override2
		{"reject", "opt p2 file 2 1 x:s.fi_m0 { n:f14 : s:61 } 2 x:s.fi_m0 x:s.x100 s:62"},                                              // failure_option_int32_not_string
		{"reject", "opt p2 file 1 1 x:s.fi_m1 { n:f2 : s:61 }"},                                                                         // failure_option_required_field_unset
		{"reject", "opt p2 file 1 2 x:s.fi_m1 n:f2 s:61"},                                                                               // failure_option_required_field_unset2
		{"accept", "opt p2 message 1 3 x:s.me_m0 n:g25 n:f1 u:1"},                                                                       // success_group_in_custom_option
		{"reject", "opt p2 message 1 3 x:s.me_m0 n:G25 n:f1 u:1"},                                                                       // failure_group_in_custom_option_referred_by_type_name
		{"accept", "opt p2 message 1 1 x:s.me_m0 { n:g25 _ { n:f1 : u:1 } }"},                                                           // success_group_in_custom_option_msg_literal_referred_by_field_name
		{"accept", "opt p2 message 1 1 x:s.me_m0 { n:G25 _ { n:f1 : u:1 } }"},                                                           // success_group_in_custom_option_msg_literal
		{"reject", "opt p2 message 1 1 x:s.me_m0 { n:f27 : u:1 n:f28 : s:78 }"},                                                         // failure_oneof_extension_already_set_msg_literal
		{"diff", "opt p2 message 2 2 x:s.me_m0 n:f27 u:1 2 x:s.me_m0 n:f28 s:78"},                                                       // failure_oneof_extension_already_set (expectedDiffWithProtoc)
		{"diff", "opt p2 message 2 3 x:s.me_m0 n:f29 n:f2 s:61 3 x:s.me_m0 n:g33 n:f1 u:1"},                                             // …_implied_by_destructured_option (expectedDiffWithProtoc)
		{"accept", "opt p2 file 1 1 x:s.fi_m0 { n:f21 : [ ] n:f19 _ [ ] }"},                                                             // success_empty_array_literal_no_leading_colon_if_msg
		{"accept", "opt p2 file 1 1 x:s.fi_m0 { n:f21 : [ s:616263 s:646566 ] n:f19 _ [ { n:f21 : s:666f6f } { n:f21 : s:626172 } ] }"}, // success_array_literal
		{"accept", "opt p2 message 1 1 x:s.me_bool id:true"}, {"accept", "opt p2 message 1 1 x:s.me_bool id:false"},                     // failure_option_boolean_names
		{"reject", "opt p2 message 1 1 x:s.me_bool id:t"}, {"reject", "opt p2 message 1 1 x:s.me_bool id:f"},
		{"reject", "opt p2 message 1 1 x:s.me_bool id:True"}, {"reject", "opt p2 message 1 1 x:s.me_bool id:False"},
		{"accept", "opt p2 message 1 1 x:s.me_m0 { n:f13 : id:t }"}, {"accept", "opt p2 message 1 1 x:s.me_m0 { n:f13 : id:f }"}, // success_message_literals_boolean_names
		{"accept", "opt p2 message 1 1 x:s.me_m0 { n:f13 : id:true }"}, {"accept", "opt p2 message 1 1 x:s.me_m0 { n:f13 : id:false }"},
		{"accept", "opt p2 message 1 1 x:s.me_m0 { n:f13 : id:True }"}, {"accept", "opt p2 message 1 1 x:s.me_m0 { n:f13 : id:False }"},
		{"accept", "opt p2 file 1 1 x:s.fi_m0 { n:f16 : u:1 }"},                                                           // success_enum_in_msg_literal_using_number
		{"accept", "opt p2 file 1 1 x:s.fi_m0 { n:f16 : i:5 }"},                                                           // success_enum_in_msg_literal_using_negative_number
		{"accept", "opt p2 file 1 1 x:s.fi_m0 { n:f17 : u:5 }"},                                                           // success_open_enum_in_msg_literal_using_unknown_number
		{"reject", "opt p2 file 1 1 x:s.fi_e0 u:1"},                                                                       // failure_enum_option_using_number
		{"reject", "opt p2 file 1 1 x:s.fi_m0 { n:f16 : u:5 }"},                                                           // failure_closed_enum_in_msg_literal_using_unknown_number
		{"reject", "opt p2 file 1 1 x:s.fi_m0 { n:f17 : u:2147483648 }"},                                                  // failure_enum_in_msg_literal_using_out_of_range_number
		{"reject", "opt p2 file 1 1 x:s.fi_m0 { n:f17 : i:2147483649 }"},                                                  // failure_enum_in_msg_literal_using_out_of_range_negative_number
		{"accept", "opt p2 message 1 1 x:s.me_any { a:type.googleapis.com/t.T0 _ { n:f3 : s:616263 n:f1 : u:123 } }"},     // success_any_message_literal
		{"reject", "opt p2 message 1 1 x:s.me_t0 { a:type.googleapis.com/t.T0 _ { n:f3 : s:616263 } }"},                   // failure_any_message_literal_not_any
		{"reject", "opt p2 message 1 1 x:s.me_any { a:types.custom.io/t.T0 _ { n:f3 : s:616263 } }"},                      // failure_any_message_literal_unsupported_domain
		{"reject", "opt p2 message 1 1 x:s.me_any { a:type.googleapis.com/t.T0 : u:123 }"},                                // failure_any_message_literal_scalar
		{"reject", "opt p2 message 1 1 x:s.me_any { a:type.googleapis.com/t.T0 _ { } a:type.googleapis.com/t.T0 _ { } }"}, // failure_any_message_literal_duplicate
		{"reject", "opt e23 field:i32:o 1 2 n:features n:enum_type id:OPEN"},                                              // failure_editions_feature_on_wrong_target_type
		{"reject", "opt e23 field:i32:o 1 1 n:features { n:enum_type : id:OPEN }"},                                        // failure_editions_feature_on_wrong_target_type_msg_literal
		{"accept", "opt p2 message 1 2 x:s.me_m0 n:f35 id:t"}, {"accept", "opt p2 message 1 2 x:s.me_m0 n:f35 id:inf"},    // success_custom_option_enums_look_like_msg_literal_keywords
		{"accept", "opt p2 message 1 1 x:s.me_m0 { n:f35 : id:f }"},
		{"accept", "opt p2 file 1 1 x:s.fi_dbl id:inf"}, {"accept", "opt p2 file 1 1 x:s.fi_dbl ni:inf"}, // success_inf_nan_in_option_value
		{"accept", "opt p2 file 1 1 x:s.fi_dbl id:nan"}, {"accept", "opt p2 file 1 1 x:s.fi_dbl ni:nan"},
		{"reject", "opt e23 file 1 2 n:features n:enforce_naming_style id:STYLE2024"}, // failure_editions_feature_not_yet_introduced (pattern)
		{"reject", "opt e23 file 1 1 n:features { n:enforce_naming_style : id:STYLE2024 }"},
		{"reject", "opt p2 extfield:i32:o 1 1 n:json_name s:626172"},      // failure_json_name_on_extension
		{"reject", "opt p2 field:i32:o 1 1 n:json_name s:5b666f6f5d"},     // failure_json_name_looks_like_extension
		{"reject", "opt p2 field:i32:r 1 1 n:default u:1"},                // failure_default_repeated
		{"reject", "opt p2 field:str:o 1 1 n:default { n:a : s:616263 }"}, // failure_default_string_message
		{"reject", "opt p2 field:str:o 1 1 n:default f:3ff8000000000000"}, // failure_string_default_double
		{"reject", "opt p2 field:" + e0 + ":o 1 1 n:default id:NACK"},     // failure_enum_default_not_found
		{"reject", "opt p2 field:" + e0 + ":o 1 1 n:default u:1"},         // failure_default_value_for_enum_using_number
	}
	// parser/validate_test.go success_inf_nan_in_message_literal: protoc accepts every spelling
	for _, id := range []string{"inf", "INF", "infinity", "INFiniTY", "nan", "NAN"} {
		c = append(c, struct{ exp, op string }{"accept", "opt p2 file 1 1 x:s.fi_m0 { n:f11 : id:" + id + " }"})
	}
	for _, id := range []string{"inf", "Inf", "infinity", "Infinity", "nan", "NaN"} {
		c = append(c, struct{ exp, op string }{"accept", "opt p2 file 1 1 x:s.fi_m0 { n:f11 : ni:" + id + " }"})
	}
	var ops []string
	for _, x := range c {
		ops = append(ops, "calib "+x.exp+" "+x.op)
	}
	return ops
}

// every field kind x every default literal, json_name forms, and pseudo-option names used as path prefixes
func optPseudoGrid(st *optState) []string {
	var ops []string
	kinds := append([]string{}, optScalarKinds...)
	kinds = append(kinds, "e"+strconv.Itoa(st.schema.enumIx["s.E0"]), "e"+strconv.Itoa(st.schema.enumIx["s.True"]), "m"+strconv.Itoa(st.schema.msgIx["s.M1"]))
	lits := []string{"u:0", "u:1", "i:0", "i:1", "u:2147483648", "i:2147483649", "u:4294967296", "u:18446744073709551615", "i:9223372036854775808",
		"f:3ff8000000000000", "nf:0000000000000000", "f:47efffffe0000000", "f:47f0000000000000", "id:inf", "id:nan", "ni:inf", "ni:nan", "id:true", "id:false", "id:t",
		"id:e0b", "id:nope", "s:-", "s:6162", "s:00ff27", "{ }", "id:Inf"}
	for _, k := range kinds {
		for _, l := range lits {
			ops = append(ops, "opt p2 field:"+k+":o 1 1 n:default "+l)
		}
		ops = append(ops, "opt p2 field:"+k+":r 1 1 n:default u:1", "opt e23 field:"+k+":o 1 1 n:default u:1")
	}
	for _, el := range []string{"field:i32:o", "extfield:i32:o", "field:str:r"} {
		for _, j := range []string{"s:6162", "s:66", "s:7578", "s:5b615d", "s:-", "s:5b", "s:5d", "s:5b5d", "u:1", "id:foo", "{ }"} {
			ops = append(ops, "opt p2 "+el+" 1 1 n:json_name "+j)
			ops = append(ops, "opt p2 "+el+" 3 1 n:deprecated id:true 1 n:json_name "+j+" 1 n:default u:7")
			ops = append(ops, "opt p2 "+el+" 2 1 n:json_name "+j+" 1 n:json_name s:66")
		}
		ops = append(ops, "opt p2 "+el+" 1 2 n:default n:foo u:1", "opt p2 "+el+" 1 2 n:json_name n:x s:61",
			"opt p2 "+el+" 2 1 n:default u:1 1 n:default u:2", "opt p2 "+el+" 2 2 n:default n:foo u:1 1 n:default u:2",
			"opt p2 "+el+" 1 2 n:default x:s.fl_i32 u:1", "opt p2 "+el+" 2 1 x:s.fl_i32 u:1 1 n:default u:3")
	}
	return ops
}

// optDirected: one op per behaviour the checks must keep seeing on every run
func optDirected() []string {
	ops := []string{
		// second-pass validation on fields vs other elements
		"opt e23 field:i32:o 1 2 n:features n:enforce_naming_style id:STYLE2024",
		"opt e23 message 1 2 n:features n:enforce_naming_style id:STYLE2024",
		"opt e23 field:i32:o 2 2 n:features n:enforce_naming_style id:STYLE2024 1 x:s.fl_i32 u:1",
		"opt e23 field:i32:o 1 1 n:features { n:default_symbol_visibility : id:STRICT }",
		// required fields without / with a custom option on the element
		"opt e23 message 1 3 n:features x:s.feat n:f3 { }",
		"opt e23 message 2 3 n:features x:s.feat n:f3 { } 1 x:s.me_i32 u:1",
		"opt e23 field:i32:o 1 3 n:features x:s.feat n:f3 { }",
		// former panics (fixed in /repo 47c63915, 28d6433e): now diagnostics
		"opt p2 file 1 1 x:s.fi_m1 { x:s.x100 : u:1 }",
		"opt p2 file 1 1 x:s.fi_m1 { n:f1 : u:1 x:s.x102 : [ s:61 ] }",
		"opt p2 file 1 1 x:s.fi_m0 { n:F1 : u:1 }",
		"opt p2 file 1 1 x:s.fi_m0 { n:F18 : { } }",
		"opt p2 file 1 1 x:s.fi_m0 { n:G26 _ { } n:g26 _ { } n:G25 : { } }",
		// multi-part pseudo-option names on a field (fixed in /repo 3b5d7843: rejected)
		"opt p2 field:i32:o 1 2 n:default n:foo u:1",
		"opt p2 field:i32:o 2 2 n:json_name n:x s:61 1 n:deprecated id:true",
	}
	any := func(host, name, inner string) string { return "a:" + host + "/" + name + " _ " + inner }
	ga := "type.googleapis.com"
	ops = append(ops,
		// expanded Any: every error branch, in option values of type Any, repeated Any, and Any fields of literals
		"opt p2 file 1 1 x:s.fi_any { "+any(ga, "s.M2", "{ n:f3 : id:true }")+" }",
		"opt p2 file 1 1 x:s.fi_any { "+any("type.googleprod.com", "t.T0", "{ n:f3 : s:61 }")+" }",
		"opt p2 file 1 1 x:s.fi_any { "+any("example.com", "s.M2", "{ }")+" }",
		"opt p2 file 1 1 x:s.fi_any { "+any(ga, "s.Nope", "{ }")+" }",
		"opt p2 file 1 1 x:s.fi_any { a:"+ga+"/s.M2 : u:1 }",
		"opt p2 file 1 1 x:s.fi_any { a:"+ga+"/s.M2 : [ { } ] }",
		"opt p2 file 1 1 x:s.fi_any { "+any(ga, "s.M2", "{ }")+" "+any(ga, "s.M2", "{ }")+" }",
		"opt p2 file 1 1 x:s.fi_any { "+any(ga, "s.M2", "{ }")+" n:type_url : s:61 }",
		"opt p2 file 1 1 x:s.fi_any { n:value : s:61 "+any(ga, "s.M2", "{ }")+" }",
		"opt p2 file 1 1 x:s.fi_m2 { "+any(ga, "s.M2", "{ }")+" }",
		"opt p2 file 1 1 x:s.fi_m2 { "+any(ga, "s.M2", "{ }")+" n:f3 : id:true }",
		"opt p2 file 1 1 x:s.fi_any { "+any(ga, "s.M1", "{ n:f2 : s:61 }")+" }",
		"opt p2 file 1 1 x:s.fi_any { "+any(ga, "s.M2", "{ n:nosuch : u:1 }")+" }",
		"opt p2 file 1 1 x:s.fi_any { "+any(ga, "s.M2", "{ n:f3 : u:1 }")+" }",
		"opt p2 file 2 1 x:s.fi_rany { "+any(ga, "s.M2", "{ n:f3 : id:true }")+" } 1 x:s.fi_rany { "+any(ga, "t.T0", "{ n:f1 : u:5 }")+" }",
		"opt p2 file 1 1 x:s.fi_m0 { n:f30 : { "+any(ga, "s.M2", "{ n:f2 : [ f:3ff8000000000000 ] }")+" } n:f34 : [ { "+any(ga, "s.M2", "{ }")+" } { n:type_url : s:78 } ] }",
		"opt p2 file 1 1 x:s.fi_m0 { n:f34 _ [ { "+any("bad.host", "s.M2", "{ }")+" } ] n:f1 : u:1 }",
		"opt p2 message 2 1 x:s.me_any { "+any(ga, "s.M2", "{ n:f3 : u:1 }")+" } 1 n:deprecated id:true",
		// the name uninterpreted_option itself
		"opt p2 file 1 1 n:uninterpreted_option { }",
		"opt p2 message 2 1 n:uninterpreted_option { } 1 n:deprecated id:true",
		"opt p2 field:i32:o 2 2 n:uninterpreted_option n:name u:1 1 x:s.fl_i32 u:1",
		// feature lifetimes: fields and enum values, singular / repeated / map, all against edition 2023
		"opt e23 file 1 3 n:features x:s.feat n:f4 id:FE0",
		"opt e23 file 1 3 n:features x:s.feat n:f4 id:FE1",
		"opt e23 file 1 3 n:features x:s.feat n:f4 id:FE2",
		"opt e23 file 1 3 n:features x:s.feat n:f4 id:FE3",
		"opt e23 file 1 3 n:features x:s.feat n:f4 id:FE4",
		"opt e23 file 1 3 n:features x:s.feat n:f5 u:1",
		"opt e23 file 1 3 n:features x:s.feat n:f6 u:1",
		"opt e23 file 1 3 n:features x:s.feat n:f7 u:1",
		"opt e23 message 1 2 n:features x:s.feat { n:f8 : { n:key : s:61 n:value : id:FE0 } n:f8 : { n:key : s:62 n:value : id:FE3 } }",
		"opt e23 message 1 2 n:features x:s.feat { n:f8 : { n:key : s:61 n:value : id:FE1 } }",
		"opt e23 message 1 2 n:features x:s.feat { n:f9 : [ id:FE0 id:FE4 ] }",
		"opt e23 message 1 2 n:features x:s.feat { n:f9 : [ id:FE0 id:FE2 ] }",
		"opt e23 message 1 2 n:features x:s.feat { n:f9 : u:9 n:f11 : u:77 }",
		"opt e23 message 1 2 n:features x:s.feat { n:f10 : { n:key : u:1 n:value : { n:f1 : u:1 } } n:f12 _ [ { n:f3 : id:true } ] }",
		"opt e23 message 2 2 n:features x:s.feat { n:f10 : { n:key : u:1 } } 1 x:s.me_i32 u:1",
		"opt e23 enumvalue 2 3 n:features x:s.feat n:f4 id:FE2 1 x:s.ev_i32 u:1",
		"opt e23 field:i32:o 2 3 n:features x:s.feat n:f4 id:FE1 1 x:s.fl_i32 u:1",
		// a feature defined in the file that uses it
		"opt e23s file 1 3 n:features x:uf n:a u:1",
		"opt e23s message 1 2 n:features x:uf { n:a : u:1 }",
		"opt e23s message 1 1 n:features { x:uf _ { } }",
		"opt e23s field:i32:o 2 3 n:features x:uf n:a u:1 1 x:s.fl_i32 u:1",
		"opt e23s message 2 3 n:features x:s.feat n:f2 u:1 1 n:deprecated id:true",
		// target types of fields deep inside a value (directly, in a message, a list, a map)
		"opt p2 file 1 1 x:s.fi_tg { n:f1 : u:1 n:f2 : { n:f1 : u:2 } n:f3 : { n:key : s:61 n:value : { n:f1 : u:3 } } n:f4 : [ { n:f1 : u:4 } ] }",
		"opt p2 message 1 1 x:s.me_tg { n:f1 : u:1 }",
		"opt p2 message 1 1 x:s.me_tg { n:f2 : { n:f1 : u:2 } }",
		"opt p2 message 1 1 x:s.me_tg { n:f3 : { n:key : s:61 n:value : { n:f1 : u:3 } } }",
		"opt p2 message 1 1 x:s.me_tg { n:f4 : [ { } { n:f1 : u:4 } ] }",
		"opt p2 message 1 1 x:s.me_tg { n:f4 : [ { } ] n:f3 : { n:key : s:61 } n:f2 : { } }",
		"opt p2 enumvalue 1 3 x:s.ev_tg n:f2 n:f1 u:1",
		"opt p2 message 1 1 x:s.me_any { a:type.googleapis.com/s.TG _ { n:f1 : u:1 } }",
		"opt p2 file 1 1 x:s.fi_any { a:type.googleapis.com/s.TG _ { n:f1 : u:1 } }",
		// message-set wire format is not supported by this build of the runtime
		"opt p2 file 1 2 x:s.fi_ms x:s.MSI.mse { n:f1 : u:1 }",
		"opt p2 file 1 1 x:s.fi_ms { x:s.MSI.mse _ { n:f1 : u:1 } }",
		"opt p2 file 1 1 x:s.fi_ms { }",
		"opt p2 message 2 1 x:s.me_ms { x:s.MSI.mse : { } } 1 n:deprecated id:true",
		// strings that are not UTF-8: proto2 string (kept), proto3 string (the final conversion fails), bytes, Any
		"opt p2 file 1 1 x:s.fi_str s:ff",
		"opt p2 file 1 1 x:s.fi_byt s:ff",
		"opt p2 file 1 2 x:s.fi_t0 n:f3 s:ff",
		"opt p2 file 1 2 x:s.fi_t0 n:f4 s:ff",
		"opt p2 file 1 1 x:s.fi_t0 { n:f12 : { n:key : s:c328 } }",
		"opt p2 file 2 2 x:s.fi_t0 n:f15 s:e282 1 n:java_package s:ff",
		"opt p2 message 3 1 n:deprecated id:true 2 x:s.me_t0 n:f3 s:ff 1 x:s.me_i32 u:1",
		"opt p2 file 1 1 x:s.fi_any { "+any(ga, "t.T0", "{ n:f3 : s:ff }")+" }",
		"opt p2 field:str:o 1 1 n:default s:ff",
		"opt p3 field:str:o 1 1 n:json_name s:ff",
	)
	// features through an extension on every element kind (what InterpretUnlinkedOptions half-applies)
	for _, k := range []string{"file", "message", "field:i32:o", "oneof", "extrange", "enum", "enumvalue", "service", "method", "extfield:i32:o"} {
		ops = append(ops,
			"opt e23 "+k+" 1 3 n:features x:s.feat n:f2 u:1",
			"opt e23 "+k+" 2 3 n:features x:s.feat n:f2 u:1 1 n:deprecated id:true",
			"opt e23 "+k+" 2 1 x:s.nope u:1 1 n:deprecated id:true",
			"opt e23 "+k+" 1 1 n:features { x:s.feat _ { n:f2 : u:1 } }",
			"opt e23 "+k+" 2 2 n:features x:s.featn u:3 2 n:features n:json_format id:ALLOW")
	}
	return ops
}

// optElemFamily: every place where options can be attached x mixes of standard and custom options
// in both orders, repeated options set several times, message-typed custom options through
// sub-field paths; extension ranges with one to four ranges sharing the one options clause.
func optElemFamily() []string {
	type ek struct {
		tok, pfx, std string // element token, prefix of its custom options in s.proto, a standard statement
		syn           []string
	}
	dep := "1 n:deprecated id:true"
	els := []ek{
		{"file", "fi", dep, []string{"p2", "p3", "e23"}},
		{"message", "me", dep, []string{"p2", "p3", "e23"}},
		{"nmessage", "me", dep, []string{"p2", "e23"}},
		{"groupmsg", "me", dep, []string{"p2"}},
		{"field:i32:o", "fl", dep, []string{"p2", "e23"}},
		{"field:str:r", "fl", dep, []string{"p2", "p3"}},
		{"nfield:i32:o", "fl", dep, []string{"p2"}},
		{"oneoffield:i32:o", "fl", dep, []string{"p2", "p3", "e23"}},
		{"mapfield", "fl", dep, []string{"p2", "p3", "e23"}},
		{"groupfield", "fl", dep, []string{"p2"}},
		{"extfield:i32:o", "fl", dep, []string{"p2", "e23"}},
		{"nextfield:i32:r", "fl", dep, []string{"p2"}},
		{"oneof", "oo", "1 n:features { }", []string{"e23"}},
		{"oneof", "oo", "", []string{"p2", "p3"}},
		{"enum", "en", dep, []string{"p2", "p3", "e23"}},
		{"nenum", "en", dep, []string{"p2"}},
		{"enumvalue", "ev", dep, []string{"p2", "p3", "e23"}},
		{"nenumvalue", "ev", dep, []string{"p2"}},
		{"service", "sv", dep, []string{"p2", "p3", "e23"}},
		{"method", "mt", "1 n:idempotency_level id:IDEMPOTENT", []string{"p2", "p3", "e23"}},
		{"extrange", "er", "1 n:verification id:UNVERIFIED", []string{"p2", "e23"}},
		{"extrange:2", "er", "1 n:verification id:UNVERIFIED", []string{"p2", "e23"}},
		{"extrange:3", "er", "1 n:verification id:UNVERIFIED", []string{"p2"}},
		{"extrange:4", "er", "1 n:verification id:UNVERIFIED", []string{"p2", "e23"}},
	}
	var ops []string
	for _, e := range els {
		S := e.std
		C := "1 x:s." + e.pfx + "_i32 u:7"
		C2 := "1 x:s." + e.pfx + "_str s:78"
		R := func(v string) string { return "1 x:s." + e.pfx + "_rs u:" + v }
		M1 := "2 x:s." + e.pfx + "_m0 n:f1 u:1"
		M2 := "3 x:s." + e.pfx + "_m0 n:f18 n:f2 u:2"
		M3 := "2 x:s." + e.pfx + "_m0 n:f20 u:3"
		RM := func(v string) string { return "1 x:s." + e.pfx + "_rm0 { n:f1 : u:" + v + " }" }
		pats := [][]string{
			{C}, {C, C2}, {C2, C}, {R("7"), R("8"), R("9")}, {M1, M2}, {M2, M1, M3, M3}, {RM("1"), RM("2")}, {C, C},
			{R("1"), C, R("2"), M1, R("3")},
		}
		if S != "" {
			pats = append(pats, [][]string{
				{S}, {S, C}, {C, S}, {S, R("7")}, {R("7"), S}, {S, R("7"), R("8")}, {R("7"), S, R("8")}, {R("7"), R("8"), S},
				{S, M1, M2}, {M1, S, M2}, {S, RM("1"), RM("2")}, {RM("1"), S, RM("2")}, {S, C, R("1"), M1, C2, R("2")},
				{C, R("1"), S, R("2"), M2}, {S, S}, {S, C, C},
			}...)
		}
		for _, syn := range e.syn {
			for _, p := range pats {
				ops = append(ops, "opt "+syn+" "+e.tok+" "+strconv.Itoa(len(p))+" "+strings.Join(p, " "))
			}
		}
	}
	return ops
}

// optIntFloatFamily: integer literals assigned to float / double options. float32(i) is ONE rounding
// of the integer; going through float64 first rounds twice and differs when the float64 rounding lands
// on a float32 midpoint (x = 2^k + 2^(k-24) + 1, k >= 54). Plain option statements, repeated options,
// sub-field paths, field defaults, and (for the reference: labelled apart) inside message literals;
// decimal, hex and octal spellings, negated values down to -2^63.
func optIntFloatFamily() []string {
	pow := func(k uint) *big.Int { return new(big.Int).Lsh(big.NewInt(1), k) }
	add := func(a *big.Int, bs ...*big.Int) *big.Int {
		x := new(big.Int).Set(a)
		for _, b := range bs {
			x.Add(x, b)
		}
		return x
	}
	one, mone := big.NewInt(1), big.NewInt(-1)
	var f32, f64 []*big.Int
	for d := int64(-3); d <= 3; d++ {
		f32 = append(f32, add(pow(24), big.NewInt(d)), add(pow(25), big.NewInt(2*d)))
		f64 = append(f64, add(pow(53), big.NewInt(d)), add(pow(54), big.NewInt(2*d)))
	}
	for k := uint(54); k <= 63; k++ {
		h := pow(k - 24) // half a float32 ulp at 2^k
		f32 = append(f32, add(pow(k), h, one), add(pow(k), h), add(pow(k), h, mone), add(pow(k), h, h, h, one), add(pow(k), h, h, h), add(pow(k), h, h, h, mone))
	}
	f32 = append(f32, add(pow(64), mone), add(pow(64), new(big.Int).Neg(pow(39))), add(pow(64), new(big.Int).Neg(pow(39)), mone),
		add(pow(64), new(big.Int).Neg(pow(40)), pow(16)), add(pow(63), pow(39), one), add(pow(63), pow(39)), pow(63), add(pow(63), mone))
	f64 = append(f64, add(pow(63), mone), pow(63), add(pow(63), one), add(pow(63), pow(10)), add(pow(63), pow(10), one), add(pow(63), pow(10), mone),
		add(pow(64), mone), add(pow(64), new(big.Int).Neg(pow(10))), add(pow(64), new(big.Int).Neg(pow(10)), mone), add(pow(64), new(big.Int).Neg(pow(10)), one),
		add(pow(62), pow(9), one), add(pow(60), pow(36), one))
	lits := func(x *big.Int, spell int) []string {
		var out []string
		pre := [][2]string{{"u:", "i:"}, {"ux:", "ix:"}, {"uo:", "io:"}}[spell]
		base := []int{10, 16, 8}[spell]
		out = append(out, pre[0]+x.Text(base))
		if x.Cmp(pow(63)) <= 0 {
			out = append(out, pre[1]+x.Text(base))
		}
		return out
	}
	var ops []string
	emit := func(xs []*big.Int, scal, rep, path, lit, list, defKind string) {
		for i, x := range xs {
			for spell := 0; spell < 3; spell++ {
				if spell > 0 && i%3 != spell-1 {
					continue
				}
				for _, l := range lits(x, spell) {
					ops = append(ops,
						"opt p2 file 1 1 x:s.fi_"+scal+" "+l,
						"opt p2 message 2 1 x:s.me_"+rep+" "+l+" 1 x:s.me_"+rep+" u:1",
						"opt p2 enum 1 2 x:s.en_m0 n:"+path+" "+l,
						"opt p2 field:"+defKind+":o 1 1 n:default "+l,
						"opt p2 file 1 1 x:s.fi_m0 { n:"+lit+" : "+l+" }",
						"opt p2 service 1 1 x:s.sv_m2 { n:"+list+" : [ u:1 "+l+" ] }")
				}
			}
		}
	}
	emit(f32, "flt", "rflt", "f11", "f11", "f2", "flt")
	emit(f64, "dbl", "rdbl", "f12", "f12", "f2", "dbl")
	return ops
}

func (e *optionsEngine) Gen(r *Rand, tier string) [][]string {
	thorough := tier == "thorough"
	modes := e.name == "optmodes"
	r = NewRand(r.U64() ^ 0x6f7074696f6e73) // decorrelate neighbouring seeds
	var cases [][]string
	kop, kst := optKitchen()
	// 1. exhaustive small domains on the fixed schema
	chunk := func(ops []string) {
		const n = 400
		for i := 0; i < len(ops); i += n {
			j := i + n
			if j > len(ops) {
				j = len(ops)
			}
			cases = append(cases, append([]string{kop}, ops[i:j]...))
		}
	}
	chunk(optDirected())
	chunk(optElemFamily())
	if !modes {
		chunk(optIntFloatFamily())
	} else {
		for i, o := range optIntFloatFamily() {
			if i%6 == 0 {
				cases[len(cases)-1] = append(cases[len(cases)-1], o)
			}
		}
	}
	if !modes {
		chunk(optPseudoGrid(kst))
		chunk(optCalib(kst))
		chunk(optScalarTable(kst))
		chunk(optPathPairs())
	} else {
		pp := optPathPairs()
		if !thorough {
			var sub []string
			for i, o := range pp {
				if i%5 == 0 {
					sub = append(sub, o)
				}
			}
			pp = sub
		}
		chunk(pp)
		pg := optPseudoGrid(kst)
		var sub []string
		for i, o := range pg {
			if thorough || i%4 == 0 {
				sub = append(sub, o)
			}
		}
		chunk(sub)
	}
	// every element kind x every custom option / standard option once (well-typed), all three syntaxes
	{
		g := &optGen{r: r, s: kst.schema, wrong: 0}
		var ops []string
		for _, kind := range optElemKinds {
			for _, syn := range []string{"p2", "p3", "e23"} {
				if (syn == "p3" && optNoProto3[kind]) || (syn == "e23" && optNoEditions[kind]) {
					continue
				}
				oi := optElems[kind]
				mi := kst.schema.OptIdx[oi[0]]
				el := kind
				if optFieldLike[kind] {
					el += ":i32:o"
				}
				var fs []*optField
				fs = append(fs, g.fieldsOf(mi)...)
				fs = append(fs, g.extsOf(kst.schema.Msgs[mi].Full)...)
				for _, f := range fs {
					if optParserChecked[f.Name] || (f.Name == "features" && syn != "e23") {
						continue
					}
					nm := "n:" + f.Name
					if f.Extendee != "" {
						nm = "x:" + f.Full
					}
					if syn != "p2" && f.Extendee != "" && r.Intn(3) != 0 {
						continue
					}
					ops = append(ops, "opt "+syn+" "+el+" 1 1 "+nm+" "+strings.Join(g.value(f, false, 0), " "))
				}
			}
		}
		chunk(ops)
	}
	// the same fixed schema in a world where descriptor.proto is linked from a descriptor proto (the
	// working message is converted by Marshal/Unmarshal), and with six malformed google.protobuf.Any
	{
		dop, dst, err := optSchemaOpV(nil, optVariant{Dyn: true})
		if err != nil {
			panic("options: dyn variant does not compile: " + err.Error())
		}
		ops := append([]string{}, optDirected()...)
		for i, o := range optElemFamily() {
			if i%7 == 0 {
				ops = append(ops, o)
			}
		}
		g := &optGen{r: r, s: dst.schema}
		for j := 0; j < 60; j++ {
			kind := optElemKinds[r.Intn(len(optElemKinds))]
			g.wrong = []int{0, 30, 120}[r.Intn(3)]
			ops = append(ops, g.op(kind, optSyntaxFor(r, kind), 1+r.Intn(3), 65))
		}
		cases = append(cases, append([]string{dop}, ops...))
		anyVariants := []string{
			"bytes value = 2;", "repeated string type_url = 1; bytes value = 2;", "int32 type_url = 1; bytes value = 2;",
			"string type_url = 1;", "string type_url = 1; repeated bytes value = 2;", "string type_url = 1; string value = 2;",
		}
		ga := "type.googleapis.com"
		for _, body := range anyVariants {
			aop, _, err := optSchemaOpV(nil, optVariant{AnySrc: "syntax = \"proto3\"; package google.protobuf; message Any { " + body + " }"})
			if err != nil {
				panic("options: any variant does not compile: " + err.Error())
			}
			cases = append(cases, []string{aop,
				"opt p2 file 1 1 x:s.fi_any { a:" + ga + "/s.M2 _ { n:f3 : id:true } }",
				"opt p2 file 1 1 x:s.fi_any { a:" + ga + "/s.M2 _ { } n:type_url : s:61 }",
				"opt p2 file 1 1 x:s.fi_any { }",
				"opt p2 message 2 1 x:s.me_rany { a:" + ga + "/t.T0 _ { } } 1 n:deprecated id:true",
				"opt p2 file 1 1 x:s.fi_m0 { n:f30 : { a:" + ga + "/s.M2 _ { } } n:f1 : u:1 }",
			})
		}
	}
	// 2. random schemas x random statements
	nSchemas, nOps := 6, 120
	if modes {
		nSchemas, nOps = 5, 70
	}
	if thorough {
		nSchemas, nOps = 150, 400
		if modes {
			nSchemas, nOps = 120, 250
		}
	}
	for i := 0; i < nSchemas; i++ {
		sop, st, err := optSchemaOp(r)
		if err != nil {
			panic("options: generated schema does not compile: " + err.Error())
		}
		c := []string{sop}
		g := &optGen{r: r, s: st.schema}
		for j := 0; j < nOps; j++ {
			kind := optElemKinds[r.Intn(len(optElemKinds))]
			syn := optSyntaxFor(r, kind)
			g.wrong = []int{0, 30, 120, 300}[r.Intn(4)]
			if modes {
				g.wrong = []int{0, 0, 0, 15, 60}[r.Intn(5)]
			}
			nst := 1 + r.Intn(4)
			if r.Intn(10) == 0 {
				nst = 0
			}
			c = append(c, g.op(kind, syn, nst, 65))
		}
		cases = append(cases, c)
	}
	return cases
}
