package engines

import (
	"fmt"
	"runtime"
	"sync"
	"sync/atomic"
)

// ConcFirst runs f simultaneously in n goroutines, released together by a spin barrier, and
// returns the common answer, or "conc-differs <a> | <b>" when two goroutines saw different
// things. It is meant for the FIRST observation of an object the caller has just built
// (a compiled descriptor, a source file's line table, a parsed AST): such values are immutable
// as far as their users can tell and are observed from many goroutines in practice, so every
// observer must give each caller the answer a lone caller gets. Lazily built caches behind
// read-only looking methods are where that breaks, and a lone caller never sees it.
//
// A panic in f is turned into the answer "panic <value>".
func ConcFirst(n int, f func() string) string {
	if n < 2 || runtime.GOMAXPROCS(0) < 2 {
		return f()
	}
	answers := make([]string, n)
	var ready atomic.Int32
	var wg sync.WaitGroup
	for i := 0; i < n; i++ {
		wg.Add(1)
		go func(i int) {
			defer wg.Done()
			defer func() {
				if r := recover(); r != nil {
					answers[i] = fmt.Sprintf("panic %v", r)
				}
			}()
			ready.Add(1)
			for spins := 0; ready.Load() < int32(n); spins++ {
				// spin: all goroutines leave the barrier within a few nanoseconds of each other;
				// on an oversubscribed machine let the missing ones run instead of burning a core
				if spins > 2000 {
					runtime.Gosched()
				}
			}
			answers[i] = f()
		}(i)
	}
	wg.Wait()
	for _, a := range answers[1:] {
		if a != answers[0] {
			return "conc-differs " + Canon(answers[0]) + " | " + Canon(a)
		}
	}
	return answers[0]
}

// ConcSafe marks an engine whose cases are independent of each other and of any state outside
// the engine value (pure observations of freshly built objects). For such an engine the runner
// executes every case a second time, spread over ConcWorkers goroutines with one engine value
// each, and reports every answer that differs from the sequential one: code under test that
// keeps hidden global state (buffer pools, memo tables, interning) must not let one caller's
// work leak into another's.
type ConcSafe interface {
	ConcWorkers() int
}

// Engines whose cases are pure functions of the op text (no engine state, no harness globals that
// are written after initialisation).
func (decimalEngine) ConcWorkers() int     { return 8 }
func (escapeEngine) ConcWorkers() int      { return 8 }
func (sourcelocEngine) ConcWorkers() int   { return 8 }
func (fastscanEngine) ConcWorkers() int    { return 8 }
func (lexposEngine) ConcWorkers() int      { return 8 }
func (lexLiteralEngine) ConcWorkers() int  { return 8 }
func (reportProtoEngine) ConcWorkers() int { return 8 }
func (canonEngine) ConcWorkers() int       { return 8 }
