package engines

// optvalidate: additional engine of C01 (accept/reject agrees with protoc) for the OPTION-DEPENDENT
// validation rules of linker/validate.go (validateFile, validateField, validatePacked,
// validateFieldFeatures, validateExtension, validateExtensionDeclarations), which the `link`
// engine (MiniProto has no options) never reaches.
//
// A case is one op line `fs <records...>` describing a small file set in an abstract syntax (see
// lean/PCV/Model/OptValidate.lean): per file the syntax/edition, the file options that matter
// (optimize_for, java_string_check_utf8, features.field_presence/enum_type/message_encoding),
// imports, enums, messages (message_set_wire_format, extension-range statements with verification
// and declarations, fields with kind/label/oneof and the relevant field options and features) and
// extensions. Exec renders the file set to real .proto sources, compiles ALL files with one
// protocompile.Compiler (WithStandardImports, a reporter that collects every error) and answers,
// per file in the listed order,
//
//	ok | dep | pre | crash | v:<class>,<class>,... | other:<text>
//
// ok = compiled; dep = not linked because a dependency failed; pre = rejected by a phase before
// ValidateOptions by one of the (few) earlier rules the model knows; v: = the classes of ALL errors
// ValidateOptions reported for that file, in order (the FIRST one is what a fail-fast compile
// reports); crash = no result, nothing reported and no failed dependency (a recovered panic; its
// text follows after " ~ " and is not compared); unknown message text => other:<text>. The Lean model predicts the whole answer from
// the abstract syntax alone; the Lean oracle evaluates the declarative protoc reference
// (lean/PCV/Spec/OptValidate.lean) on the op and judges accept/reject of the implementation.

import (
	"context"
	"fmt"
	"regexp"
	"sort"
	"strconv"
	"strings"

	"github.com/bufbuild/protocompile"
	"github.com/bufbuild/protocompile/reporter"
)

// ---------------------------------------------------------------- abstract syntax

type ovType struct {
	K    string // "s" scalar, "e" enum, "m" message, "g" group, "map"
	S    string // scalar name (K=s), map key scalar (K=map)
	F, I int    // enum / message reference (file, index)
	V    *ovType
}

type ovOpts struct {
	Def                                              bool
	Packed, Lazy, ULazy                              string // - t f
	Jstype                                           string // - n s m
	Ctype                                            string // - s c p
	Pres                                             string // - e i l
	REnc                                             string // - p x
	Utf8                                             string // - v n
	MEnc                                             string // - l d
}

type ovField struct {
	Label string // - o q r
	Ty    ovType
	Oneof int // -1 = none
	O     ovOpts
}

type ovExt struct {
	EFile, EMsg int
	Num         int64
	Label       string
	Ty          ovType
	O           ovOpts
}

type ovDecl struct {
	Num        *int64
	Name, Type *string
	Rsvd, Rep  string // - t f
}

type ovSpan struct{ Lo, Hi int64 } // inclusive, as written in the source

type ovStmt struct {
	Verif string // - d u
	Spans []ovSpan
	Decls []ovDecl
}

type ovMsg struct {
	MsgSet string // - t f
	Stmts  []*ovStmt
	Fields []ovField
}

type ovFile struct {
	Syn     string // 2 3 e
	OptFor  string // - s c l
	JUtf8   string // - t f
	Pres    string // - e i l
	EnumT   string // - o c
	MEnc    string // - l d
	Imports []int
	Enums   []string // enum_type feature of each enum: - o c
	Msgs    []*ovMsg
	Exts    []ovExt
}

type ovSet struct {
	Note  string
	Files []*ovFile
}

var ovScalars = []string{"int32", "int64", "uint32", "uint64", "sint32", "sint64", "fixed32", "fixed64",
	"sfixed32", "sfixed64", "bool", "float", "double", "string", "bytes"}

func ovIsScalar(s string) bool {
	for _, x := range ovScalars {
		if x == s {
			return true
		}
	}
	return false
}

func ovIn(s string, alts string) bool {
	for _, a := range strings.Split(alts, "") {
		if a == s {
			return true
		}
	}
	return false
}

// ---------------------------------------------------------------- wire format

func (t ovType) tok() string {
	switch t.K {
	case "s":
		return t.S
	case "e":
		return fmt.Sprintf("e:%d:%d", t.F, t.I)
	case "m":
		return fmt.Sprintf("m:%d:%d", t.F, t.I)
	case "g":
		return "g"
	case "map":
		return "map:" + t.S + ":" + t.V.tok()
	}
	return "?"
}

func ovParseType(s string) (ovType, bool) {
	p := strings.Split(s, ":")
	switch {
	case len(p) == 1 && p[0] == "g":
		return ovType{K: "g"}, true
	case len(p) == 1 && ovIsScalar(p[0]):
		return ovType{K: "s", S: p[0]}, true
	case len(p) == 3 && (p[0] == "e" || p[0] == "m"):
		f, e1 := strconv.Atoi(p[1])
		i, e2 := strconv.Atoi(p[2])
		if e1 != nil || e2 != nil || f < 0 || i < 0 {
			return ovType{}, false
		}
		return ovType{K: p[0], F: f, I: i}, true
	case len(p) >= 3 && p[0] == "map" && ovIsScalar(p[1]):
		v, ok := ovParseType(strings.Join(p[2:], ":"))
		if !ok || v.K == "g" || v.K == "map" {
			return ovType{}, false
		}
		return ovType{K: "map", S: p[1], V: &v}, true
	}
	return ovType{}, false
}

func (o ovOpts) toks() []string {
	d := "-"
	if o.Def {
		d = "d"
	}
	return []string{d, o.Packed, o.Lazy, o.ULazy, o.Jstype, o.Ctype, o.Pres, o.REnc, o.Utf8, o.MEnc}
}

func ovNoOpts() ovOpts {
	return ovOpts{Packed: "-", Lazy: "-", ULazy: "-", Jstype: "-", Ctype: "-", Pres: "-", REnc: "-", Utf8: "-", MEnc: "-"}
}

func ovParseOpts(a []string) (ovOpts, bool) {
	if len(a) != 10 {
		return ovOpts{}, false
	}
	ok := ovIn(a[0], "-d") && ovIn(a[1], "-tf") && ovIn(a[2], "-tf") && ovIn(a[3], "-tf") && ovIn(a[4], "-nsm") &&
		ovIn(a[5], "-scp") && ovIn(a[6], "-eil") && ovIn(a[7], "-px") && ovIn(a[8], "-vn") && ovIn(a[9], "-ld")
	return ovOpts{Def: a[0] == "d", Packed: a[1], Lazy: a[2], ULazy: a[3], Jstype: a[4], Ctype: a[5], Pres: a[6],
		REnc: a[7], Utf8: a[8], MEnc: a[9]}, ok
}

func ovStrTok(s *string) string {
	if s == nil {
		return "-"
	}
	return "=" + *s
}

func ovParseStrTok(s string) (*string, bool) {
	if s == "-" {
		return nil, true
	}
	if !strings.HasPrefix(s, "=") {
		return nil, false
	}
	v := s[1:]
	for _, c := range v {
		if c <= ' ' || c > '~' || c == '"' || c == '\\' || c == '\'' {
			return nil, false
		}
	}
	return &v, true
}

func (s *ovSet) op() string {
	t := []string{"fs"}
	add := func(a ...string) { t = append(t, a...) }
	if s.Note != "" {
		add("Q", s.Note)
	}
	for _, f := range s.Files {
		add("F", f.Syn, f.OptFor, f.JUtf8, f.Pres, f.EnumT, f.MEnc)
		for _, i := range f.Imports {
			add("I", strconv.Itoa(i))
		}
		for _, e := range f.Enums {
			add("E", e)
		}
		for _, m := range f.Msgs {
			add("M", m.MsgSet)
			for _, st := range m.Stmts {
				add("R", st.Verif)
				for _, sp := range st.Spans {
					add("S", strconv.FormatInt(sp.Lo, 10), strconv.FormatInt(sp.Hi, 10))
				}
				for _, d := range st.Decls {
					n := "-"
					if d.Num != nil {
						n = strconv.FormatInt(*d.Num, 10)
					}
					add("D", n, ovStrTok(d.Name), ovStrTok(d.Type), d.Rsvd, d.Rep)
				}
			}
			for _, fl := range m.Fields {
				oo := "-"
				if fl.Oneof >= 0 {
					oo = strconv.Itoa(fl.Oneof)
				}
				add("f", fl.Label, fl.Ty.tok(), oo)
				add(fl.O.toks()...)
			}
		}
		for _, x := range f.Exts {
			add("x", strconv.Itoa(x.EFile), strconv.Itoa(x.EMsg), strconv.FormatInt(x.Num, 10), x.Label, x.Ty.tok())
			add(x.O.toks()...)
		}
	}
	return strings.Join(t, " ")
}

func ovParse(op string) (*ovSet, bool) {
	w := strings.Fields(op)
	if len(w) == 0 || w[0] != "fs" {
		return nil, false
	}
	w = w[1:]
	s := &ovSet{}
	var f *ovFile
	var m *ovMsg
	var st *ovStmt
	take := func(n int) ([]string, bool) {
		if len(w) < n {
			return nil, false
		}
		a := w[:n]
		w = w[n:]
		return a, true
	}
	for len(w) > 0 {
		k := w[0]
		w = w[1:]
		switch k {
		case "Q":
			a, ok := take(1)
			if !ok || f != nil {
				return nil, false
			}
			s.Note = a[0]
		case "F":
			a, ok := take(6)
			if !ok || !ovIn(a[0], "23e4") || !ovIn(a[1], "-scl") || !ovIn(a[2], "-tf") || !ovIn(a[3], "-eil") ||
				!ovIn(a[4], "-oc") || !ovIn(a[5], "-ld") {
				return nil, false
			}
			f = &ovFile{Syn: a[0], OptFor: a[1], JUtf8: a[2], Pres: a[3], EnumT: a[4], MEnc: a[5]}
			s.Files = append(s.Files, f)
			m, st = nil, nil
		case "I":
			a, ok := take(1)
			if !ok || f == nil {
				return nil, false
			}
			i, err := strconv.Atoi(a[0])
			if err != nil || i < 0 {
				return nil, false
			}
			f.Imports = append(f.Imports, i)
		case "E":
			a, ok := take(1)
			if !ok || f == nil || !ovIn(a[0], "-oc") {
				return nil, false
			}
			f.Enums = append(f.Enums, a[0])
		case "M":
			a, ok := take(1)
			if !ok || f == nil || !ovIn(a[0], "-tf") {
				return nil, false
			}
			m = &ovMsg{MsgSet: a[0]}
			f.Msgs = append(f.Msgs, m)
			st = nil
		case "R":
			a, ok := take(1)
			if !ok || m == nil || !ovIn(a[0], "-du") {
				return nil, false
			}
			st = &ovStmt{Verif: a[0]}
			m.Stmts = append(m.Stmts, st)
		case "S":
			a, ok := take(2)
			if !ok || st == nil {
				return nil, false
			}
			lo, e1 := strconv.ParseInt(a[0], 10, 64)
			hi, e2 := strconv.ParseInt(a[1], 10, 64)
			if e1 != nil || e2 != nil || lo < 0 || hi < 0 {
				return nil, false
			}
			st.Spans = append(st.Spans, ovSpan{lo, hi})
		case "D":
			a, ok := take(5)
			if !ok || st == nil || !ovIn(a[3], "-tf") || !ovIn(a[4], "-tf") {
				return nil, false
			}
			d := ovDecl{Rsvd: a[3], Rep: a[4]}
			if a[0] != "-" {
				n, err := strconv.ParseInt(a[0], 10, 64)
				if err != nil {
					return nil, false
				}
				d.Num = &n
			}
			var ok1, ok2 bool
			d.Name, ok1 = ovParseStrTok(a[1])
			d.Type, ok2 = ovParseStrTok(a[2])
			if !ok1 || !ok2 {
				return nil, false
			}
			st.Decls = append(st.Decls, d)
		case "f":
			a, ok := take(13)
			if !ok || m == nil || !ovIn(a[0], "-oqr") {
				return nil, false
			}
			ty, ok1 := ovParseType(a[1])
			o, ok2 := ovParseOpts(a[3:])
			if !ok1 || !ok2 {
				return nil, false
			}
			oo := -1
			if a[2] != "-" {
				n, err := strconv.Atoi(a[2])
				if err != nil || n < 0 {
					return nil, false
				}
				oo = n
			}
			m.Fields = append(m.Fields, ovField{Label: a[0], Ty: ty, Oneof: oo, O: o})
		case "x":
			a, ok := take(15)
			if !ok || f == nil || !ovIn(a[3], "-oqr") {
				return nil, false
			}
			ef, e1 := strconv.Atoi(a[0])
			em, e2 := strconv.Atoi(a[1])
			n, e3 := strconv.ParseInt(a[2], 10, 64)
			ty, ok1 := ovParseType(a[4])
			o, ok2 := ovParseOpts(a[5:])
			if e1 != nil || e2 != nil || e3 != nil || ef < 0 || em < 0 || n < 0 || !ok1 || !ok2 {
				return nil, false
			}
			f.Exts = append(f.Exts, ovExt{EFile: ef, EMsg: em, Num: n, Label: a[3], Ty: ty, O: o})
		default:
			return nil, false
		}
	}
	if len(s.Files) == 0 {
		return nil, false
	}
	return s, true
}

// ---------------------------------------------------------------- rendering to .proto source

func ovPath(i int) string { return fmt.Sprintf("f%d.proto", i) }

func ovEnumWord(s string, m map[string]string) string { return m[s] }

var (
	ovPresW  = map[string]string{"e": "EXPLICIT", "i": "IMPLICIT", "l": "LEGACY_REQUIRED"}
	ovEnumW  = map[string]string{"o": "OPEN", "c": "CLOSED"}
	ovMEncW  = map[string]string{"l": "LENGTH_PREFIXED", "d": "DELIMITED"}
	ovREncW  = map[string]string{"p": "PACKED", "x": "EXPANDED"}
	ovUtf8W  = map[string]string{"v": "VERIFY", "n": "NONE"}
	ovJsW    = map[string]string{"n": "JS_NORMAL", "s": "JS_STRING", "m": "JS_NUMBER"}
	ovCtW    = map[string]string{"s": "STRING", "c": "CORD", "p": "STRING_PIECE"}
	ovOptW   = map[string]string{"s": "SPEED", "c": "CODE_SIZE", "l": "LITE_RUNTIME"}
	ovBoolW  = map[string]string{"t": "true", "f": "false"}
	ovLabelW = map[string]string{"-": "", "o": "optional ", "q": "required ", "r": "repeated "}
	ovVerifW = map[string]string{"d": "DECLARATION", "u": "UNVERIFIED"}
)

func (t ovType) src(cur int) string {
	switch t.K {
	case "s":
		return t.S
	case "e":
		return fmt.Sprintf(".p%d.E%d", t.F, t.I)
	case "m":
		return fmt.Sprintf(".p%d.M%d", t.F, t.I)
	case "map":
		return "map<" + t.S + ", " + t.V.src(cur) + ">"
	}
	return "?"
}

func ovDefault(t ovType) string {
	switch t.K {
	case "s":
		switch t.S {
		case "bool":
			return "true"
		case "string", "bytes":
			return `"x"`
		default:
			return "1"
		}
	case "e":
		return fmt.Sprintf("E%d_A", t.I)
	}
	return "1" // not a legal place for a default: the earlier phases reject it
}

func ovOptList(t ovType, o ovOpts) string {
	var l []string
	if o.Def {
		l = append(l, "default = "+ovDefault(t))
	}
	if o.Packed != "-" {
		l = append(l, "packed = "+ovBoolW[o.Packed])
	}
	if o.Lazy != "-" {
		l = append(l, "lazy = "+ovBoolW[o.Lazy])
	}
	if o.ULazy != "-" {
		l = append(l, "unverified_lazy = "+ovBoolW[o.ULazy])
	}
	if o.Jstype != "-" {
		l = append(l, "jstype = "+ovJsW[o.Jstype])
	}
	if o.Ctype != "-" {
		l = append(l, "ctype = "+ovCtW[o.Ctype])
	}
	if o.Pres != "-" {
		l = append(l, "features.field_presence = "+ovPresW[o.Pres])
	}
	if o.REnc != "-" {
		l = append(l, "features.repeated_field_encoding = "+ovREncW[o.REnc])
	}
	if o.Utf8 != "-" {
		l = append(l, "features.utf8_validation = "+ovUtf8W[o.Utf8])
	}
	if o.MEnc != "-" {
		l = append(l, "features.message_encoding = "+ovMEncW[o.MEnc])
	}
	if len(l) == 0 {
		return ""
	}
	return " [" + strings.Join(l, ", ") + "]"
}

// ovFieldSrc renders one field / extension. name is the lower-case field name (f3 / x2); a group is
// rendered as `group F3 = n {}` (the field name is the lower-cased group name).
func ovFieldSrc(cur int, label string, t ovType, name string, num int64, o ovOpts) string {
	if t.K == "g" {
		return fmt.Sprintf("%sgroup %s = %d%s {}", ovLabelW[label], strings.ToUpper(name[:1])+name[1:], num, ovOptList(t, o))
	}
	return fmt.Sprintf("%s%s %s = %d%s;", ovLabelW[label], t.src(cur), name, num, ovOptList(t, o))
}

func (s *ovSet) render() map[string]string {
	out := map[string]string{}
	for i, f := range s.Files {
		var b strings.Builder
		switch f.Syn {
		case "2":
			b.WriteString("syntax = \"proto2\";\n")
		case "3":
			b.WriteString("syntax = \"proto3\";\n")
		case "4":
			b.WriteString("edition = \"2024\";\n")
		default:
			b.WriteString("edition = \"2023\";\n")
		}
		fmt.Fprintf(&b, "package p%d;\n", i)
		for _, k := range f.Imports {
			fmt.Fprintf(&b, "import %q;\n", ovPath(k))
		}
		if f.OptFor != "-" {
			fmt.Fprintf(&b, "option optimize_for = %s;\n", ovOptW[f.OptFor])
		}
		if f.JUtf8 != "-" {
			fmt.Fprintf(&b, "option java_string_check_utf8 = %s;\n", ovBoolW[f.JUtf8])
		}
		if f.Pres != "-" {
			fmt.Fprintf(&b, "option features.field_presence = %s;\n", ovPresW[f.Pres])
		}
		if f.EnumT != "-" {
			fmt.Fprintf(&b, "option features.enum_type = %s;\n", ovEnumW[f.EnumT])
		}
		if f.MEnc != "-" {
			fmt.Fprintf(&b, "option features.message_encoding = %s;\n", ovMEncW[f.MEnc])
		}
		for j, m := range f.Msgs {
			fmt.Fprintf(&b, "message M%d {\n", j)
			if m.MsgSet != "-" {
				fmt.Fprintf(&b, "  option message_set_wire_format = %s;\n", ovBoolW[m.MsgSet])
			}
			for _, st := range m.Stmts {
				var sp []string
				for _, x := range st.Spans {
					switch {
					case x.Lo == x.Hi:
						sp = append(sp, strconv.FormatInt(x.Lo, 10))
					default:
						sp = append(sp, fmt.Sprintf("%d to %d", x.Lo, x.Hi))
					}
				}
				var opts []string
				if st.Verif != "-" {
					opts = append(opts, "verification = "+ovVerifW[st.Verif])
				}
				for _, d := range st.Decls {
					var p []string
					if d.Num != nil {
						p = append(p, fmt.Sprintf("number: %d", *d.Num))
					}
					if d.Name != nil {
						p = append(p, fmt.Sprintf("full_name: \"%s\"", *d.Name))
					}
					if d.Type != nil {
						p = append(p, fmt.Sprintf("type: \"%s\"", *d.Type))
					}
					if d.Rsvd != "-" {
						p = append(p, "reserved: "+ovBoolW[d.Rsvd])
					}
					if d.Rep != "-" {
						p = append(p, "repeated: "+ovBoolW[d.Rep])
					}
					opts = append(opts, "declaration = { "+strings.Join(p, " ")+" }")
				}
				o := ""
				if len(opts) > 0 {
					o = " [\n    " + strings.Join(opts, ",\n    ") + "\n  ]"
				}
				fmt.Fprintf(&b, "  extensions %s%s;\n", strings.Join(sp, ", "), o)
			}
			block := 0
			for l := 0; l < len(m.Fields); {
				fl := m.Fields[l]
				if fl.Oneof < 0 {
					fmt.Fprintf(&b, "  %s\n", ovFieldSrc(i, fl.Label, fl.Ty, fmt.Sprintf("f%d", l), int64(l+1), fl.O))
					l++
					continue
				}
				fmt.Fprintf(&b, "  oneof o%d {\n", block)
				block++
				k := fl.Oneof
				for l < len(m.Fields) && m.Fields[l].Oneof == k {
					g := m.Fields[l]
					fmt.Fprintf(&b, "    %s\n", ovFieldSrc(i, g.Label, g.Ty, fmt.Sprintf("f%d", l), int64(l+1), g.O))
					l++
				}
				b.WriteString("  }\n")
			}
			b.WriteString("}\n")
		}
		for k, e := range f.Enums {
			fmt.Fprintf(&b, "enum E%d {\n", k)
			if e != "-" {
				fmt.Fprintf(&b, "  option features.enum_type = %s;\n", ovEnumW[e])
			}
			fmt.Fprintf(&b, "  E%d_Z = 0;\n  E%d_A = 1;\n}\n", k, k)
		}
		for n, x := range f.Exts {
			fmt.Fprintf(&b, "extend .p%d.M%d {\n  %s\n}\n", x.EFile, x.EMsg,
				ovFieldSrc(i, x.Label, x.Ty, fmt.Sprintf("x%d", n), x.Num, x.O))
		}
		out[ovPath(i)] = b.String()
	}
	return out
}

// ---------------------------------------------------------------- error classes

type ovClassRule struct {
	re    *regexp.Regexp
	class string
}

func ovRules(tab [][2]string) []ovClassRule {
	var out []ovClassRule
	for _, t := range tab {
		out = append(out, ovClassRule{regexp.MustCompile(t[0]), t[1]})
	}
	return out
}

// message texts of linker/validate.go (and symbols.go AddExtensionDeclaration) -> class
var ovValidateClasses = ovRules([][2]string{
	{`^a file that does not use optimize_for=LITE_RUNTIME may not import file ".*" that does$`, "lite-import"},
	{`^LEGACY_REQUIRED field presence cannot be set as the default for a file$`, "file-legacy-required"},
	{`^file option java_string_check_utf8 is not allowed with editions`, "java-utf8-editions"},
	{`^packed option cannot be used with editions`, "packed-editions"},
	{`^packed option is only allowed on repeated fields$`, "packed-non-repeated"},
	{`^packed option is only allowed on numeric, boolean, and enum fields$`, "packed-non-packable"},
	{`^cannot use closed enum \S+ in a field with implicit presence$`, "closed-enum-implicit"},
	{`^default value is not allowed on fields with implicit presence$`, "default-implicit"},
	{`^ctype option cannot be used as of edition 2024`, "ctype-2024"},
	{`^lazy option can only be used with message fields`, "lazy-non-message"},
	{`^unverified_lazy option can only be used with message fields`, "ulazy-non-message"},
	{`^only 64-bit integer fields \(int64, uint64, sint64, fixed64, and sfixed64\) can specify a jstype other than JS_NORMAL$`, "jstype-non-64"},
	{`^oneof fields may not specify field presence$`, "presence-oneof"},
	{`^repeated fields may not specify field presence$`, "presence-repeated"},
	{`^extension fields may not specify field presence$`, "presence-extension"},
	{`^message fields may not specify implicit presence$`, "presence-implicit-message"},
	{`^only repeated fields may specify repeated field encoding$`, "renc-non-repeated"},
	{`^only repeated primitive fields may specify packed encoding$`, "renc-packed-non-packable"},
	{`^only string fields may specify UTF8 validation$`, "utf8-non-string"},
	{`^only message fields may specify message encoding$`, "menc-non-message"},
	{`^messages with message-set wire format cannot contain scalar extensions, only messages$`, "msgset-scalar-ext"},
	{`^messages with message-set wire format cannot contain repeated extensions, only optional$`, "msgset-repeated-ext"},
	{`^tag number \d+ is higher than max allowed tag number \(\d+\)$`, "ext-tag-too-high"},
	{`^extensions in a file that uses optimize_for=LITE_RUNTIME may not extend messages in file ".*" which does not$`, "lite-extends-nonlite"},
	{`^cannot use field number \d+ for an extension because it is reserved in declaration at `, "ext-reserved"},
	{`^expected extension with number \d+ to be named \S*, not \S+, per declaration at `, "ext-name-mismatch"},
	{`^expected extension with number \d+ to have type \S*, not \S+, per declaration at `, "ext-type-mismatch"},
	{`^expected extension with number \d+ to be (repeated|optional), not (repeated|optional), per declaration at `, "ext-repeated-mismatch"},
	{`^expected extension with number \d+ to be declared in type \S+, but no declaration found at `, "ext-not-declared"},
	{`^extension range cannot have declarations and have verification of `, "decl-unverified"},
	{`^extension declaration is missing required field number$`, "decl-no-number"},
	{`^extension declaration has number outside the range: `, "decl-out-of-range"},
	{`^extension for tag number -?\d+ already declared at `, "decl-dup-number"},
	{`^extension declaration that is not marked reserved must have a full_name$`, "decl-no-name"},
	{`^extension declaration full name ".*" should start with a leading dot \(\.\)$`, "decl-name-no-dot"},
	{`^extension declaration full name ".*" is not a valid qualified name$`, "decl-name-invalid"},
	{`^extension \S* already declared as extending \S+ with tag -?\d+ at `, "decl-name-dup"},
	{`^extension declaration that is not marked reserved must have a type$`, "decl-no-type"},
	{`^extension declaration type ".*" is not a valid qualified name$`, "decl-type-invalid"},
	{`^extension declaration type ".*" must be a builtin type or start with a leading dot \(\.\)$`, "decl-type-not-builtin"},
	{`^extension declarations that are reserved should specify both full_name and type or neither$`, "decl-reserved-half"},
})

// texts of the EARLIER phases the model knows as `pre` (parser/validate.go, parser/result.go,
// linker/resolve.go, options/options.go)
var ovPreClasses = ovRules([][2]string{
	{`packed option is not allowed in editions; use option features\.repeated_field_encoding instead$`, "pre-packed-editions"},
	{`option 'features' may only be used with editions but file uses proto[23] syntax$`, "pre-features-non-editions"},
	{`^messages with message-set wire format are not allowed with proto3 syntax$`, "pre-msgset-proto3"},
	{`^messages with message-set wire format cannot contain non-extension fields$`, "pre-msgset-fields"},
	{`^messages with message-set wire format must contain at least one extension range$`, "pre-msgset-no-ranges"},
	{`default values are not allowed in proto3$`, "pre-default-proto3"},
	{`default value cannot be set because field is (repeated|a message)$`, "pre-default-kind"},
	{`^extension \S+: tag \d+ is not in valid range for extended type \S+$`, "pre-ext-tag-range"},
	{`^edition "2024" not yet fully supported; latest supported edition "2023"$`, "pre-edition-2024"},
})

func ovClassify(msg string) (class string, phase string) {
	for _, r := range ovValidateClasses {
		if r.re.MatchString(msg) {
			return r.class, "v"
		}
	}
	for _, r := range ovPreClasses {
		if r.re.MatchString(msg) {
			return r.class, "pre"
		}
	}
	return "", ""
}

// ---------------------------------------------------------------- Exec

type ovEngine struct{}

func init() { Register("optvalidate", func() Engine { return ovEngine{} }) }

func (ovEngine) Name() string { return "optvalidate" }
func (ovEngine) Reset()       {}

type ovReported struct {
	file string
	msg  string
}

// ovCompile compiles every file of the set with ONE compiler and a reporter that collects all
// errors; returns the per-file error messages (in report order) and which files produced a result.
func ovCompile(src map[string]string, names []string) (map[string][]string, map[string]bool, error) {
	var errs []ovReported
	rep := reporter.NewReporter(func(e reporter.ErrorWithPos) error {
		errs = append(errs, ovReported{e.GetPosition().Filename, e.Unwrap().Error()})
		return nil
	}, nil)
	c := protocompile.Compiler{
		Resolver:       protocompile.WithStandardImports(&protocompile.SourceResolver{Accessor: protocompile.SourceAccessorFromMap(src)}),
		MaxParallelism: 1,
		Reporter:       rep,
	}
	res, err := c.Compile(context.Background(), names...)
	per := map[string][]string{}
	for _, e := range errs {
		per[e.file] = append(per[e.file], e.msg)
	}
	okf := map[string]bool{}
	for i, n := range names {
		if i < len(res) && res[i] != nil {
			okf[n] = true
		}
	}
	return per, okf, err
}

func (ovEngine) Exec(op string) string {
	if strings.HasPrefix(op, "an ") {
		return ovExecAnchor(op)
	}
	s, ok := ovParse(op)
	if !ok {
		return "bad-op"
	}
	return ovRun(s)
}

func ovRun(s *ovSet) string {
	src := s.render()
	names := make([]string, len(s.Files))
	for i := range s.Files {
		names[i] = ovPath(i)
	}
	per, okf, err := ovCompile(src, names)
	var out []string
	anyErr := false
	crashed := false
	for i, n := range names {
		msgs := per[n]
		switch {
		case len(msgs) == 0 && okf[n]:
			out = append(out, "ok")
		case len(msgs) == 0:
			anyErr = true
			depBad := false
			for _, k := range s.Files[i].Imports {
				if k < len(names) && (len(per[names[k]]) > 0 || !okf[names[k]]) {
					depBad = true
				}
			}
			if depBad {
				out = append(out, "dep")
			} else {
				crashed = true
				out = append(out, "crash")
			}
		default:
			anyErr = true
			first, phase := ovClassify(msgs[0])
			switch phase {
			case "pre":
				_ = first
				out = append(out, "pre")
			case "v":
				var cl []string
				bad := ""
				for _, m := range msgs {
					c, ph := ovClassify(m)
					if ph != "v" {
						bad = m
						break
					}
					cl = append(cl, c)
				}
				if bad != "" {
					out = append(out, "other:"+strings.ReplaceAll(Canon(bad), " ", "_"))
				} else {
					out = append(out, "v:"+strings.Join(cl, ","))
				}
			default:
				out = append(out, "other:"+strings.ReplaceAll(Canon(msgs[0]), " ", "_"))
			}
		}
	}
	ans := strings.Join(out, " ")
	if crashed {
		// a file without result, without reported error and without failed dependency: the
		// compile task died (recovered panic); the text is an observation, not compared
		if err != nil {
			return ans + " ~ " + Canon(err.Error())
		}
		return ans + " ~ no error returned"
	}
	if err == nil && anyErr {
		return ans + " BUT-COMPILE-RETURNED-NIL"
	}
	return ans
}

func (ovEngine) Trivial(op, ans string) bool { return ans == "bad-op" }

func (ovEngine) Class(op, ans string) string {
	if strings.HasPrefix(op, "an ") {
		return "anchor"
	}
	fam := "-"
	w := strings.Fields(op)
	if len(w) > 2 && w[1] == "Q" {
		fam = w[2]
		if i := strings.Index(fam, ":"); i >= 0 {
			fam = fam[:i]
		}
	}
	// first non-ok outcome of the set
	res := "ok"
	for _, a := range strings.Fields(ans) {
		if a != "ok" {
			res = a
			if strings.HasPrefix(a, "v:") {
				res = strings.SplitN(a, ",", 2)[0]
			} else if strings.HasPrefix(a, "other:") {
				res = "other"
			}
			break
		}
	}
	return fam + "=>" + res
}

var _ = sort.Strings
