package engines

import (
	"errors"
	"fmt"
	"strconv"
	"strings"
	"sync"
	"sync/atomic"
	"time"

	"github.com/bufbuild/protocompile/ast"
	"github.com/bufbuild/protocompile/reporter"
)

// reporter: reporter.Handler root/child state machine (C08).
type reporterEngine struct {
	abortAt  int // -1 never
	root     *reporter.Handler
	children []*reporter.Handler
	reported []int
	warned   []int
}

func init() { Register("reporter", func() Engine { return &reporterEngine{abortAt: -1} }) }

func (e *reporterEngine) Name() string { return "reporter" }

type idErr struct{ id int }

func (e idErr) Error() string { return "id" + strconv.Itoa(e.id) }

func errID(err error) string {
	if err == nil {
		return "nil"
	}
	if errors.Is(err, reporter.ErrInvalidSource) {
		return "invalid-source"
	}
	var ie idErr
	if errors.As(err, &ie) {
		return "e" + strconv.Itoa(ie.id)
	}
	return "other:" + Canon(err.Error())
}

func (e *reporterEngine) mkReporter(reported *[]int, warned *[]int, inFlight, maxC *atomic.Int32, abortAt int) reporter.Reporter {
	n := 0
	return reporter.NewReporter(func(err reporter.ErrorWithPos) error {
		c := inFlight.Add(1)
		for {
			m := maxC.Load()
			if c <= m || maxC.CompareAndSwap(m, c) {
				break
			}
		}
		defer inFlight.Add(-1)
		var ie idErr
		id := -1
		if errors.As(err.Unwrap(), &ie) {
			id = ie.id
		}
		*reported = append(*reported, id)
		k := n
		n++
		if k == abortAt {
			return idErr{100 + id}
		}
		return nil
	}, func(err reporter.ErrorWithPos) {
		// warnings go through the same (non thread-safe) reporter: count overlap here too,
		// and linger a little so that an unserialised call is actually observed
		c := inFlight.Add(1)
		for {
			m := maxC.Load()
			if c <= m || maxC.CompareAndSwap(m, c) {
				break
			}
		}
		time.Sleep(20 * time.Microsecond)
		defer inFlight.Add(-1)
		var ie idErr
		id := -1
		if errors.As(err.Unwrap(), &ie) {
			id = ie.id
		}
		*warned = append(*warned, id)
	})
}

func (e *reporterEngine) Reset() {
	e.abortAt = -1
	e.rebuild()
}

func (e *reporterEngine) rebuild() {
	e.reported, e.warned = nil, nil
	var inFlight, maxC atomic.Int32
	e.root = reporter.NewHandler(e.mkReporter(&e.reported, &e.warned, &inFlight, &maxC, e.abortAt))
	e.children = nil
}

func (e *reporterEngine) handler(h int) *reporter.Handler {
	if h == 0 {
		return e.root
	}
	if h-1 < len(e.children) {
		return e.children[h-1]
	}
	return nil
}

func posErr(id int) reporter.ErrorWithPos {
	return reporter.Error(ast.UnknownSpan("f.proto"), idErr{id})
}

func joinInts(xs []int) string {
	s := make([]string, len(xs))
	for i, x := range xs {
		s[i] = strconv.Itoa(x)
	}
	return strings.Join(s, " ")
}

func (e *reporterEngine) Exec(op string) string {
	w := strings.Fields(op)
	atoi := func(s string) int { n, err := strconv.Atoi(s); if err != nil { return -1 << 30 }; return n }
	switch {
	case len(w) == 2 && w[0] == "rep":
		if w[1] == "never" {
			e.abortAt = -1
		} else {
			e.abortAt = atoi(w[1])
		}
		e.rebuild()
		return "ok"
	case len(w) == 1 && w[0] == "child":
		e.children = append(e.children, e.root.SubHandler())
		return "ok"
	case len(w) == 4 && w[0] == "herr":
		h := e.handler(atoi(w[1]))
		id := atoi(w[3])
		if h == nil || id < 1 {
			return "bad-op"
		}
		var err error
		if w[2] != "0" {
			// the three entry points for positioned errors must behave alike
			switch id % 3 {
			case 1:
				return errID(h.HandleErrorWithPos(ast.UnknownSpan("f.proto"), idErr{id}))
			case 2:
				return errID(h.HandleErrorf(ast.UnknownSpan("f.proto"), "%w", idErr{id}))
			}
			err = posErr(id)
		} else {
			err = idErr{id}
		}
		return errID(h.HandleError(err))
	case len(w) == 3 && w[0] == "hwarn":
		h := e.handler(atoi(w[1]))
		if h == nil {
			return "bad-op"
		}
		switch id := atoi(w[2]); id % 3 {
		case 1:
			h.HandleWarningWithPos(ast.UnknownSpan("f.proto"), idErr{id})
		case 2:
			h.HandleWarningf(ast.UnknownSpan("f.proto"), "%w", idErr{id})
		default:
			h.HandleWarning(posErr(id))
		}
		return "ok"
	case len(w) == 2 && w[0] == "error":
		h := e.handler(atoi(w[1]))
		if h == nil {
			return "bad-op"
		}
		return errID(h.Error())
	case len(w) == 2 && w[0] == "reperr":
		h := e.handler(atoi(w[1]))
		if h == nil {
			return "bad-op"
		}
		return errID(h.ReporterError())
	case len(w) == 1 && w[0] == "log":
		return fmt.Sprintf("reported=[%s] warned=[%s]", joinInts(e.reported), joinInts(e.warned))
	case len(w) == 3 && w[0] == "conc":
		g, m := atoi(w[1]), atoi(w[2])
		var reported, warned []int
		var inFlight, maxC atomic.Int32
		root := reporter.NewHandler(e.mkReporter(&reported, &warned, &inFlight, &maxC, e.abortAt))
		var wg sync.WaitGroup
		for i := 0; i < g; i++ {
			ch := root.SubHandler()
			wg.Add(1)
			go func(i int) {
				defer wg.Done()
				for j := 0; j < m; j++ {
					_ = ch.HandleError(posErr(1 + i*m + j))
					ch.HandleWarning(posErr(1))
					if j%3 == 0 {
						ch.HandleWarning(posErr(2))
					}
				}
			}(i)
		}
		wg.Wait()
		return fmt.Sprintf("maxconc=%d reported=%d", maxC.Load(), len(reported))
	}
	return "bad-op"
}

func (e *reporterEngine) Trivial(op, ans string) bool { return ans == "ok" }

func (e *reporterEngine) Class(op, ans string) string {
	w := strings.Fields(op)
	if w[0] == "herr" || w[0] == "error" || w[0] == "reperr" {
		a := ans
		if strings.HasPrefix(a, "e") {
			a = "err"
		}
		return w[0] + "->" + a
	}
	return w[0]
}

func (e *reporterEngine) Gen(r *Rand, tier string) [][]string {
	var cases [][]string
	// exhaustive: abort index in {never,0,1,2} x all sequences of <=3 handle ops over {root,child1} x {pos,nonpos}
	kinds := []string{"herr 0 1", "herr 1 1", "herr 0 0", "herr 1 0", "hwarn 1"}
	var rec func(prefix []string, d int, emit func([]string))
	rec = func(prefix []string, d int, emit func([]string)) {
		emit(prefix)
		if d == 0 {
			return
		}
		for _, k := range kinds {
			rec(append(append([]string{}, prefix...), k), d-1, emit)
		}
	}
	depth := 3
	if tier == "thorough" {
		depth = 5
	}
	for _, ab := range []string{"never", "0", "1", "2"} {
		rec(nil, depth, func(seq []string) {
			c := []string{"rep " + ab, "child"}
			for i, k := range seq {
				c = append(c, fmt.Sprintf("%s %d", k, i+1))
				c = append(c, "error 0", "error 1")
			}
			c = append(c, "reperr 0", "reperr 1", "log")
			cases = append(cases, c)
		})
	}
	// random longer histories with several children
	n := 300
	if tier == "thorough" {
		n = 20000
	}
	for i := 0; i < n; i++ {
		var c []string
		if r.Chance(1, 3) {
			c = append(c, "rep never")
		} else {
			c = append(c, fmt.Sprintf("rep %d", r.Intn(8)))
		}
		nch := 0
		l := 3 + r.Intn(20)
		id := 1
		for j := 0; j < l; j++ {
			switch x := r.Intn(10); {
			case x == 0 && nch < 4:
				c = append(c, "child")
				nch++
			case x <= 5:
				wp := 1
				if r.Chance(1, 6) {
					wp = 0
				}
				c = append(c, fmt.Sprintf("herr %d %d %d", r.Intn(nch+1), wp, id))
				id++
			case x == 6:
				c = append(c, fmt.Sprintf("hwarn %d %d", r.Intn(nch+1), id))
				id++
			case x == 7:
				c = append(c, fmt.Sprintf("error %d", r.Intn(nch+1)))
			case x == 8:
				c = append(c, fmt.Sprintf("reperr %d", r.Intn(nch+1)))
			default:
				c = append(c, "log")
			}
		}
		c = append(c, "error 0", "log")
		cases = append(cases, c)
	}
	// concurrency: serialisation of the reporter
	nc := 20
	if tier == "thorough" {
		nc = 400
	}
	for i := 0; i < nc; i++ {
		ab := "rep never"
		if r.Bool() {
			ab = fmt.Sprintf("rep %d", r.Intn(40))
		}
		cases = append(cases, []string{ab, fmt.Sprintf("conc %d %d", 2+r.Intn(7), 1+r.Intn(30))})
	}
	return cases
}
