package engines

import (
	"context"
	"fmt"
	"hash/fnv"
	"math"
	"sort"
	"strconv"
	"strings"

	"google.golang.org/protobuf/proto"
	"google.golang.org/protobuf/reflect/protoreflect"
	"google.golang.org/protobuf/reflect/protoregistry"
	"google.golang.org/protobuf/types/descriptorpb"

	"github.com/bufbuild/protocompile"
	"github.com/bufbuild/protocompile/linker"
	"github.com/bufbuild/protocompile/options"
)

// retention: options.StripSourceRetentionOptionsFromFile (C22).
//
// op      strip <mode> <srchex> T <elem> L <locs>
//
// <srchex> is the source of a.proto (hex; "-" = strip the schema file o.proto itself); it is
// compiled by the real compiler together with the fixed schema retSchema. <mode>: n = no source
// info, s = standard, x = extra option locations, e = empty non-nil SourceCodeInfo; a trailing
// "o" additionally gives every element without options an empty non-nil options message; a
// letter B or C selects another revision of the schema (retSchemaB: retentions swapped,
// retSchemaC: awkward field numbers).
// "T <elem> L <locs>" is the abstract description of the compiled descriptor (see
// lean/PCV/Engines/Retention.lean) that the Lean model works on; Exec recomputes it from the
// compiled file and refuses the op if it differs, so Lean never parses protos and the tree is
// never taken on faith.
type retentionEngine struct{}

func init() { Register("retention", func() Engine { return retentionEngine{} }) }

func (retentionEngine) Name() string { return "retention" }
func (retentionEngine) Reset()       {}

// ---------------------------------------------------------------- schema

var retKinds = []struct{ pfx, opts string }{
	{"fl", "FileOptions"}, {"ms", "MessageOptions"}, {"fd", "FieldOptions"}, {"oo", "OneofOptions"},
	{"er", "ExtensionRangeOptions"}, {"en", "EnumOptions"}, {"ev", "EnumValueOptions"},
	{"sv", "ServiceOptions"}, {"mt", "MethodOptions"},
}

// retNums: the field numbers of one schema revision — the twelve fields of the option value
// type N (a b c d m s t r rs q qs z) and the eleven custom options declared for every options
// message (i_n i_u i_r i_s m_n m_r m_s q_n q_s r_n r_s).
type retNums struct {
	n   [12]int
	ext [11]int
}

var retNumsA = retNums{
	n:   [12]int{1, 2, 3, 4, 5, 6, 7, 8, 9, 10, 11, 12},
	ext: [11]int{1001, 1002, 1003, 1004, 1005, 1006, 1007, 1008, 1009, 1010, 1011},
}

// retNumsC: "awkward" numbers. 55296..57343 are UTF-16 surrogates, 65533 is U+FFFD, everything
// above 1114111 is beyond the last code point (so any []int32 -> string / rune conversion of a
// path maps them all to U+FFFD), 65534 and 1114111 are the neighbouring valid values,
// 536870911 is the largest field number; 19000..19999 is avoided. Source-retention and retained
// options of the same element differ only in such numbers: i_s 57343 vs i_n/i_u/i_r
// 55296/55297/56000, q_s 1200000 vs q_n 1114112, r_s 536870911 vs r_n 1200001, m_n 65533.
var retNumsC = retNums{
	n:   [12]int{1, 55296, 55297, 65533, 1114112, 1114113, 7, 1200000, 1200001, 10, 56000, 12},
	ext: [11]int{55296, 55297, 56000, 57343, 65533, 65534, 1114111, 1114112, 1200000, 1200001, 536870911},
}

// retMakeSchema is o.proto: a recursive option value type N whose fields carry every retention,
// and for each of the nine options messages the same eleven custom options.
func retMakeSchema(nums retNums) string {
	var b strings.Builder
	n := nums.n
	fmt.Fprintf(&b, `syntax = "proto2";
package o;
import "google/protobuf/descriptor.proto";
message N {
  optional int32 a = %d [retention = RETENTION_SOURCE];
  optional int32 b = %d [retention = RETENTION_RUNTIME];
  optional int32 c = %d;
  optional int32 d = %d [retention = RETENTION_UNKNOWN];
  optional N m = %d;
  optional N s = %d [retention = RETENTION_SOURCE];
  optional N t = %d [retention = RETENTION_RUNTIME];
  repeated N r = %d;
  repeated N rs = %d [retention = RETENTION_SOURCE];
  repeated int32 q = %d;
  repeated int32 qs = %d [retention = RETENTION_SOURCE];
  optional string z = %d [retention = RETENTION_SOURCE];
}
message X { extensions 1 to max; }
`, n[0], n[1], n[2], n[3], n[4], n[5], n[6], n[7], n[8], n[9], n[10], n[11])
	e := nums.ext
	for _, k := range retKinds {
		fmt.Fprintf(&b, `extend google.protobuf.%s {
  optional int32 %[2]s_i_n = %[3]d;
  optional int32 %[2]s_i_u = %[4]d [retention = RETENTION_UNKNOWN];
  optional int32 %[2]s_i_r = %[5]d [retention = RETENTION_RUNTIME];
  optional int32 %[2]s_i_s = %[6]d [retention = RETENTION_SOURCE];
  optional N %[2]s_m_n = %[7]d;
  optional N %[2]s_m_r = %[8]d [retention = RETENTION_RUNTIME];
  optional N %[2]s_m_s = %[9]d [retention = RETENTION_SOURCE];
  repeated int32 %[2]s_q_n = %[10]d;
  repeated int32 %[2]s_q_s = %[11]d [retention = RETENTION_SOURCE];
  repeated N %[2]s_r_n = %[12]d;
  repeated N %[2]s_r_s = %[13]d [retention = RETENTION_SOURCE];
}
`, k.opts, k.pfx, e[0], e[1], e[2], e[3], e[4], e[5], e[6], e[7], e[8], e[9], e[10])
	}
	return b.String()
}

// retSchema is revision A of o.proto (numbers 1..12 and 1001..1011).
var retSchema = retMakeSchema(retNumsA)

// ---------------------------------------------------------------- compile + projection

var retSchemaFiles = map[string]protoreflect.FileDescriptor{}

// retSchemaB is a second revision of o.proto: the same option and field names, but every
// RETENTION_SOURCE is RETENTION_RUNTIME and vice versa. Mode strings containing 'B' compile
// against it, so that one process strips files whose equally named options differ in retention
// (state keyed on option names instead of descriptors shows up as a wrong strip).
var retSchemaB = func() string {
	t := strings.ReplaceAll(retSchema, "RETENTION_SOURCE", "RETENTION_\x00")
	t = strings.ReplaceAll(t, "RETENTION_RUNTIME", "RETENTION_SOURCE")
	return strings.ReplaceAll(t, "RETENTION_\x00", "RETENTION_RUNTIME")
}()

// retSchemaC is a third revision: names and retentions of revision A, field numbers retNumsC.
// Mode strings containing 'C' compile against it. The numbers only show in source paths, so
// these ops matter in the source-info modes (s, x): anything that encodes, hashes or truncates
// path elements on the way into or out of the removed-path set is seen as a wrong location list.
var retSchemaC = retMakeSchema(retNumsC)

// retRevision splits the schema revision letter off a mode string.
func retRevision(mode string) (rev, rest string) {
	switch {
	case strings.Contains(mode, "B"):
		rev = "B"
	case strings.Contains(mode, "C"):
		rev = "C"
	}
	return rev, strings.NewReplacer("B", "", "C", "").Replace(mode)
}

func retSchemaFor(rev string) string {
	switch rev {
	case "B":
		return retSchemaB
	case "C":
		return retSchemaC
	}
	return retSchema
}

func retCompile(src string, mode string) (*descriptorpb.FileDescriptorProto, error) {
	rev, mode := retRevision(mode)
	if mode == "" {
		return nil, fmt.Errorf("bad mode")
	}
	target := "a.proto"
	if src == "" {
		target = "o.proto"
	}
	var sim protocompile.SourceInfoMode
	switch mode[0] {
	case 'n', 'e':
		sim = protocompile.SourceInfoNone
	case 's':
		sim = protocompile.SourceInfoStandard
	case 'x':
		sim = protocompile.SourceInfoExtraOptionLocations
	default:
		return nil, fmt.Errorf("bad mode")
	}
	srcs := map[string]string{"a.proto": src}
	var res protocompile.Resolver = &protocompile.SourceResolver{Accessor: protocompile.SourceAccessorFromMap(srcs)}
	if target == "o.proto" {
		srcs["o.proto"] = retSchemaFor(rev)
	} else {
		// the schema is compiled once (by the same compiler) and handed over as a descriptor
		if retSchemaFiles[rev] == nil {
			sc := protocompile.Compiler{
				Resolver: protocompile.WithStandardImports(&protocompile.SourceResolver{
					Accessor: protocompile.SourceAccessorFromMap(map[string]string{"o.proto": retSchemaFor(rev)}),
				}),
			}
			fs, err := sc.Compile(context.Background(), "o.proto")
			if err != nil {
				return nil, err
			}
			retSchemaFiles[rev] = fs[0]
		}
		res = protocompile.CompositeResolver{
			protocompile.ResolverFunc(func(path string) (protocompile.SearchResult, error) {
				if path == "o.proto" {
					return protocompile.SearchResult{Desc: retSchemaFiles[rev]}, nil
				}
				return protocompile.SearchResult{}, protoregistry.NotFound
			}),
			res,
		}
	}
	c := protocompile.Compiler{Resolver: protocompile.WithStandardImports(res), SourceInfoMode: sim}
	files, err := c.Compile(context.Background(), target)
	if err != nil {
		return nil, err
	}
	lres, ok := files[0].(linker.Result)
	if !ok {
		return nil, fmt.Errorf("not a linker.Result")
	}
	fd := lres.FileDescriptorProto()
	if mode[0] == 'e' {
		fd.SourceCodeInfo = &descriptorpb.SourceCodeInfo{}
	}
	if strings.HasSuffix(mode, "o") && len(mode) > 1 {
		retFillEmptyOptions(fd.ProtoReflect())
	}
	return fd, nil
}

var retKindLetter = map[protoreflect.FullName]string{
	"google.protobuf.FileDescriptorProto":            "F",
	"google.protobuf.DescriptorProto":                "M",
	"google.protobuf.FieldDescriptorProto":           "f",
	"google.protobuf.OneofDescriptorProto":           "o",
	"google.protobuf.DescriptorProto.ExtensionRange": "r",
	"google.protobuf.EnumDescriptorProto":            "E",
	"google.protobuf.EnumValueDescriptorProto":       "v",
	"google.protobuf.ServiceDescriptorProto":         "S",
	"google.protobuf.MethodDescriptorProto":          "m",
}

var retHasOptsMemo = map[protoreflect.FullName]bool{}

// retHasOptions: does md, or anything reachable from md through message fields other than
// "options", have an `options` message field? Found by reflection over descriptor.proto, so a
// new options-bearing descriptor kind cannot go unnoticed.
func retHasOptions(md protoreflect.MessageDescriptor, seen map[protoreflect.FullName]bool) bool {
	if v, ok := retHasOptsMemo[md.FullName()]; ok {
		return v
	}
	if seen[md.FullName()] {
		return false
	}
	seen[md.FullName()] = true
	res := false
	fs := md.Fields()
	for i := 0; i < fs.Len() && !res; i++ {
		fd := fs.Get(i)
		if fd.Message() == nil {
			continue
		}
		if fd.Name() == "options" {
			res = true
		} else if retHasOptions(fd.Message(), seen) {
			res = true
		}
	}
	delete(seen, md.FullName())
	if len(seen) == 0 {
		retHasOptsMemo[md.FullName()] = res
	}
	return res
}

func retSortedFields(md protoreflect.MessageDescriptor) []protoreflect.FieldDescriptor {
	fs := md.Fields()
	out := make([]protoreflect.FieldDescriptor, 0, fs.Len())
	for i := 0; i < fs.Len(); i++ {
		out = append(out, fs.Get(i))
	}
	sort.Slice(out, func(i, j int) bool { return out[i].Number() < out[j].Number() })
	return out
}

type retO struct {
	num  int
	ret  byte
	val  uint64
	kids []*retO
}

type retElem struct {
	kind     string
	tag, idx int
	msg      protoreflect.Message
	opts     []*retO
	hasOpts  bool
	kids     []*retElem
}

func retRetention(fd protoreflect.FieldDescriptor) byte {
	fo, ok := fd.Options().(*descriptorpb.FieldOptions)
	if !ok || fo == nil || fo.Retention == nil {
		return 'n'
	}
	switch fo.GetRetention() {
	case descriptorpb.FieldOptions_RETENTION_RUNTIME:
		return 'r'
	case descriptorpb.FieldOptions_RETENTION_SOURCE:
		return 's'
	}
	return 'u'
}

func retDigest(fd protoreflect.FieldDescriptor, v protoreflect.Value) uint64 {
	const mask = 0x7fffffff
	switch fd.Kind() {
	case protoreflect.BoolKind:
		if v.Bool() {
			return 1
		}
		return 0
	case protoreflect.EnumKind:
		return uint64(v.Enum()) & mask
	case protoreflect.Int32Kind, protoreflect.Sint32Kind, protoreflect.Sfixed32Kind,
		protoreflect.Int64Kind, protoreflect.Sint64Kind, protoreflect.Sfixed64Kind:
		return uint64(v.Int()) & mask
	case protoreflect.Uint32Kind, protoreflect.Fixed32Kind, protoreflect.Uint64Kind, protoreflect.Fixed64Kind:
		return v.Uint() & mask
	case protoreflect.FloatKind, protoreflect.DoubleKind:
		return math.Float64bits(v.Float()) & mask
	case protoreflect.StringKind:
		h := fnv.New32a()
		h.Write([]byte(v.String()))
		return uint64(h.Sum32()) & mask
	case protoreflect.BytesKind:
		h := fnv.New32a()
		h.Write(v.Bytes())
		return uint64(h.Sum32()) & mask
	}
	panic("retention: unexpected kind " + fd.Kind().String())
}

func retProjFields(m protoreflect.Message) []*retO {
	var out []*retO
	m.Range(func(fd protoreflect.FieldDescriptor, v protoreflect.Value) bool {
		n := &retO{num: int(fd.Number()), ret: retRetention(fd)}
		switch {
		case fd.IsMap():
			panic("retention: map-typed option fields are not generated")
		case fd.IsList():
			l := v.List()
			for i := 0; i < l.Len(); i++ {
				it := &retO{num: i, ret: 'i'}
				if fd.Message() != nil {
					it.kids = retProjFields(l.Get(i).Message())
				} else {
					it.val = retDigest(fd, l.Get(i))
				}
				n.kids = append(n.kids, it)
			}
		case fd.Message() != nil:
			n.kids = retProjFields(v.Message())
		default:
			n.val = retDigest(fd, v)
		}
		out = append(out, n)
		return true
	})
	if u := m.GetUnknown(); len(u) > 0 {
		// unknown bytes are content too: field number 0 never occurs otherwise
		h := fnv.New32a()
		h.Write(u)
		out = append(out, &retO{num: 0, ret: 'n', val: uint64(h.Sum32()) & 0x7fffffff})
	}
	sort.SliceStable(out, func(i, j int) bool { return out[i].num < out[j].num })
	return out
}

// retProject walks a descriptor message reflectively: its `options` field is the element's
// options, every message-typed field whose type can (transitively) carry options holds child
// elements.
func retProject(m protoreflect.Message, tag, idx int) *retElem {
	md := m.Descriptor()
	e := &retElem{kind: retKindLetter[md.FullName()], tag: tag, idx: idx, msg: m}
	if e.kind == "" {
		e.kind = "?" + string(md.FullName())
	}
	for _, fd := range retSortedFields(md) {
		if fd.Message() == nil {
			continue
		}
		if fd.Name() == "options" {
			if m.Has(fd) {
				e.hasOpts = true
				e.opts = retProjFields(m.Get(fd).Message())
			}
			continue
		}
		if !retHasOptions(fd.Message(), map[protoreflect.FullName]bool{}) {
			continue
		}
		if fd.IsList() {
			l := m.Get(fd).List()
			for i := 0; i < l.Len(); i++ {
				e.kids = append(e.kids, retProject(l.Get(i).Message(), int(fd.Number()), i))
			}
		} else if m.Has(fd) {
			k := retProject(m.Get(fd).Message(), int(fd.Number()), 0)
			k.kind = "?singular-" + k.kind
			e.kids = append(e.kids, k)
		}
	}
	return e
}

func retFillEmptyOptions(m protoreflect.Message) {
	md := m.Descriptor()
	for _, fd := range retSortedFields(md) {
		if fd.Message() == nil {
			continue
		}
		if fd.Name() == "options" {
			if !m.Has(fd) {
				m.Set(fd, protoreflect.ValueOfMessage(m.NewField(fd).Message()))
			}
			continue
		}
		if !retHasOptions(fd.Message(), map[protoreflect.FullName]bool{}) {
			continue
		}
		if fd.IsList() {
			l := m.Get(fd).List()
			for i := 0; i < l.Len(); i++ {
				retFillEmptyOptions(l.Get(i).Message())
			}
		}
	}
}

func retClearOptions(m protoreflect.Message) {
	md := m.Descriptor()
	for _, fd := range retSortedFields(md) {
		if fd.Message() == nil {
			continue
		}
		if fd.Name() == "options" {
			m.Clear(fd)
			continue
		}
		if !retHasOptions(fd.Message(), map[protoreflect.FullName]bool{}) {
			continue
		}
		if fd.IsList() {
			l := m.Get(fd).List()
			for i := 0; i < l.Len(); i++ {
				retClearOptions(l.Get(i).Message())
			}
		}
	}
}

func retShowO(b *strings.Builder, ts []*retO) {
	for _, t := range ts {
		fmt.Fprintf(b, " %d %c %d %d", t.num, t.ret, t.val, len(t.kids))
		retShowO(b, t.kids)
	}
}

// retShowElem prints e; when in != nil a sharing flag is printed: "=" if e is the very same
// message as the element at the same position of the input, "~" otherwise.
func retShowElem(b *strings.Builder, e *retElem, in *retElem, flags bool) {
	fmt.Fprintf(b, " %s %d %d", e.kind, e.tag, e.idx)
	if flags {
		if in != nil && in.msg.Interface() == e.msg.Interface() {
			b.WriteString(" =")
		} else {
			b.WriteString(" ~")
		}
	}
	if e.hasOpts {
		fmt.Fprintf(b, " %d", len(e.opts))
		retShowO(b, e.opts)
	} else {
		b.WriteString(" -")
	}
	fmt.Fprintf(b, " %d", len(e.kids))
	for i, k := range e.kids {
		var ik *retElem
		if in != nil && len(in.kids) == len(e.kids) {
			ik = in.kids[i]
		}
		retShowElem(b, k, ik, flags)
	}
}

func retShowLocs(b *strings.Builder, fd *descriptorpb.FileDescriptorProto) {
	if fd.SourceCodeInfo == nil {
		b.WriteString(" -")
		return
	}
	fmt.Fprintf(b, " %d", len(fd.SourceCodeInfo.Location))
	for _, l := range fd.SourceCodeInfo.Location {
		if len(l.Path) == 0 {
			b.WriteString(" _")
			continue
		}
		b.WriteByte(' ')
		for i, p := range l.Path {
			if i > 0 {
				b.WriteByte('.')
			}
			b.WriteString(strconv.Itoa(int(p)))
		}
	}
}

// retDescribe is the "T <elem> L <locs>" part of an op line.
func retDescribe(fd *descriptorpb.FileDescriptorProto) string {
	var b strings.Builder
	b.WriteString("T")
	retShowElem(&b, retProject(fd.ProtoReflect(), 0, 0), nil, false)
	b.WriteString(" L")
	retShowLocs(&b, fd)
	return b.String()
}

func retOpLine(mode, src string) (string, error) {
	fd, err := retCompile(src, mode)
	if err != nil {
		return "", err
	}
	return "strip " + mode + " " + Hex([]byte(src)) + " " + retDescribe(fd), nil
}

// ---------------------------------------------------------------- Exec

func (retentionEngine) Exec(op string) string {
	w := strings.SplitN(op, " ", 4)
	if len(w) != 4 || w[0] != "strip" || !strings.HasPrefix(w[3], "T ") {
		return "bad-op"
	}
	mode, src := w[1], string(UnHex(w[2]))
	if mode == "" {
		return "bad-op"
	}
	fd, err := retCompile(src, mode)
	if err != nil {
		return "bad-op compile: " + Canon(err.Error())
	}
	desc := retDescribe(fd)
	if desc != w[3] {
		return "bad-op description-mismatch"
	}
	before := proto.Clone(fd).(*descriptorpb.FileDescriptorProto)
	beforeBytes, err := proto.MarshalOptions{Deterministic: true}.Marshal(fd)
	if err != nil {
		return "bad-op marshal: " + Canon(err.Error())
	}

	out, err := options.StripSourceRetentionOptionsFromFile(fd)
	if err != nil {
		return "err " + Canon(err.Error())
	}
	if out == nil {
		return "err nil-result"
	}

	// input unchanged: same content (two ways) and same abstract description
	afterBytes, _ := proto.MarshalOptions{Deterministic: true}.Marshal(fd)
	inOK := proto.Equal(before, fd) && string(beforeBytes) == string(afterBytes) && retDescribe(fd) == desc

	// everything that is not options / source info is untouched
	a := proto.Clone(before).(*descriptorpb.FileDescriptorProto)
	b := proto.Clone(out).(*descriptorpb.FileDescriptorProto)
	retClearOptions(a.ProtoReflect())
	retClearOptions(b.ProtoReflect())
	a.SourceCodeInfo, b.SourceCodeInfo = nil, nil
	restOK := proto.Equal(a, b)

	// second application
	idem := "differs"
	out2, err := options.StripSourceRetentionOptionsFromFile(out)
	switch {
	case err != nil || out2 == nil:
		idem = "error"
	case out2 == out:
		idem = "same"
	case proto.Equal(out2, out):
		idem = "equal"
	}

	var sb strings.Builder
	sb.WriteString("T")
	retShowElem(&sb, retProject(out.ProtoReflect(), 0, 0), retProject(fd.ProtoReflect(), 0, 0), true)
	sb.WriteString(" L")
	retShowLocs(&sb, out)
	fmt.Fprintf(&sb, " in=%d rest=%d idem=%s", retB(inOK), retB(restOK), idem)
	return sb.String()
}

func retB(b bool) int {
	if b {
		return 1
	}
	return 0
}

func (retentionEngine) Trivial(op, ans string) bool {
	// nothing to strip anywhere: the file comes back as is
	return strings.HasPrefix(ans, "T F 0 0 =")
}

func (retentionEngine) Class(op, ans string) string {
	w := strings.SplitN(op, " ", 3)
	if len(w) < 3 {
		return "bad"
	}
	c := "mode-" + w[1]
	switch {
	case strings.HasPrefix(ans, "T F 0 0 ="):
		c += "/as-is"
	case strings.HasPrefix(ans, "T F 0 0 ~"):
		c += "/copied"
	default:
		c += "/other"
	}
	return c
}

// ---------------------------------------------------------------- generator

// option statement templates; % is replaced by the prefix of the options kind
var retTemplates = [][]string{
	{},
	{"(o.%_i_s) = 1"},
	{"(o.%_i_n) = 1"},
	{"(o.%_i_u) = 2"},
	{"(o.%_i_r) = 3"},
	{"(o.%_i_s) = 1", "(o.%_i_n) = 2"},
	{"(o.%_i_s) = 1", "(o.%_i_u) = 2", "(o.%_i_r) = 3"},
	{"(o.%_i_s) = 1", "(o.%_q_s) = 2", "(o.%_q_s) = 3"},
	{"(o.%_i_s) = 1", "(o.%_m_s) = { b: 1 }", "(o.%_r_s) = { c: 1 }"},
	{"(o.%_m_n) = { a: 1 }"},
	{"(o.%_m_n) = { b: 1 }"},
	{"(o.%_m_n) = { }"},
	{"(o.%_m_n) = { a: 1 b: 2 }"},
	{"(o.%_m_n) = { m { a: 1 } }"},
	{"(o.%_m_n) = { m { m { a: 1 b: 2 } } }"},
	{"(o.%_m_n) = { m { m { m { z: \"x\" } } } }"},
	{"(o.%_m_n) = { s { b: 1 } }"},
	{"(o.%_m_n) = { t { s { c: 1 } } }"},
	{"(o.%_m_n) = { rs { b: 1 } rs { c: 2 } r { a: 1 } r { b: 2 } }"},
	{"(o.%_m_n) = { q: [1, 2] qs: [3] }"},
	{"(o.%_m_n) = { qs: 7 }"},
	{"(o.%_m_s) = { b: 1 }"},
	{"(o.%_m_s) = { a: 1 }", "(o.%_i_r) = 1"},
	{"(o.%_m_r) = { a: 1 b: 2 c: 3 d: 4 }"},
	{"(o.%_m_r) = { a: 1 }", "(o.%_i_s) = 4"},
	{"(o.%_m_n).a = 1"},
	{"(o.%_m_n).m.a = 1", "(o.%_m_n).m.b = 2"},
	{"(o.%_m_s).b = 5"},
	{"(o.%_m_s).a = 5", "(o.%_m_n).c = 6"},
	{"(o.%_r_n) = { a: 1 }", "(o.%_r_n) = { b: 2 }"},
	{"(o.%_r_n) = { r { a: 1 } r { } }"},
	{"(o.%_r_s) = { b: 1 }"},
	{"(o.%_r_s) = { b: 1 }", "(o.%_r_n) = { s { } }"},
	{"(o.%_q_n) = 1", "(o.%_q_n) = 2"},
	{"(o.%_q_s) = 1"},
	{"(o.%_q_s) = 1", "(o.%_q_n) = 2"},
	{"(o.%_i_n) = 1", "(o.%_i_u) = 2", "(o.%_i_r) = 3", "(o.%_i_s) = 4", "(o.%_m_n) = { a: 1 m { a: 2 c: 3 } }",
		"(o.%_m_r) = { b: 1 }", "(o.%_m_s) = { c: 1 }", "(o.%_q_n) = 1", "(o.%_q_s) = 2", "(o.%_r_n) = { a: 1 }",
		"(o.%_r_s) = { b: 1 }"},
}

// builtin (descriptor.proto) options usable per kind; the extension range ones are
// source-retention fields of ExtensionRangeOptions itself
var retBuiltin = map[string][]string{
	"fl": {"deprecated = true", "java_package = \"j\""},
	"ms": {"deprecated = true"},
	"fd": {"deprecated = true"},
	"er": {"verification = UNVERIFIED"},
	"en": {"deprecated = true", "allow_alias = false"},
	"ev": {"deprecated = true"},
	"sv": {"deprecated = true"},
	"mt": {"deprecated = true", "idempotency_level = IDEMPOTENT"},
}

func retSubst(stmts []string, pfx string) []string {
	out := make([]string, len(stmts))
	for i, s := range stmts {
		out[i] = strings.ReplaceAll(s, "%", pfx)
	}
	return out
}

// retFile builds a.proto. opt(pfx) is asked once per element for its option statements.
type retFile struct {
	b      strings.Builder
	n      int // name/number counter
	opt    func(pfx string, depth int) []string
	fileOp []string
}

func (f *retFile) next() int { f.n++; return f.n }

func (f *retFile) stmts(ind string, ss []string) {
	for _, s := range ss {
		fmt.Fprintf(&f.b, "%soption %s;\n", ind, s)
	}
}

func (f *retFile) compact(ss []string) string {
	if len(ss) == 0 {
		return ""
	}
	return " [" + strings.Join(ss, ", ") + "]"
}

type retShape struct {
	fields, oneofFields, ranges, nested, enums, values, exts int
	msgs, topEnums, services, methods, topExts               int
}

func (f *retFile) enum(ind string, sh retShape) {
	fmt.Fprintf(&f.b, "%senum E%d {\n", ind, f.next())
	f.stmts(ind+"  ", f.opt("en", 0))
	for i := 0; i < sh.values; i++ {
		k := f.next()
		fmt.Fprintf(&f.b, "%s  V%d = %d%s;\n", ind, k, k, f.compact(f.opt("ev", 0)))
	}
	fmt.Fprintf(&f.b, "%s}\n", ind)
}

func (f *retFile) extend(ind string, n int) {
	if n == 0 {
		return
	}
	fmt.Fprintf(&f.b, "%sextend o.X {\n", ind)
	for i := 0; i < n; i++ {
		k := f.next()
		fmt.Fprintf(&f.b, "%s  optional int32 x%d = %d%s;\n", ind, k, k, f.compact(f.opt("fd", 0)))
	}
	fmt.Fprintf(&f.b, "%s}\n", ind)
}

func (f *retFile) message(ind string, sh retShape, depth int) {
	fmt.Fprintf(&f.b, "%smessage M%d {\n", ind, f.next())
	in := ind + "  "
	f.stmts(in, f.opt("ms", depth))
	for i := 0; i < sh.fields; i++ {
		k := f.next()
		fmt.Fprintf(&f.b, "%soptional int32 f%d = %d%s;\n", in, k, k, f.compact(f.opt("fd", depth)))
	}
	if sh.oneofFields > 0 {
		fmt.Fprintf(&f.b, "%soneof u%d {\n", in, f.next())
		f.stmts(in+"  ", f.opt("oo", depth))
		for i := 0; i < sh.oneofFields; i++ {
			k := f.next()
			fmt.Fprintf(&f.b, "%s  int32 g%d = %d%s;\n", in, k, k, f.compact(f.opt("fd", depth)))
		}
		fmt.Fprintf(&f.b, "%s}\n", in)
	}
	for i := 0; i < sh.ranges; i++ {
		lo := 100000 + 1000*f.next()
		fmt.Fprintf(&f.b, "%sextensions %d to %d%s;\n", in, lo, lo+99, f.compact(f.opt("er", depth)))
	}
	if depth < sh.nested {
		f.message(in, sh, depth+1)
	}
	for i := 0; i < sh.enums; i++ {
		f.enum(in, sh)
	}
	f.extend(in, sh.exts)
	fmt.Fprintf(&f.b, "%s}\n", ind)
}

func retBuild(sh retShape, opt func(pfx string, depth int) []string) string {
	f := &retFile{opt: opt}
	f.b.WriteString("syntax = \"proto2\";\npackage a;\nimport \"o.proto\";\n")
	f.stmts("", opt("fl", 0))
	for i := 0; i < sh.msgs; i++ {
		f.message("", sh, 0)
	}
	for i := 0; i < sh.topEnums; i++ {
		f.enum("", sh)
	}
	for i := 0; i < sh.services; i++ {
		fmt.Fprintf(&f.b, "service S%d {\n", f.next())
		f.stmts("  ", opt("sv", 0))
		for j := 0; j < sh.methods; j++ {
			ss := opt("mt", 0)
			if len(ss) == 0 {
				fmt.Fprintf(&f.b, "  rpc R%d(o.N) returns (o.N);\n", f.next())
			} else {
				fmt.Fprintf(&f.b, "  rpc R%d(o.N) returns (o.N) {\n", f.next())
				f.stmts("    ", ss)
				f.b.WriteString("  }\n")
			}
		}
		f.b.WriteString("}\n")
	}
	f.extend("", sh.topExts)
	return f.b.String()
}

// retMinimalShape: the smallest file that contains an element of the given options kind.
func retMinimalShape(pfx string) retShape {
	switch pfx {
	case "fl":
		return retShape{}
	case "ms":
		return retShape{msgs: 1}
	case "fd":
		return retShape{msgs: 1, fields: 1}
	case "oo":
		return retShape{msgs: 1, oneofFields: 1}
	case "er":
		return retShape{msgs: 1, ranges: 1}
	case "en":
		return retShape{topEnums: 1, values: 1}
	case "ev":
		return retShape{topEnums: 1, values: 1}
	case "sv":
		return retShape{services: 1}
	case "mt":
		return retShape{services: 1, methods: 1}
	}
	return retShape{}
}

// random N literal, nesting down to `depth` more levels
func retRandN(r *Rand, depth int) string {
	var parts []string
	for _, s := range []string{"a", "b", "c", "d"} {
		if r.Chance(1, 3) {
			parts = append(parts, fmt.Sprintf("%s: %d", s, 1+r.Intn(9)))
		}
	}
	if r.Chance(1, 6) {
		parts = append(parts, "z: \"s\"")
	}
	if depth > 0 {
		for _, s := range []string{"m", "s", "t"} {
			if r.Chance(1, 3) {
				parts = append(parts, s+" "+retRandN(r, depth-1))
			}
		}
		for _, s := range []string{"r", "rs"} {
			if r.Chance(1, 4) {
				for i, n := 0, 1+r.Intn(2); i < n; i++ {
					parts = append(parts, s+" "+retRandN(r, depth-1))
				}
			}
		}
	}
	for _, s := range []string{"q", "qs"} {
		if r.Chance(1, 5) {
			for i, n := 0, 1+r.Intn(2); i < n; i++ {
				parts = append(parts, fmt.Sprintf("%s: %d", s, r.Intn(5)))
			}
		}
	}
	return "{ " + strings.Join(parts, " ") + " }"
}

// random option statements for one element of the given kind
func retRandOpts(r *Rand, pfx string, density int) []string {
	var ss []string
	if !r.Chance(density, 10) {
		return nil
	}
	style := r.Intn(5) // 0: only source, 1: only retained, 2..: mixed
	want := func(src bool) bool {
		switch style {
		case 0:
			return src && r.Chance(1, 2)
		case 1:
			return !src && r.Chance(1, 3)
		}
		return r.Chance(1, 4)
	}
	for _, k := range []struct {
		key string
		src bool
	}{{"i_n", false}, {"i_u", false}, {"i_r", false}, {"i_s", true}} {
		if want(k.src) {
			ss = append(ss, fmt.Sprintf("(o.%s_%s) = %d", pfx, k.key, 1+r.Intn(9)))
		}
	}
	for _, k := range []struct {
		key string
		src bool
	}{{"m_n", false}, {"m_r", false}, {"m_s", true}} {
		if !want(k.src) {
			continue
		}
		if r.Chance(1, 4) {
			// dotted form: one or two leaves of the same option
			paths := []string{"a", "b", "c", "m.a", "m.b", "s.c", "t.a", "m.m.a"}
			p1 := Pick(r, paths)
			ss = append(ss, fmt.Sprintf("(o.%s_%s).%s = %d", pfx, k.key, p1, 1+r.Intn(9)))
			if p2 := Pick(r, paths); p2 != p1 && r.Bool() {
				ss = append(ss, fmt.Sprintf("(o.%s_%s).%s = %d", pfx, k.key, p2, 1+r.Intn(9)))
			}
		} else {
			ss = append(ss, fmt.Sprintf("(o.%s_%s) = %s", pfx, k.key, retRandN(r, r.Intn(4))))
		}
	}
	for _, k := range []struct {
		key string
		src bool
	}{{"q_n", false}, {"q_s", true}} {
		if want(k.src) {
			for i, n := 0, 1+r.Intn(2); i < n; i++ {
				ss = append(ss, fmt.Sprintf("(o.%s_%s) = %d", pfx, k.key, r.Intn(9)))
			}
		}
	}
	for _, k := range []struct {
		key string
		src bool
	}{{"r_n", false}, {"r_s", true}} {
		if want(k.src) {
			for i, n := 0, 1+r.Intn(2); i < n; i++ {
				ss = append(ss, fmt.Sprintf("(o.%s_%s) = %s", pfx, k.key, retRandN(r, r.Intn(3))))
			}
		}
	}
	if bs := retBuiltin[pfx]; len(bs) > 0 && r.Chance(1, 4) {
		ss = append(ss, Pick(r, bs))
	}
	// shuffle: statement order must not matter
	for i := len(ss) - 1; i > 0; i-- {
		j := r.Intn(i + 1)
		ss[i], ss[j] = ss[j], ss[i]
	}
	return ss
}

func (retentionEngine) Gen(r *Rand, tier string) [][]string {
	var cases [][]string
	seen := map[string]bool{}
	add := func(mode, src string) {
		line, err := retOpLine(mode, src)
		if err != nil {
			panic(fmt.Sprintf("retention generator produced a file the compiler rejects: %v\n%s", err, src))
		}
		if seen[line] {
			return
		}
		seen[line] = true
		cases = append(cases, []string{line})
	}
	// addPair: one case of two ops — the file against schema revision A, then against revision B —
	// so that a replay of the case carries the history that state shared across strips needs
	addPair := func(modeA, modeB, src string) {
		la, err := retOpLine(modeA, src)
		if err != nil {
			panic(fmt.Sprintf("retention generator produced a file the compiler rejects: %v\n%s", err, src))
		}
		lb, err := retOpLine(modeB, src)
		if err != nil {
			panic(fmt.Sprintf("retention generator produced a file the compiler rejects (revision B): %v\n%s", err, src))
		}
		if seen[la+"|"+lb] {
			return
		}
		seen[la+"|"+lb] = true
		cases = append(cases, []string{la, lb})
	}
	thorough := tier == "thorough"

	// the schema file itself: full of `retention = …` field options, none of them stripped
	for _, m := range []string{"n", "s"} {
		add(m, "")
	}
	// exhaustive: every options kind × every template, alone in a minimal file, × modes
	modes := []string{"n", "s", "x"}
	for _, k := range retKinds {
		for ti, t := range retTemplates {
			src := retBuild(retMinimalShape(k.pfx), func(pfx string, _ int) []string {
				if pfx == k.pfx {
					return retSubst(t, pfx)
				}
				return nil
			})
			for _, m := range modes {
				add(m, src)
			}
			// the same file against schema revision B (same option names, SOURCE and RUNTIME
			// swapped), interleaved with revision A in one process
			if ti%3 == 0 || thorough {
				addPair("s", "sB", src)
			}
			if ti%6 == 1 || thorough {
				add("e", src)
				add("so", src)
			}
			// with a retained builtin option next to it (and for extension ranges a
			// source-retention builtin one)
			if bs := retBuiltin[k.pfx]; len(bs) > 0 && (ti < 9 || thorough) {
				src := retBuild(retMinimalShape(k.pfx), func(pfx string, _ int) []string {
					if pfx == k.pfx {
						return append(retSubst(t, pfx), bs[0])
					}
					return nil
				})
				add("s", src)
				if thorough {
					add("x", src)
					add("n", src)
				}
			}
		}
	}
	// two siblings / parent+child with different templates: dirty-flag and lazy-copy logic of
	// stripOptionsFromAll (first changed element at index 0, 1, 2; none)
	pat := [][]int{{1, 0, 0}, {0, 1, 0}, {0, 0, 1}, {2, 9, 1}, {9, 9, 9}, {1, 1, 1}, {0, 0, 0}, {5, 21, 13}}
	for _, k := range []string{"ms", "fd", "ev", "mt", "er"} {
		sh := retShape{msgs: 3}
		switch k {
		case "fd":
			sh = retShape{msgs: 1, fields: 3}
		case "ev":
			sh = retShape{topEnums: 1, values: 3}
		case "mt":
			sh = retShape{services: 1, methods: 3}
		case "er":
			sh = retShape{msgs: 1, ranges: 3}
		}
		for _, p := range pat {
			i := 0
			src := retBuild(sh, func(pfx string, _ int) []string {
				if pfx != k {
					return nil
				}
				t := retTemplates[p[i%3]]
				i++
				return retSubst(t, pfx)
			})
			for _, m := range modes {
				add(m, src)
			}
		}
	}
	// schema revision C (awkward field numbers: surrogates, U+FFFD, beyond the last code point,
	// the largest field number) in the source-info modes: the templates that put a
	// source-retention option next to retained ones on the same element, so that a removed path
	// and a kept path differ only in such a number — in quick the mixed templates, in thorough all
	mixed := map[int]bool{1: true, 5: true, 6: true, 7: true, 8: true, 9: true, 22: true, 24: true, 28: true, 32: true, 35: true, 36: true}
	for _, k := range retKinds {
		for ti, t := range retTemplates {
			if !mixed[ti] && !thorough {
				continue
			}
			src := retBuild(retMinimalShape(k.pfx), func(pfx string, _ int) []string {
				if pfx == k.pfx {
					return retSubst(t, pfx)
				}
				return nil
			})
			add("sC", src)
			add("xC", src)
			if thorough {
				add("nC", src)
			}
		}
	}
	// every source-retention option of C paired with every retained one, on a message and on a field
	for _, k := range []string{"ms", "fd"} {
		for _, sk := range []string{"(o.%_i_s) = 1", "(o.%_m_s) = { b: 1 }", "(o.%_q_s) = 1", "(o.%_r_s) = { c: 1 }"} {
			for _, kk := range []string{"(o.%_i_n) = 2", "(o.%_i_u) = 2", "(o.%_i_r) = 2", "(o.%_m_n) = { c: 2 }", "(o.%_m_r) = { b: 2 m { c: 3 } }",
				"(o.%_q_n) = 2", "(o.%_r_n) = { d: 2 }"} {
				src := retBuild(retMinimalShape(k), func(pfx string, _ int) []string {
					if pfx == k {
						return retSubst([]string{kk, sk}, pfx)
					}
					return nil
				})
				add("sC", src)
				if thorough || k == "ms" {
					add("xC", src)
				}
			}
		}
	}
	// nesting of elements: option only on the innermost element of a deep file
	for _, k := range retKinds {
		for _, ti := range []int{1, 5, 9, 21} {
			sh := retShape{msgs: 2, fields: 1, oneofFields: 1, ranges: 1, nested: 2, enums: 1, values: 1, exts: 1,
				topEnums: 1, services: 1, methods: 1, topExts: 1}
			cnt := 0
			src := retBuild(sh, func(pfx string, depth int) []string {
				if pfx != k.pfx {
					return nil
				}
				cnt++
				if (pfx == "fl" || depth == 2 || (depth == 0 && (pfx == "sv" || pfx == "mt" || pfx == "en" || pfx == "ev"))) && cnt >= 1 {
					return retSubst(retTemplates[ti], pfx)
				}
				return nil
			})
			add("s", src)
			add("n", src)
		}
	}

	// random files
	n := 350
	if thorough {
		n = 50000
	}
	for i := 0; i < n; i++ {
		var sh retShape
		switch r.Intn(4) {
		case 0: // tiny
			sh = retShape{msgs: r.Intn(2), fields: r.Intn(2), topEnums: r.Intn(2), values: 1, services: r.Intn(2), methods: r.Intn(2)}
		case 1: // message-heavy
			sh = retShape{msgs: 1 + r.Intn(2), fields: r.Intn(3), oneofFields: r.Intn(2), ranges: r.Intn(3), nested: r.Intn(3),
				enums: r.Intn(2), values: 1 + r.Intn(2), exts: r.Intn(2)}
		default:
			sh = retShape{msgs: r.Intn(3), fields: r.Intn(3), oneofFields: r.Intn(3), ranges: r.Intn(2), nested: r.Intn(2),
				enums: r.Intn(2), values: 1 + r.Intn(2), exts: r.Intn(2), topEnums: r.Intn(2), services: r.Intn(2),
				methods: r.Intn(3), topExts: r.Intn(3)}
		}
		density := 2 + r.Intn(8)
		src := retBuild(sh, func(pfx string, _ int) []string { return retRandOpts(r, pfx, density) })
		switch r.Intn(8) {
		case 0:
			add("n", src)
		case 1:
			add("x", src)
		case 2:
			add("s", src)
			add("x", src)
		case 3:
			add("e", src)
			add("s", src)
		case 4:
			add(Pick(r, []string{"no", "so", "xo"}), src)
		case 5:
			m := Pick(r, []string{"s", "x", "n"})
			if r.Intn(2) == 0 {
				addPair(m, m+"B", src)
			} else {
				addPair(m+"B", m, src)
			}
		case 6:
			// revision C, with source info; sometimes after the same file against revision A
			m := Pick(r, []string{"s", "x", "x", "xo"})
			cm := m[:1] + "C" + m[1:]
			if r.Intn(3) == 0 {
				addPair(m, cm, src)
			} else {
				add(cm, src)
			}
		default:
			add("s", src)
		}
	}
	return cases
}
