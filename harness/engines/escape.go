package engines

import (
	"strings"

	"github.com/bufbuild/protocompile/verifhooks"
)

// escape: internal.EscapeBytes / linker.unescape (C26).
type escapeEngine struct{}

func init() { Register("escape", func() Engine { return escapeEngine{} }) }

func (escapeEngine) Name() string { return "escape" }
func (escapeEngine) Reset()       {}

func (escapeEngine) Exec(op string) string {
	w := strings.Fields(op)
	if len(w) != 2 {
		return "bad-op"
	}
	b := UnHex(w[1])
	switch w[0] {
	case "esc":
		return Hex([]byte(verifhooks.EscapeBytes(b)))
	case "unesc":
		return Hex([]byte(verifhooks.Unescape(string(b))))
	case "rt":
		return Hex([]byte(verifhooks.Unescape(verifhooks.EscapeBytes(b))))
	}
	return "bad-op"
}

func (escapeEngine) Trivial(op, ans string) bool { return strings.HasSuffix(op, " -") }

func (escapeEngine) Class(op, ans string) string {
	w := strings.Fields(op)
	return w[0]
}

func (escapeEngine) Gen(r *Rand, tier string) [][]string {
	var ops []string
	add := func(k string, b []byte) { ops = append(ops, k+" "+Hex(b)) }
	// exhaustive: all byte strings of length 0,1 (and 2 in quick, 3 sampled) for esc/rt
	add("esc", nil)
	add("rt", nil)
	add("unesc", nil)
	for a := 0; a < 256; a++ {
		add("esc", []byte{byte(a)})
		add("rt", []byte{byte(a)})
		add("unesc", []byte{byte(a)})
		add("unesc", []byte{'\\', byte(a)})
	}
	step := 1
	if tier != "thorough" {
		step = 5
	}
	for a := 0; a < 256; a++ {
		for b := (a % step); b < 256; b += step {
			add("rt", []byte{byte(a), byte(b)})
		}
	}
	// unescape on escape-like text: exhaustive short strings over a focused alphabet
	alpha := []byte{'\\', 'x', 'X', 'u', 'U', '0', '3', '4', '7', '8', 'a', 'f', 'g', 'n', '"', '\'', '?', '+', '-', 'A', 0x80, 0xff}
	n := 3
	if tier == "thorough" {
		n = 4
	}
	var rec func(prefix []byte, d int)
	rec = func(prefix []byte, d int) {
		if d == 0 {
			return
		}
		for _, c := range alpha {
			p := append(append([]byte{}, prefix...), c)
			add("unesc", append([]byte{'\\'}, p...))
			rec(p, d-1)
		}
	}
	rec(nil, n)
	// random longer strings
	cnt := 2000
	if tier == "thorough" {
		cnt = 100000
	}
	for i := 0; i < cnt; i++ {
		l := 1 + r.Intn(24)
		b := r.Bytes(l)
		add("rt", b)
		if i%4 == 0 {
			add("esc", b)
		}
		// escape-looking text for unescape
		t := make([]byte, 0, l)
		for j := 0; j < l; j++ {
			if r.Chance(1, 3) {
				t = append(t, '\\')
			}
			t = append(t, Pick(r, alpha))
		}
		add("unesc", t)
	}
	cases := make([][]string, 0, len(ops))
	for _, o := range ops {
		cases = append(cases, []string{o})
	}
	return cases
}
