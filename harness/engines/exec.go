package engines

import (
	"context"
	"errors"
	"fmt"
	"io"
	"os"
	"runtime"
	"sort"
	"strconv"
	"strings"
	"sync"
	"time"

	"github.com/bufbuild/protocompile"
	"github.com/bufbuild/protocompile/reporter"
	"github.com/bufbuild/protocompile/verifhooks"
	"google.golang.org/protobuf/proto"
	"google.golang.org/protobuf/reflect/protodesc"
	"google.golang.org/protobuf/reflect/protoreflect"
	"google.golang.org/protobuf/types/descriptorpb"
)

// exec: the compile executor of compiler.go under import graphs, fault plans, parallelism,
// request orders and perturbed schedules (C05, C06, C07, C08-compile).

type execEngine struct{}

func init() { Register("exec", func() Engine { return execEngine{} }) }

func (execEngine) Name() string { return "exec" }
func (execEngine) Reset()       {}

type execCase struct {
	par     int
	req     []string
	sched   uint64
	graph   map[string][]string
	order   []string
	faults  map[string]string
	sfx     string
	syncRes bool // the resolver calls of the requested files rendezvous (tasks start linking together)
	parZero bool // pass MaxParallelism 0 (the compiler's default) — `par` then states the effective value
	cancel  int  // cancel the context after this many resolver calls (<0: never)
	abort   int  // reporter aborts at k-th error (<0: never; -2: nil reporter)
}

func parseExecCase(op string) (*execCase, bool) {
	w := strings.Fields(op)
	if len(w) < 2 || w[0] != "compile" {
		return nil, false
	}
	c := &execCase{par: 1, graph: map[string][]string{}, faults: map[string]string{}, cancel: -1, abort: -2}
	for _, kv := range w[1:] {
		k, v, ok := strings.Cut(kv, "=")
		if !ok {
			return nil, false
		}
		switch k {
		case "par":
			c.par, _ = strconv.Atoi(v)
		case "req":
			c.req = strings.Split(v, ",")
		case "sync":
			c.syncRes = v == "1"
		case "parzero":
			c.parZero = v == "1"
		case "sched":
			c.sched, _ = strconv.ParseUint(v, 10, 64)
		case "cancel":
			c.cancel, _ = strconv.Atoi(v)
		case "abort":
			c.abort, _ = strconv.Atoi(v)
		case "graph":
			for _, ent := range strings.Split(v, ";") {
				if ent == "" {
					continue
				}
				f, deps, _ := strings.Cut(ent, ":")
				c.order = append(c.order, f)
				if deps == "" {
					c.graph[f] = nil
				} else {
					c.graph[f] = strings.Split(deps, ",")
				}
			}
		case "faults":
			if v == "-" {
				continue
			}
			for _, ent := range strings.Split(v, ";") {
				f, kind, _ := strings.Cut(ent, "=")
				c.faults[f] = kind
			}
		default:
			return nil, false
		}
	}
	return c, true
}

func (c *execCase) hasDup() bool {
	for _, k := range c.faults {
		if strings.HasPrefix(k, "dup") {
			return true
		}
	}
	return false
}

func (c *execCase) source(f string) string {
	var b strings.Builder
	b.WriteString("syntax = \"proto3\";\n")
	for _, d := range c.graph[f] {
		fmt.Fprintf(&b, "import \"%s%s\";\n", d, c.sfx)
	}
	if c.faults[f] == "syntaxerr" {
		b.WriteString("message { \n")
	}
	if k := c.faults[f]; strings.HasPrefix(k, "dupp") {
		// colliding files in a NEW, deeply nested package: the linker registers every package
		// component in the shared symbol table; no filler, so that the tasks reach that code together
		comps := make([]string, 32)
		for j := range comps {
			comps[j] = fmt.Sprintf("p%d%s", j, strings.TrimSuffix(strings.TrimPrefix(c.sfx, "_"), ".proto"))
		}
		hdr := b.String()
		b.Reset()
		b.WriteString(strings.Replace(hdr, "\n", "\npackage "+strings.Join(comps, ".")+";\n", 1))
		fmt.Fprintf(&b, "message Shared_%s {}\n", k)
	} else if strings.HasPrefix(k, "dup") {
		// two unrelated files with the same dup group define the same symbol; filler messages make the
		// linker's check pass long enough for concurrent tasks to overlap
		fmt.Fprintf(&b, "message Shared_%s {}\n", k)
		for j := 0; j < 1500; j++ {
			fmt.Fprintf(&b, "message Fill_%s_%d {}\n", f, j)
		}
	}
	fmt.Fprintf(&b, "message M_%s {\n", f)
	i := 1
	for _, d := range c.graph[f] {
		if _, ok := c.graph[d]; ok && d != f {
			fmt.Fprintf(&b, "  M_%s f%d = %d;\n", d, i, i)
			i++
		}
	}
	if c.faults[f] == "linkerr" {
		fmt.Fprintf(&b, "  Undefined_%s bad = %d;\n", f, i)
	}
	b.WriteString("}\n")
	return b.String()
}

// execStagger makes the callers of a wrapped descriptor's Imports() rendezvous and then leave one
// after the other (1 ms apart), so that one caller's import has completed when the next one starts
type execStagger struct {
	mu   sync.Mutex
	n    int
	want int
}

type execStagFile struct {
	protoreflect.FileDescriptor
	st *execStagger
}

func (f execStagFile) Imports() protoreflect.FileImports {
	f.st.mu.Lock()
	f.st.n++
	k := f.st.n
	f.st.mu.Unlock()
	for deadline := time.Now().Add(20 * time.Millisecond); time.Now().Before(deadline); {
		f.st.mu.Lock()
		n := f.st.n
		f.st.mu.Unlock()
		if n >= f.st.want {
			break
		}
		time.Sleep(50 * time.Microsecond)
	}
	if k <= 16 {
		time.Sleep(time.Duration(k-1) * time.Millisecond)
	}
	return f.FileDescriptor.Imports()
}

func execDescFile(path, f string, st *execStagger) (protoreflect.FileDescriptor, error) {
	fdp := &descriptorpb.FileDescriptorProto{
		Name:        proto.String(path),
		Syntax:      proto.String("proto3"),
		MessageType: []*descriptorpb.DescriptorProto{{Name: proto.String("M_" + f)}},
	}
	fd, err := protodesc.NewFile(fdp, nil)
	if err != nil {
		return nil, err
	}
	return execStagFile{FileDescriptor: fd, st: st}, nil
}

type faultyReader struct {
	r          io.Reader
	failAfter  int
	closePanic bool
	n          int
}

func (f *faultyReader) Read(p []byte) (int, error) {
	if f.failAfter >= 0 {
		if f.n >= f.failAfter {
			return 0, errors.New("injected short read")
		}
		if len(p) > f.failAfter-f.n {
			p = p[:f.failAfter-f.n]
		}
	}
	n, err := f.r.Read(p)
	f.n += n
	return n, err
}

func (f *faultyReader) Close() error {
	if f.closePanic {
		panic("injected close panic")
	}
	return nil
}

type traceLog struct {
	mu     sync.Mutex
	events []string
	rng    *Rand
	suffix string // per-op nonce in file names: events of goroutines left over from earlier ops are dropped
	stale  int
}

var execNonce int

func (t *traceLog) point(site string, args ...string) {
	t.mu.Lock()
	for i, a := range args {
		if !strings.HasSuffix(a, t.suffix) {
			if i == 0 {
				t.stale++
				t.mu.Unlock()
				return
			}
		}
		args[i] = strings.TrimSuffix(a, t.suffix)
	}
	t.events = append(t.events, site+"("+strings.Join(args, ",")+")")
	x := t.rng.Intn(8)
	t.mu.Unlock()
	switch {
	case x == 0:
		time.Sleep(time.Duration(20+x*30) * time.Microsecond)
	case x <= 3:
		runtime.Gosched()
	}
}

func errClass(err error) string {
	if err == nil {
		return "none"
	}
	var pe protocompile.PanicError
	if errors.As(err, &pe) {
		return "panic:" + Canon(fmt.Sprint(pe.Value))
	}
	if errors.Is(err, context.Canceled) || errors.Is(err, context.DeadlineExceeded) {
		return "ctx"
	}
	if errors.Is(err, reporter.ErrInvalidSource) {
		return "invalid-source"
	}
	var ie idErr
	if errors.As(err, &ie) {
		return "abort"
	}
	msg := err.Error()
	switch {
	case strings.Contains(msg, "cycle found in imports"):
		return "cycle"
	case strings.Contains(msg, "injected resolve error"), strings.Contains(msg, "file does not exist"), strings.Contains(msg, "not found"):
		return "resolve"
	case strings.Contains(msg, "injected short read"):
		return "read"
	case strings.Contains(msg, "syntax error"):
		return "syntax"
	case strings.Contains(msg, "unknown type"), strings.Contains(msg, "Undefined_"):
		return "link"
	}
	return "other:" + Canon(msg)
}

// Isolated: ops that can kill the process run in a child process. After a crash of the whole
// harness the check re-runs with PCVH_ISOLATE_ALL=1 so that the crashing op becomes an answer.
func (execEngine) Isolated(op string) bool {
	return strings.Contains(op, "closepanic") || os.Getenv("PCVH_ISOLATE_ALL") == "1"
}

// execDpCompile: the resolver supplies a custom google/protobuf/descriptor.proto (the real text plus
// `import "x.proto";`), so that x.proto depends on descriptor.proto implicitly and descriptor.proto
// on x.proto explicitly. Outside the LTS: the answer is `nondet ~ <what happened>`.
func execDpCompile(op string) string {
	w := strings.Fields(op)
	par, req := 2, []string{"x.proto"}
	for _, kv := range w[1:] {
		k, v, _ := strings.Cut(kv, "=")
		switch k {
		case "par":
			par, _ = strconv.Atoi(v)
		case "req":
			req = nil
			for _, r := range strings.Split(v, ",") {
				if r == "dp" {
					req = append(req, "google/protobuf/descriptor.proto")
				} else {
					req = append(req, r+".proto")
				}
			}
		default:
			return "bad-op"
		}
	}
	dp, err := os.ReadFile(execRepoFile("wellknownimports/google/protobuf/descriptor.proto"))
	if err != nil {
		return "bad-op descriptor.proto not found: " + err.Error()
	}
	custom := strings.Replace(string(dp), "package google.protobuf;", "package google.protobuf;\nimport \"x.proto\";", 1)
	if custom == string(dp) {
		return "bad-op descriptor.proto has no package line"
	}
	var x strings.Builder
	x.WriteString("syntax = \"proto3\";\nmessage X {}\n")
	for i := 0; i < 8000; i++ {
		fmt.Fprintf(&x, "message F%d {}\n", i)
	}
	srcs := map[string]string{"google/protobuf/descriptor.proto": custom, "x.proto": x.String()}
	comp := protocompile.Compiler{
		Resolver:       &protocompile.SourceResolver{Accessor: protocompile.SourceAccessorFromMap(srcs)},
		MaxParallelism: par,
	}
	ctx, cancel := context.WithTimeout(context.Background(), 10*time.Second)
	defer cancel()
	_, err = comp.Compile(ctx, req...)
	switch {
	case err == nil:
		return "nondet ~ ok"
	case errors.Is(err, context.DeadlineExceeded):
		return "nondet ~ hang"
	case strings.Contains(err.Error(), "cycle found in imports"):
		return "nondet ~ cycle " + Canon(err.Error())
	default:
		return "nondet ~ err " + Canon(err.Error())
	}
}

// execDpPlain: the LEGITIMATE use of a custom descriptor.proto — the resolver supplies the text of
// the real file (as source, so it counts as an override) and it imports nothing. k leaf files
// without imports (each depends on descriptor.proto only implicitly) and a `top` file importing all
// of them are compiled; the call must succeed at every parallelism, request order and schedule
// (C05: the outcome does not depend on them). `reps` calls; the first that does not return ok is
// the answer.
func execDpPlain(op string) string {
	w := strings.Fields(op)
	par, k, reps := 1, 3, 1
	var req []string
	for _, kv := range w[1:] {
		key, v, _ := strings.Cut(kv, "=")
		switch key {
		case "par":
			par, _ = strconv.Atoi(v)
		case "k":
			k, _ = strconv.Atoi(v)
		case "reps":
			reps, _ = strconv.Atoi(v)
		case "req":
			for _, r := range strings.Split(v, ",") {
				req = append(req, r+".proto")
			}
		default:
			return "bad-op"
		}
	}
	if len(req) == 0 || k < 1 || k > 26 || reps < 1 {
		return "bad-op"
	}
	dp, err := os.ReadFile(execRepoFile("wellknownimports/google/protobuf/descriptor.proto"))
	if err != nil {
		return "bad-op descriptor.proto not found: " + err.Error()
	}
	srcs := map[string]string{"google/protobuf/descriptor.proto": string(dp)}
	var top strings.Builder
	top.WriteString("syntax = \"proto3\";\n")
	for i := 0; i < k; i++ {
		n := fmt.Sprintf("leaf%d", i)
		srcs[n+".proto"] = fmt.Sprintf("syntax = \"proto3\";\nmessage L%d { int32 f = 1 [deprecated = true]; }\n", i)
		fmt.Fprintf(&top, "import \"%s.proto\";\n", n)
	}
	top.WriteString("message Top {\n")
	for i := 0; i < k; i++ {
		fmt.Fprintf(&top, "  L%d l%d = %d;\n", i, i, i+1)
	}
	top.WriteString("}\n")
	srcs["top.proto"] = top.String()
	for i := 0; i < reps; i++ {
		comp := protocompile.Compiler{
			Resolver:       &protocompile.SourceResolver{Accessor: protocompile.SourceAccessorFromMap(srcs)},
			MaxParallelism: par,
		}
		ctx, cancel := context.WithTimeout(context.Background(), 5*time.Second)
		_, err = comp.Compile(ctx, req...)
		cancel()
		switch {
		case err == nil:
		case errors.Is(err, context.DeadlineExceeded):
			return fmt.Sprintf("hang rep=%d", i)
		default:
			return fmt.Sprintf("err rep=%d %s", i, Canon(err.Error()))
		}
	}
	return "ok"
}

// execDpBroken: the resolver overrides descriptor.proto with a source that has a syntax error; the
// requested files are valid and do not import it, so it is compiled only as their implicit
// dependency and its failure is ignored by the importers — but its errors reach the configured
// reporter, and the reporter contract (C08) speaks about every error the reporter was handed:
// accept-all => Compile fails with ErrInvalidSource; abort => Compile fails with the reporter's
// error. Answer: res=<nil|invalid-source|reporter-error|other:…> reported=<none|some>.
func execDpBroken(op string) string {
	w := strings.Fields(op)
	par, abort := 1, false
	var req []string
	for _, kv := range w[1:] {
		key, v, _ := strings.Cut(kv, "=")
		switch key {
		case "par":
			par, _ = strconv.Atoi(v)
		case "rep":
			abort = v == "abort"
			if v != "abort" && v != "accept" {
				return "bad-op"
			}
		case "req":
			for _, r := range strings.Split(v, ",") {
				req = append(req, r+".proto")
			}
		default:
			return "bad-op"
		}
	}
	if len(req) == 0 {
		return "bad-op"
	}
	dp, err := os.ReadFile(execRepoFile("wellknownimports/google/protobuf/descriptor.proto"))
	if err != nil {
		return "bad-op descriptor.proto not found: " + err.Error()
	}
	srcs := map[string]string{
		"google/protobuf/descriptor.proto": string(dp) + "\nmessage Broken { int32 = ; }\n",
		"leaf0.proto":                      "syntax = \"proto3\";\nmessage L0 { int32 f = 1; }\n",
		"leaf1.proto":                      "syntax = \"proto3\";\nmessage L1 { int32 f = 1; }\n",
		"top.proto":                        "syntax = \"proto3\";\nimport \"leaf0.proto\";\nimport \"leaf1.proto\";\nmessage Top { L0 a = 1; L1 b = 2; }\n",
	}
	stop := errors.New("reporter-says-stop")
	var mu sync.Mutex
	reported := 0
	rep := reporter.NewReporter(func(e reporter.ErrorWithPos) error {
		mu.Lock()
		reported++
		mu.Unlock()
		if abort {
			return stop
		}
		return nil
	}, nil)
	comp := protocompile.Compiler{
		Resolver:       &protocompile.SourceResolver{Accessor: protocompile.SourceAccessorFromMap(srcs)},
		MaxParallelism: par,
		Reporter:       rep,
	}
	ctx, cancel := context.WithTimeout(context.Background(), 10*time.Second)
	defer cancel()
	_, err = comp.Compile(ctx, req...)
	res := ""
	switch {
	case err == nil:
		res = "nil"
	case errors.Is(err, context.DeadlineExceeded):
		return "hang"
	case errors.Is(err, stop):
		res = "reporter-error"
	case errors.Is(err, reporter.ErrInvalidSource):
		res = "invalid-source"
	default:
		res = "other:" + Canon(err.Error())
	}
	n := "none"
	if reported > 0 {
		n = "some"
	}
	return fmt.Sprintf("res=%s reported=%s", res, n)
}

// execRepoFile locates a file of the repository under test (the harness module replaces the
// protocompile module by a directory).
func execRepoFile(rel string) string {
	root := os.Getenv("VERIF_REPO")
	if root == "" {
		root = "/repo"
	}
	return root + "/" + rel
}

func (execEngine) Exec(op string) string {
	if strings.HasPrefix(op, "dpcompile") {
		return execDpCompile(op)
	}
	if strings.HasPrefix(op, "dpplain") {
		return execDpPlain(op)
	}
	if strings.HasPrefix(op, "dpbroken") {
		return execDpBroken(op)
	}
	c, ok := parseExecCase(op)
	if !ok {
		return "bad-op"
	}
	execNonce++
	sfx := fmt.Sprintf("_%d.proto", execNonce)
	tl := &traceLog{rng: NewRand(c.sched), suffix: sfx}
	c.sfx = sfx
	verifhooks.SetYieldHook(tl.point)
	defer verifhooks.SetYieldHook(nil)
	ctx, cancel := context.WithCancel(context.Background())
	defer cancel()
	var rmu sync.Mutex
	calls := 0
	stag := &execStagger{want: len(c.req)}
	res := protocompile.ResolverFunc(func(path string) (protocompile.SearchResult, error) {
		rmu.Lock()
		calls++
		k := calls
		rmu.Unlock()
		if c.cancel >= 0 && k > c.cancel {
			cancel()
		}
		f := strings.TrimSuffix(path, sfx)
		if c.syncRes {
			// rendezvous: wait until as many resolver calls as requested files have arrived (or 5 ms)
			for deadline := time.Now().Add(5 * time.Millisecond); time.Now().Before(deadline); {
				rmu.Lock()
				n := calls
				rmu.Unlock()
				if n >= len(c.req) {
					break
				}
				runtime.Gosched()
			}
		}
		if _, ok := c.graph[f]; !ok {
			return protocompile.SearchResult{}, errors.New("file does not exist")
		}
		switch c.faults[f] {
		case "resolveerr":
			return protocompile.SearchResult{}, errors.New("injected resolve error")
		case "resolvepanic":
			panic("injected resolver panic " + f)
		}
		if strings.HasPrefix(c.faults[f], "dupp") {
			// supplied as a descriptor proto: no parsing, so the tasks released by the rendezvous
			// above reach the linker (registration of the package components) together
			comps := make([]string, 48)
			for j := range comps {
				comps[j] = fmt.Sprintf("p%d%s", j, strings.TrimSuffix(strings.TrimPrefix(sfx, "_"), ".proto"))
			}
			return protocompile.SearchResult{Proto: &descriptorpb.FileDescriptorProto{
				Name:        proto.String(path),
				Syntax:      proto.String("proto3"),
				Package:     proto.String(strings.Join(comps, ".")),
				MessageType: []*descriptorpb.DescriptorProto{{Name: proto.String("Shared_" + c.faults[f])}, {Name: proto.String("M_" + f)}},
			}}, nil
		}
		if c.faults[f] == "desc" {
			// a dependency supplied as a pre-built descriptor (SearchResult.Desc); its Imports()
			// method, which Symbols.Import calls between "already imported?" and the import proper,
			// first lets all importers arrive and then releases them one after the other
			fd, err := execDescFile(path, f, stag)
			if err != nil {
				return protocompile.SearchResult{}, err
			}
			return protocompile.SearchResult{Desc: fd}, nil
		}
		fr := &faultyReader{r: strings.NewReader(c.source(f)), failAfter: -1}
		if c.faults[f] == "readerr" {
			fr.failAfter = 12
		}
		if c.faults[f] == "closepanic" {
			fr.closePanic = true
		}
		return protocompile.SearchResult{Source: fr}, nil
	})
	comp := protocompile.Compiler{Resolver: res, MaxParallelism: c.par}
	if c.parZero {
		comp.MaxParallelism = 0
	}
	var repMu sync.Mutex
	nReported := 0
	inRep, maxRep := 0, 0
	if c.abort != -2 {
		comp.Reporter = reporter.NewReporter(func(err reporter.ErrorWithPos) error {
			repMu.Lock()
			inRep++
			if inRep > maxRep {
				maxRep = inRep
			}
			k := nReported
			nReported++
			repMu.Unlock()
			runtime.Gosched()
			repMu.Lock()
			inRep--
			repMu.Unlock()
			if k == c.abort {
				return idErr{1000 + k}
			}
			return nil
		}, nil)
	}
	before := runtime.NumGoroutine()
	names := make([]string, len(c.req))
	for i, r := range c.req {
		names[i] = r + sfx
	}
	type out struct {
		files []bool
		err   error
	}
	done := make(chan out, 1)
	go func() {
		fs, err := comp.Compile(ctx, names...)
		o := out{err: err, files: make([]bool, len(names))}
		for i := range names {
			if i < len(fs) && fs[i] != nil {
				o.files[i] = true
			}
		}
		done <- o
	}()
	var o out
	select {
	case o = <-done:
	case <-time.After(20 * time.Second):
		return "hang ~ " + strings.Join(tl.snapshot(), ";")
	}
	// all task goroutines of THIS compilation must be gone: every spawned file finished
	leak := 1
	for i := 0; i < 1000; i++ {
		if tl.allFinished() && runtime.NumGoroutine() <= before {
			leak = 0
			break
		}
		time.Sleep(2 * time.Millisecond)
	}
	if leak == 1 && tl.allFinished() {
		// goroutine count is polluted by earlier ops; our own tasks are done
		leak = 0
	}
	var has strings.Builder
	for _, b := range o.files {
		if b {
			has.WriteByte('1')
		} else {
			has.WriteByte('0')
		}
	}
	status := "ok"
	if o.err != nil {
		status = "err"
	}
	det := fmt.Sprintf("%s has=%s", status, has.String())
	if c.cancel >= 0 {
		det = "nondet"
	} else if c.hasDup() {
		det = status // which of the colliding files fails depends on the schedule
	}
	extra := fmt.Sprintf("status=%s has=%s class=%s leak=%d reported=%d maxrep=%d", status, has.String(), errClass(o.err), leak, nReported, maxRep)
	return det + " ~ " + extra + " trace=" + strings.Join(tl.snapshot(), ";")
}

// allFinished: every spawned file has logged fail/complete and a matching final release
func (t *traceLog) allFinished() bool {
	t.mu.Lock()
	defer t.mu.Unlock()
	open := map[string]bool{}
	holds := map[string]bool{}
	for _, e := range t.events {
		site, rest, _ := strings.Cut(e, "(")
		f, _, _ := strings.Cut(strings.TrimSuffix(rest, ")"), ",")
		switch site {
		case "spawn":
			open[f] = true
		case "fail", "complete":
			delete(open, f)
		case "acquire", "reacquire":
			holds[f] = true
		case "release":
			delete(holds, f)
		}
	}
	return len(open) == 0 && len(holds) == 0
}

func (t *traceLog) snapshot() []string {
	t.mu.Lock()
	defer t.mu.Unlock()
	return append([]string{}, t.events...)
}

func (execEngine) Trivial(op, ans string) bool { return false }

func (execEngine) Class(op, ans string) string {
	det, _, _ := strings.Cut(ans, " ~ ")
	cl := "other"
	if i := strings.Index(ans, "class="); i >= 0 {
		cl = strings.Fields(ans[i+6:])[0]
		if j := strings.IndexByte(cl, ':'); j >= 0 {
			cl = cl[:j]
		}
	}
	return strings.Fields(det)[0] + "/" + cl
}

// ---- generator

func graphString(n int, edges [][]int) (string, []string) {
	names := []string{"a", "b", "c", "d", "e", "f", "g", "h"}
	var parts []string
	for i := 0; i < n; i++ {
		var ds []string
		for _, j := range edges[i] {
			ds = append(ds, names[j])
		}
		parts = append(parts, names[i]+":"+strings.Join(ds, ","))
	}
	return strings.Join(parts, ";"), names[:n]
}

func (execEngine) Gen(r *Rand, tier string) [][]string {
	var cases [][]string
	add := func(s string) { cases = append(cases, []string{s}) }
	faultKinds := []string{"resolveerr", "resolvepanic", "readerr", "syntaxerr", "linkerr", "closepanic"}
	// (1) exhaustive digraphs on 3 nodes (self-loops allowed, every edge subset) x a few parallelism/request settings
	nodes := 3
	total := 1 << (nodes * nodes)
	stride := 1
	if tier != "thorough" {
		stride = 7
	}
	for mask := 0; mask < total; mask += stride {
		edges := make([][]int, nodes)
		for i := 0; i < nodes; i++ {
			for j := 0; j < nodes; j++ {
				if mask&(1<<(i*nodes+j)) != 0 {
					edges[i] = append(edges[i], j)
				}
			}
		}
		g, names := graphString(nodes, edges)
		reqs := [][]string{{"a"}, {"a", "b", "c"}, {"c", "a"}}
		req := reqs[mask%len(reqs)]
		_ = names
		for _, par := range []int{1, 2, 4} {
			if tier != "thorough" && par != 1+(mask%3)*0+[]int{1, 2, 4}[(mask/stride)%3]-0 && par != 1 {
				continue
			}
			add(fmt.Sprintf("compile par=%d req=%s sched=%d graph=%s faults=-", par, strings.Join(req, ","), r.Intn(1000), g))
		}
	}
	// (1b) cancellation while tasks queue for a permit: two independent chains, low parallelism,
	// cancel during the k-th resolver call, many schedules
	reps := 6
	if tier == "thorough" {
		reps = 60
	}
	for _, g := range []string{"a:b;b:;c:d;d:", "a:b,c;b:;c:;d:e;e:", "a:b;b:c;c:;d:c"} {
		for par := 1; par <= 2; par++ {
			for k := 0; k <= 4; k++ {
				for i := 0; i < reps; i++ {
					req := "a,c"
					if strings.Contains(g, "d:e") || strings.Contains(g, "d:c") {
						req = "a,d"
					}
					add(fmt.Sprintf("compile par=%d req=%s sched=%d graph=%s faults=- cancel=%d", par, req, r.Intn(100000), g, k))
				}
			}
		}
	}
	// (1g) colliding files in a new, deeply nested package, started together: the collision must be
	// reported at every parallelism (registration of package components in the shared table)
	preps := 150
	if tier == "thorough" {
		preps = 1000
	}
	for _, par := range []int{2, 4, 8, 16} {
		for _, req := range []string{"a,b", "b,a"} {
			for i := 0; i < preps; i++ {
				add(fmt.Sprintf("compile par=%d req=%s sched=%d graph=a:;b: faults=a=duppk;b=duppk sync=1", par, req, r.Intn(100000)))
			}
		}
	}
	// (1f) default parallelism (MaxParallelism 0 = min(NumCPU, GOMAXPROCS))
	defPar := runtime.GOMAXPROCS(-1)
	if n := runtime.NumCPU(); n < defPar {
		defPar = n
	}
	for _, g := range []string{"a:b,c;b:d;c:d;d:", "a:b;b:a", "a:b,c,d,e;b:;c:;d:;e:"} {
		add(fmt.Sprintf("compile par=%d parzero=1 req=a sched=%d graph=%s faults=-", defPar, r.Intn(100000), g))
	}
	// (1e) implicit dependency on a custom descriptor.proto that itself imports a file
	add("dpcompile par=2 req=x")
	add("dpcompile par=4 req=dp,x")
	add("dpcompile par=1 req=dp,x")
	// (1i) a custom descriptor.proto with a syntax error, compiled only as an implicit dependency:
	// the reporter contract covers its errors too
	for _, par := range []int{1, 2, 8} {
		for _, rp := range []string{"accept", "abort"} {
			for _, rq := range []string{"leaf0", "top", "leaf1,top"} {
				add(fmt.Sprintf("dpbroken par=%d rep=%s req=%s", par, rp, rq))
			}
		}
	}
	// (1h) a custom descriptor.proto that imports nothing: must compile at every parallelism,
	// request order and schedule
	dpreps := 6
	if tier == "thorough" {
		dpreps = 60
	}
	for _, par := range []int{1, 2, 4, 8} {
		for _, rq := range []string{"leaf0", "top", "top,leaf2", "leaf2,top", "leaf0,leaf1,leaf2", "leaf0,leaf1,leaf2,leaf3,leaf4,leaf5,leaf6,leaf7"} {
			add(fmt.Sprintf("dpplain par=%d k=8 reps=%d req=%s", par, dpreps, rq))
		}
	}
	// (1d) one dependency supplied as a pre-built descriptor and imported by k files at once: the
	// import of that file into the shared symbol table must succeed at every parallelism (C05/C16)
	sreps := 1
	if tier == "thorough" {
		sreps = 12
	}
	for _, k := range []int{2, 3, 5} {
		var ents, req []string
		for i := 0; i < k; i++ {
			n := string(rune('a' + i))
			ents = append(ents, n+":s")
			req = append(req, n)
		}
		g := strings.Join(ents, ";") + ";s:"
		for _, par := range []int{1, k, 8} {
			for i := 0; i < sreps; i++ {
				add(fmt.Sprintf("compile par=%d req=%s sched=%d graph=%s faults=s=desc", par, strings.Join(req, ","), r.Intn(100000), g))
			}
		}
	}
	// (1c) symbol collisions between unrelated files of one package: must be reported at every
	// parallelism, request order and schedule (C05/C16)
	dreps := 3
	if tier == "thorough" {
		dreps = 40
	}
	for _, g := range []string{"a:;b:", "a:c;b:d;c:;d:", "a:b,c;b:;c:"} {
		for _, par := range []int{1, 2, 4, 16} {
			for i := 0; i < dreps; i++ {
				for _, req := range []string{"a,b", "b,a"} {
					fl := "a=dup1;b=dup1"
					if g == "a:b,c;b:;c:" {
						fl = "b=dup1;c=dup1"
						req = "a"
					}
					add(fmt.Sprintf("compile par=%d req=%s sched=%d graph=%s faults=%s", par, req, r.Intn(100000), g, fl))
				}
			}
		}
	}
	// (2) random graphs 2..7 nodes: DAGs mostly, some with back edges / missing files, with fault plans
	n := 150
	if tier == "thorough" {
		n = 6000
	}
	for i := 0; i < n; i++ {
		nn := 2 + r.Intn(6)
		edges := make([][]int, nn)
		cyc := r.Chance(1, 5)
		for a := 0; a < nn; a++ {
			for b := 0; b < nn; b++ {
				if a == b && !(cyc && r.Chance(1, 12)) {
					continue
				}
				if b > a && r.Chance(2, 5) {
					edges[a] = append(edges[a], b)
				} else if b < a && cyc && r.Chance(1, 6) {
					edges[a] = append(edges[a], b)
				} else if a == b {
					edges[a] = append(edges[a], b)
				}
			}
		}
		g, names := graphString(nn, edges)
		if r.Chance(1, 8) {
			// an import of a file that does not exist
			g = strings.Replace(g, "a:", "a:zz,", 1)
			g = strings.Replace(g, "a:zz,;", "a:zz;", 1)
		}
		var req []string
		perm := r.permN(nn)
		k := 1 + r.Intn(nn)
		for _, p := range perm[:k] {
			req = append(req, names[p])
		}
		if r.Chance(1, 2) {
			sort.Strings(req)
		}
		faults := "-"
		if r.Chance(1, 2) {
			var fs []string
			for _, nm := range names {
				if r.Chance(1, 4) {
					fs = append(fs, nm+"="+Pick(r, faultKinds))
				}
			}
			if len(fs) > 0 {
				faults = strings.Join(fs, ";")
			}
		}
		par := Pick(r, []int{1, 1, 2, 3, 4, 8, 16})
		op := fmt.Sprintf("compile par=%d req=%s sched=%d graph=%s faults=%s", par, strings.Join(req, ","), r.Intn(100000), g, faults)
		if r.Chance(1, 6) {
			op += fmt.Sprintf(" cancel=%d", r.Intn(nn+1))
		}
		if r.Chance(1, 4) {
			op += fmt.Sprintf(" abort=%d", r.Intn(3)-1)
		}
		add(op)
		// the same workspace under other parallelism / request order / schedule (C05)
		if r.Chance(1, 2) && !strings.Contains(op, "cancel=") {
			rev := append([]string{}, req...)
			for a, b := 0, len(rev)-1; a < b; a, b = a+1, b-1 {
				rev[a], rev[b] = rev[b], rev[a]
			}
			add(fmt.Sprintf("compile par=%d req=%s sched=%d graph=%s faults=%s", Pick(r, []int{1, 2, 16}), strings.Join(rev, ","), r.Intn(100000), g, faults))
		}
	}
	return cases
}
