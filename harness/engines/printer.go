package engines

import (
	"context"
	"fmt"
	"math"
	"strconv"
	"strings"

	"google.golang.org/protobuf/proto"
	"google.golang.org/protobuf/types/descriptorpb"

	"github.com/bufbuild/protocompile"
	"github.com/bufbuild/protocompile/experimental/ast"
	"github.com/bufbuild/protocompile/experimental/ast/printer"
	"github.com/bufbuild/protocompile/experimental/dom"
	xparser "github.com/bufbuild/protocompile/experimental/parser"
	"github.com/bufbuild/protocompile/experimental/report"
	"github.com/bufbuild/protocompile/experimental/seq"
	"github.com/bufbuild/protocompile/experimental/source"
	"github.com/bufbuild/protocompile/experimental/token"
	"github.com/bufbuild/protocompile/experimental/token/keyword"
	"github.com/bufbuild/protocompile/linker"
	"github.com/bufbuild/protocompile/reporter"
)

// Engines of C30 / C31 (experimental/ast/printer, experimental/dom).
//
//   roundtrip (C30)
//     tri <tree> <acc>                 buildTriviaIndex of the token tree (hook dump); acc = parsed without errors
//     rt <tree> <fileplan> <declplans> PrintFile(Options{}) and the concatenation of Print(decl)
//   dom (C31, dom layer)
//     render <maxw> <tab> <omit> <dom> dom.Render through the public API
//     layout <maxw> <tab> <dom>        width/column/broken of every tag after the layout pass (hook)
//     merge <ka> <la> <kb> <lb>        shouldMerge
//     width <tab> <col> <hex>          stringWidth
//   format (C31, property proper)
//     fmt <preset> <srchex> <maxw> <tab> <dom>   PrintFile(Format) output (compared with the model's rendering
//                                      of <dom>, the dom the real printer built, recorded through a hook) and,
//                                      behind " ~ ", what the property oracle needs: src=/out= compile results of
//                                      the real compiler, same= descriptors equal, diff= differing parts,
//                                      reparse= error count, idem= second pass unchanged, cm= comment class
//
// <tree> is the token tree of the parsed file (observed by Gen on the same code, re-observed by
// Exec): items `s<hex>.` space, `c<hex>.` comment, `n<kw><hex>.` natural leaf (kw m ; k , a = o other),
// `(<br><hex>.` items `)<hex>.` fused pair (br b {} k [] p () a <> o other). Token IDs are the DFS
// positions (1-based), which is how the real stream numbers its natural tokens.
// <fileplan>/<declplans> is the order in which the non-format code paths of the AST printer call
// printToken / emitTriviaSlot / emitRemainingTrivia / emitCommaTrivia / emitTrivia / withIndent /
// withGroup, transcribed from decl.go, expr.go, path.go, type.go by prnPlan* below (the AST walk
// itself is not modelled in Lean): T<id><gap>; S<scope>,<i>; R<scope>,<i>; C<id>; E; B; X; I[..] G[..]
// K<scope>[..]{..}. <declplans> are the plans of Print(decl) for every top-level declaration, joined by '|'.

// ---------------------------------------------------------------- token tree

const prnPath = "a.proto"

type prnParsed struct {
	file   *ast.File
	errs   int // diagnostics at level <= Error
	unrec  bool
	tree   string
	nToks  int
	source string
}

func prnParse(src string) (p prnParsed, ok bool) {
	defer func() {
		if r := recover(); r != nil {
			ok = false
		}
	}()
	rep := &report.Report{}
	f, _ := xparser.Parse(prnPath, source.NewFile(prnPath, src), rep)
	p.file = f
	p.source = src
	for _, d := range rep.Diagnostics {
		if d.Level() <= report.Error {
			p.errs++
		}
	}
	var sb strings.Builder
	next := 1
	good := true
	var walk func(c *token.Cursor)
	emit := func(tag string, text string) {
		if text == "" {
			good = false // zero-width token (the lexer's stand-in for a missing bracket)
		}
		sb.WriteString(tag)
		sb.WriteString(prnHex(text))
		sb.WriteByte('.')
	}
	walk = func(c *token.Cursor) {
		for t := c.NextSkippable(); !t.IsZero(); t = c.NextSkippable() {
			if int(t.ID()) != next {
				good = false
			}
			next++
			switch {
			case t.Kind() == token.Space:
				emit("s", t.Text())
			case t.Kind() == token.Comment:
				emit("c", t.Text())
			case t.Kind() == token.Unrecognized:
				p.unrec = true
				emit("s", t.Text())
			case t.IsLeaf():
				kw := "o"
				switch t.Keyword() {
				case keyword.Semi:
					kw = "m"
				case keyword.Comma:
					kw = "k"
				case keyword.Assign:
					kw = "a"
				}
				emit("n"+kw, t.Text())
			default:
				br := "o"
				switch t.Keyword() {
				case keyword.Braces:
					br = "b"
				case keyword.Brackets:
					br = "k"
				case keyword.Parens:
					br = "p"
				case keyword.Angles:
					br = "a"
				}
				open, cl := t.StartEnd()
				if open.ID() != t.ID() {
					good = false
				}
				emit("("+br, open.Text())
				walk(t.Children())
				if int(cl.ID()) != next {
					good = false
				}
				next++
				emit(")", cl.Text())
			}
		}
	}
	walk(f.Stream().Cursor())
	p.tree = sb.String()
	if p.tree == "" {
		p.tree = "-"
	}
	p.nToks = next - 1
	return p, good
}

func prnHex(s string) string {
	const d = "0123456789abcdef"
	b := make([]byte, 0, 2*len(s))
	for i := 0; i < len(s); i++ {
		b = append(b, d[s[i]>>4], d[s[i]&15])
	}
	return string(b)
}

// prnTreeSource rebuilds the source text from a tree encoding ("" if malformed).
func prnTreeSource(tree string) (string, bool) {
	if tree == "-" {
		return "", true
	}
	var sb strings.Builder
	i := 0
	for i < len(tree) {
		switch tree[i] {
		case 's', 'c', ')':
			i++
		case 'n', '(':
			i += 2
		default:
			return "", false
		}
		j := strings.IndexByte(tree[i:], '.')
		if j < 0 {
			return "", false
		}
		h := tree[i : i+j]
		if len(h)%2 != 0 {
			return "", false
		}
		for k := 0; k < len(h); k += 2 {
			v, err := strconv.ParseUint(h[k:k+2], 16, 8)
			if err != nil {
				return "", false
			}
			sb.WriteByte(byte(v))
		}
		i += j + 1
	}
	return sb.String(), true
}

// ---------------------------------------------------------------- trivia index dump

func prnInts(xs []int) string {
	if len(xs) == 0 {
		return ""
	}
	s := make([]string, len(xs))
	for i, x := range xs {
		s[i] = strconv.Itoa(x)
	}
	return strings.Join(s, ",")
}

func prnTriviaDump(stream *token.Stream) string {
	att, det := printer.VerifTriviaIndex(stream)
	var sb strings.Builder
	sb.WriteString("A")
	for _, a := range att {
		fmt.Fprintf(&sb, "%d:%s:%s;", a.ID, prnInts(a.Leading), prnInts(a.Trailing))
	}
	sb.WriteString("|D")
	for _, d := range det {
		fmt.Fprintf(&sb, "%d:", d.ID)
		for i, s := range d.Slots {
			if i > 0 {
				sb.WriteByte('/')
			}
			sb.WriteString(prnInts(s))
		}
		sb.WriteByte(':')
		for _, b := range d.BlankBefore {
			if b {
				sb.WriteByte('1')
			} else {
				sb.WriteByte('0')
			}
		}
		if d.BlankBeforeClose {
			sb.WriteString(":1;")
		} else {
			sb.WriteString(":0;")
		}
	}
	return sb.String()
}

// ---------------------------------------------------------------- plan extraction
//
// A transcription of the Format == false paths of printer.go / decl.go / expr.go / path.go /
// type.go: which tokens, slots and sinks the printer touches, in order. Gaps only matter for a
// token without an entry in triviaIndex.attached (emitGap): n none/inline/preserve, s space,
// l newline, f softline, b blankline.

type prnPlanner struct{ sb strings.Builder }

const (
	prnGapNone     = 'n'
	prnGapSpace    = 's'
	prnGapNewline  = 'l'
	prnGapSoftline = 'f'
)

func (p *prnPlanner) tok(t token.Token, gap byte) {
	if t.IsZero() {
		return
	}
	fmt.Fprintf(&p.sb, "T%d%c;", int(t.ID()), gap)
}
func (p *prnPlanner) slot(scope token.ID, i int)   { fmt.Fprintf(&p.sb, "S%d,%d;", int(scope), i) }
func (p *prnPlanner) remain(scope token.ID, i int) { fmt.Fprintf(&p.sb, "R%d,%d;", int(scope), i) }
func (p *prnPlanner) comma(t token.Token) {
	if t.IsZero() {
		return
	}
	fmt.Fprintf(&p.sb, "C%d;", int(t.ID()))
}
func (p *prnPlanner) flush()     { p.sb.WriteString("E;") }
func (p *prnPlanner) softbreak() { p.sb.WriteString("B;") }
func (p *prnPlanner) indent(f func()) {
	p.sb.WriteString("I[")
	f()
	p.sb.WriteString("]")
}
func (p *prnPlanner) group(f func()) {
	p.sb.WriteString("G[")
	f()
	p.sb.WriteString("]")
}

func prnFilePlan(file *ast.File) string {
	p := &prnPlanner{}
	p.scopeDecls(0, seq.Indexer[ast.DeclAny](file.Decls()), true)
	p.flush()
	return p.sb.String()
}

func prnDeclPlans(file *ast.File) string {
	var out []string
	decls := file.Decls()
	for i := range decls.Len() {
		p := &prnPlanner{}
		p.slot(0, i)
		p.decl(decls.At(i), prnGapNewline)
		p.flush()
		out = append(out, p.sb.String())
	}
	if len(out) == 0 {
		return "-"
	}
	return strings.Join(out, "|")
}

func (p *prnPlanner) scopeDecls(scope token.ID, decls seq.Indexer[ast.DeclAny], isFile bool) {
	lastSrc := -1
	counter := 0
	for i := range decls.Len() {
		src := -1
		if !decls.At(i).Span().IsZero() {
			src = counter
			counter++
		}
		if src >= 0 {
			for s := lastSrc + 1; s <= src; s++ {
				p.slot(scope, s)
			}
			if src > lastSrc {
				lastSrc = src
			}
		}
		gap := byte(prnGapNewline)
		if i == 0 && isFile {
			gap = prnGapNone
		}
		p.decl(decls.At(i), gap)
	}
	p.remain(scope, lastSrc+1)
}

func (p *prnPlanner) decl(decl ast.DeclAny, gap byte) {
	switch decl.Kind() {
	case ast.DeclKindEmpty:
		p.tok(decl.AsEmpty().Semicolon(), gap)
	case ast.DeclKindSyntax:
		d := decl.AsSyntax()
		p.tok(d.KeywordToken(), gap)
		p.tok(d.Equals(), prnGapSpace)
		p.expr(d.Value(), prnGapSpace)
		p.compactOptions(d.Options())
		p.tok(d.Semicolon(), prnGapNone)
	case ast.DeclKindPackage:
		d := decl.AsPackage()
		p.tok(d.KeywordToken(), gap)
		p.path(d.Path(), prnGapSpace)
		p.compactOptions(d.Options())
		p.tok(d.Semicolon(), prnGapNone)
	case ast.DeclKindImport:
		d := decl.AsImport()
		p.tok(d.KeywordToken(), gap)
		mods := d.ModifierTokens()
		for i := range mods.Len() {
			p.tok(mods.At(i), prnGapSpace)
		}
		p.expr(d.ImportPath(), prnGapSpace)
		p.compactOptions(d.Options())
		p.tok(d.Semicolon(), prnGapNone)
	case ast.DeclKindDef:
		p.def(decl.AsDef(), gap)
	case ast.DeclKindBody:
		p.body(decl.AsBody())
	case ast.DeclKindRange:
		r := decl.AsRange()
		if !r.KeywordToken().IsZero() {
			p.tok(r.KeywordToken(), gap)
		}
		ranges := r.Ranges()
		for i := range ranges.Len() {
			if i > 0 {
				p.tok(ranges.Comma(i-1), prnGapNone)
			}
			p.expr(ranges.At(i), prnGapSpace)
		}
		p.compactOptions(r.Options())
		p.tok(r.Semicolon(), prnGapNone)
	}
}

func (p *prnPlanner) prefixes(d ast.DeclDef, gap byte) byte {
	for prefix := range d.Prefixes() {
		p.tok(prefix.PrefixToken(), gap)
		gap = prnGapSpace
	}
	return gap
}

func (p *prnPlanner) def(decl ast.DeclDef, gap byte) {
	switch decl.Classify() {
	case ast.DefKindOption:
		opt := decl.AsOption()
		p.tok(opt.Keyword, gap)
		p.path(opt.Path, prnGapSpace)
		if !opt.Equals.IsZero() {
			p.tok(opt.Equals, prnGapSpace)
			p.expr(opt.Value, prnGapSpace)
		}
		p.tok(opt.Semicolon, prnGapNone)
	case ast.DefKindMessage:
		m := decl.AsMessage()
		gap = p.prefixes(m.Decl, gap)
		p.tok(m.Keyword, gap)
		p.path(m.Decl.Name(), prnGapSpace)
		p.body(m.Body)
	case ast.DefKindEnum:
		m := decl.AsEnum()
		gap = p.prefixes(m.Decl, gap)
		p.tok(m.Keyword, gap)
		p.path(m.Decl.Name(), prnGapSpace)
		p.body(m.Body)
	case ast.DefKindService:
		m := decl.AsService()
		gap = p.prefixes(m.Decl, gap)
		p.tok(m.Keyword, gap)
		p.path(m.Decl.Name(), prnGapSpace)
		p.body(m.Body)
	case ast.DefKindExtend:
		m := decl.AsExtend()
		gap = p.prefixes(m.Decl, gap)
		p.tok(m.Keyword, gap)
		p.path(m.Extendee, prnGapSpace)
		p.body(m.Body)
	case ast.DefKindOneof:
		m := decl.AsOneof()
		gap = p.prefixes(m.Decl, gap)
		p.tok(m.Keyword, gap)
		p.path(m.Decl.Name(), prnGapSpace)
		p.body(m.Body)
	case ast.DefKindGroup:
		g := decl.AsGroup()
		gap = p.prefixes(g.Decl, gap)
		p.tok(g.Keyword, gap)
		p.path(g.Decl.Name(), prnGapSpace)
		if !g.Equals.IsZero() {
			p.tok(g.Equals, prnGapSpace)
			p.expr(g.Tag, prnGapSpace)
		}
		p.compactOptions(g.Options)
		p.body(g.Decl.Body())
	case ast.DefKindField:
		f := decl.AsField()
		p.typ(f.Type, gap)
		p.path(f.Decl.Name(), prnGapSpace)
		if !f.Equals.IsZero() {
			p.tok(f.Equals, prnGapSpace)
			p.expr(f.Tag, prnGapSpace)
		}
		p.compactOptions(f.Options)
		p.tok(f.Semicolon, prnGapNone)
	case ast.DefKindEnumValue:
		ev := decl.AsEnumValue()
		p.path(ev.Decl.Name(), gap)
		if !ev.Equals.IsZero() {
			p.tok(ev.Equals, prnGapSpace)
			p.expr(ev.Tag, prnGapSpace)
		}
		p.compactOptions(ev.Options)
		p.tok(ev.Semicolon, prnGapNone)
	case ast.DefKindMethod:
		m := decl.AsMethod()
		p.tok(m.Keyword, gap)
		p.path(m.Decl.Name(), prnGapSpace)
		p.signature(m.Signature)
		if !m.Body.IsZero() {
			p.body(m.Body)
		} else {
			p.tok(m.Decl.Semicolon(), prnGapNone)
		}
	case ast.DefKindInvalid:
		p.typ(decl.Type(), gap)
		p.path(decl.Name(), prnGapSpace)
		p.signature(decl.Signature())
		if !decl.Equals().IsZero() {
			p.tok(decl.Equals(), prnGapSpace)
			p.expr(decl.Value(), prnGapSpace)
		}
		p.compactOptions(decl.Options())
		if !decl.Body().IsZero() {
			p.body(decl.Body())
		} else {
			p.tok(decl.Semicolon(), prnGapNone)
		}
	}
}

func (p *prnPlanner) signature(sig ast.Signature) {
	if sig.IsZero() {
		return
	}
	inputs := sig.Inputs()
	if !inputs.Brackets().IsZero() {
		p.group(func() {
			open, cl := inputs.Brackets().StartEnd()
			p.tok(open, prnGapNone)
			p.indent(func() {
				p.softbreak()
				p.typeList(inputs, inputs.Brackets().ID())
				p.softbreak()
			})
			p.tok(cl, prnGapNone)
		})
	}
	if !sig.Returns().IsZero() {
		p.tok(sig.Returns(), prnGapSpace)
		outputs := sig.Outputs()
		if !outputs.Brackets().IsZero() {
			p.group(func() {
				open, cl := outputs.Brackets().StartEnd()
				p.tok(open, prnGapSpace)
				p.indent(func() {
					p.softbreak()
					p.typeList(outputs, outputs.Brackets().ID())
					p.softbreak()
				})
				p.tok(cl, prnGapNone)
			})
		}
	}
}

func (p *prnPlanner) typeList(list ast.TypeList, scope token.ID) {
	gap := byte(prnGapNone)
	for i := range list.Len() {
		p.slot(scope, i)
		if i > 0 {
			p.tok(list.Comma(i-1), prnGapNone)
			gap = prnGapSoftline
		}
		p.typ(list.At(i), gap)
	}
	p.remain(scope, list.Len())
}

func (p *prnPlanner) body(body ast.DeclBody) {
	if body.IsZero() || body.Braces().IsZero() {
		return
	}
	open, cl := body.Braces().StartEnd()
	scope := body.Braces().ID()
	p.tok(open, prnGapSpace)
	// printBody prints the close token directly when the body has no declarations and the scope's
	// trivia is empty; otherwise it goes through withIndent + emitCloseComments. With an empty
	// scope the two differ only in the gap handed to a close token without an attached entry, so
	// the plan carries both and lets the trivia index choose: K<scope>[non-empty]{empty}.
	if body.Decls().Len() == 0 {
		fmt.Fprintf(&p.sb, "K%d[", int(scope))
		p.indent(func() {
			p.scopeDecls(scope, seq.Indexer[ast.DeclAny](body.Decls()), false)
			p.sb.WriteString("X;")
		})
		p.tok(cl, prnGapNewline)
		p.sb.WriteString("]{")
		p.tok(cl, prnGapNone)
		p.sb.WriteString("}")
		return
	}
	p.indent(func() {
		p.scopeDecls(scope, seq.Indexer[ast.DeclAny](body.Decls()), false)
		p.sb.WriteString("X;")
	})
	p.tok(cl, prnGapNewline)
}

func (p *prnPlanner) compactOptions(co ast.CompactOptions) {
	if co.IsZero() {
		return
	}
	brackets := co.Brackets()
	if brackets.IsZero() {
		return
	}
	open, cl := brackets.StartEnd()
	scope := brackets.ID()
	entries := co.Entries()
	p.group(func() {
		p.tok(open, prnGapSpace)
		p.indent(func() {
			for i := range entries.Len() {
				p.slot(scope, i)
				opt := entries.At(i)
				if i > 0 {
					p.tok(entries.Comma(i-1), prnGapNone)
					p.path(opt.Path, prnGapSoftline)
				} else {
					p.path(opt.Path, prnGapNone)
				}
				if !opt.Equals.IsZero() {
					p.tok(opt.Equals, prnGapSpace)
					p.expr(opt.Value, prnGapSpace)
				}
			}
			p.slot(scope, entries.Len())
		})
		p.flush()
		p.softbreak()
		p.tok(cl, prnGapNone)
	})
}

func (p *prnPlanner) expr(expr ast.ExprAny, gap byte) {
	if expr.IsZero() {
		return
	}
	switch expr.Kind() {
	case ast.ExprKindLiteral:
		tok := expr.AsLiteral().Token
		if !tok.IsLeaf() {
			p.compoundString(tok, gap)
		} else {
			p.tok(tok, gap)
		}
	case ast.ExprKindPath:
		p.path(expr.AsPath().Path, gap)
	case ast.ExprKindPrefixed:
		e := expr.AsPrefixed()
		if e.IsZero() {
			return
		}
		p.tok(e.PrefixToken(), gap)
		p.expr(e.Expr(), prnGapNone)
	case ast.ExprKindRange:
		e := expr.AsRange()
		if e.IsZero() {
			return
		}
		start, end := e.Bounds()
		p.expr(start, gap)
		p.tok(e.Keyword(), prnGapSpace)
		p.expr(end, prnGapSpace)
	case ast.ExprKindArray:
		e := expr.AsArray()
		if e.IsZero() || e.Brackets().IsZero() {
			return
		}
		open, cl := e.Brackets().StartEnd()
		scope := e.Brackets().ID()
		elements := e.Elements()
		p.tok(open, gap)
		for i := range elements.Len() {
			p.slot(scope, i)
			elemGap := byte(prnGapNone)
			if i > 0 {
				p.tok(elements.Comma(i-1), prnGapNone)
				elemGap = prnGapSpace
			}
			p.expr(elements.At(i), elemGap)
		}
		p.slot(scope, elements.Len())
		p.tok(cl, prnGapNone)
	case ast.ExprKindDict:
		e := expr.AsDict()
		if e.IsZero() || e.Braces().IsZero() {
			return
		}
		open, cl := e.Braces().StartEnd()
		scope := e.Braces().ID()
		elements := e.Elements()
		p.tok(open, gap)
		// `if elements.Len() > 0 || !trivia.isEmpty()`: with no elements and empty trivia the
		// indented block would push nothing, so the plan always carries it.
		p.indent(func() {
			for i := range elements.Len() {
				p.slot(scope, i)
				p.exprField(elements.At(i), prnGapNewline)
				p.comma(elements.Comma(i))
			}
			p.slot(scope, elements.Len())
		})
		p.tok(cl, prnGapSoftline)
	case ast.ExprKindField:
		p.exprField(expr.AsField(), gap)
	}
}

func (p *prnPlanner) exprField(expr ast.ExprField, gap byte) {
	if expr.IsZero() {
		return
	}
	first := true
	if !expr.Key().IsZero() {
		p.expr(expr.Key(), gap)
		first = false
	}
	if !expr.Colon().IsZero() {
		p.tok(expr.Colon(), prnGapNone)
	}
	if !expr.Value().IsZero() {
		valueGap := byte(prnGapSpace)
		if first {
			valueGap = gap
		}
		p.expr(expr.Value(), valueGap)
	}
}

func (p *prnPlanner) compoundString(tok token.Token, gap byte) {
	_, cl := tok.StartEnd()
	scope := tok.ID()
	var parts []token.Token
	cursor := tok.Children()
	for child := cursor.NextSkippable(); !child.IsZero(); child = cursor.NextSkippable() {
		if !child.Kind().IsSkippable() {
			parts = append(parts, child)
		}
	}
	p.tok(tok, gap)
	for i, part := range parts {
		p.slot(scope, i)
		p.tok(part, prnGapNone)
	}
	p.remain(scope, len(parts))
	p.tok(cl, prnGapNone)
}

func (p *prnPlanner) path(path ast.Path, gap byte) {
	if path.IsZero() {
		return
	}
	first := true
	for pc := range path.Components() {
		sepGap := byte(prnGapNone)
		if first && !pc.Separator().IsZero() {
			sepGap = gap
		}
		if !pc.Separator().IsZero() {
			p.tok(pc.Separator(), sepGap)
		}
		if !pc.Name().IsZero() {
			componentGap := byte(prnGapNone)
			if first && pc.Separator().IsZero() {
				componentGap = gap
			}
			first = false
			if extn := pc.AsExtension(); !extn.IsZero() {
				parens := pc.Name()
				open, cl := parens.StartEnd()
				p.tok(open, componentGap)
				p.slot(parens.ID(), 0)
				p.path(extn, prnGapNone)
				p.slot(parens.ID(), 1)
				p.tok(cl, prnGapNone)
			} else {
				p.tok(pc.Name(), componentGap)
			}
		}
	}
}

func (p *prnPlanner) typ(ty ast.TypeAny, gap byte) {
	if ty.IsZero() {
		return
	}
	switch ty.Kind() {
	case ast.TypeKindPath:
		p.path(ty.AsPath().Path, gap)
	case ast.TypeKindPrefixed:
		t := ty.AsPrefixed()
		if t.IsZero() {
			return
		}
		p.tok(t.PrefixToken(), gap)
		p.typ(t.Type(), prnGapSpace)
	case ast.TypeKindGeneric:
		t := ty.AsGeneric()
		if t.IsZero() {
			return
		}
		p.path(t.Path(), gap)
		args := t.Args()
		brackets := args.Brackets()
		if brackets.IsZero() {
			return
		}
		open, cl := brackets.StartEnd()
		scope := brackets.ID()
		p.tok(open, prnGapNone)
		for i := range args.Len() {
			p.slot(scope, i)
			argGap := byte(prnGapNone)
			if i > 0 {
				p.tok(args.Comma(i-1), prnGapNone)
				argGap = prnGapSpace
			}
			p.typ(args.At(i), argGap)
		}
		p.remain(scope, args.Len())
		p.tok(cl, prnGapNone)
	}
}

// ---------------------------------------------------------------- roundtrip engine

type prnRoundtripEngine struct{}

func init() {
	Register("roundtrip", func() Engine { return prnRoundtripEngine{} })
}

func (prnRoundtripEngine) Name() string { return "roundtrip" }
func (prnRoundtripEngine) Reset()       {}

func (prnRoundtripEngine) Exec(op string) string {
	w := strings.Fields(op)
	if len(w) < 2 {
		return "bad-op"
	}
	src, ok := prnTreeSource(w[1])
	if !ok {
		return "bad-op"
	}
	p, good := prnParse(src)
	if !good || p.tree != w[1] || p.unrec {
		return "stale-op tree"
	}
	switch {
	case w[0] == "tri" && len(w) == 3:
		if (w[2] == "1") != (p.errs == 0) {
			return "stale-op errors"
		}
		return prnTriviaDump(p.file.Stream())
	case w[0] == "rt" && len(w) == 4:
		if p.errs != 0 {
			return "stale-op errors"
		}
		if prnFilePlan(p.file) != w[2] || prnDeclPlans(p.file) != w[3] {
			return "stale-op plan"
		}
		out, err := printer.PrintFile(printer.Options{}, p.file)
		if err != nil {
			return "error " + Canon(err.Error())
		}
		var cat strings.Builder
		for decl := range seq.Values(p.file.Decls()) {
			cat.WriteString(printer.Print(printer.Options{}, decl))
		}
		return Hex([]byte(out)) + " " + Hex([]byte(cat.String()))
	}
	return "bad-op"
}

func (prnRoundtripEngine) Trivial(op, ans string) bool { return strings.HasSuffix(op, " -") }

func (prnRoundtripEngine) Class(op, ans string) string {
	w := strings.Fields(op)
	return w[0]
}

// prnTriAlphabet: token alphabet for the exhaustive trivia-index cases.
var prnTriAlphabet = []string{"x", ";", ",", "=", "{", "}", "[", "]", " ", "\n", "/*c*/", "//d\n"}

// prnRtSeeds: hand-written sources around the boundaries found while reading the code.
var prnRtSeeds = []string{
	"", "\n", " ", "\n\n", "// only a comment", "// only a comment\n", "/* c */",
	"syntax = \"proto3\";", "syntax = \"proto3\";\n", "syntax = \"proto3\";\n\n", "syntax = \"proto3\";\n  ", "syntax = \"proto3\";  ",
	"syntax = \"proto3\"; message M {}\n",
	"; ;\n",
	"message M {\noption a = 1;\n}\n",
	"message M {\n  option a = 1;\n}\n",
	"syntax = \"proto3\";\nmessage M {\nint32 x = 1;\n}\n",
	"syntax = \"proto3\";\nmessage M {\n  int32 x = 1;\n\n  // tail\n\n}\n",
	"syntax = \"proto3\";\nmessage M {\n  int32 x = 1 [\ndeprecated = true\n];\n}\n",
	"syntax = \"proto3\";\nmessage M {\n  int32 x = 1 [deprecated = true ];\n}\n",
	"syntax = \"proto3\";\nmessage M { map<string , int32 > x = 1; }\n",
	"service S { rpc F( M ) returns ( M ) ; }\n",
	"option (x) = {a: 1, b: 2};\n", "option (x) = {a: 1; b: 2}\n;", "option (x) = { a: 1 };\n", "option (x) = {a: [1 ,2 ]};\n",
	"option (x) = {a: [{a: 1},{b: 2}, {c: 3}]};\n",
	"option (x) = \"a\" \"b\"  \"c\";\n",
	"syntax = \"proto3\";\nmessage M { int32 x = 1 [deprecated = true, json_name = \"aaaaaaaaaaaaaaaaaaaaaaaaaaaaaaaaaaaaaaaaaaaaaaaaaaaaaaaaaaaaaaaaaaaaaaaaaaaaaaaaaaaaaaaaaaaaaaaaa\"]; }\n",
}

func prnRtOp(src string) (string, bool) {
	p, good := prnParse(src)
	if !good || p.unrec || p.errs != 0 {
		return "", false
	}
	return "rt " + p.tree + " " + prnFilePlan(p.file) + " " + prnDeclPlans(p.file), true
}

func prnTriOp(src string) (string, bool) {
	p, good := prnParse(src)
	if !good || p.unrec {
		return "", false
	}
	acc := "0"
	if p.errs == 0 {
		acc = "1"
	}
	return "tri " + p.tree + " " + acc, true
}

func (prnRoundtripEngine) Gen(r *Rand, tier string) [][]string {
	var cases [][]string
	seen := map[string]bool{}
	add := func(op string) {
		if !seen[op] {
			seen[op] = true
			cases = append(cases, []string{op})
		}
	}
	// exhaustive: all strings over the token alphabet up to length n
	n := 4
	if tier == "thorough" {
		n = 5
	}
	var rec func(prefix string, d int)
	rec = func(prefix string, d int) {
		if op, ok := prnTriOp(prefix); ok {
			add(op)
		}
		if d == 0 {
			return
		}
		for _, a := range prnTriAlphabet {
			rec(prefix+a, d-1)
		}
	}
	rec("", n)
	// round trip: every single gap of the templates x the trivia alphabet (pairs in thorough)
	rejected := 0
	addRt := func(src string) {
		if op, ok := prnRtOp(src); ok {
			add(op)
			if top, ok2 := prnTriOp(src); ok2 {
				add(top)
			}
		} else {
			rejected++
		}
	}
	for _, src := range prnRtSeeds {
		addRt(src)
	}
	for _, toks := range prnTemplates() {
		for _, eof := range prnEOFAlphabet {
			addRt(prnAssemble(toks, nil, eof))
		}
		for i := 0; i <= len(toks); i++ {
			for _, tv := range prnTriviaAlphabet {
				if i < len(toks) {
					if i > 0 && tv == "" && prnNeedSep(toks[i-1].text, toks[i].text) {
						continue
					}
					addRt(prnAssemble(toks, map[int]string{i: tv}, "\n"))
				} else {
					addRt(prnAssemble(toks, nil, tv))
				}
			}
		}
		if tier == "thorough" {
			for i := 0; i < len(toks); i++ {
				for j := i + 1; j < len(toks) && j <= i+3; j++ {
					for _, a := range prnTriviaAlphabet[:12] {
						for _, c := range prnTriviaAlphabet[:12] {
							addRt(prnAssemble(toks, map[int]string{i: a, j: c}, "\n"))
						}
					}
				}
			}
		}
	}
	litTrivia := []string{" // c\n", "\n\n"}
	if tier == "thorough" {
		litTrivia = append(litTrivia, prnLitTrivia...)
	}
	for _, src := range prnLitSources(r, tier, litTrivia) {
		addRt(src)
	}
	nrt := 1000
	if tier == "thorough" {
		nrt = 40000
	}
	for i := 0; i < nrt; i++ {
		toks := prnGenFile(r)
		k := Pick(r, []int{0, 1, 1, 2, 3, 6, -1})
		addRt(prnPerturb(r, toks, k))
	}
	_ = rejected
	// random longer token strings, brackets mostly balanced
	cnt := 2000
	if tier == "thorough" {
		cnt = 60000
	}
	for i := 0; i < cnt; i++ {
		if op, ok := prnTriOp(prnRandTokens(r, 4+r.Intn(14))); ok {
			add(op)
		}
	}
	return cases
}

var prnRandAtoms = []string{"x", "y", ";", ";", ",", ",", "=", "=", ":", " ", " ", "  ", "\n", "\n", "\n", "\t",
	"/*c*/", "/* a\n b */", "//d\n", "// e\n", "\"s\"", "'t'", "1", "."}

// prnRandTokens: n atoms; an opening bracket is closed later with probability 5/6.
func prnRandTokens(r *Rand, n int) string {
	var sb strings.Builder
	var stack []string
	for i := 0; i < n; i++ {
		switch k := r.Intn(12); {
		case k == 0:
			o := Pick(r, []string{"{", "[", "(", "{", "["})
			sb.WriteString(o)
			if r.Chance(5, 6) {
				stack = append(stack, map[string]string{"{": "}", "[": "]", "(": ")"}[o])
			}
		case k == 1 && len(stack) > 0:
			sb.WriteString(stack[len(stack)-1])
			stack = stack[:len(stack)-1]
		default:
			sb.WriteString(Pick(r, prnRandAtoms))
		}
	}
	for len(stack) > 0 {
		if r.Chance(1, 3) {
			sb.WriteString(Pick(r, []string{" ", "\n", "//z\n", ""}))
		}
		sb.WriteString(stack[len(stack)-1])
		stack = stack[:len(stack)-1]
	}
	return sb.String()
}

// ---------------------------------------------------------------- dom encoding

func prnCondCh(c int) byte { return "afb"[c] }

// prnEncodeDom renders the flat tag list of a dom (dom.VerifBuild) as the bracketed wire form.
func prnEncodeDom(tags []dom.VerifTag) string {
	var sb strings.Builder
	var rec func(lo, hi int)
	rec = func(lo, hi int) {
		for i := lo; i < hi; {
			t := tags[i]
			end := i + 1 + t.Children
			switch t.Kind {
			case 1, 2, 3:
				sb.WriteByte('t')
				sb.WriteByte(prnCondCh(t.Cond))
				sb.WriteString(prnHex(t.Text))
				sb.WriteByte('.')
			case 4:
				sb.WriteByte('g')
				sb.WriteByte(prnCondCh(t.Cond))
				if t.Limit == math.MaxInt {
					sb.WriteByte('x')
				} else {
					sb.WriteString(strconv.Itoa(t.Limit))
				}
				sb.WriteByte('[')
				rec(i+1, end)
				sb.WriteByte(']')
			case 5:
				sb.WriteByte('i')
				sb.WriteString(prnHex(t.Text))
				sb.WriteString(".[")
				rec(i+1, end)
				sb.WriteByte(']')
			case 6:
				sb.WriteString("u[")
				rec(i+1, end)
				sb.WriteByte(']')
			}
			i = end
		}
	}
	rec(0, len(tags))
	if sb.Len() == 0 {
		return "-"
	}
	return sb.String()
}

// prnDecodeDom turns the wire form back into a content callback for the public dom API.
func prnDecodeDom(enc string) (func(push dom.Sink), bool) {
	if enc == "-" {
		return func(dom.Sink) {}, true
	}
	pos := 0
	ok := true
	readHex := func() string {
		j := strings.IndexByte(enc[pos:], '.')
		if j < 0 || j%2 != 0 {
			ok = false
			return ""
		}
		b := make([]byte, j/2)
		for k := 0; k < j; k += 2 {
			v, err := strconv.ParseUint(enc[pos+k:pos+k+2], 16, 8)
			if err != nil {
				ok = false
			}
			b[k/2] = byte(v)
		}
		pos += j + 1
		return string(b)
	}
	cond := func(c byte) dom.Cond {
		switch c {
		case 'a':
			return dom.Always
		case 'f':
			return dom.Flat
		case 'b':
			return dom.Broken
		}
		ok = false
		return dom.Always
	}
	var list func() []dom.Tag
	list = func() []dom.Tag {
		var tags []dom.Tag
		for ok && pos < len(enc) && enc[pos] != ']' {
			switch enc[pos] {
			case 't':
				if pos+2 > len(enc) {
					ok = false
					return nil
				}
				c := cond(enc[pos+1])
				pos += 2
				tags = append(tags, dom.TextIf(c, readHex()))
			case 'g':
				if pos+2 > len(enc) {
					ok = false
					return nil
				}
				c := cond(enc[pos+1])
				pos += 2
				limit := math.MaxInt
				if pos < len(enc) && enc[pos] == 'x' {
					pos++
				} else {
					j := pos
					for j < len(enc) && enc[j] >= '0' && enc[j] <= '9' {
						j++
					}
					v, err := strconv.Atoi(enc[pos:j])
					if err != nil {
						ok = false
					}
					limit = v
					pos = j
				}
				if pos >= len(enc) || enc[pos] != '[' {
					ok = false
					return nil
				}
				pos++
				kids := list()
				if pos >= len(enc) || enc[pos] != ']' {
					ok = false
					return nil
				}
				pos++
				tags = append(tags, dom.GroupIf(c, limit, func(push dom.Sink) { push(kids...) }))
			case 'i':
				pos++
				by := readHex()
				if pos >= len(enc) || enc[pos] != '[' {
					ok = false
					return nil
				}
				pos++
				kids := list()
				if pos >= len(enc) || enc[pos] != ']' {
					ok = false
					return nil
				}
				pos++
				tags = append(tags, dom.Indent(by, func(push dom.Sink) { push(kids...) }))
			case 'u':
				if pos+2 > len(enc) || enc[pos+1] != '[' {
					ok = false
					return nil
				}
				pos += 2
				kids := list()
				if pos >= len(enc) || enc[pos] != ']' {
					ok = false
					return nil
				}
				pos++
				tags = append(tags, dom.Unindent(func(push dom.Sink) { push(kids...) }))
			default:
				ok = false
				return nil
			}
		}
		return tags
	}
	tags := list()
	if !ok || pos != len(enc) {
		return nil, false
	}
	return func(push dom.Sink) { push(tags...) }, true
}

// ---------------------------------------------------------------- dom engine

type prnDomEngine struct{}

func init() { Register("dom", func() Engine { return prnDomEngine{} }) }

func (prnDomEngine) Name() string { return "dom" }
func (prnDomEngine) Reset()       {}

func (prnDomEngine) Exec(op string) string {
	w := strings.Fields(op)
	if len(w) == 0 {
		return "bad-op"
	}
	atoi := func(s string) int {
		v, err := strconv.Atoi(s)
		if err != nil {
			panic("bad int " + s)
		}
		return v
	}
	switch {
	case w[0] == "render" && len(w) == 5:
		content, ok := prnDecodeDom(w[4])
		if !ok || (w[3] != "0" && w[3] != "1") {
			return "bad-op"
		}
		// the wire form must be what the public API really builds (no empty texts / indents)
		if prnEncodeDom(dom.VerifBuild(content)) != w[4] {
			return "stale-op dom"
		}
		out := dom.Render(dom.Options{MaxWidth: atoi(w[1]), TabstopWidth: atoi(w[2]), OmitTrailingNewline: w[3] == "1"}, content)
		return Hex([]byte(out))
	case w[0] == "layout" && len(w) == 4:
		content, ok := prnDecodeDom(w[3])
		if !ok {
			return "bad-op"
		}
		if prnEncodeDom(dom.VerifBuild(content)) != w[3] {
			return "stale-op dom"
		}
		tags := dom.VerifLayout(dom.Options{MaxWidth: atoi(w[1]), TabstopWidth: atoi(w[2])}, content)
		parts := make([]string, len(tags))
		for i, t := range tags {
			b := 0
			if t.Broken {
				b = 1
			}
			parts[i] = fmt.Sprintf("%d,%d,%d", t.Width, t.Column, b)
		}
		return strings.Join(parts, ";")
	case w[0] == "merge" && len(w) == 5:
		a, b := dom.VerifShouldMerge(atoi(w[1]), atoi(w[2]), atoi(w[3]), atoi(w[4]))
		f := func(x bool) string {
			if x {
				return "1"
			}
			return "0"
		}
		return f(a) + " " + f(b)
	case w[0] == "width" && len(w) == 4:
		o := dom.Options{TabstopWidth: atoi(w[1])}.WithDefaults()
		return strconv.Itoa(dom.VerifStringWidth(o, atoi(w[2]), string(UnHex(w[3]))))
	}
	return "bad-op"
}

func (prnDomEngine) Trivial(op, ans string) bool { return strings.HasSuffix(op, " -") }
func (prnDomEngine) Class(op, ans string) string { return strings.Fields(op)[0] }

var prnDomLeaves = []string{"ta78.", "ta20.", "ta0a.", "ta2020.", "ta0a0a.", "tf20.", "tb0a.", "ta780a79.", "ta097a.", "ta79797979.", "tf7a.", "tb77.", "ta200a.", "ta78797a78797a."}

// prnRandDom: a random dom in wire form. Inside an Unindent at most one Indent is generated:
// print.go's `popped` flag protects p.indent's backing array only for the first withIndent after a
// withUnindent (a second one overwrites the outer indentation bytes in place), and slice aliasing
// is not modelled.
func prnRandDom(r *Rand, depth int) string {
	budget := -1
	return prnRandDomIn(r, depth, &budget)
}

func prnRandDomIn(r *Rand, depth int, indents *int) string {
	var sb strings.Builder
	n := 1 + r.Intn(4)
	for i := 0; i < n; i++ {
		k := r.Intn(10)
		if depth == 0 || k < 6 {
			sb.WriteString(Pick(r, prnDomLeaves))
			continue
		}
		switch k {
		case 6, 7:
			lim := Pick(r, []string{"x", "x", "1", "3", "8", "20"})
			sb.WriteString("g" + string(Pick(r, []byte("aaafb"))) + lim + "[" + prnRandDomIn(r, depth-1, indents) + "]")
		case 8:
			if *indents == 0 {
				sb.WriteString(Pick(r, prnDomLeaves))
				continue
			}
			if *indents > 0 {
				*indents--
			}
			sb.WriteString("i" + Pick(r, []string{"2020", "20", "09", "3e"}) + ".[" + prnRandDomIn(r, depth-1, indents) + "]")
		default:
			one := 1
			if *indents == 0 {
				one = 0
			}
			sb.WriteString("u[" + prnRandDomIn(r, depth-1, &one) + "]")
		}
	}
	return sb.String()
}

// prnPrinterDoms: the doms the real printer builds for src (round trip, Default, Legacy).
func prnPrinterDoms(src string) []string {
	p, good := prnParse(src)
	if !good || p.unrec || p.errs != 0 {
		return nil
	}
	var out []string
	for _, o := range []printer.Options{{}, {Format: true, Formatting: printer.Default()}, {Format: true, Formatting: printer.Legacy()}} {
		do, content, empty := printer.VerifFileContent(o, p.file)
		if empty {
			continue
		}
		enc := prnEncodeDom(dom.VerifBuild(content))
		mw := do.MaxWidth
		out = append(out, fmt.Sprintf("render %d %d 0 %s", mw, do.TabstopWidth, enc))
	}
	return out
}

func (prnDomEngine) Gen(r *Rand, tier string) [][]string {
	var cases [][]string
	seen := map[string]bool{}
	add := func(op string) {
		if !seen[op] {
			seen[op] = true
			cases = append(cases, []string{op})
		}
	}
	for ka := 1; ka <= 3; ka++ {
		for kb := 1; kb <= 3; kb++ {
			for la := 0; la <= 3; la++ {
				for lb := 0; lb <= 3; lb++ {
					add(fmt.Sprintf("merge %d %d %d %d", ka, la, kb, lb))
				}
			}
		}
	}
	for _, tab := range []int{0, 1, 2, 4, 8} {
		for _, col := range []int{-1, 0, 1, 3, 7, 8} {
			for c := 0; c < 128; c++ {
				if c == '\r' {
					continue // uniseg treats CR LF as one cluster; not modelled
				}
				add(fmt.Sprintf("width %d %d %s", tab, col, Hex([]byte{byte(c)})))
			}
			for _, t := range []string{"", "ab\tc", "\t\t", "a\nb", "a\n\tb", "\tab\tcd\t", "xyz"} {
				add(fmt.Sprintf("width %d %d %s", tab, col, Hex([]byte(t))))
			}
		}
	}
	// exhaustive: up to three leaves, bare or inside one container, two width settings
	leaves := prnDomLeaves[:8]
	wraps := []string{"%s", "gax[%s]", "ga1[%s]", "gf3[%s]", "i2020.[%s]", "u[%s]", "i2020.[u[%s]]", "gax[i2020.[%s]]"}
	var seqs []string
	var rec func(prefix string, d int)
	rec = func(prefix string, d int) {
		if prefix != "" {
			seqs = append(seqs, prefix)
		}
		if d == 0 {
			return
		}
		for _, l := range leaves {
			rec(prefix+l, d-1)
		}
	}
	rec("", 3)
	add("render 0 0 0 -")
	add("render 0 0 1 -")
	for si, s := range seqs {
		for wi, wr := range wraps {
			if tier != "thorough" && len(s) > 2*len(leaves[0])+6 && (si+wi)%4 != 0 {
				continue
			}
			d := fmt.Sprintf(wr, s)
			add("render 0 2 0 " + d)
			add("render 3 2 1 " + d)
			add("layout 0 2 " + d)
			add("layout 3 1 " + d)
		}
	}
	cnt := 2500
	if tier == "thorough" {
		cnt = 60000
	}
	for i := 0; i < cnt; i++ {
		d := prnRandDom(r, 3)
		mw := Pick(r, []int{0, 0, 4, 9, 16, 40})
		tab := Pick(r, []int{0, 1, 2, 4, 8})
		add(fmt.Sprintf("render %d %d %d %s", mw, tab, r.Intn(2), d))
		if i%2 == 0 {
			add(fmt.Sprintf("layout %d %d %s", mw, tab, d))
		}
	}
	// doms built by the real printer
	nf := 250
	if tier == "thorough" {
		nf = 4000
	}
	for _, src := range prnRtSeeds {
		for _, op := range prnPrinterDoms(src) {
			add(op)
		}
	}
	for i := 0; i < nf; i++ {
		toks := prnGenFile(r)
		for _, op := range prnPrinterDoms(prnPerturb(r, toks, Pick(r, []int{0, 1, 3, -1}))) {
			add(op)
		}
	}
	return cases
}

// ---------------------------------------------------------------- format engine

type prnFormatEngine struct{}

func init() { Register("format", func() Engine { return prnFormatEngine{} }) }

func (prnFormatEngine) Name() string { return "format" }
func (prnFormatEngine) Reset()       {}

func prnPreset(name string) (printer.Options, bool) {
	switch name {
	case "default":
		return printer.Options{Format: true, Formatting: printer.Default()}, true
	case "legacy":
		return printer.Options{Format: true, Formatting: printer.Legacy()}, true
	}
	return printer.Options{}, false
}

// prnCompile compiles src with the real compiler and returns the descriptor without source info.
func prnCompile(src string) (fd *descriptorpb.FileDescriptorProto, errMsg string) {
	if c, ok := prnCompileCache[src]; ok {
		return c.fd, c.err
	}
	fd, errMsg = prnCompileReal(src)
	if len(prnCompileCache) > 200000 {
		prnCompileCache = map[string]prnCompiled{}
	}
	prnCompileCache[src] = prnCompiled{fd, errMsg}
	return fd, errMsg
}

type prnCompiled struct {
	fd  *descriptorpb.FileDescriptorProto
	err string
}

// prnCompileCache: Gen compiles every candidate, Exec compiles it again once per preset; the
// compiler is deterministic and the descriptors are only read.
var prnCompileCache = map[string]prnCompiled{}

func prnCompileReal(src string) (fd *descriptorpb.FileDescriptorProto, errMsg string) {
	defer func() {
		if r := recover(); r != nil {
			fd, errMsg = nil, "panic "+fmt.Sprint(r)
		}
	}()
	var firstErr error
	rep := reporter.NewReporter(
		func(e reporter.ErrorWithPos) error {
			if firstErr == nil {
				firstErr = e
			}
			return e
		},
		func(reporter.ErrorWithPos) {})
	c := protocompile.Compiler{
		Resolver: protocompile.WithStandardImports(&protocompile.SourceResolver{
			Accessor: protocompile.SourceAccessorFromMap(map[string]string{prnPath: src}),
		}),
		Reporter: rep,
	}
	files, err := c.Compile(context.Background(), prnPath)
	if err == nil {
		err = firstErr
	}
	if err != nil {
		return nil, err.Error()
	}
	if len(files) != 1 {
		return nil, "no result"
	}
	res, ok := files[0].(linker.Result)
	if !ok {
		return nil, "not a linker.Result"
	}
	out := proto.Clone(res.FileDescriptorProto()).(*descriptorpb.FileDescriptorProto)
	out.SourceCodeInfo = nil
	return out, ""
}

// prnProtoEq compares deterministic encodings (custom option values are dynamic messages whose
// descriptors differ between two compilations, which proto.Equal treats as different types).
func prnProtoEq(a, b proto.Message) bool {
	x, e1 := proto.MarshalOptions{Deterministic: true}.Marshal(a)
	y, e2 := proto.MarshalOptions{Deterministic: true}.Marshal(b)
	return e1 == nil && e2 == nil && string(x) == string(y)
}

// prnDescDiff names the top-level parts of two file descriptors that differ.
func prnDescDiff(a, b *descriptorpb.FileDescriptorProto) string {
	var parts []string
	eqStrs := func(x, y []string) bool { return strings.Join(x, "\x00") == strings.Join(y, "\x00") }
	if !eqStrs(a.Dependency, b.Dependency) {
		sa := append([]string(nil), a.Dependency...)
		sb := append([]string(nil), b.Dependency...)
		prnSortStrings(sa)
		prnSortStrings(sb)
		if eqStrs(sa, sb) {
			parts = append(parts, "dependency-order")
		} else {
			parts = append(parts, "dependency")
		}
	}
	if fmt.Sprint(a.PublicDependency) != fmt.Sprint(b.PublicDependency) || fmt.Sprint(a.WeakDependency) != fmt.Sprint(b.WeakDependency) {
		parts = append(parts, "dependency-index")
	}
	if !prnProtoEq(a.Options, b.Options) {
		parts = append(parts, "options")
	}
	eqList := func(n int, m int, f func(i int) bool) bool {
		if n != m {
			return false
		}
		for i := 0; i < n; i++ {
			if !f(i) {
				return false
			}
		}
		return true
	}
	if !eqList(len(a.MessageType), len(b.MessageType), func(i int) bool { return prnProtoEq(a.MessageType[i], b.MessageType[i]) }) {
		parts = append(parts, "message")
	}
	if !eqList(len(a.EnumType), len(b.EnumType), func(i int) bool { return prnProtoEq(a.EnumType[i], b.EnumType[i]) }) {
		parts = append(parts, "enum")
	}
	if !eqList(len(a.Service), len(b.Service), func(i int) bool { return prnProtoEq(a.Service[i], b.Service[i]) }) {
		parts = append(parts, "service")
	}
	if !eqList(len(a.Extension), len(b.Extension), func(i int) bool { return prnProtoEq(a.Extension[i], b.Extension[i]) }) {
		parts = append(parts, "extension")
	}
	if a.GetName() != b.GetName() || a.GetPackage() != b.GetPackage() || a.GetSyntax() != b.GetSyntax() || a.GetEdition() != b.GetEdition() {
		parts = append(parts, "header")
	}
	if len(parts) == 0 {
		return "other"
	}
	return strings.Join(parts, "+")
}

func prnSortStrings(x []string) {
	for i := 1; i < len(x); i++ {
		for j := i; j > 0 && x[j] < x[j-1]; j-- {
			x[j], x[j-1] = x[j-1], x[j]
		}
	}
}

// prnSlashThenComment: a `/` token (the separator of an Any type URL) is followed by a comment
// before the next non-skippable token. The formatter glues the comment to the slash (`com/` +
// `// c` -> `com/// c`), which turns the slash into part of the comment.
func prnSlashThenComment(file *ast.File) bool {
	found := false
	var walk func(c *token.Cursor)
	walk = func(c *token.Cursor) {
		afterSlash := false
		for t := c.NextSkippable(); !t.IsZero(); t = c.NextSkippable() {
			switch {
			case t.Kind() == token.Comment:
				if afterSlash {
					found = true
				}
			case t.Kind().IsSkippable():
			default:
				afterSlash = t.IsLeaf() && t.Text() == "/"
				if !t.IsLeaf() {
					walk(t.Children())
				}
			}
		}
	}
	walk(file.Stream().Cursor())
	return found
}

// prnSpacedExtName: some `( name )` that is followed by `=` or `.` (an extension name in an option
// path) has a space or comment directly inside the parentheses. ast.Path.Canonicalized() is ""
// for such a path, which gives the option the sort key "1".
func prnSpacedExtName(file *ast.File) bool {
	found := false
	var walk func(c *token.Cursor)
	walk = func(c *token.Cursor) {
		for t := c.NextSkippable(); !t.IsZero(); t = c.NextSkippable() {
			if t.Kind().IsSkippable() || t.IsLeaf() {
				continue
			}
			if t.Keyword() == keyword.Parens {
				inner := false
				k := t.Children()
				for ch := k.NextSkippable(); !ch.IsZero(); ch = k.NextSkippable() {
					if ch.Kind().IsSkippable() {
						inner = true
					}
				}
				if inner {
					after := c.Clone()
					nx := after.Next()
					if nx.Keyword() == keyword.Assign || nx.Text() == "." {
						found = true
					}
				}
			}
			walk(t.Children())
		}
	}
	walk(file.Stream().Cursor())
	return found
}

// prnFormatObserve: what Gen puts into the op and Exec re-observes.
func prnFormatObserve(preset, src string) (op string, file *ast.File, opts printer.Options, ok bool) {
	opts, okp := prnPreset(preset)
	if !okp {
		return "", nil, opts, false
	}
	p, good := prnParse(src)
	if !good || p.unrec || p.errs != 0 {
		return "", nil, opts, false
	}
	do, content, empty := printer.VerifFileContent(opts, p.file)
	enc := "EMPTY"
	if !empty {
		enc = prnEncodeDom(dom.VerifBuild(content))
	}
	return fmt.Sprintf("fmt %s %s %d %d %s", preset, Hex([]byte(src)), do.MaxWidth, do.TabstopWidth, enc), p.file, opts, true
}

func (prnFormatEngine) Exec(op string) string {
	w := strings.Fields(op)
	if len(w) != 6 || w[0] != "fmt" {
		return "bad-op"
	}
	src := string(UnHex(w[2]))
	op2, file, opts, ok := prnFormatObserve(w[1], src)
	if !ok {
		return "stale-op parse"
	}
	if op2 != op {
		return "stale-op dom"
	}
	out, err := printer.PrintFile(opts, file)
	if err != nil {
		return "error " + Canon(err.Error())
	}
	// the property proper: recompile, compare descriptors, format again
	flags := []string{}
	fd1, e1 := prnCompile(src)
	if e1 != "" {
		flags = append(flags, "src=err")
	} else {
		flags = append(flags, "src=ok")
		fd2, e2 := prnCompile(out)
		switch {
		case e2 != "":
			flags = append(flags, "out=err", "same=0")
		case prnProtoEq(fd1, fd2):
			flags = append(flags, "out=ok", "same=1")
		default:
			flags = append(flags, "out=ok", "same=0", "diff="+prnDescDiff(fd1, fd2))
		}
	}
	p2, good := prnParse(out)
	if !good {
		flags = append(flags, "reparse=bad", "idem=0")
	} else {
		flags = append(flags, fmt.Sprintf("reparse=%d", p2.errs))
		out2, err2 := printer.PrintFile(opts, p2.file)
		if err2 == nil && out2 == out {
			flags = append(flags, "idem=1")
		} else {
			flags = append(flags, "idem=0")
		}
	}
	switch {
	case strings.Contains(src, "//"):
		flags = append(flags, "cm=line")
	case strings.Contains(src, "/*"):
		flags = append(flags, "cm=block")
	default:
		flags = append(flags, "cm=none")
	}
	if prnSlashThenComment(file) {
		flags = append(flags, "sl=1")
	} else {
		flags = append(flags, "sl=0")
	}
	if prnSpacedExtName(file) {
		flags = append(flags, "xp=1")
	} else {
		flags = append(flags, "xp=0")
	}
	ans := Hex([]byte(out)) + " ~ " + strings.Join(flags, " ")
	for _, f := range flags {
		if f == "out=err" {
			_, e2 := prnCompile(out)
			ans += " err=" + Canon(e2)
		}
	}
	return ans
}

func (prnFormatEngine) Trivial(op, ans string) bool { return strings.Contains(op, " - ") }
func (prnFormatEngine) Class(op, ans string) string {
	w := strings.Fields(op)
	cls := w[1]
	if strings.Contains(ans, "src=err") {
		cls += ":noncompiling"
	}
	return cls
}

func (prnFormatEngine) Gen(r *Rand, tier string) [][]string {
	var cases [][]string
	seen := map[string]bool{}
	add := func(src string) {
		if _, e := prnCompile(src); e != "" {
			return // C31 quantifies over files that compile
		}
		for _, preset := range []string{"default", "legacy"} {
			op, _, _, ok := prnFormatObserve(preset, src)
			if ok && !seen[op] {
				seen[op] = true
				cases = append(cases, []string{op})
			}
		}
	}
	for _, src := range prnFmtSeeds {
		add(src)
	}
	for _, toks := range prnTemplates() {
		add(prnAssemble(toks, nil, "\n"))
		for i := 0; i <= len(toks); i++ {
			for _, tv := range []string{"", " ", "\n", "\n\n", " /* c */ ", " // c\n", "\n// c\n", "\n\n// d\n\n", " /* m\n   * n\n   */ "} {
				if i < len(toks) {
					if i > 0 && tv == "" && prnNeedSep(toks[i-1].text, toks[i].text) {
						continue
					}
					add(prnAssemble(toks, map[int]string{i: tv}, "\n"))
				} else {
					add(prnAssemble(toks, nil, tv))
				}
			}
		}
	}
	n := 600
	if tier == "thorough" {
		n = 12000
	}
	for i := 0; i < n; i++ {
		toks := prnGenFile(r)
		add(prnPerturb(r, toks, Pick(r, []int{0, 1, 2, 4, -1})))
	}
	// option literal shapes x a comment / blank line at every token boundary of the literal
	fmtLitTrivia := prnLitTrivia[:4]
	if tier == "thorough" {
		fmtLitTrivia = append(append([]string(nil), prnLitTrivia...), "/*c*/", "//c\n")
	}
	for _, src := range prnLitSources(r, tier, fmtLitTrivia) {
		add(src)
	}
	// large headers and bodies with repeated custom options set several times (stability of
	// every sort the formatter performs); extension names spelled canonically / with trivia
	// inside the parentheses are separate sub-families
	nh, nx := 160, 50
	if tier == "thorough" {
		nh, nx = 3000, 800
	}
	for i := 0; i < nh; i++ {
		add(prnPerturb(r, prnGenHeaderFile(r, false), Pick(r, []int{0, 0, 0, 1, 2})))
	}
	for i := 0; i < nx; i++ {
		add(prnPerturb(r, prnGenHeaderFile(r, true), Pick(r, []int{0, 0, 1})))
	}
	return cases
}

// prnFmtSeeds: compiling files around constructs the formatter rewrites.
var prnFmtSeeds = []string{
	"syntax = \"proto3\";\n",
	"syntax = \"proto3\";\nmessage M {}\n",
	"syntax = \"proto3\";\nimport \"google/protobuf/empty.proto\";\nimport \"google/protobuf/any.proto\";\nmessage M { google.protobuf.Any a = 1; google.protobuf.Empty e = 2; }\n",
	"syntax = \"proto2\";\nmessage M { optional string s = 1 [default = \"a\" \"b\"]; optional int32 i = 2 [default = -1]; }\n",
	"syntax = \"proto3\";\noption java_package = \"x\"; // trailing\noption deprecated = true;\nmessage M {}\n",
	"syntax = \"proto3\";\nmessage M { // open\n  int32 x = 1; // one\n  /* lead */ int32 y = 2;\n  // tail\n}\n",
	"syntax = \"proto3\";\nenum E { E_A = 0; E_B = 1 [deprecated = true]; }\nmessage M { E e = 1; }\n",
}
