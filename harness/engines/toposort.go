package engines

import (
	"fmt"
	"strconv"
	"strings"

	"github.com/bufbuild/protocompile/verifhooks"
)

// toposort: internal/toposort Sort / Sorter.Sort (C41). One Sorter is shared by the ops of a
// case (after the first), so the deferred clearing of its scratch state is exercised too.
//
// op:  sort n=<n> edges=<a>b,...|-> roots=<r,...|-> limit=<k|->
// ans: ok <nodes> | stopped <nodes> | panic yielded=<nodes> msg=<panic text, spaces as _>
type toposortEngine struct {
	s *verifhooks.TopoSorter
	n int // ops executed in this case
}

func init() { Register("toposort", func() Engine { return &toposortEngine{} }) }

func (e *toposortEngine) Name() string { return "toposort" }
func (e *toposortEngine) Reset()       { e.s, e.n = verifhooks.NewTopoSorter(), 0 }

func tsList(ns []int) string {
	if len(ns) == 0 {
		return "-"
	}
	ss := make([]string, len(ns))
	for i, n := range ns {
		ss[i] = strconv.Itoa(n)
	}
	return strings.Join(ss, ",")
}

func tsKV(key, w string) (string, bool) {
	k, v, ok := strings.Cut(w, "=")
	if !ok || k != key || strings.Contains(v, "=") {
		return "", false
	}
	return v, true
}

func tsNat(s string) (int, bool) {
	if s == "" || len(s) > 9 {
		return 0, false
	}
	for _, c := range s {
		if c < '0' || c > '9' {
			return 0, false
		}
	}
	n, _ := strconv.Atoi(s)
	return n, true
}

func (e *toposortEngine) Exec(op string) (ans string) {
	w := strings.Fields(op)
	if len(w) != 5 || w[0] != "sort" {
		return "bad-op"
	}
	ns, ok1 := tsKV("n", w[1])
	es, ok2 := tsKV("edges", w[2])
	rs, ok3 := tsKV("roots", w[3])
	ls, ok4 := tsKV("limit", w[4])
	n, ok5 := tsNat(ns)
	if !(ok1 && ok2 && ok3 && ok4 && ok5) {
		return "bad-op"
	}
	adj := make([][]int, n)
	if es != "-" {
		for _, ed := range strings.Split(es, ",") {
			a, b, ok := strings.Cut(ed, ">")
			x, okx := tsNat(a)
			y, oky := tsNat(b)
			if !ok || !okx || !oky || x >= n || y >= n {
				return "bad-op"
			}
			adj[x] = append(adj[x], y)
		}
	}
	var roots []int
	if rs != "-" {
		for _, r := range strings.Split(rs, ",") {
			x, ok := tsNat(r)
			if !ok || x >= n {
				return "bad-op"
			}
			roots = append(roots, x)
		}
	}
	limit := -1
	if ls != "-" {
		l, ok := tsNat(ls)
		if !ok || l == 0 {
			return "bad-op"
		}
		limit = l
	}
	if e.s == nil {
		e.Reset()
	}
	var out []int
	stopped := false
	defer func() {
		if r := recover(); r != nil {
			msg := strings.ReplaceAll(Canon(fmt.Sprint(r)), " ", "_")
			ans = "panic yielded=" + tsList(out) + " msg=" + msg
		}
	}()
	// the first op of a case goes through the package-level toposort.Sort, the others
	// re-use the case's Sorter
	seq := e.s.Sort(roots, func(v int) []int { return adj[v] })
	if e.n == 0 {
		seq = verifhooks.TopoSort(roots, func(v int) []int { return adj[v] })
	}
	e.n++
	for v := range seq {
		out = append(out, v)
		if limit >= 0 && len(out) >= limit {
			stopped = true
			break
		}
	}
	if stopped {
		return "stopped " + tsList(out)
	}
	return "ok " + tsList(out)
}

func (e *toposortEngine) Trivial(op, ans string) bool {
	return strings.Contains(op, "roots=- ") || strings.Contains(op, "n=0 ")
}

func (e *toposortEngine) Class(op, ans string) string {
	k, _, _ := strings.Cut(ans, " ")
	if strings.Contains(op, "limit=-") {
		return k
	}
	return k + "+limit"
}

func tsOp(n int, edges [][2]int, roots []int, limit int) string {
	var sb strings.Builder
	fmt.Fprintf(&sb, "sort n=%d edges=", n)
	if len(edges) == 0 {
		sb.WriteString("-")
	}
	for i, e := range edges {
		if i > 0 {
			sb.WriteByte(',')
		}
		fmt.Fprintf(&sb, "%d>%d", e[0], e[1])
	}
	sb.WriteString(" roots=" + tsList(roots) + " limit=")
	if limit <= 0 {
		sb.WriteString("-")
	} else {
		sb.WriteString(strconv.Itoa(limit))
	}
	return sb.String()
}

// rootLists returns all root lists over n nodes of length <= maxLen (duplicates allowed).
func tsRootLists(n, maxLen int) [][]int {
	out := [][]int{{}}
	prev := [][]int{{}}
	for l := 1; l <= maxLen; l++ {
		var cur [][]int
		for _, p := range prev {
			for v := 0; v < n; v++ {
				cur = append(cur, append(append([]int{}, p...), v))
			}
		}
		out = append(out, cur...)
		prev = cur
	}
	return out
}

func (e *toposortEngine) Gen(r *Rand, tier string) [][]string {
	var ops []string
	thorough := tier == "thorough"
	// exhaustive: every digraph (self-loops included) on n nodes, given as a bit mask over
	// the n*n possible edges, with every root list up to a length.
	exhaustive := func(n, rootLen int, noSelf bool, stride int) {
		roots := tsRootLists(n, rootLen)
		idx := 0
		for mask := 0; mask < 1<<(n*n); mask++ {
			var edges [][2]int
			self := false
			for a := 0; a < n; a++ {
				for b := 0; b < n; b++ {
					if mask&(1<<(a*n+b)) != 0 {
						edges = append(edges, [2]int{a, b})
						if a == b {
							self = true
						}
					}
				}
			}
			if noSelf && self {
				continue
			}
			for _, rs := range roots {
				idx++
				if stride > 1 && idx%stride != 0 {
					continue
				}
				ops = append(ops, tsOp(n, edges, rs, 0))
			}
		}
	}
	ops = append(ops, tsOp(0, nil, nil, 0))
	exhaustive(1, 3, false, 1)
	exhaustive(2, 3, false, 1)
	if thorough {
		exhaustive(3, 3, false, 1)
		exhaustive(4, 2, false, 1)
	} else {
		exhaustive(3, 2, false, 1)
		exhaustive(4, 1, true, 3)
	}
	// random: larger graphs, shuffled and duplicated edges, DAG-biased (edges mostly from a
	// lower to a higher position of a random permutation), consumer limits.
	cnt := 3000
	if thorough {
		cnt = 300000
	}
	for i := 0; i < cnt; i++ {
		n := 1 + r.Intn(9)
		if r.Chance(1, 10) {
			n = 10 + r.Intn(15)
		}
		perm := make([]int, n)
		for j := range perm {
			perm[j] = j
		}
		for j := n - 1; j > 0; j-- {
			k := r.Intn(j + 1)
			perm[j], perm[k] = perm[k], perm[j]
		}
		back := 0 // chance (in 40) of an edge that may go backwards / self-loop
		switch r.Intn(4) {
		case 0:
			back = 1
		case 1:
			back = 6
		}
		ne := r.Intn(2*n + 2)
		var edges [][2]int
		for j := 0; j < ne; j++ {
			a, b := r.Intn(n), r.Intn(n)
			if back == 0 || !r.Chance(back, 40) {
				if a == b {
					continue
				}
				if a > b {
					a, b = b, a
				}
			}
			edges = append(edges, [2]int{perm[a], perm[b]})
			if r.Chance(1, 8) { // duplicate edge
				edges = append(edges, [2]int{perm[a], perm[b]})
			}
		}
		nr := 1 + r.Intn(3)
		if r.Chance(1, 6) {
			nr = n
		}
		var roots []int
		for j := 0; j < nr; j++ {
			roots = append(roots, r.Intn(n))
		}
		limit := 0
		if r.Chance(1, 4) {
			limit = 1 + r.Intn(n+1)
		}
		ops = append(ops, tsOp(n, edges, roots, limit))
	}
	// group into cases sharing one Sorter (tests that scratch state is cleared, also
	// after a panic or an early stop)
	var cases [][]string
	for i := 0; i < len(ops); i += 8 {
		j := min(i+8, len(ops))
		cases = append(cases, ops[i:j])
	}
	return cases
}
