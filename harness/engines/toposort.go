package engines

import (
	"fmt"
	"iter"
	"strconv"
	"strings"

	"github.com/bufbuild/protocompile/verifhooks"
)

// toposort: internal/toposort Sort / Sorter.Sort (C41). A case has ONE Sorter; sequences
// (the iter.Seq values returned by Sort) can be made without being consumed, ranged over
// several times, broken off early, and interleaved.
//
// ops:
//
//	sort n=<n> edges=<a>b,...|-> roots=<r,...|-> limit=<k|->   Sort + one pass at once (the first
//	                                 op of a case via package-level toposort.Sort, later ones on the Sorter)
//	sort make n=.. edges=.. roots=..      s.Sort(...) on the case's Sorter, not consumed -> seq <k>
//	sort makepkg n=.. edges=.. roots=..   toposort.Sort(...) (a Sorter of its own), not consumed -> seq <k>
//	sort range <k> <j|->                  one pass over sequence k, break after j nodes
//	sort nest <k> <j> <k2>                a pass over k whose body, at node j, ranges k2 (same Sorter)
//
// ans: ok <nodes> | stopped <nodes> | panic yielded=<nodes> msg=<panic text, spaces as _> | seq <k>
type toposortEngine struct {
	s    *verifhooks.TopoSorter
	n    int // ops executed in this case
	seqs []tsSeq
}

type tsSeq struct {
	seq    iter.Seq[int]
	shared bool // made by the case's Sorter
}

func init() { Register("toposort", func() Engine { return &toposortEngine{} }) }

func (e *toposortEngine) Name() string { return "toposort" }
func (e *toposortEngine) Reset()       { e.s, e.n, e.seqs = verifhooks.NewTopoSorter(), 0, nil }

func tsList(ns []int) string {
	if len(ns) == 0 {
		return "-"
	}
	ss := make([]string, len(ns))
	for i, n := range ns {
		ss[i] = strconv.Itoa(n)
	}
	return strings.Join(ss, ",")
}

func tsKV(key, w string) (string, bool) {
	k, v, ok := strings.Cut(w, "=")
	if !ok || k != key || strings.Contains(v, "=") {
		return "", false
	}
	return v, true
}

func tsNat(s string) (int, bool) {
	if s == "" || len(s) > 9 {
		return 0, false
	}
	for _, c := range s {
		if c < '0' || c > '9' {
			return 0, false
		}
	}
	n, _ := strconv.Atoi(s)
	return n, true
}

// tsGraph parses n=, edges=, roots= words.
func tsGraph(wn, we, wr string) (adj [][]int, roots []int, ok bool) {
	ns, ok1 := tsKV("n", wn)
	es, ok2 := tsKV("edges", we)
	rs, ok3 := tsKV("roots", wr)
	n, ok4 := tsNat(ns)
	if !(ok1 && ok2 && ok3 && ok4) {
		return nil, nil, false
	}
	adj = make([][]int, n)
	if es != "-" {
		for _, ed := range strings.Split(es, ",") {
			a, b, ok := strings.Cut(ed, ">")
			x, okx := tsNat(a)
			y, oky := tsNat(b)
			if !ok || !okx || !oky || x >= n || y >= n {
				return nil, nil, false
			}
			adj[x] = append(adj[x], y)
		}
	}
	if rs != "-" {
		for _, r := range strings.Split(rs, ",") {
			x, ok := tsNat(r)
			if !ok || x >= n {
				return nil, nil, false
			}
			roots = append(roots, x)
		}
	}
	return adj, roots, true
}

// tsLimit parses <j|-> (j >= 1); -1 = no limit.
func tsLimit(s string) (int, bool) {
	if s == "-" {
		return -1, true
	}
	l, ok := tsNat(s)
	if !ok || l == 0 {
		return 0, false
	}
	return l, true
}

// tsConsume ranges over seq, breaking after limit nodes (limit < 0: never). If nested is
// non-nil it is ranged over inside the loop body at the limit-th node.
func tsConsume(seq iter.Seq[int], limit int, nested iter.Seq[int]) (ans string) {
	var out []int
	stopped := false
	defer func() {
		if r := recover(); r != nil {
			msg := strings.ReplaceAll(Canon(fmt.Sprint(r)), " ", "_")
			ans = "panic yielded=" + tsList(out) + " msg=" + msg
		}
	}()
	for v := range seq {
		out = append(out, v)
		if limit >= 0 && len(out) >= limit {
			if nested != nil {
				for range nested {
				}
				return "nested-pass-did-not-panic yielded=" + tsList(out)
			}
			stopped = true
			break
		}
	}
	if stopped {
		return "stopped " + tsList(out)
	}
	return "ok " + tsList(out)
}

func (e *toposortEngine) Exec(op string) (ans string) {
	if e.s == nil {
		e.Reset()
	}
	w := strings.Fields(op)
	if len(w) == 0 || w[0] != "sort" {
		return "bad-op"
	}
	switch {
	case len(w) == 5 && (w[1] == "make" || w[1] == "makepkg"):
		adj, roots, ok := tsGraph(w[2], w[3], w[4])
		if !ok {
			return "bad-op"
		}
		children := func(v int) []int { return adj[v] }
		if w[1] == "make" {
			e.seqs = append(e.seqs, tsSeq{e.s.Sort(roots, children), true})
		} else {
			e.seqs = append(e.seqs, tsSeq{verifhooks.TopoSort(roots, children), false})
		}
		return "seq " + strconv.Itoa(len(e.seqs)-1)
	case len(w) == 4 && w[1] == "range":
		k, ok1 := tsNat(w[2])
		limit, ok2 := tsLimit(w[3])
		if !ok1 || !ok2 || k >= len(e.seqs) {
			return "bad-op"
		}
		return tsConsume(e.seqs[k].seq, limit, nil)
	case len(w) == 5 && w[1] == "nest":
		k, ok1 := tsNat(w[2])
		j, ok2 := tsLimit(w[3])
		k2, ok3 := tsNat(w[4])
		if !ok1 || !ok2 || !ok3 || j < 0 || k >= len(e.seqs) || k2 >= len(e.seqs) ||
			!e.seqs[k].shared || !e.seqs[k2].shared {
			return "bad-op"
		}
		return tsConsume(e.seqs[k].seq, j, e.seqs[k2].seq)
	case len(w) == 5:
		adj, roots, ok := tsGraph(w[1], w[2], w[3])
		ls, ok2 := tsKV("limit", w[4])
		if !ok || !ok2 {
			return "bad-op"
		}
		limit, ok3 := tsLimit(ls)
		if !ok3 {
			return "bad-op"
		}
		children := func(v int) []int { return adj[v] }
		// the first op of a case goes through the package-level toposort.Sort, the others
		// re-use the case's Sorter
		seq := e.s.Sort(roots, children)
		if e.n == 0 {
			seq = verifhooks.TopoSort(roots, children)
		}
		e.n++
		return tsConsume(seq, limit, nil)
	}
	return "bad-op"
}

func (e *toposortEngine) Trivial(op, ans string) bool {
	return strings.Contains(op, "roots=- ") || strings.Contains(op, "n=0 ") || strings.HasPrefix(ans, "seq ")
}

func (e *toposortEngine) Class(op, ans string) string {
	w := strings.Fields(op)
	k, _, _ := strings.Cut(ans, " ")
	if k == "panic" && strings.Contains(ans, "ntrantly") {
		k = "panic-reentrant"
	}
	if len(w) > 1 {
		switch w[1] {
		case "make", "makepkg":
			return w[1]
		case "range":
			if w[len(w)-1] == "-" {
				return k + "/range"
			}
			return k + "/range+break"
		case "nest":
			return k + "/nest"
		}
	}
	if strings.Contains(op, "limit=-") {
		return k
	}
	return k + "+limit"
}

// tsInst is a graph with a root list.
type tsInst struct {
	n     int
	edges [][2]int
	roots []int
}

func tsGraphWords(in tsInst) string {
	var sb strings.Builder
	fmt.Fprintf(&sb, "n=%d edges=", in.n)
	if len(in.edges) == 0 {
		sb.WriteString("-")
	}
	for i, e := range in.edges {
		if i > 0 {
			sb.WriteByte(',')
		}
		fmt.Fprintf(&sb, "%d>%d", e[0], e[1])
	}
	sb.WriteString(" roots=" + tsList(in.roots))
	return sb.String()
}

func tsOp(n int, edges [][2]int, roots []int, limit int) string {
	return "sort " + tsGraphWords(tsInst{n, edges, roots}) + " limit=" + tsLim(limit)
}

func tsLim(limit int) string {
	if limit <= 0 {
		return "-"
	}
	return strconv.Itoa(limit)
}

func tsMake(in tsInst) string    { return "sort make " + tsGraphWords(in) }
func tsMakePkg(in tsInst) string { return "sort makepkg " + tsGraphWords(in) }
func tsRange(k, j int) string    { return "sort range " + strconv.Itoa(k) + " " + tsLim(j) }
func tsNest(k, j, k2 int) string {
	return "sort nest " + strconv.Itoa(k) + " " + strconv.Itoa(j) + " " + strconv.Itoa(k2)
}

// rootLists returns all root lists over n nodes of length <= maxLen (duplicates allowed).
func tsRootLists(n, maxLen int) [][]int {
	out := [][]int{{}}
	prev := [][]int{{}}
	for l := 1; l <= maxLen; l++ {
		var cur [][]int
		for _, p := range prev {
			for v := 0; v < n; v++ {
				cur = append(cur, append(append([]int{}, p...), v))
			}
		}
		out = append(out, cur...)
		prev = cur
	}
	return out
}

// tsDigraphs returns every digraph on n nodes (edge lists in canonical order).
func tsDigraphs(n int, noSelf bool) [][][2]int {
	var out [][][2]int
	for mask := 0; mask < 1<<(n*n); mask++ {
		edges := [][2]int{}
		self := false
		for a := 0; a < n; a++ {
			for b := 0; b < n; b++ {
				if mask&(1<<(a*n+b)) != 0 {
					edges = append(edges, [2]int{a, b})
					if a == b {
						self = true
					}
				}
			}
		}
		if noSelf && self {
			continue
		}
		out = append(out, edges)
	}
	return out
}

func (e *toposortEngine) Gen(r *Rand, tier string) [][]string {
	var ops []string
	thorough := tier == "thorough"
	// exhaustive: every digraph (self-loops included) on n nodes, given as a bit mask over
	// the n*n possible edges, with every root list up to a length.
	var small []tsInst // the instances on <= 3 nodes, re-used below for the multi-pass cases
	exhaustive := func(n, rootLen int, noSelf bool, stride int) {
		roots := tsRootLists(n, rootLen)
		idx := 0
		for _, edges := range tsDigraphs(n, noSelf) {
			for _, rs := range roots {
				idx++
				if stride > 1 && idx%stride != 0 {
					continue
				}
				ops = append(ops, tsOp(n, edges, rs, 0))
				if n <= 3 && len(rs) <= 2 {
					small = append(small, tsInst{n, edges, rs})
				}
			}
		}
	}
	ops = append(ops, tsOp(0, nil, nil, 0))
	exhaustive(1, 3, false, 1)
	exhaustive(2, 3, false, 1)
	if thorough {
		exhaustive(3, 3, false, 1)
		exhaustive(4, 2, false, 1)
	} else {
		exhaustive(3, 2, false, 1)
		exhaustive(4, 1, true, 3)
	}
	// random: larger graphs, shuffled and duplicated edges, DAG-biased (edges mostly from a
	// lower to a higher position of a random permutation), consumer limits.
	randInst := func(maxN int) tsInst {
		n := 1 + r.Intn(maxN)
		if maxN > 9 && r.Chance(1, 10) {
			n = 10 + r.Intn(15)
		}
		perm := make([]int, n)
		for j := range perm {
			perm[j] = j
		}
		for j := n - 1; j > 0; j-- {
			k := r.Intn(j + 1)
			perm[j], perm[k] = perm[k], perm[j]
		}
		back := 0 // chance (in 40) of an edge that may go backwards / self-loop
		switch r.Intn(4) {
		case 0:
			back = 1
		case 1:
			back = 6
		}
		ne := r.Intn(2*n + 2)
		var edges [][2]int
		for j := 0; j < ne; j++ {
			a, b := r.Intn(n), r.Intn(n)
			if back == 0 || !r.Chance(back, 40) {
				if a == b {
					continue
				}
				if a > b {
					a, b = b, a
				}
			}
			edges = append(edges, [2]int{perm[a], perm[b]})
			if r.Chance(1, 8) { // duplicate edge
				edges = append(edges, [2]int{perm[a], perm[b]})
			}
		}
		nr := 1 + r.Intn(3)
		if r.Chance(1, 6) {
			nr = n
		}
		var roots []int
		for j := 0; j < nr; j++ {
			roots = append(roots, r.Intn(n))
		}
		return tsInst{n, edges, roots}
	}
	cnt := 3000
	if thorough {
		cnt = 300000
	}
	for i := 0; i < cnt; i++ {
		in := randInst(10)
		limit := 0
		if r.Chance(1, 4) {
			limit = 1 + r.Intn(in.n+1)
		}
		ops = append(ops, tsOp(in.n, in.edges, in.roots, limit))
	}
	// group into cases sharing one Sorter (tests that scratch state is cleared, also
	// after a panic or an early stop)
	var cases [][]string
	for i := 0; i < len(ops); i += 8 {
		j := min(i+8, len(ops))
		cases = append(cases, ops[i:j])
	}

	// ---- sequences that are made, kept, and ranged over several times ----
	// (a) every small instance: the same sequence ranged again, after a full pass and after
	// passes broken off at the 1st and 2nd node.
	for _, in := range small {
		cases = append(cases, []string{tsMake(in), tsRange(0, 0), tsRange(0, 1), tsRange(0, 0),
			tsRange(0, 2), tsRange(0, 0)})
	}
	// (b) every digraph on <= 3 nodes with every ordered pair of single roots: both sequences
	// made first, consumed afterwards (they share nodes whenever the reachable sets meet).
	for n := 1; n <= 3; n++ {
		for _, edges := range tsDigraphs(n, false) {
			for r1 := 0; r1 < n; r1++ {
				for r2 := 0; r2 < n; r2++ {
					a, b := tsInst{n, edges, []int{r1}}, tsInst{n, edges, []int{r2}}
					if (r1+r2)%2 == 0 {
						cases = append(cases, []string{tsMake(a), tsMake(b), tsRange(0, 0), tsRange(1, 0), tsRange(0, 0)})
					} else {
						cases = append(cases, []string{tsMake(a), tsMake(b), tsRange(1, 1), tsRange(0, 0), tsRange(1, 0)})
					}
				}
			}
		}
	}
	// (c) every interleaving: a pool of sequences over 4 shared nodes; for every ordered pair
	// of them, every string of 3 passes over {seq 0, seq 1} x {full, break at 1, break at 2};
	// makes either all up front or just before the first use.
	diamond := [][2]int{{0, 1}, {0, 2}, {1, 3}, {2, 3}}
	pool := []tsInst{
		{4, diamond, []int{0}},
		{4, diamond, []int{1}},
		{4, diamond, []int{2, 1}},
		{4, diamond, []int{3}},
		{4, [][2]int{{0, 1}, {1, 2}, {2, 3}}, []int{0}},
		{4, [][2]int{{3, 2}, {2, 1}, {2, 0}, {3, 0}}, []int{3, 0}},
		{4, [][2]int{{0, 1}, {1, 2}, {2, 0}, {2, 3}}, []int{0}}, // cyclic: every pass panics
	}
	modes := []int{0, 1, 2}
	script := func(insts []tsInst, passes [][2]int, upfront bool) []string {
		var c []string
		idx := make([]int, len(insts)) // sequence number of instance i, -1 = not made yet
		for i := range idx {
			idx[i] = -1
		}
		made := 0
		mk := func(i int) {
			if idx[i] < 0 {
				c = append(c, tsMake(insts[i]))
				idx[i] = made
				made++
			}
		}
		if upfront {
			for i := range insts {
				mk(i)
			}
		}
		for _, p := range passes {
			mk(p[0])
			c = append(c, tsRange(idx[p[0]], p[1]))
		}
		return c
	}
	var letters2 [][2]int
	for k := 0; k < 3; k++ {
		for _, m := range modes {
			if k < 2 {
				letters2 = append(letters2, [2]int{k, m})
			}
		}
	}
	ci := 0
	for _, a := range pool {
		for _, b := range pool {
			for _, p1 := range letters2 {
				for _, p2 := range letters2 {
					for _, p3 := range letters2 {
						ci++
						cases = append(cases, script([]tsInst{a, b}, [][2]int{p1, p2, p3}, ci%4 != 0))
					}
				}
			}
			// nested pass: the specified re-entrancy panic, and a clean Sorter afterwards
			for j := 1; j <= 3; j++ {
				cases = append(cases, []string{tsMake(a), tsMake(b), tsNest(0, j, 1), tsRange(1, 0), tsRange(0, 0)})
			}
			// a package-level sequence (own Sorter) kept alive next to one of the case's Sorter
			cases = append(cases, []string{tsMake(a), tsMakePkg(b), tsRange(1, 1), tsRange(0, 0), tsRange(1, 0), tsRange(1, 0)})
		}
	}
	// three live sequences: every order of one pass each x every mode, for some triples
	triples := [][3]int{{0, 1, 3}, {0, 4, 5}, {1, 2, 3}, {4, 0, 6}, {5, 3, 2}, {2, 2, 2}}
	if thorough {
		triples = nil
		for a := range pool {
			for b := range pool {
				for c := range pool {
					triples = append(triples, [3]int{a, b, c})
				}
			}
		}
	}
	perms := [][3]int{{0, 1, 2}, {0, 2, 1}, {1, 0, 2}, {1, 2, 0}, {2, 0, 1}, {2, 1, 0}}
	for _, t := range triples {
		insts := []tsInst{pool[t[0]], pool[t[1]], pool[t[2]]}
		for _, pm := range perms {
			for _, m1 := range modes {
				for _, m2 := range modes {
					for _, m3 := range modes {
						ci++
						passes := [][2]int{{pm[0], m1}, {pm[1], m2}, {pm[2], m3}, {pm[0], 0}}
						cases = append(cases, script(insts, passes, ci%3 != 0))
					}
				}
			}
		}
	}
	// random scripts over random graphs (which share the node numbers 0..n-1)
	rcnt := 300
	if thorough {
		rcnt = 60000
	}
	for i := 0; i < rcnt; i++ {
		m := 1 + r.Intn(3)
		var c []string
		shared := []int{}
		made := 0
		for len(c) < 4+r.Intn(8) {
			switch {
			case made < m && (made == 0 || r.Chance(1, 3)):
				in := randInst(7)
				if r.Chance(1, 5) {
					c = append(c, tsMakePkg(in))
				} else {
					c = append(c, tsMake(in))
					shared = append(shared, made)
				}
				made++
			case len(shared) >= 1 && r.Chance(1, 8):
				c = append(c, tsNest(Pick(r, shared), 1+r.Intn(3), Pick(r, shared)))
			default:
				j := 0
				if r.Chance(1, 2) {
					j = 1 + r.Intn(4)
				}
				c = append(c, tsRange(r.Intn(made), j))
			}
		}
		cases = append(cases, c)
	}
	return cases
}
