package engines

import (
	"bytes"
	"errors"
	"fmt"
	"strings"

	"github.com/bufbuild/protocompile/ast"
	"github.com/bufbuild/protocompile/parser"
	"github.com/bufbuild/protocompile/parser/fastscan"
	"github.com/bufbuild/protocompile/reporter"
)

// fastscan: parser/fastscan.Scan against the full parser (C25).
//
// One op form:   scan <hex of the source bytes>
//
// Answer:        pkg <hex> imp <hex>:<pwo>... err <line>:<col>:<hex msg>...  ~  <parser view>
//
// The part before " ~ " is what fastscan.Scan returned (the Lean model must reproduce it byte
// for byte, including the texts and positions of the syntax errors). The part after " ~ " is
// what the REAL full parser says about the same bytes: "rej" (parser.Parse reported an error)
// or "acc1|acc2 pkg <hex> imp <hex>:<pwo>..." read from the AST (acc2 = parser.ResultFromAST
// with validation also succeeds). The Lean property oracle compares the two halves.
//
// Coupling to watch: an import path literal containing ill-formed UTF-8. Both lexers write
// U+FFFD today; if only the full parser is changed to copy the bytes the oracle fails
// (C25_rawbytes_refuted in PCV/Props/C25.lean).
type fastscanEngine struct{}

func init() { Register("fastscan", func() Engine { return fastscanEngine{} }) }

func (fastscanEngine) Name() string { return "fastscan" }
func (fastscanEngine) Reset()       {}

func b25Flags(p, w, o bool) string {
	b := []byte("000")
	if p {
		b[0] = '1'
	}
	if w {
		b[1] = '1'
	}
	if o {
		b[2] = '1'
	}
	return string(b)
}

// b25Fast runs the code under test and renders its result canonically.
func b25Fast(src []byte) string {
	res, err := fastscan.Scan("f.proto", bytes.NewReader(src))
	var sb strings.Builder
	sb.WriteString("pkg " + Hex([]byte(res.PackageName)) + " imp")
	for _, im := range res.Imports {
		sb.WriteString(" " + Hex([]byte(im.Path)) + ":" + b25Flags(im.IsPublic, im.IsWeak, im.IsOption))
	}
	sb.WriteString(" err")
	if err != nil {
		var se fastscan.SyntaxError
		if !errors.As(err, &se) {
			return sb.String() + " io:" + Hex([]byte(err.Error()))
		}
		for _, e := range se {
			pos := e.GetPosition()
			sb.WriteString(fmt.Sprintf(" %d:%d:%s", pos.Line, pos.Col, Hex([]byte(e.Unwrap().Error()))))
		}
	}
	return sb.String()
}

// b25Full asks the real parser.
func b25Full(src []byte) (out string) {
	// the full parser itself can panic on garbage (e.g. `"\` followed by an invalid UTF-8 byte);
	// such a file is not accepted
	defer func() {
		if r := recover(); r != nil {
			out = "rej-panic"
		}
	}()
	h := reporter.NewHandler(reporter.NewReporter(
		func(err reporter.ErrorWithPos) error { return nil }, // collect everything, do not abort
		func(reporter.ErrorWithPos) {}))
	file, err := parser.Parse("f.proto", bytes.NewReader(src), h)
	if err != nil || file == nil || h.Error() != nil {
		return "rej"
	}
	var sb strings.Builder
	pkg := ""
	var imps []string
	for _, d := range file.Decls {
		switch d := d.(type) {
		case *ast.PackageNode:
			pkg = string(d.Name.AsIdentifier())
		case *ast.ImportNode:
			isOpt := d.Modifier != nil && d.Modifier.Val == "option"
			imps = append(imps, Hex([]byte(d.Name.AsString()))+":"+b25Flags(d.Public != nil, d.Weak != nil, isOpt))
		}
	}
	kind := "acc2"
	h2 := reporter.NewHandler(reporter.NewReporter(
		func(err reporter.ErrorWithPos) error { return nil },
		func(reporter.ErrorWithPos) {}))
	if _, err := parser.ResultFromAST(file, true, h2); err != nil || h2.Error() != nil {
		kind = "acc1"
	}
	sb.WriteString(kind + " pkg " + Hex([]byte(pkg)) + " imp")
	for _, s := range imps {
		sb.WriteString(" " + s)
	}
	return sb.String()
}

func (fastscanEngine) Exec(op string) string {
	w := strings.Fields(op)
	if len(w) != 2 || w[0] != "scan" {
		return "bad-op"
	}
	src := UnHex(w[1])
	return b25Fast(src) + " ~ " + b25Full(src)
}

func b25Split(ans string) (fast, full string) {
	fast, full, _ = strings.Cut(ans, " ~ ")
	return
}

// Trivial: the empty file, and files in which fastscan found nothing at all.
func (fastscanEngine) Trivial(op, ans string) bool {
	fast, _ := b25Split(ans)
	return fast == "pkg - imp err"
}

func (fastscanEngine) Class(op, ans string) string {
	fast, full := b25Split(ans)
	k := strings.Fields(full)
	cls := "parser-" + "none"
	if len(k) > 0 {
		cls = "parser-" + k[0]
	}
	if !strings.HasSuffix(fast, " err") {
		cls += "/fastscan-errors"
	} else {
		cls += "/fastscan-clean"
	}
	return cls
}

// ---------------------------------------------------------------------------------------------
// generator

type b25Gen struct {
	r       *Rand
	syntax  string // "", proto2, proto3, 2023, 2024
	noTriv  bool   // minimal trivia (single spaces) for readable small cases
	counter int
}

var b25Words = []string{"import", "package", "public", "weak", "option", "syntax", "edition", "message", "foo", "Bar", "x1", "_y", "stream", "returns", "map", "group", "to", "max", "inf", "true"}

func (g *b25Gen) ident() string {
	if g.r.Chance(1, 3) {
		return Pick(g.r, b25Words)
	}
	g.counter++
	const first = "abcdefghijklmnopqrstuvwxyzABCDEFGHIJKLMNOPQRSTUVWXYZ_"
	const rest = first + "0123456789"
	n := 1 + g.r.Intn(5)
	b := []byte{first[g.r.Intn(len(first))]}
	for i := 1; i < n; i++ {
		b = append(b, rest[g.r.Intn(len(rest))])
	}
	return string(b)
}

func (g *b25Gen) typeIdent() string {
	if g.r.Chance(1, 2) {
		return Pick(g.r, []string{"Foo", "Bar", "import", "package", "Msg"})
	}
	return "T" + g.ident()
}

// qualified identifier as a token list: a . b . c
func (g *b25Gen) qident(max int) []string {
	n := 1 + g.r.Intn(max)
	out := []string{g.ident()}
	for i := 1; i < n; i++ {
		out = append(out, ".", g.ident())
	}
	return out
}

var b25Escapes = []string{
	`\n`, `\t`, `\\`, `\'`, `\"`, `\?`, `\a`, `\b`, `\f`, `\r`, `\v`,
	`\x41`, `\x4`, `\X7e`, `\xfF`, `\x0`, `\x+f`, `\x-1`, `\xa;`,
	`\0`, `\7`, `\12`, `\101`, `\377`, `\18`, `\1019`, `\08`,
	`\u0041`, `\u00e9`, `\u20AC`, `\ud800`, `\uFFFD`, `\u+041`, `\u-041`,
	`\U00000041`, `\U0001F600`, `\U0010FFFF`, `\U0000d800`, `\U+0000041`,
}

var b25Plain = []string{
	"a", "b", "/", ".", "proto", "foo/bar.proto", " ", ";", "{", "}", "<", ">", "(", ")", "[", "]",
	"//", "/*", "*/", "import", "package", "\t", "é", "€", "😀", "\xff", "\xc3", "\xe2\x82", "\xed\xa0\x80",
	"\x7f", "\x01", "0", "9", "x", "u", "U", "=", ",", ":", "-", "+",
}

// string literal token (one literal)
func (g *b25Gen) strLit() string {
	q := byte('"')
	if g.r.Chance(1, 3) {
		q = '\''
	}
	var b []byte
	b = append(b, q)
	n := g.r.Intn(6)
	for i := 0; i < n; i++ {
		switch g.r.Intn(6) {
		case 0, 1:
			b = append(b, Pick(g.r, b25Escapes)...)
		case 2:
			// the other quote, unescaped
			if q == '"' {
				b = append(b, '\'')
			} else {
				b = append(b, '"')
			}
		default:
			b = append(b, Pick(g.r, b25Plain)...)
		}
	}
	b = append(b, q)
	return string(b)
}

// one or more adjacent literals
func (g *b25Gen) strLits() []string {
	out := []string{g.strLit()}
	for g.r.Chance(1, 3) && len(out) < 4 {
		out = append(out, g.strLit())
	}
	return out
}

func (g *b25Gen) number() string {
	return Pick(g.r, []string{"0", "1", "42", "007", "0x1F", "0XaB", "1.5", ".5", "1.", "1e5", "1e+5", "2E-3", ".5e-1", "18446744073709551615", "99999999999999999999", "1_0", "0x", "1e", "09", "1.2.3"})
}

func (g *b25Gen) scalarValue() []string {
	switch g.r.Intn(8) {
	case 0:
		return g.strLits()
	case 1:
		return []string{g.number()}
	case 2:
		return []string{"-", g.number()}
	case 3:
		return []string{Pick(g.r, []string{"true", "false", "inf", "nan", "FOO", "import", "package"})}
	case 4:
		return []string{"-", "inf"}
	case 5:
		return []string{"+", g.number()}
	default:
		return g.strLits()
	}
}

func (g *b25Gen) msgLiteralBody(depth int) []string {
	var out []string
	n := g.r.Intn(4)
	for i := 0; i < n; i++ {
		// field name
		switch g.r.Intn(5) {
		case 0:
			out = append(out, "[")
			out = append(out, g.qident(3)...)
			out = append(out, "]")
		case 1:
			out = append(out, "[")
			out = append(out, g.qident(2)...)
			out = append(out, "/")
			out = append(out, g.qident(2)...)
			out = append(out, "]")
		default:
			out = append(out, g.ident())
		}
		k := g.r.Intn(7)
		if depth <= 0 && k >= 3 {
			k = 0
		}
		switch k {
		case 0, 1, 2:
			out = append(out, ":")
			out = append(out, g.scalarValue()...)
		case 3:
			if g.r.Bool() {
				out = append(out, ":")
			}
			out = append(out, "{")
			out = append(out, g.msgLiteralBody(depth-1)...)
			out = append(out, "}")
		case 4:
			if g.r.Bool() {
				out = append(out, ":")
			}
			out = append(out, "<")
			out = append(out, g.msgLiteralBody(depth-1)...)
			out = append(out, ">")
		case 5:
			out = append(out, ":", "[")
			m := g.r.Intn(3)
			for j := 0; j < m; j++ {
				if j > 0 {
					out = append(out, ",")
				}
				out = append(out, g.scalarValue()...)
			}
			out = append(out, "]")
		case 6:
			if g.r.Bool() {
				out = append(out, ":")
			}
			out = append(out, "[")
			m := 1 + g.r.Intn(2)
			for j := 0; j < m; j++ {
				if j > 0 {
					out = append(out, ",")
				}
				out = append(out, "{")
				out = append(out, g.msgLiteralBody(depth-1)...)
				out = append(out, "}")
			}
			out = append(out, "]")
		}
		switch g.r.Intn(4) {
		case 0:
			out = append(out, ",")
		case 1:
			out = append(out, ";")
		}
	}
	return out
}

func (g *b25Gen) optionName() []string {
	var out []string
	n := 1 + g.r.Intn(3)
	for i := 0; i < n; i++ {
		if i > 0 {
			out = append(out, ".")
		}
		if g.r.Chance(1, 2) {
			out = append(out, "(")
			if g.r.Chance(1, 4) {
				out = append(out, ".")
			}
			out = append(out, g.qident(3)...)
			out = append(out, ")")
		} else {
			out = append(out, g.ident())
		}
	}
	return out
}

func (g *b25Gen) optionValue() []string {
	if g.r.Chance(1, 3) {
		out := []string{"{"}
		out = append(out, g.msgLiteralBody(2)...)
		return append(out, "}")
	}
	return g.scalarValue()
}

func (g *b25Gen) semis() []string {
	out := []string{";"}
	for g.r.Chance(1, 6) {
		out = append(out, ";")
	}
	return out
}

func (g *b25Gen) optionStmt() []string {
	out := []string{"option"}
	out = append(out, g.optionName()...)
	out = append(out, "=")
	out = append(out, g.optionValue()...)
	return append(out, g.semis()...)
}

func (g *b25Gen) compactOptions() []string {
	if !g.r.Chance(1, 3) {
		return nil
	}
	out := []string{"["}
	n := 1 + g.r.Intn(2)
	for i := 0; i < n; i++ {
		if i > 0 {
			out = append(out, ",")
		}
		out = append(out, g.optionName()...)
		out = append(out, "=")
		out = append(out, g.optionValue()...)
	}
	return append(out, "]")
}

var b25Scalars = []string{"int32", "string", "bytes", "bool", "double", "sfixed64", "uint32"}

func (g *b25Gen) fieldType() []string {
	switch g.r.Intn(4) {
	case 0:
		return []string{Pick(g.r, b25Scalars)}
	case 1:
		out := []string{}
		if g.r.Chance(1, 3) {
			out = append(out, ".")
		}
		return append(out, g.qident(3)...)
	default:
		return []string{g.typeIdent()}
	}
}

func (g *b25Gen) label() []string {
	switch g.syntax {
	case "proto3":
		return Pick(g.r, [][]string{nil, nil, {"optional"}, {"repeated"}})
	case "2023", "2024":
		return Pick(g.r, [][]string{nil, nil, {"repeated"}})
	}
	return Pick(g.r, [][]string{{"optional"}, {"required"}, {"repeated"}})
}

func (g *b25Gen) field(tag int) []string {
	out := append([]string{}, g.label()...)
	out = append(out, g.fieldType()...)
	out = append(out, g.ident(), "=", fmt.Sprint(tag))
	out = append(out, g.compactOptions()...)
	return append(out, ";")
}

func (g *b25Gen) messageBody(depth int) []string {
	var out []string
	n := g.r.Intn(5)
	for i := 0; i < n; i++ {
		tag := i*3 + 1
		k := g.r.Intn(14)
		if depth <= 0 && (k == 2 || k == 8 || k == 9) {
			k = 0
		}
		switch k {
		case 0, 1:
			out = append(out, g.field(tag)...)
		case 2:
			out = append(out, g.message(depth-1)...)
		case 3:
			out = append(out, g.enum()...)
		case 4:
			out = append(out, g.optionStmt()...)
		case 5:
			out = append(out, "map", "<", Pick(g.r, []string{"string", "int32", "bool"}), ",")
			out = append(out, g.fieldType()...)
			out = append(out, ">", g.ident(), "=", fmt.Sprint(tag))
			out = append(out, g.compactOptions()...)
			out = append(out, ";")
		case 6:
			if g.r.Bool() {
				out = append(out, "reserved", fmt.Sprint(1000+tag), ",", fmt.Sprint(2000+tag), "to", Pick(g.r, []string{"max", "3000"}), ";")
			} else if g.syntax == "2023" || g.syntax == "2024" {
				out = append(out, "reserved", g.ident(), ",", "import", ";")
			} else {
				out = append(out, "reserved", `"import"`, ",", g.strLit(), ";")
			}
		case 7:
			out = append(out, "extensions", fmt.Sprint(5000+tag), "to", fmt.Sprint(5001+tag))
			out = append(out, g.compactOptions()...)
			out = append(out, ";")
		case 8:
			out = append(out, "oneof", g.ident(), "{")
			if g.r.Chance(1, 3) {
				out = append(out, g.optionStmt()...)
			}
			out = append(out, g.fieldType()...)
			out = append(out, g.ident(), "=", fmt.Sprint(tag+100), ";")
			if g.syntax == "proto2" || g.syntax == "" {
				if g.r.Chance(1, 3) {
					out = append(out, "group", "G"+g.ident(), "=", fmt.Sprint(tag+101), "{")
					out = append(out, g.messageBody(0)...)
					out = append(out, "}")
				}
			}
			out = append(out, "}")
		case 9:
			if g.syntax == "proto2" || g.syntax == "" {
				out = append(out, Pick(g.r, []string{"optional", "repeated", "required"}), "group", Pick(g.r, []string{"Import", "Package", "Grp"}), "=", fmt.Sprint(tag))
				out = append(out, g.compactOptions()...)
				out = append(out, "{")
				out = append(out, g.messageBody(depth-1)...)
				out = append(out, "}")
			} else {
				out = append(out, g.field(tag)...)
			}
		case 10:
			out = append(out, g.extend()...)
		case 11:
			out = append(out, ";")
		default:
			out = append(out, g.field(tag)...)
		}
	}
	return out
}

func (g *b25Gen) visibility() []string {
	if g.syntax == "2024" && g.r.Chance(1, 3) {
		return []string{Pick(g.r, []string{"export", "local"})}
	}
	return nil
}

func (g *b25Gen) message(depth int) []string {
	out := append([]string{}, g.visibility()...)
	out = append(out, "message", g.typeIdent(), "{")
	out = append(out, g.messageBody(depth)...)
	out = append(out, "}")
	if g.r.Chance(1, 5) {
		out = append(out, g.semis()...)
	}
	return out
}

func (g *b25Gen) enum() []string {
	out := append([]string{}, g.visibility()...)
	out = append(out, "enum", g.typeIdent(), "{")
	if g.r.Chance(1, 4) {
		out = append(out, g.optionStmt()...)
	}
	n := 1 + g.r.Intn(3)
	for i := 0; i < n; i++ {
		out = append(out, Pick(g.r, []string{"import", "package", "A", "B_" + fmt.Sprint(i), g.ident()}), "=")
		if g.r.Chance(1, 5) {
			out = append(out, "-")
		}
		out = append(out, fmt.Sprint(i))
		out = append(out, g.compactOptions()...)
		out = append(out, ";")
	}
	if g.r.Chance(1, 4) {
		out = append(out, "reserved", "100", "to", "max", ";")
	}
	out = append(out, "}")
	if g.r.Chance(1, 5) {
		out = append(out, g.semis()...)
	}
	return out
}

func (g *b25Gen) extend() []string {
	out := []string{"extend"}
	if g.r.Chance(1, 4) {
		out = append(out, ".")
	}
	out = append(out, g.qident(3)...)
	out = append(out, "{")
	n := 1 + g.r.Intn(2)
	for i := 0; i < n; i++ {
		out = append(out, g.field(1000+i)...)
	}
	return append(out, "}")
}

func (g *b25Gen) service() []string {
	out := []string{"service", g.typeIdent(), "{"}
	n := g.r.Intn(4)
	for i := 0; i < n; i++ {
		if g.r.Chance(1, 5) {
			out = append(out, g.optionStmt()...)
			continue
		}
		out = append(out, "rpc", g.ident(), "(")
		if g.r.Chance(1, 3) {
			out = append(out, "stream")
		}
		out = append(out, g.fieldType()[0:1]...)
		out = append(out, ")", "returns", "(")
		if g.r.Chance(1, 3) {
			out = append(out, "stream")
		}
		out = append(out, g.typeIdent(), ")")
		if g.r.Bool() {
			out = append(out, ";")
		} else {
			out = append(out, "{")
			if g.r.Bool() {
				out = append(out, g.optionStmt()...)
			}
			out = append(out, "}")
			if g.r.Chance(1, 4) {
				out = append(out, ";")
			}
		}
	}
	out = append(out, "}")
	return out
}

func (g *b25Gen) importStmt() []string {
	out := []string{"import"}
	switch g.r.Intn(6) {
	case 0:
		out = append(out, "public")
	case 1:
		out = append(out, "weak")
	case 2:
		if g.syntax == "2024" || g.r.Chance(1, 4) {
			out = append(out, "option")
		}
	}
	if g.r.Chance(2, 3) {
		// a realistic path
		p := Pick(g.r, []string{"a.proto", "google/protobuf/descriptor.proto", "foo/bar.proto", "x", ""})
		q := Pick(g.r, []string{`"`, `'`})
		out = append(out, q+p+q)
		for g.r.Chance(1, 5) {
			out = append(out, g.strLit())
		}
	} else {
		out = append(out, g.strLits()...)
	}
	return append(out, g.semis()...)
}

func (g *b25Gen) packageStmt() []string {
	out := []string{"package"}
	out = append(out, g.qident(4)...)
	return append(out, g.semis()...)
}

// trivia between two tokens
func (g *b25Gen) trivia(need bool) string {
	if g.noTriv {
		if need {
			return " "
		}
		return ""
	}
	var b []byte
	n := g.r.Intn(3)
	if need && n == 0 {
		n = 1
	}
	if !need && g.r.Chance(1, 2) {
		n = 0
	}
	for i := 0; i < n; i++ {
		switch g.r.Intn(12) {
		case 0:
			b = append(b, "// "+Pick(g.r, []string{"import \"c.proto\";", "package zz;", "'", "\"", "*/", "/*", "}", "é\xff", "\r", ""})+"\n"...)
		case 1:
			b = append(b, "/*"+Pick(g.r, []string{" import \"c.proto\"; ", "package zz;", "*", "**", "* /", "/", "\n", "//", "'", "\"", "}\n{", "é\xff", ""})+"*/"...)
		case 2:
			b = append(b, '\n')
		case 3:
			b = append(b, '\t')
		case 4:
			b = append(b, Pick(g.r, []string{"\r", "\f", "\v", "\r\n", "  "})...)
		default:
			b = append(b, ' ')
		}
	}
	return string(b)
}

func b25Wordish(c byte) bool {
	return c == '_' || (c >= 'a' && c <= 'z') || (c >= 'A' && c <= 'Z') || (c >= '0' && c <= '9')
}

func b25IsNumTok(s string) bool {
	return len(s) > 0 && ((s[0] >= '0' && s[0] <= '9') || (s[0] == '.' && len(s) > 1))
}

// needSep: would the two tokens glue together (or form a comment) if written adjacent?
func b25NeedSep(a, b string) bool {
	if a == "" || b == "" {
		return false
	}
	la, fb := a[len(a)-1], b[0]
	if b25Wordish(la) && b25Wordish(fb) {
		return true
	}
	if b25IsNumTok(a) && (fb == '.' || fb == '+' || fb == '-') {
		return true
	}
	if a == "." && fb >= '0' && fb <= '9' {
		return true
	}
	if b25Wordish(la) && fb == '.' && len(b) > 1 {
		return true
	}
	if la == '/' && (fb == '/' || fb == '*') {
		return true
	}
	return false
}

func (g *b25Gen) render(toks []string) []byte {
	var b []byte
	if g.r.Chance(1, 12) && !g.noTriv {
		b = append(b, 0xEF, 0xBB, 0xBF)
	}
	b = append(b, g.trivia(false)...)
	for i, t := range toks {
		if i > 0 {
			b = append(b, g.trivia(b25NeedSep(toks[i-1], t))...)
		}
		b = append(b, t...)
	}
	b = append(b, g.trivia(false)...)
	if g.r.Chance(1, 10) && !g.noTriv {
		// final line comment without newline
		b = append(b, "// import \"eof.proto\";"...)
	}
	return b
}

// file: token list for a whole (intended to be accepted) file
func (g *b25Gen) file(nStmts int) []string {
	var toks []string
	g.syntax = Pick(g.r, []string{"", "proto2", "proto2", "proto3", "proto3", "2023", "2024"})
	switch g.syntax {
	case "":
		if g.r.Chance(1, 4) {
			toks = append(toks, g.semis()...)
		}
	case "proto2", "proto3":
		toks = append(toks, "syntax", "=")
		if g.r.Chance(1, 6) {
			// split literal
			toks = append(toks, `"pro"`, `'to`+g.syntax[5:]+`'`)
		} else {
			toks = append(toks, `"`+g.syntax+`"`)
		}
		toks = append(toks, ";")
	default:
		toks = append(toks, "edition", "=", `"`+g.syntax+`"`, ";")
	}
	for i := 0; i < nStmts; i++ {
		switch g.r.Intn(12) {
		case 0, 1, 2, 3:
			toks = append(toks, g.importStmt()...)
		case 4, 5:
			toks = append(toks, g.packageStmt()...)
		case 6, 7:
			toks = append(toks, g.optionStmt()...)
		case 8:
			toks = append(toks, g.message(2)...)
		case 9:
			toks = append(toks, g.enum()...)
		case 10:
			if g.r.Bool() {
				toks = append(toks, g.service()...)
			} else {
				toks = append(toks, g.extend()...)
			}
		case 11:
			toks = append(toks, ";")
		}
	}
	return toks
}

// token-level damage: makes (mostly) rejected files that still look like protobuf
func (g *b25Gen) damage(toks []string) []string {
	out := append([]string{}, toks...)
	n := 1 + g.r.Intn(2)
	for i := 0; i < n && len(out) > 0; i++ {
		j := g.r.Intn(len(out))
		switch g.r.Intn(4) {
		case 0: // delete
			out = append(out[:j], out[j+1:]...)
		case 1: // duplicate
			out = append(out[:j+1], out[j:]...)
		case 2: // replace
			out[j] = Pick(g.r, b25Frags)
		case 3: // insert
			out = append(out[:j], append([]string{Pick(g.r, b25Frags)}, out[j:]...)...)
		}
	}
	return out
}

// fragments for the exhaustive small domain
var b25Frags = []string{
	"import", "package", "public", "weak", "option", `"a"`, `'b\x41'`, ";", ".", "x", "{", "}", "(", ")", "[", "]", "<", ">", "=", "1", ".5", "/*c*/", "//c\n", "/", "\"", "\\", "\xff",
}

func (fastscanEngine) Gen(r *Rand, tier string) [][]string {
	seen := map[string]bool{}
	var cases [][]string
	add := func(src []byte) {
		op := "scan " + Hex(src)
		if seen[op] {
			return
		}
		seen[op] = true
		cases = append(cases, []string{op})
	}
	thorough := tier == "thorough"

	// 1. hand-picked boundary files
	for _, s := range b25Seeds {
		add([]byte(s))
	}

	// 2. exhaustive: all fragment sequences up to length 3 (quick: a 1/3 lattice of length 3;
	//    thorough: all of length 3 and a 1/7 lattice of length 4), space separated, plus the
	//    same sequences after "import" / "package" (statement contexts)
	nf := len(b25Frags)
	join := func(ix []int) []byte {
		var b []byte
		for i, k := range ix {
			if i > 0 && b25NeedSep(b25Frags[ix[i-1]], b25Frags[k]) {
				b = append(b, ' ')
			}
			b = append(b, b25Frags[k]...)
		}
		return b
	}
	for a := 0; a < nf; a++ {
		add(join([]int{a}))
		for b := 0; b < nf; b++ {
			add(join([]int{a, b}))
			for c := 0; c < nf; c++ {
				if thorough || (a+b+c)%3 == 0 {
					add(join([]int{a, b, c}))
				}
				if thorough {
					for d := (a + b + c) % 7; d < nf; d += 7 {
						add(join([]int{a, b, c, d}))
					}
				}
			}
		}
	}
	// statement contexts: import <x> <y> ; and package <x> <y> <z> ;
	ctx := []int{0, 1, 2, 3, 4, 5, 6, 7, 8, 9, 10, 11, 19, 20}
	for _, a := range ctx {
		for _, b := range ctx {
			add([]byte("import " + string(join([]int{a, b})) + " ;import 'z';"))
			add([]byte("package " + string(join([]int{a, b})) + " ;import 'z';"))
			for _, c := range ctx {
				if thorough || (a+b+c)%4 == 0 {
					add([]byte("package " + string(join([]int{a, b, c})) + ";"))
					add([]byte("import " + string(join([]int{a, b, c})) + ";"))
				}
			}
		}
	}

	// 3. exhaustive string-literal bodies over an escape alphabet, as an import path
	alpha := []string{"\\", "x", "u", "U", "0", "3", "7", "8", "a", "f", "g", "n", "\"", "'", "+", "-", "\n", "\xc3", "\xa9", ";"}
	depth := 3
	var rec func(prefix string, d int)
	rec = func(prefix string, d int) {
		add([]byte("import \"" + prefix + "\";"))
		if d == 0 {
			return
		}
		for i, c := range alpha {
			if !thorough && d == 1 && depth == 3 && (len(prefix)+i)%2 == 1 {
				continue
			}
			rec(prefix+c, d-1)
		}
	}
	rec("", depth)
	for _, e := range b25Escapes {
		for _, tail := range []string{"", "0", "g", "\"", "'", "\\", "é"} {
			add([]byte("import \"" + e + tail + "\";"))
			add([]byte("import '" + e + tail + "' \"" + e + "\";"))
			add([]byte("import '" + e + tail)) // EOF inside / right after the escape
		}
		// every proper prefix of the escape, then EOF
		for k := 1; k < len(e); k++ {
			add([]byte("import \"" + e[:k]))
		}
	}

	// 4. random files: grammar-generated (mostly accepted), then damaged variants
	nFiles := 4000
	if thorough {
		nFiles = 200000
	}
	for i := 0; i < nFiles; i++ {
		g := &b25Gen{r: r}
		g.noTriv = r.Chance(1, 4)
		toks := g.file(1 + r.Intn(7))
		add(g.render(toks))
		if i%3 == 0 {
			add(g.render(g.damage(toks)))
		}
		if i%7 == 0 {
			// byte-level damage
			src := g.render(toks)
			if len(src) > 0 {
				j := r.Intn(len(src))
				switch r.Intn(3) {
				case 0:
					src = append(src[:j:j], src[j+1:]...)
				case 1:
					src[j] = Pick(r, []byte{'"', '\'', '\\', ';', '{', '}', 0, 0xff, '\n', '/', '*', '.'})
				case 2:
					src = src[:j]
				}
				add(src)
			}
		}
	}
	// 5. small random import/package-only files (dense in the statements that matter)
	nSmall := 3000
	if thorough {
		nSmall = 100000
	}
	for i := 0; i < nSmall; i++ {
		g := &b25Gen{r: r, syntax: "proto2"}
		var toks []string
		n := 1 + r.Intn(4)
		for j := 0; j < n; j++ {
			switch r.Intn(5) {
			case 0:
				toks = append(toks, g.packageStmt()...)
			case 1:
				toks = append(toks, g.optionStmt()...)
			default:
				toks = append(toks, g.importStmt()...)
			}
		}
		add(g.render(toks))
	}
	return cases
}

var b25Seeds = []string{
	"",
	";",
	"syntax = \"proto3\";",
	"syntax = \"proto3\"; package foo.bar; import \"a.proto\"; import public \"b.proto\"; import weak 'c.proto';",
	"edition = \"2024\"; import option \"o.proto\"; package p;",
	"import \"a\" \"b\" 'c';",
	"import\"a\";package\tx.y\n.z;",
	"package a . b . c ;",
	"package a/*c*/./*d*/b;",
	"message import { optional int32 package = 1; } import \"after.proto\";",
	"message M {} ; import \"after.proto\";",
	"option (x) = { import: \"no.proto\"; package: 1 }; import \"yes.proto\";",
	"option (x) = { a < import: 1 > b { package: 2 } }; package q;",
	"option java_package = \"import \\\"x\\\";\"; import \"y\";",
	"// import \"no\";\nimport \"yes\";",
	"/* import \"no\"; */ import \"yes\"; /* package no; */",
	"import \"a\"; // trailing",
	"import \"a\"; /* unterminated",
	"import \"a\nb\";",
	"import \"unterminated",
	"import public weak \"x\";",
	"import public public \"x\";",
	"import \"x\" public;",
	"import;",
	"import ;import \"b\";",
	"import \"a\" import \"b\";",
	"import \"a\" package p;",
	"package;",
	"package .a;",
	"package a..b;",
	"package a.;",
	"package a b;",
	"package a.b import \"x\";",
	"package a; package b;",
	"package import;",
	"package package;",
	"import import;",
	"import \"a\"} import \"b\";",
	"{ import \"a\"; } import \"b\";",
	"( import \"a\"; import \"b\";",
	"} import \"a\";",
	"< > import \"a\";",
	"{ ( } import \"a\"; ) } import \"b\";",
	"x import \"a\";",
	"x; import \"a\";",
	"service S { rpc import (stream package) returns (import); } import \"a\";",
	"enum E { import = 0; package = 1; } package e;",
	"extend .google.protobuf.FileOptions { optional string package = 50000; } package ext;",
	"\xef\xbb\xbfimport \"bom\";",
	"\xef\xbb\xbf\xef\xbb\xbfimport \"bom2\";",
	"\xef\xbbimport \"halfbom\";",
	"import \"\xff\";", // both lexers must treat the ill-formed byte alike (C25_rawbytes_refuted)
	"import \"\xff\xfe\";",
	"import \"a\xc3\" 'b\xe2\x82';",
	"option x = \"\xff\"; import \"ok\";",
	"import \"\\xff\\xfe\";",
	"import \"\\ud800\";",
	"import \"\\U00110000\";",
	"import \"\\400\";",
	"import \"\\x\";",
	"import \"\\x\" ;import \"q\";",
	"import \"a\\",
	"import \"a\\u12",
	"import \"a\\U1234567",
	"import \"a\\x",
	"import \"a\\x4",
	"import \"a\\1",
	"import \"a\\12",
	"package a.1;",
	"package a .5;",
	"package a.b.;",
	"import 1 \"a\";",
	"import \"a\" 1;",
	"import \"a\"\t\t;\n\n  package\tp;",
	"\timport;\n\t\tpackage;",
	"import \x00;",
	"import é;",
	"import \xff;",
	"package \xe2\x82\xac;",
	"a = 1e+5; import \"x\";",
	"a = 1e+; import \"x\";",
	"a = 1-import \"x\";",
	"a = .5.import; import \"x\";",
	"a = 0x1Fimport; import \"x\";",
	"/",
	"/ import \"x\";",
	".",
	". import \"x\";",
	"/*",
	"/**/",
	"/***/import \"x\";",
	"/* * / */import \"x\";",
	"//",
	"// no newline import \"x\";",
	"import /* c */ public // d\n \"x\" /* e */ ;",
}
