package engines

// Calibration of the miniproto reference semantics against protoc-anchored artefacts of /repo
// (DESIGN.md 3.4), regenerated from the repository on every run:
//
//   - the protoc-validated tables of parser/validate_test.go and linker/linker_test.go: every case
//     whose sources fall inside MiniProto is turned into a `ws` op through the REAL parser's AST
//     (the parser is trusted glue here) and carries the outcome the table records for the Go
//     compiler and for protoc (expectedDiffWithProtoc flips it);
//   - internal/testdata/*.protoset (written by protoc): the naming/structure laws of the reference
//     semantics are evaluated on protoc's own descriptors (`laws` ops);
//   - the naming functions themselves on exhaustive short strings (`nm` ops).

import (
	"go/ast"
	goparser "go/parser"
	"go/token"
	"os"
	"path/filepath"
	"runtime/debug"
	"sort"
	"strconv"
	"strings"

	"google.golang.org/protobuf/proto"
	"google.golang.org/protobuf/types/descriptorpb"

	past "github.com/bufbuild/protocompile/ast"
	"github.com/bufbuild/protocompile/parser"
	"github.com/bufbuild/protocompile/reporter"
	"github.com/bufbuild/protocompile/verifhooks"
)

// mpRepoDir finds the checkout of github.com/bufbuild/protocompile this binary was built
// against (the `replace` directive of the harness module).
func mpRepoDir() string {
	if d := os.Getenv("VERIF_REPO"); d != "" {
		if _, err := os.Stat(filepath.Join(d, "go.mod")); err == nil {
			return d
		}
	}
	if bi, ok := debug.ReadBuildInfo(); ok {
		for _, dep := range bi.Deps {
			if dep.Path == "github.com/bufbuild/protocompile" && dep.Replace != nil {
				return dep.Replace.Path
			}
		}
	}
	return "/repo"
}

// ---------------------------------------------------------------- test tables

type mpTableCase struct {
	table    string // "v" (validate_test.go) or "l" (linker_test.go)
	name     string
	files    map[string]string
	order    []string
	goAccept bool
	diff     bool
}

func mpStringLit(e ast.Expr) (string, bool) {
	switch v := e.(type) {
	case *ast.BasicLit:
		if v.Kind != token.STRING {
			return "", false
		}
		s, err := strconv.Unquote(v.Value)
		return s, err == nil
	case *ast.BinaryExpr:
		if v.Op != token.ADD {
			return "", false
		}
		a, ok1 := mpStringLit(v.X)
		b, ok2 := mpStringLit(v.Y)
		return a + b, ok1 && ok2
	case *ast.ParenExpr:
		return mpStringLit(v.X)
	}
	return "", false
}

// mpTableCases extracts the entries of the `testCases := map[string]struct{…}{…}` literal of the
// named test function.
func mpTableCases(file, fn, table string) []mpTableCase {
	fset := token.NewFileSet()
	f, err := goparser.ParseFile(fset, file, nil, 0)
	if err != nil {
		return nil
	}
	var out []mpTableCase
	for _, d := range f.Decls {
		fd, ok := d.(*ast.FuncDecl)
		if !ok || fd.Name.Name != fn {
			continue
		}
		ast.Inspect(fd.Body, func(n ast.Node) bool {
			as, ok := n.(*ast.AssignStmt)
			if !ok || len(as.Lhs) != 1 || len(as.Rhs) != 1 {
				return true
			}
			id, ok := as.Lhs[0].(*ast.Ident)
			if !ok || id.Name != "testCases" {
				return true
			}
			cl, ok := as.Rhs[0].(*ast.CompositeLit)
			if !ok {
				return true
			}
			for _, el := range cl.Elts {
				kv, ok := el.(*ast.KeyValueExpr)
				if !ok {
					continue
				}
				name, ok := mpStringLit(kv.Key)
				if !ok {
					continue
				}
				body, ok := kv.Value.(*ast.CompositeLit)
				if !ok {
					continue
				}
				c := mpTableCase{table: table, name: name, files: map[string]string{}, goAccept: true}
				good := true
				for _, fe := range body.Elts {
					fkv, ok := fe.(*ast.KeyValueExpr)
					if !ok {
						good = false
						continue
					}
					key, _ := fkv.Key.(*ast.Ident)
					if key == nil {
						good = false
						continue
					}
					switch key.Name {
					case "contents":
						s, ok := mpStringLit(fkv.Value)
						if !ok {
							good = false
						}
						c.files["test.proto"] = s
						c.order = []string{"test.proto"}
					case "input":
						m, ok := fkv.Value.(*ast.CompositeLit)
						if !ok {
							good = false
							break
						}
						for _, me := range m.Elts {
							mkv, ok := me.(*ast.KeyValueExpr)
							if !ok {
								good = false
								continue
							}
							k, ok1 := mpStringLit(mkv.Key)
							v, ok2 := mpStringLit(mkv.Value)
							if !ok1 || !ok2 {
								good = false
							}
							c.files[k] = v
						}
					case "inputOrder":
						m, ok := fkv.Value.(*ast.CompositeLit)
						if !ok {
							good = false
							break
						}
						for _, me := range m.Elts {
							s, ok := mpStringLit(me)
							if !ok {
								good = false
							}
							c.order = append(c.order, s)
						}
					case "expectedErr":
						s, ok := mpStringLit(fkv.Value)
						if !ok {
							good = false
						}
						if s != "" {
							c.goAccept = false
						}
					case "expectedDiffWithProtoc":
						if id, ok := fkv.Value.(*ast.Ident); ok && id.Name == "true" {
							c.diff = true
						}
					default:
						// expectedErrs, expectProtodescFail, …: keep only the plain cases
						if key.Name == "expectedErrs" {
							c.goAccept = false
						} else if key.Name != "expectProtodescFail" {
							good = false
						}
					}
				}
				if good && len(c.files) > 0 {
					if len(c.order) == 0 {
						for k := range c.files {
							c.order = append(c.order, k)
						}
						sort.Strings(c.order)
					}
					out = append(out, c)
				}
			}
			return false
		})
	}
	sort.Slice(out, func(i, j int) bool { return out[i].name < out[j].name })
	return out
}

// ---------------------------------------------------------------- real AST -> MiniProto

type mpConv struct {
	f   *mpFile
	bad string
}

func (c *mpConv) fail(why string) {
	if c.bad == "" {
		c.bad = why
	}
}

func mpIdentOK(s string) bool {
	if s == "" {
		return false
	}
	for i := 0; i < len(s); i++ {
		ch := s[i]
		if !(ch == '_' || ch == '.' || ch >= '0' && ch <= '9' || ch >= 'a' && ch <= 'z' || ch >= 'A' && ch <= 'Z') {
			return false
		}
	}
	return true
}

func (c *mpConv) label(l *past.FieldLabel) string {
	if !l.IsPresent() {
		return "-"
	}
	switch {
	case l.Repeated:
		return "r"
	case l.Required:
		return "q"
	}
	return "o"
}

func (c *mpConv) fieldOpts(opts *past.CompactOptionsNode) (json, packed, def string) {
	json, packed, def = "-", "-", "-"
	if opts == nil {
		return
	}
	for _, o := range opts.Options {
		if len(o.Name.Parts) != 1 || o.Name.Parts[0].IsExtension() || o.Val == nil {
			c.fail("option")
			return
		}
		name := string(o.Name.Parts[0].Name.AsIdentifier())
		switch name {
		case "json_name":
			s, ok := o.Val.Value().(string)
			if !ok || json != "-" {
				c.fail("json_name value")
				return
			}
			json = mpHexS(s)
		case "packed":
			id, ok := o.Val.Value().(past.Identifier)
			if !ok || packed != "-" || (id != "true" && id != "false") {
				c.fail("packed value")
				return
			}
			packed = string(id[:1])
		case "default":
			if def != "-" {
				c.fail("default twice")
				return
			}
			switch v := o.Val.Value().(type) {
			case uint64:
				def = "i" + strconv.FormatUint(v, 10)
			case int64:
				def = "i" + strconv.FormatInt(v, 10)
			case string:
				for i := 0; i < len(v); i++ {
					if v[i] < 0x20 || v[i] > 0x7e {
						c.fail("default string")
						return
					}
				}
				def = "s" + mpHexS(v)[1:]
			case past.Identifier:
				switch v {
				case "true":
					def = "bt"
				case "false":
					def = "bf"
				default:
					if !mpIdentOK(string(v)) || strings.Contains(string(v), ".") {
						c.fail("default ident")
						return
					}
					def = "e" + string(v)
				}
			default:
				c.fail("default value kind")
				return
			}
		default:
			c.fail("option " + name)
			return
		}
	}
	return
}

func (c *mpConv) field(ctx string, n *past.FieldNode) mpRec {
	if n.Tag == nil {
		c.fail("no tag")
		return mpRec{}
	}
	ty := string(n.FldType.AsIdentifier())
	if !mpIdentOK(ty) || !mpIdentOK(n.Name.Val) {
		c.fail("ident")
	}
	json, packed, def := c.fieldOpts(n.Options)
	return mpRec1("f", ctx, c.label(&n.Label), ty, n.Name.Val, strconv.FormatUint(n.Tag.Val, 10), json, packed, def)
}

func (c *mpConv) group(ctx string, n *past.GroupNode) mpRec {
	if n.Tag == nil || (n.Options != nil && len(n.Options.Options) > 0) {
		c.fail("group tag/options")
		return mpRec{}
	}
	b := &mpBody{Name: n.Name.Val}
	idx := len(c.f.Msgs)
	c.f.Msgs = append(c.f.Msgs, b)
	b.Elems = c.msgBody(n.Decls)
	return mpRec1("g", ctx, c.label(&n.Label), n.Name.Val, strconv.FormatUint(n.Tag.Val, 10), strconv.Itoa(idx))
}

func (c *mpConv) intLit(n past.IntValueNode) (string, bool) {
	if u, ok := n.AsUint64(); ok {
		return strconv.FormatUint(u, 10), true
	}
	if i, ok := n.AsInt64(); ok {
		return strconv.FormatInt(i, 10), true
	}
	return "", false
}

func (c *mpConv) ranges(kind string, rs []*past.RangeNode) []mpRec {
	var out []mpRec
	for _, r := range rs {
		s, ok := c.intLit(r.StartVal)
		if !ok {
			c.fail("range start")
			continue
		}
		e := "-"
		switch {
		case r.Max != nil:
			e = "max"
		case r.EndVal != nil:
			v, ok := c.intLit(r.EndVal)
			if !ok {
				c.fail("range end")
			}
			e = v
		}
		out = append(out, mpRec1(kind, s, e))
	}
	return out
}

func (c *mpConv) reserved(n *past.ReservedNode) []mpRec {
	out := c.ranges("rr", n.Ranges)
	for _, s := range n.Names {
		out = append(out, mpRec1("rn", mpHexS(s.AsString()), "s"))
	}
	for _, id := range n.Identifiers {
		out = append(out, mpRec1("rn", mpHexS(string(id.AsIdentifier())), "i"))
	}
	return out
}

func (c *mpConv) enum(n *past.EnumNode) mpRec {
	if n.Visibility != nil {
		c.fail("visibility")
	}
	b := &mpBody{Name: n.Name.Val}
	idx := len(c.f.Enums)
	c.f.Enums = append(c.f.Enums, b)
	for _, d := range n.Decls {
		switch d := d.(type) {
		case *past.EnumValueNode:
			if d.Options != nil && len(d.Options.Options) > 0 {
				c.fail("enum value options")
			}
			v, ok := c.intLit(d.Number)
			if !ok {
				c.fail("enum value number")
			}
			b.Elems = append(b.Elems, mpRec1("v", d.Name.Val, v))
		case *past.ReservedNode:
			b.Elems = append(b.Elems, c.reserved(d)...)
		case *past.OptionNode:
			if len(d.Name.Parts) == 1 && !d.Name.Parts[0].IsExtension() && string(d.Name.Parts[0].Name.AsIdentifier()) == "allow_alias" && d.Val != nil {
				if id, ok := d.Val.Value().(past.Identifier); ok && (id == "true" || id == "false") {
					b.Elems = append(b.Elems, mpRec1("aa", string(id[:1])))
					continue
				}
			}
			c.fail("enum option")
		case *past.EmptyDeclNode:
		default:
			c.fail("enum decl")
		}
	}
	return mpRec1("n", strconv.Itoa(idx))
}

func (c *mpConv) extend(n *past.ExtendNode) []mpRec {
	ext := string(n.Extendee.AsIdentifier())
	if !mpIdentOK(ext) {
		c.fail("extendee")
	}
	out := []mpRec{mpRec1("x", ext)}
	for _, d := range n.Decls {
		switch d := d.(type) {
		case *past.FieldNode:
			out = append(out, c.field("x", d))
		case *past.GroupNode:
			out = append(out, c.group("x", d))
		case *past.EmptyDeclNode:
		default:
			c.fail("extend decl")
		}
	}
	return out
}

func (c *mpConv) message(n *past.MessageNode) mpRec {
	if n.Visibility != nil {
		c.fail("visibility")
	}
	b := &mpBody{Name: n.Name.Val}
	idx := len(c.f.Msgs)
	c.f.Msgs = append(c.f.Msgs, b)
	b.Elems = c.msgBody(n.Decls)
	return mpRec1("c", strconv.Itoa(idx))
}

func (c *mpConv) msgBody(decls []past.MessageElement) []mpRec {
	var out []mpRec
	for _, d := range decls {
		switch d := d.(type) {
		case *past.FieldNode:
			out = append(out, c.field("-", d))
		case *past.MapFieldNode:
			if d.Tag == nil || (d.Options != nil && len(d.Options.Options) > 0) {
				c.fail("map tag/options")
				continue
			}
			out = append(out, mpRec1("m", d.MapType.KeyType.Val, string(d.MapType.ValueType.AsIdentifier()), d.Name.Val, strconv.FormatUint(d.Tag.Val, 10)))
		case *past.GroupNode:
			out = append(out, c.group("-", d))
		case *past.OneofNode:
			out = append(out, mpRec1("o", d.Name.Val))
			for _, od := range d.Decls {
				switch od := od.(type) {
				case *past.FieldNode:
					out = append(out, c.field("o", od))
				case *past.GroupNode:
					out = append(out, c.group("o", od))
				case *past.EmptyDeclNode:
				default:
					c.fail("oneof decl")
				}
			}
		case *past.MessageNode:
			out = append(out, c.message(d))
		case *past.EnumNode:
			out = append(out, c.enum(d))
		case *past.ExtendNode:
			out = append(out, c.extend(d)...)
		case *past.ExtensionRangeNode:
			if d.Options != nil && len(d.Options.Options) > 0 {
				c.fail("extension range options")
			}
			out = append(out, c.ranges("er", d.Ranges)...)
		case *past.ReservedNode:
			out = append(out, c.reserved(d)...)
		case *past.OptionNode:
			if len(d.Name.Parts) == 1 && !d.Name.Parts[0].IsExtension() && string(d.Name.Parts[0].Name.AsIdentifier()) == "message_set_wire_format" && d.Val != nil {
				if id, ok := d.Val.Value().(past.Identifier); ok && (id == "true" || id == "false") {
					out = append(out, mpRec1("ms", string(id[:1])))
					continue
				}
			}
			c.fail("message option")
		case *past.EmptyDeclNode:
		default:
			c.fail("message decl")
		}
	}
	return out
}

// mpFromSource converts one source file to MiniProto through the real parser, or says why not.
func mpFromSource(path, src string) (*mpFile, string) {
	h := reporter.NewHandler(nil)
	root, err := parser.Parse(path, strings.NewReader(src), h)
	if err != nil || root == nil {
		return nil, "syntax"
	}
	c := &mpConv{f: &mpFile{Path: path, Syntax: "n"}}
	switch {
	case root.Syntax != nil:
		switch root.Syntax.Syntax.AsString() {
		case "proto2":
			c.f.Syntax = "2"
		case "proto3":
			c.f.Syntax = "3"
		default:
			c.fail("syntax value")
		}
	case root.Edition != nil:
		if root.Edition.Edition.AsString() != "2023" {
			c.fail("edition")
		}
		c.f.Syntax = "e"
	}
	pkgs := 0
	for _, d := range root.Decls {
		switch d := d.(type) {
		case *past.PackageNode:
			pkgs++
			c.f.Pkg = string(d.Name.AsIdentifier())
			if !mpIdentOK(c.f.Pkg) || pkgs > 1 {
				c.fail("package")
			}
		case *past.ImportNode:
			kind := "n"
			if d.Public != nil {
				kind = "p"
			} else if d.Weak != nil || d.Modifier != nil {
				c.fail("import modifier")
			}
			p := d.Name.AsString()
			if strings.ContainsAny(p, " \t") || p == "" {
				c.fail("import path")
			}
			c.f.Imports = append(c.f.Imports, mpRec1("I", p, kind))
		case *past.MessageNode:
			c.f.Top = append(c.f.Top, c.message(d))
		case *past.EnumNode:
			c.f.Top = append(c.f.Top, c.enum(d))
		case *past.ExtendNode:
			c.f.Top = append(c.f.Top, c.extend(d)...)
		case *past.ServiceNode:
			b := &mpBody{Name: d.Name.Val}
			for _, sd := range d.Decls {
				switch sd := sd.(type) {
				case *past.RPCNode:
					if sd.OpenBrace != nil {
						c.fail("rpc body")
					}
					cs, ss := "0", "0"
					if sd.Input.Stream != nil {
						cs = "1"
					}
					if sd.Output.Stream != nil {
						ss = "1"
					}
					b.Elems = append(b.Elems, mpRec1("rpc", sd.Name.Val, string(sd.Input.MessageType.AsIdentifier()), string(sd.Output.MessageType.AsIdentifier()), cs, ss))
				case *past.EmptyDeclNode:
				default:
					c.fail("service decl")
				}
			}
			c.f.Top = append(c.f.Top, mpRec1("s", strconv.Itoa(len(c.f.Svcs))))
			c.f.Svcs = append(c.f.Svcs, b)
		case *past.EmptyDeclNode:
		default:
			c.fail("file decl")
		}
	}
	if strings.ContainsAny(path, " \t") {
		c.fail("path")
	}
	if c.bad != "" {
		return nil, c.bad
	}
	return c.f, ""
}

// mpAnchorOps turns the protoc-validated test tables into ops. The note of an op is
// `anchor:<table>:<case>:<go ok|err>:<protoc ok|err>`.
func mpAnchorOps() (ops []string, skipped map[string]int) {
	repo := mpRepoDir()
	skipped = map[string]int{}
	var cases []mpTableCase
	cases = append(cases, mpTableCases(filepath.Join(repo, "parser", "validate_test.go"), "TestBasicValidation", "v")...)
	cases = append(cases, mpTableCases(filepath.Join(repo, "linker", "linker_test.go"), "TestLinkerValidation", "l")...)
	for _, tc := range cases {
		w := &mpWS{}
		why := ""
		// every imported file must be part of the case
		for _, name := range tc.order {
			f, bad := mpFromSource(name, tc.files[name])
			if bad != "" {
				why = bad
				break
			}
			for _, imp := range f.Imports {
				if _, ok := tc.files[imp.A[0]]; !ok {
					why = "imports " + imp.A[0]
				}
			}
			w.Files = append(w.Files, f)
		}
		if len(tc.order) != len(tc.files) {
			why = "input order"
		}
		if why != "" {
			if strings.HasPrefix(why, "imports google/protobuf") {
				why = "imports a well-known file"
			}
			skipped[why]++
			continue
		}
		// the rendering of the converted workspace must parse back to the same workspace
		src, _, ok := mpSources(w)
		if !ok {
			skipped["not renderable"]++
			continue
		}
		same := true
		for _, f := range w.Files {
			g, bad := mpFromSource(f.Path, src[f.Path])
			if bad != "" || (&mpWS{Files: []*mpFile{g}}).op() != (&mpWS{Files: []*mpFile{f}}).op() {
				same = false
			}
		}
		if !same {
			skipped["render round trip"]++
			continue
		}
		goV, pV := "ok", "ok"
		if !tc.goAccept {
			goV = "err"
		}
		if tc.goAccept == tc.diff {
			pV = "err"
		}
		w.Note = "anchor:" + tc.table + ":" + tc.name + ":" + goV + ":" + pV
		ops = append(ops, w.op())
	}
	return ops, skipped
}

// ---------------------------------------------------------------- protoset laws + naming ops

func mpProtosetOps() []string {
	repo := mpRepoDir()
	files, _ := filepath.Glob(filepath.Join(repo, "internal", "testdata", "*.protoset"))
	sort.Strings(files)
	seen := map[string]bool{}
	var ops []string
	for _, p := range files {
		b, err := os.ReadFile(p)
		if err != nil {
			continue
		}
		var set descriptorpb.FileDescriptorSet
		if err := proto.Unmarshal(b, &set); err != nil {
			continue
		}
		for _, fd := range set.File {
			toks := mpProject(fd)
			ok := true
			for _, t := range toks {
				if t == "" || strings.ContainsAny(t, " \t\n") {
					ok = false
				}
			}
			op := "laws " + strings.Join(toks, " ")
			if !ok || seen[op] {
				continue
			}
			seen[op] = true
			ops = append(ops, op)
		}
	}
	return ops
}

func mpNamingOps(r *Rand, tier string) []string {
	var ops []string
	alpha := []byte{'a', 'B', '_', '1'}
	n := 5
	if tier == "thorough" {
		n = 7
	}
	var rec func(p []byte, d int)
	rec = func(p []byte, d int) {
		if len(p) > 0 {
			ops = append(ops, "nm json "+mpHexS(string(p)), "nm entry "+mpHexS(string(p)))
		}
		if d == 0 {
			return
		}
		for _, c := range alpha {
			rec(append(append([]byte{}, p...), c), d-1)
		}
	}
	rec(nil, n)
	// canonical enum value names: value x enum name over a small alphabet
	al2 := []byte{'a', 'A', 'b', '_'}
	var strs []string
	var rec2 func(p []byte, d int)
	rec2 = func(p []byte, d int) {
		if len(p) > 0 {
			strs = append(strs, string(p))
		}
		if d == 0 {
			return
		}
		for _, c := range al2 {
			rec2(append(append([]byte{}, p...), c), d-1)
		}
	}
	m := 3
	if tier == "thorough" {
		m = 4
	}
	rec2(nil, m)
	for _, v := range strs {
		for _, e := range strs {
			if len(v)+len(e) <= m+2 || r.Chance(1, 6) {
				ops = append(ops, "nm canon "+mpHexS(v)+" "+mpHexS(e))
			}
		}
	}
	for i := 0; i < 300; i++ {
		words := []string{"FOO", "Foo", "foo", "BAR", "bar", "_", "__", "f", "O", "o", "1"}
		var v, e string
		for k := 0; k < 1+r.Intn(4); k++ {
			v += Pick(r, words)
		}
		for k := 0; k < 1+r.Intn(3); k++ {
			e += Pick(r, words)
		}
		if r.Chance(1, 2) {
			v = e + Pick(r, []string{"", "_", "__"}) + v
		}
		ops = append(ops, "nm canon "+mpHexS(v)+" "+mpHexS(e))
	}
	return ops
}

// mpExecAux answers the `nm` and `laws` ops of the link engine with the real naming functions.
func mpExecAux(op string) (string, bool) {
	t := strings.Fields(op)
	if len(t) == 0 {
		return "", false
	}
	switch t[0] {
	case "nm":
		if len(t) < 3 {
			return "bad-op", true
		}
		a, ok := mpUnHexS(t[2])
		if !ok {
			return "bad-op", true
		}
		switch {
		case t[1] == "json" && len(t) == 3:
			return mpHexS(verifhooks.JSONName(a)), true
		case t[1] == "entry" && len(t) == 3:
			return mpHexS(verifhooks.MapEntry(a)), true
		case t[1] == "canon" && len(t) == 4:
			b, ok := mpUnHexS(t[3])
			if !ok {
				return "bad-op", true
			}
			return mpHexS(verifhooks.CanonicalEnumValueName(a, b)), true
		}
		return "bad-op", true
	case "laws":
		// the real naming functions over every field of protoc's descriptor:
		// j <default JSON name> for fields, e <entry name> for repeated message fields
		var out []string
		for i := 1; i < len(t); i++ {
			if (t[i] == "f" || t[i] == "x") && i+11 < len(t) {
				name := t[i+1]
				out = append(out, "j", mpHexS(verifhooks.JSONName(name)))
				if t[i+3] == "3" && t[i+4] == "11" {
					out = append(out, "e", verifhooks.MapEntry(name))
				}
				i += 11
			}
		}
		if len(out) == 0 {
			return "none", true
		}
		return strings.Join(out, " "), true
	}
	return "", false
}
