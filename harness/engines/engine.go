// Package engines holds one differential-testing engine per modelled mechanism.
// Every engine calls the real protocompile code in-process (built with -tags verif).
package engines

import (
	"bytes"
	"context"
	"encoding/hex"
	"fmt"
	"os"
	"os/exec"
	"sort"
	"strings"
	"time"
)

// Engine is the Go half of a correspondence check. Gen produces cases (op-line
// sequences); Exec runs one op line against the implementation and returns its
// canonicalised answer. The same op lines are fed to the Lean driver.
type Engine interface {
	Name() string
	Gen(r *Rand, tier string) [][]string
	Reset()
	Exec(op string) string
}

// Trivialer lets an engine say which (op, answer) pairs are trivial for the
// distinct_nontrivial count.
type Trivialer interface {
	Trivial(op, ans string) bool
}

// Classifier lets an engine bucket (op, answer) pairs for the distribution
// printed into the evidence file.
type Classifier interface {
	Class(op, ans string) string
}

var registry = map[string]func() Engine{}

func Register(name string, f func() Engine) { registry[name] = f }

func Get(name string) (Engine, bool) {
	f, ok := registry[name]
	if !ok {
		return nil, false
	}
	return f(), true
}

func Names() []string {
	var ns []string
	for n := range registry {
		ns = append(ns, n)
	}
	sort.Strings(ns)
	return ns
}

// Isolater lets an engine ask for an op to be executed in a child process (ops that can
// crash the whole process, e.g. a double close of a channel in a goroutine).
type Isolater interface {
	Isolated(op string) bool
}

func execIsolated(e Engine, op string) string {
	exe, err := os.Executable()
	if err != nil {
		return "isolate-failed " + Canon(err.Error())
	}
	ctx, cancel := context.WithTimeout(context.Background(), 60*time.Second)
	defer cancel()
	cmd := exec.CommandContext(ctx, exe, "one", e.Name(), op)
	cmd.Env = append(os.Environ(), "PCVH_CHILD=1")
	var stderr bytes.Buffer
	cmd.Stderr = &stderr
	out, err := cmd.Output()
	if err != nil {
		msg := stderr.String()
		first := msg
		if i := strings.Index(msg, "\n"); i >= 0 {
			first = msg[:i]
		}
		if ctx.Err() != nil {
			return "hang-in-child"
		}
		return "crash ~ " + Canon(first)
	}
	return strings.TrimRight(string(out), "\n")
}

// SafeExec runs e.Exec under recover; a panic is an answer.
func SafeExec(e Engine, op string) (ans string) {
	if iso, ok := e.(Isolater); ok && os.Getenv("PCVH_CHILD") == "" && iso.Isolated(op) {
		return execIsolated(e, op)
	}
	defer func() {
		if r := recover(); r != nil {
			ans = "panic " + Canon(fmt.Sprint(r))
		}
	}()
	return e.Exec(op)
}

// Canon makes s a single line without tabs.
func Canon(s string) string {
	s = strings.ReplaceAll(s, "\n", "\\n")
	s = strings.ReplaceAll(s, "\t", "\\t")
	s = strings.ReplaceAll(s, "\r", "\\r")
	if len(s) > 300 {
		s = s[:300]
	}
	return s
}

// Hex encodes bytes for the wire ("-" for empty).
func Hex(b []byte) string {
	if len(b) == 0 {
		return "-"
	}
	return hex.EncodeToString(b)
}

// UnHex decodes the wire form.
func UnHex(s string) []byte {
	if s == "-" {
		return nil
	}
	b, err := hex.DecodeString(s)
	if err != nil {
		panic("bad hex " + s)
	}
	return b
}

// Rand is splitmix64; every random choice of a run derives from one seed.
type Rand struct{ s uint64 }

func NewRand(seed uint64) *Rand { return &Rand{s: seed*0x9E3779B97F4A7C15 + 0x1234567} }

func (r *Rand) U64() uint64 {
	r.s += 0x9E3779B97F4A7C15
	z := r.s
	z = (z ^ (z >> 30)) * 0xBF58476D1CE4E5B9
	z = (z ^ (z >> 27)) * 0x94D049BB133111EB
	return z ^ (z >> 31)
}

func (r *Rand) Intn(n int) int {
	if n <= 0 {
		return 0
	}
	return int(r.U64() % uint64(n))
}

func (r *Rand) Bool() bool { return r.U64()&1 == 1 }

func (r *Rand) Chance(num, den int) bool { return r.Intn(den) < num }

func (r *Rand) Bytes(n int) []byte {
	b := make([]byte, n)
	for i := range b {
		b[i] = byte(r.U64())
	}
	return b
}

func Pick[T any](r *Rand, xs []T) T { return xs[r.Intn(len(xs))] }
