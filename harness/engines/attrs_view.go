package engines

import (
	"context"
	"fmt"
	"math"
	"reflect"
	"sort"
	"strconv"
	"strings"
	"sync"
	"sync/atomic"

	"github.com/bufbuild/protocompile"
	"github.com/bufbuild/protocompile/linker"
	"github.com/bufbuild/protocompile/protoutil"
	"google.golang.org/protobuf/proto"
	"google.golang.org/protobuf/reflect/protodesc"
	"google.golang.org/protobuf/reflect/protoreflect"
	"google.golang.org/protobuf/reflect/protoregistry"
	"google.golang.org/protobuf/types/descriptorpb"
	"google.golang.org/protobuf/types/dynamicpb"
)

// attrs, second clause (C04): the generic view walker.
//
// `view <element> x=<hex>`: the linker's descriptor of the element and the descriptor protodesc.NewFile
// built from the same proto are walked IN PARALLEL by reflection over the protoreflect interface of the
// element's kind: every zero-argument accessor is called on both and the results are compared
// structurally (descriptors by kind + full name, files by path, values by Interface(), options by
// proto.Equal, collections element-wise); every collection / lookup object is probed through all of its
// one-argument methods (ByName, ByNumber, ByJSONName, ByTextName, Has, ByPath, ByDescriptor, ...) with the
// names / numbers / JSON and text names / range boundaries +-1 that occur around the element plus absent
// ones. The answer is "same" or "differ <element> <methods> linker=<...> runtime=<...>".
// This clause has no Lean reference: two implementations must agree. The generator runs the same walk
// and records its outcome in the op (x=...), which the model echoes, so the model/implementation
// comparison only guards determinism; the verdict comes from the oracle reading the implementation's answer.

type attrsDiff struct{ method, l, r string }

type attrsProbes struct {
	names []protoreflect.Name
	strs  []string
	fnums []protoreflect.FieldNumber
	enums []protoreflect.EnumNumber
	paths []protoreflect.SourcePath
	descL []protoreflect.Descriptor
	descR []protoreflect.Descriptor
}

var (
	attrsTDescriptor = reflect.TypeOf((*protoreflect.Descriptor)(nil)).Elem()
	attrsTFile       = reflect.TypeOf((*protoreflect.FileDescriptor)(nil)).Elem()
	attrsTMessage    = reflect.TypeOf((*protoreflect.MessageDescriptor)(nil)).Elem()
	attrsTField      = reflect.TypeOf((*protoreflect.FieldDescriptor)(nil)).Elem()
	attrsTOneof      = reflect.TypeOf((*protoreflect.OneofDescriptor)(nil)).Elem()
	attrsTEnum       = reflect.TypeOf((*protoreflect.EnumDescriptor)(nil)).Elem()
	attrsTEnumValue  = reflect.TypeOf((*protoreflect.EnumValueDescriptor)(nil)).Elem()
	attrsTService    = reflect.TypeOf((*protoreflect.ServiceDescriptor)(nil)).Elem()
	attrsTMethod     = reflect.TypeOf((*protoreflect.MethodDescriptor)(nil)).Elem()
	attrsTValue      = reflect.TypeOf(protoreflect.Value{})
	attrsTProtoMsg   = reflect.TypeOf((*protoreflect.ProtoMessage)(nil)).Elem()
	attrsTName       = reflect.TypeOf(protoreflect.Name(""))
	attrsTString     = reflect.TypeOf("")
	attrsTFieldNum   = reflect.TypeOf(protoreflect.FieldNumber(0))
	attrsTEnumNum    = reflect.TypeOf(protoreflect.EnumNumber(0))
	attrsTSrcPath    = reflect.TypeOf(protoreflect.SourcePath(nil))
	attrsTInt        = reflect.TypeOf(int(0))
)

func attrsKindOf(d protoreflect.Descriptor) (string, reflect.Type) {
	switch d.(type) {
	case protoreflect.FileDescriptor:
		return "file", attrsTFile
	case protoreflect.MessageDescriptor:
		return "message", attrsTMessage
	case protoreflect.FieldDescriptor:
		return "field", attrsTField
	case protoreflect.OneofDescriptor:
		return "oneof", attrsTOneof
	case protoreflect.EnumDescriptor:
		return "enum", attrsTEnum
	case protoreflect.EnumValueDescriptor:
		return "value", attrsTEnumValue
	case protoreflect.ServiceDescriptor:
		return "service", attrsTService
	case protoreflect.MethodDescriptor:
		return "method", attrsTMethod
	}
	return "?", attrsTDescriptor
}

func attrsTrim(s string) string {
	s = Canon(s)
	s = strings.ReplaceAll(s, " ", "_")
	if len(s) > 120 {
		s = s[:120] + "..."
	}
	if s == "" {
		return `""`
	}
	return s
}

func attrsIsNil(v reflect.Value) bool {
	switch v.Kind() {
	case reflect.Interface, reflect.Ptr, reflect.Map, reflect.Slice, reflect.Func:
		return v.IsNil()
	}
	return false
}

// attrsCanon renders a result structurally.
func attrsCanon(v reflect.Value) string {
	if !v.IsValid() {
		return "invalid"
	}
	if v.Kind() == reflect.Interface {
		if v.IsNil() {
			return "nil"
		}
		v = v.Elem()
	}
	if v.Type() == attrsTValue {
		return attrsCanonValue(v.Interface().(protoreflect.Value))
	}
	if v.CanInterface() {
		switch x := v.Interface().(type) {
		case protoreflect.FileDescriptor:
			if attrsIsNil(v) {
				return "nil"
			}
			return "file:" + x.Path()
		case protoreflect.Descriptor:
			if attrsIsNil(v) {
				return "nil"
			}
			k, _ := attrsKindOf(x)
			return k + ":" + string(x.FullName())
		case protoreflect.ProtoMessage:
			b, err := proto.MarshalOptions{Deterministic: true, AllowPartial: true}.Marshal(x)
			if err != nil {
				return "opts:error"
			}
			return fmt.Sprintf("opts:%s:%x", x.ProtoReflect().Descriptor().FullName(), b)
		case protoreflect.FileImport:
			p := "nil"
			if x.FileDescriptor != nil {
				p = x.FileDescriptor.Path()
			}
			return fmt.Sprintf("import:%s:pub=%v:weak=%v", p, x.IsPublic, x.IsWeak)
		case protoreflect.SourceLocation:
			return fmt.Sprintf("loc:%v:%d:%d:%d:%d:%q:%q:%q:next=%d", []int32(x.Path), x.StartLine, x.StartColumn, x.EndLine,
				x.EndColumn, x.LeadingComments, x.TrailingComments, x.LeadingDetachedComments, x.Next)
		case protoreflect.SourcePath:
			return fmt.Sprint([]int32(x))
		}
	}
	if attrsIsNil(v) {
		return "nil"
	}
	// collections: Len() + Get(i)
	if lm := v.MethodByName("Len"); lm.IsValid() && lm.Type().NumIn() == 0 {
		if gm := v.MethodByName("Get"); gm.IsValid() && gm.Type().NumIn() == 1 {
			n := int(lm.Call(nil)[0].Int())
			parts := make([]string, 0, n)
			for i := 0; i < n; i++ {
				parts = append(parts, attrsCanon(gm.Call([]reflect.Value{reflect.ValueOf(i)})[0]))
			}
			return "[" + strings.Join(parts, " ") + "]"
		}
	}
	switch v.Kind() {
	case reflect.Array, reflect.Slice:
		parts := make([]string, 0, v.Len())
		for i := 0; i < v.Len(); i++ {
			parts = append(parts, attrsCanon(v.Index(i)))
		}
		return "[" + strings.Join(parts, " ") + "]"
	case reflect.Float32, reflect.Float64:
		return fmt.Sprintf("%x", math.Float64bits(v.Float()))
	}
	return fmt.Sprintf("%v", v.Interface())
}

func attrsCanonValue(v protoreflect.Value) string {
	if !v.IsValid() {
		return "invalid-value"
	}
	switch x := v.Interface().(type) {
	case float32:
		if x != x {
			return "f32:nan"
		}
		return fmt.Sprintf("f32:%08x", math.Float32bits(x))
	case float64:
		if x != x {
			return "f64:nan"
		}
		return fmt.Sprintf("f64:%016x", math.Float64bits(x))
	case []byte:
		return "bytes:" + Hex(x)
	case string:
		return "str:" + attrsHexS(x)
	case protoreflect.Message, protoreflect.List, protoreflect.Map:
		return fmt.Sprintf("composite:%T", x)
	default:
		return fmt.Sprintf("%T:%v", x, x)
	}
}

type attrsMethodKey struct {
	t    reflect.Type
	name string
}

var attrsMethodIndex sync.Map // attrsMethodKey -> int

// attrsMethod: reflect.Value.MethodByName with the lookup cached per concrete type.
func attrsMethod(recv reflect.Value, name string) reflect.Value {
	if !recv.IsValid() {
		return reflect.Value{}
	}
	if recv.Kind() == reflect.Interface {
		if recv.IsNil() {
			return reflect.Value{}
		}
		recv = recv.Elem()
	}
	k := attrsMethodKey{recv.Type(), name}
	i := -1
	if v, ok := attrsMethodIndex.Load(k); ok {
		i = v.(int)
	} else {
		if m, found := recv.Type().MethodByName(name); found {
			i = m.Index
		}
		attrsMethodIndex.Store(k, i)
	}
	if i < 0 {
		return reflect.Value{}
	}
	return recv.Method(i)
}

// attrsCall invokes a method; a panic is a result.
func attrsCall(recv reflect.Value, name string, args []reflect.Value) (out reflect.Value, str string) {
	defer func() {
		if p := recover(); p != nil {
			out = reflect.Value{}
			str = "panic:" + fmt.Sprint(p)
		}
	}()
	m := attrsMethod(recv, name)
	if !m.IsValid() {
		return reflect.Value{}, "no-such-method"
	}
	res := m.Call(args)
	if len(res) == 0 {
		return reflect.Value{}, "void"
	}
	return res[0], attrsCanon(res[0])
}

func attrsSame(lo, ro reflect.Value, ls, rs string) bool {
	if ls == rs {
		return true
	}
	// options: proto.Equal decides
	if strings.HasPrefix(ls, "opts:") && strings.HasPrefix(rs, "opts:") && lo.IsValid() && ro.IsValid() {
		lm, ok1 := lo.Interface().(protoreflect.ProtoMessage)
		rm, ok2 := ro.Interface().(protoreflect.ProtoMessage)
		if ok1 && ok2 {
			return proto.Equal(lm, rm)
		}
	}
	return false
}

// attrsProbeObject probes every one-argument method of a collection / lookup object.
func attrsProbeObject(prefix string, iface reflect.Type, lo, ro reflect.Value, pr *attrsProbes, diffs *[]attrsDiff) {
	if !lo.IsValid() || !ro.IsValid() || attrsIsNil(lo) || attrsIsNil(ro) || iface.Kind() != reflect.Interface {
		return
	}
	for i := 0; i < iface.NumMethod(); i++ {
		m := iface.Method(i)
		if m.Type.NumIn() != 1 || m.Type.NumOut() != 1 || m.Name == "Get" || strings.HasPrefix(m.Name, "Proto") {
			continue
		}
		var largs, rargs []reflect.Value
		var shown []string
		switch m.Type.In(0) {
		case attrsTName:
			for _, n := range pr.names {
				largs = append(largs, reflect.ValueOf(n))
				shown = append(shown, string(n))
			}
		case attrsTString:
			for _, n := range pr.strs {
				largs = append(largs, reflect.ValueOf(n))
				shown = append(shown, n)
			}
		case attrsTFieldNum:
			for _, n := range pr.fnums {
				largs = append(largs, reflect.ValueOf(n))
				shown = append(shown, fmt.Sprint(int32(n)))
			}
		case attrsTEnumNum:
			for _, n := range pr.enums {
				largs = append(largs, reflect.ValueOf(n))
				shown = append(shown, fmt.Sprint(int32(n)))
			}
		case attrsTSrcPath:
			for _, p := range pr.paths {
				largs = append(largs, reflect.ValueOf(p))
				shown = append(shown, fmt.Sprint([]int32(p)))
			}
		case attrsTDescriptor:
			for k := range pr.descL {
				largs = append(largs, reflect.ValueOf(pr.descL[k]))
				rargs = append(rargs, reflect.ValueOf(pr.descR[k]))
				shown = append(shown, string(pr.descL[k].FullName()))
			}
		default:
			continue
		}
		for k := range largs {
			ra := largs[k]
			if rargs != nil {
				ra = rargs[k]
			}
			lv, ls := attrsCall(lo, m.Name, []reflect.Value{largs[k]})
			rv, rs := attrsCall(ro, m.Name, []reflect.Value{ra})
			if !attrsSame(lv, rv, ls, rs) {
				*diffs = append(*diffs, attrsDiff{fmt.Sprintf("%s.%s(%s)", prefix, m.Name, attrsTrim(shown[k])), ls, rs})
			}
		}
	}
}

func attrsIsLookupObject(t reflect.Type) bool {
	if t.Kind() != reflect.Interface {
		return false
	}
	if t.Implements(attrsTDescriptor) || t == attrsTProtoMsg {
		return false
	}
	for i := 0; i < t.NumMethod(); i++ {
		n := t.Method(i).Name
		if n == "Len" || n == "Has" {
			return true
		}
	}
	return false
}

// attrsViewDiffs walks one element.
func attrsViewDiffs(l, r protoreflect.Descriptor, pr *attrsProbes) []attrsDiff {
	var diffs []attrsDiff
	lk, iface := attrsKindOf(l)
	rk, _ := attrsKindOf(r)
	if lk != rk {
		return []attrsDiff{{"kind", lk, rk}}
	}
	lo, ro := reflect.ValueOf(l), reflect.ValueOf(r)
	for i := 0; i < iface.NumMethod(); i++ {
		m := iface.Method(i)
		if strings.HasPrefix(m.Name, "Proto") || m.Type.NumOut() != 1 {
			continue
		}
		switch {
		case m.Type.NumIn() == 0:
			lv, ls := attrsCall(lo, m.Name, nil)
			rv, rs := attrsCall(ro, m.Name, nil)
			if !attrsSame(lv, rv, ls, rs) {
				diffs = append(diffs, attrsDiff{m.Name, ls, rs})
			}
			if attrsIsLookupObject(m.Type.Out(0)) {
				attrsProbeObject(m.Name, m.Type.Out(0), lv, rv, pr, &diffs)
			}
		case m.Type.NumIn() == 1 && m.Type.In(0) == attrsTInt && m.Name == "ExtensionRangeOptions":
			n := l.(protoreflect.MessageDescriptor).ExtensionRanges().Len()
			for k := 0; k < n; k++ {
				a := []reflect.Value{reflect.ValueOf(k)}
				lv, ls := attrsCall(lo, m.Name, a)
				rv, rs := attrsCall(ro, m.Name, a)
				if !attrsSame(lv, rv, ls, rs) {
					diffs = append(diffs, attrsDiff{fmt.Sprintf("%s(%d)", m.Name, k), ls, rs})
				}
			}
		}
	}
	// accessors outside the protoreflect interfaces that both implementations offer
	for _, name := range []string{"Visibility", "Edition", "OptionImports"} {
		lm, rm := lo.MethodByName(name), ro.MethodByName(name)
		if !lm.IsValid() || !rm.IsValid() || lm.Type().NumIn() != 0 || rm.Type().NumIn() != 0 {
			continue
		}
		lv, ls := attrsCall(lo, name, nil)
		rv, rs := attrsCall(ro, name, nil)
		if !attrsSame(lv, rv, ls, rs) {
			diffs = append(diffs, attrsDiff{name, ls, rs})
		}
	}
	return diffs
}

// ---------------------------------------------------------------- probes

func attrsAddRangeProbes(pr *attrsProbes, lo, hi int64, enum bool) {
	for _, n := range []int64{lo - 1, lo, lo + 1, hi - 1, hi, hi + 1} {
		if n < math.MinInt32 || n > math.MaxInt32 {
			continue
		}
		if enum {
			pr.enums = append(pr.enums, protoreflect.EnumNumber(n))
		} else {
			pr.fnums = append(pr.fnums, protoreflect.FieldNumber(n))
		}
	}
}

func attrsFieldProbes(pr *attrsProbes, fds protoreflect.FieldDescriptors) {
	for i := 0; i < fds.Len(); i++ {
		f := fds.Get(i)
		pr.names = append(pr.names, f.Name())
		pr.strs = append(pr.strs, string(f.Name()), f.JSONName(), f.TextName())
		pr.fnums = append(pr.fnums, f.Number())
	}
}

// attrsProbesFor collects the probes for one element from the *runtime's* view of it and of its file.
func attrsProbesFor(r protoreflect.Descriptor, extra []protoreflect.Name) *attrsProbes {
	pr := &attrsProbes{}
	pr.names = append(pr.names, "", "absent_name", "Absent", r.Name())
	pr.names = append(pr.names, extra...)
	pr.strs = append(pr.strs, "", "absentName", "[absent.ext]", string(r.Name()))
	pr.fnums = append(pr.fnums, -1, 0, 1, 2, 536870911, 536870912, math.MaxInt32)
	pr.enums = append(pr.enums, math.MinInt32, -1, 0, 1, math.MaxInt32)
	addNamed := func(n protoreflect.Name) {
		pr.names = append(pr.names, n)
		pr.strs = append(pr.strs, string(n))
	}
	switch x := r.(type) {
	case protoreflect.FileDescriptor:
		for i := 0; i < x.Messages().Len(); i++ {
			addNamed(x.Messages().Get(i).Name())
		}
		for i := 0; i < x.Enums().Len(); i++ {
			addNamed(x.Enums().Get(i).Name())
		}
		for i := 0; i < x.Extensions().Len(); i++ {
			addNamed(x.Extensions().Get(i).Name())
		}
		for i := 0; i < x.Services().Len(); i++ {
			addNamed(x.Services().Get(i).Name())
		}
		locs := x.SourceLocations()
		for i := 0; i < locs.Len() && i < 400; i++ {
			pr.paths = append(pr.paths, locs.Get(i).Path)
		}
		pr.paths = append(pr.paths, protoreflect.SourcePath{}, protoreflect.SourcePath{4, 9999}, protoreflect.SourcePath{99})
	case protoreflect.MessageDescriptor:
		attrsFieldProbes(pr, x.Fields())
		for i := 0; i < x.Oneofs().Len(); i++ {
			addNamed(x.Oneofs().Get(i).Name())
		}
		for i := 0; i < x.Messages().Len(); i++ {
			addNamed(x.Messages().Get(i).Name())
		}
		for i := 0; i < x.Enums().Len(); i++ {
			addNamed(x.Enums().Get(i).Name())
		}
		for i := 0; i < x.Extensions().Len(); i++ {
			e := x.Extensions().Get(i)
			addNamed(e.Name())
			pr.strs = append(pr.strs, e.TextName())
			pr.fnums = append(pr.fnums, e.Number())
		}
		for i := 0; i < x.ReservedNames().Len(); i++ {
			addNamed(x.ReservedNames().Get(i))
		}
		for i := 0; i < x.ReservedRanges().Len(); i++ {
			rg := x.ReservedRanges().Get(i)
			attrsAddRangeProbes(pr, int64(rg[0]), int64(rg[1]), false)
		}
		for i := 0; i < x.ExtensionRanges().Len(); i++ {
			rg := x.ExtensionRanges().Get(i)
			attrsAddRangeProbes(pr, int64(rg[0]), int64(rg[1]), false)
		}
	case protoreflect.OneofDescriptor:
		attrsFieldProbes(pr, x.Fields())
		if p, ok := x.Parent().(protoreflect.MessageDescriptor); ok {
			// also names of fields that are NOT members
			for i := 0; i < p.Fields().Len() && i < 12; i++ {
				f := p.Fields().Get(i)
				pr.names = append(pr.names, f.Name())
				pr.strs = append(pr.strs, f.JSONName())
				pr.fnums = append(pr.fnums, f.Number())
			}
		}
	case protoreflect.EnumDescriptor:
		for i := 0; i < x.Values().Len(); i++ {
			v := x.Values().Get(i)
			addNamed(v.Name())
			pr.enums = append(pr.enums, v.Number(), v.Number()+1, v.Number()-1)
		}
		for i := 0; i < x.ReservedNames().Len(); i++ {
			addNamed(x.ReservedNames().Get(i))
		}
		for i := 0; i < x.ReservedRanges().Len(); i++ {
			rg := x.ReservedRanges().Get(i)
			attrsAddRangeProbes(pr, int64(rg[0]), int64(rg[1]), true)
		}
	case protoreflect.ServiceDescriptor:
		for i := 0; i < x.Methods().Len(); i++ {
			addNamed(x.Methods().Get(i).Name())
		}
	}
	return pr
}

// ---------------------------------------------------------------- the op

// attrsWalkAll lists the elements of a runtime file in a fixed order (full names; the file itself is "@path").
func attrsWalkAll(f protoreflect.FileDescriptor) []string {
	out := []string{"@" + f.Path()}
	var msgs func(ms protoreflect.MessageDescriptors)
	enums := func(es protoreflect.EnumDescriptors) {
		for i := 0; i < es.Len(); i++ {
			e := es.Get(i)
			out = append(out, string(e.FullName()))
			for j := 0; j < e.Values().Len(); j++ {
				out = append(out, string(e.Values().Get(j).FullName()))
			}
		}
	}
	exts := func(xs protoreflect.ExtensionDescriptors) {
		for i := 0; i < xs.Len(); i++ {
			out = append(out, string(xs.Get(i).FullName()))
		}
	}
	msgs = func(ms protoreflect.MessageDescriptors) {
		for i := 0; i < ms.Len(); i++ {
			m := ms.Get(i)
			out = append(out, string(m.FullName()))
			for j := 0; j < m.Fields().Len(); j++ {
				out = append(out, string(m.Fields().Get(j).FullName()))
			}
			for j := 0; j < m.Oneofs().Len(); j++ {
				out = append(out, string(m.Oneofs().Get(j).FullName()))
			}
			exts(m.Extensions())
			enums(m.Enums())
			msgs(m.Messages())
		}
	}
	msgs(f.Messages())
	enums(f.Enums())
	exts(f.Extensions())
	for i := 0; i < f.Services().Len(); i++ {
		s := f.Services().Get(i)
		out = append(out, string(s.FullName()))
		for j := 0; j < s.Methods().Len(); j++ {
			out = append(out, string(s.Methods().Get(j).FullName()))
		}
	}
	return out
}

// attrsFileExtras: lookups of linker.File that have no method on the runtime's FileDescriptor are compared
// with what the runtime's descriptors say.
func (e *attrsEngine) attrsFileExtras(lf linker.File, rf protoreflect.FileDescriptor, diffs *[]attrsDiff) {
	names := attrsWalkAll(rf)[1:]
	for _, n := range names {
		want := "nil"
		if d := e.findR(n); d != nil {
			want = attrsCanon(reflect.ValueOf(d))
		}
		got := "nil"
		if d := lf.FindDescriptorByName(protoreflect.FullName(n)); d != nil {
			got = attrsCanon(reflect.ValueOf(d))
		}
		if got != want {
			*diffs = append(*diffs, attrsDiff{"FindDescriptorByName(" + n + ")", got, want})
		}
		// extensions: by (extendee, number)
		if d := e.findR(n); d != nil {
			if x, ok := d.(protoreflect.FieldDescriptor); ok && x.IsExtension() {
				for _, num := range []protoreflect.FieldNumber{x.Number(), x.Number() + 7919} {
					want := "nil"
					if num == x.Number() {
						want = "field:" + n
					} else if o := attrsFindExt(rf, x.ContainingMessage().FullName(), num); o != nil {
						want = "field:" + string(o.FullName())
					}
					got := "nil"
					if g := lf.FindExtensionByNumber(x.ContainingMessage().FullName(), num); g != nil {
						got = "field:" + string(g.FullName())
					}
					if got != want {
						*diffs = append(*diffs, attrsDiff{fmt.Sprintf("FindExtensionByNumber(%s,%d)", x.ContainingMessage().FullName(), num), got, want})
					}
				}
			}
		}
	}
	if d := lf.FindDescriptorByName("absent.Name"); d != nil {
		*diffs = append(*diffs, attrsDiff{"FindDescriptorByName(absent.Name)", attrsCanon(reflect.ValueOf(d)), "nil"})
	}
	for i := 0; i < rf.Imports().Len(); i++ {
		p := rf.Imports().Get(i).Path()
		got := "nil"
		if d := lf.FindImportByPath(p); d != nil {
			got = d.Path()
		}
		if got != p {
			*diffs = append(*diffs, attrsDiff{"FindImportByPath(" + p + ")", got, p})
		}
	}
	if d := lf.FindImportByPath("absent/file.proto"); d != nil {
		*diffs = append(*diffs, attrsDiff{"FindImportByPath(absent/file.proto)", d.Path(), "nil"})
	}
}

func attrsFindExt(rf protoreflect.FileDescriptor, extendee protoreflect.FullName, num protoreflect.FieldNumber) protoreflect.FieldDescriptor {
	var res protoreflect.FieldDescriptor
	var msgs func(ms protoreflect.MessageDescriptors)
	exts := func(xs protoreflect.ExtensionDescriptors) {
		for i := 0; i < xs.Len(); i++ {
			x := xs.Get(i)
			if res == nil && x.ContainingMessage().FullName() == extendee && x.Number() == num {
				res = x
			}
		}
	}
	msgs = func(ms protoreflect.MessageDescriptors) {
		for i := 0; i < ms.Len(); i++ {
			exts(ms.Get(i).Extensions())
			msgs(ms.Get(i).Messages())
		}
	}
	exts(rf.Extensions())
	msgs(rf.Messages())
	return res
}

func (e *attrsEngine) walkAllCached(f protoreflect.FileDescriptor) []string {
	if e.walkCache == nil {
		e.walkCache = map[string][]string{}
	}
	if w, ok := e.walkCache[f.Path()]; ok {
		return w
	}
	w := attrsWalkAll(f)
	e.walkCache[f.Path()] = w
	return w
}

// viewAnswer computes the answer of `view <element>`.
func (e *attrsEngine) viewAnswer(name string) string {
	if e.status != "ok" {
		return "bad-state not-compiled"
	}
	var l, r protoreflect.Descriptor
	if strings.HasPrefix(name, "@") {
		if f, ok := e.lfiles[name[1:]]; ok {
			l = f
		}
		if f, ok := e.rfiles[name[1:]]; ok {
			r = f
		}
	} else {
		l, r = e.findL(name), e.findR(name)
	}
	if l == nil || r == nil {
		return "bad-state no-such-element"
	}
	if e.rv[name] != "" {
		return "skipped-runtime-rejected"
	}
	if xt, ok := l.(protoreflect.ExtensionTypeDescriptor); ok {
		l = xt.Descriptor()
	}
	if xt, ok := r.(protoreflect.ExtensionTypeDescriptor); ok {
		r = xt.Descriptor()
	}
	// a few names from elsewhere in the file, so that lookups also see names that exist but are not children
	var extra []protoreflect.Name
	all := e.walkAllCached(r.ParentFile())
	for i := 1; i < len(all); i += 1 + len(all)/8 {
		extra = append(extra, protoreflect.FullName(all[i]).Name())
	}
	pr := attrsProbesFor(r, extra)
	var diffs []attrsDiff
	if lf, ok := l.(linker.File); ok {
		rf := r.(protoreflect.FileDescriptor)
		// ByDescriptor probes: every element of the file (bounded)
		for i, n := range all[1:] {
			if i >= 300 {
				break
			}
			ld, rd := e.findL(n), e.findR(n)
			if ld != nil && rd != nil && e.rv[n] == "" {
				pr.descL = append(pr.descL, ld)
				pr.descR = append(pr.descR, rd)
			}
		}
		pr.descL = append(pr.descL, l)
		pr.descR = append(pr.descR, r)
		// descriptors of OTHER files: ByDescriptor must not find them
		for p, of := range e.rfiles {
			if p == rf.Path() {
				continue
			}
			names := attrsWalkAll(of)
			if len(names) > 1 {
				if ld, rd := e.findL(names[1]), e.findR(names[1]); ld != nil && rd != nil {
					pr.descL = append(pr.descL, ld)
					pr.descR = append(pr.descR, rd)
				}
			}
		}
		e.attrsFileExtras(lf, rf, &diffs)
	}
	diffs = append(diffs, attrsViewDiffs(l, r, pr)...)
	if len(diffs) == 0 {
		return "same"
	}
	return attrsDiffAnswer(strings.TrimPrefix(name, "@"), diffs)
}

// attrsDiffAnswer: "differ <element> <method> linker=<l> runtime=<r> ;; <method> linker=... [more=N]"
// (de-duplicated by method, at most 6 spelled out).
func attrsDiffAnswer(elem string, diffs []attrsDiff) string {
	seen := map[string]bool{}
	var parts []string
	for _, d := range diffs {
		if seen[d.method] {
			continue
		}
		seen[d.method] = true
		if len(parts) < 6 {
			parts = append(parts, attrsTrim(d.method)+" linker="+attrsTrim(d.l)+" runtime="+attrsTrim(d.r))
		}
	}
	more := ""
	if len(seen) > len(parts) {
		more = fmt.Sprintf(" more=%d", len(seen)-len(parts))
	}
	return "differ " + elem + " " + strings.Join(parts, " ;; ") + more
}

// attrsViewOps: one op per element of every compiled file, with the outcome of the walk recorded in the op.
func (e *attrsEngine) attrsViewOps() []string {
	var ops []string
	paths := make([]string, 0, len(e.rfiles))
	for p := range e.rfiles {
		paths = append(paths, p)
	}
	sort.Strings(paths)
	for _, p := range paths {
		for _, n := range attrsWalkAll(e.rfiles[p]) {
			ops = append(ops, "view "+n+" x="+attrsHexS(e.viewAnswer(n)))
		}
	}
	return ops
}

// ---------------------------------------------------------------- raw default values

var attrsRawKinds = map[string]descriptorpb.FieldDescriptorProto_Type{
	"bytes": descriptorpb.FieldDescriptorProto_TYPE_BYTES, "string": descriptorpb.FieldDescriptorProto_TYPE_STRING,
	"float": descriptorpb.FieldDescriptorProto_TYPE_FLOAT, "double": descriptorpb.FieldDescriptorProto_TYPE_DOUBLE,
	"int32": descriptorpb.FieldDescriptorProto_TYPE_INT32, "uint64": descriptorpb.FieldDescriptorProto_TYPE_UINT64,
	"bool": descriptorpb.FieldDescriptorProto_TYPE_BOOL,
}

// attrsRawDefault: `rawdef <kind> <hex default_value>`. The file is given to the compiler as a descriptor
// proto (not as source), so default_value can use every escape form the linker's unescape knows
// (\x \u \U \a ...), which the compiler itself never writes. Compares Default()/HasDefault() of the linked
// descriptor with the runtime's; when the runtime refuses the proto there is nothing to compare.
func attrsRawDefault(kind, hexDef string) string {
	t, ok := attrsRawKinds[kind]
	if !ok {
		return "bad-op"
	}
	fdp := &descriptorpb.FileDescriptorProto{
		Name:    proto.String("raw.proto"),
		Syntax:  proto.String("proto2"),
		Package: proto.String("raw"),
		MessageType: []*descriptorpb.DescriptorProto{{
			Name: proto.String("M"),
			Field: []*descriptorpb.FieldDescriptorProto{{
				Name:         proto.String("f"),
				JsonName:     proto.String("f"),
				Number:       proto.Int32(1),
				Label:        descriptorpb.FieldDescriptorProto_LABEL_OPTIONAL.Enum(),
				Type:         t.Enum(),
				DefaultValue: proto.String(string(UnHex(hexDef))),
			}},
		}},
	}
	rf, rerr := protodesc.NewFile(fdp, nil)
	c := protocompile.Compiler{Resolver: protocompile.ResolverFunc(func(p string) (protocompile.SearchResult, error) {
		if p == "raw.proto" {
			return protocompile.SearchResult{Proto: fdp}, nil
		}
		return protocompile.SearchResult{}, protoregistry.NotFound
	})}
	fs, lerr := c.Compile(context.Background(), "raw.proto")
	if lerr != nil {
		if rerr != nil {
			return "both-reject"
		}
		return "compiler-rejects " + Canon(lerr.Error())
	}
	if rerr != nil {
		return "skipped-runtime-rejects"
	}
	l := fs[0].Messages().Get(0).Fields().Get(0)
	r := rf.Messages().Get(0).Fields().Get(0)
	var diffs []attrsDiff
	if a, b := attrsCanonValue(l.Default()), attrsCanonValue(r.Default()); a != b {
		diffs = append(diffs, attrsDiff{"Default", a, b})
	}
	if l.HasDefault() != r.HasDefault() {
		diffs = append(diffs, attrsDiff{"HasDefault", fmt.Sprint(l.HasDefault()), fmt.Sprint(r.HasDefault())})
	}
	if len(diffs) == 0 {
		return "same"
	}
	return attrsDiffAnswer("raw.M.f", diffs)
}

var attrsRawDefaults = map[string][]string{
	"bytes": {`\u00e9\u4e2d`, `\u00e`, `\U0001f600x`, `\x41`, `\X4a\x4`, `\101\7\377`, `é`, `\U0001F600`, `\a\b\f\n\r\t\v`, `\\\'\"\?`, `a\x`, `\xg`, `\400`, `\u12`, `\U0011FFFF`,
		`\ud800`, `\q`, `\`, "\xff\xfe", `abc`, ``, `\x414`, `\1234`, `\U00110000`, `\uzzzz`},
	"string": {`plain`, `a\nb`, "é", ``, `\x41`},
	"float":  {"1.5", "inf", "-inf", "nan", "3.4028235e+38", "1e-46", "0x1p-2", "Infinity", "+inf", "1_0", "", " 1"},
	"double": {"1.5", "inf", "nan", "-0", "0x1p-2", "infinity", "NaN"},
	"int32":  {"0", "-2147483648", "2147483648", "+5", "0x10", "1_0", "", "-0", "007"},
	"uint64": {"18446744073709551615", "18446744073709551616", "-1", "+1"},
	"bool":   {"true", "false", "True", "1", ""},
}

// ---------------------------------------------------------------- custom features

// attrsCustomFeatureValue reads the value an element's options set explicitly for feature `feat` of the
// FeatureSet extension `ext` ("-" if unset), from the options message alone.
func (e *attrsEngine) attrsCustomOverride(opts proto.Message, ext protoreflect.ExtensionType, feat protoreflect.Name) string {
	if opts == nil {
		return "-"
	}
	m := opts.ProtoReflect()
	if !m.IsValid() {
		return "-"
	}
	fsField := m.Descriptor().Fields().ByName("features")
	if fsField == nil || !m.Has(fsField) {
		return "-"
	}
	b, err := proto.MarshalOptions{Deterministic: true}.Marshal(m.Get(fsField).Message().Interface())
	if err != nil {
		return "!"
	}
	fs := &descriptorpb.FeatureSet{}
	if err := (proto.UnmarshalOptions{Resolver: attrsOneExtResolver{ext}}).Unmarshal(b, fs); err != nil {
		return "!"
	}
	fr := fs.ProtoReflect()
	if !fr.Has(ext.TypeDescriptor()) {
		return "-"
	}
	sub := fr.Get(ext.TypeDescriptor()).Message()
	fd := sub.Descriptor().Fields().ByName(feat)
	if fd == nil || !sub.Has(fd) {
		return "-"
	}
	return attrsFeatureValue(sub.Get(fd))
}

type attrsOneExtResolver struct{ xt protoreflect.ExtensionType }

func (r attrsOneExtResolver) FindExtensionByName(n protoreflect.FullName) (protoreflect.ExtensionType, error) {
	if n == r.xt.TypeDescriptor().FullName() {
		return r.xt, nil
	}
	return nil, protoregistry.NotFound
}

func (r attrsOneExtResolver) FindExtensionByNumber(m protoreflect.FullName, n protoreflect.FieldNumber) (protoreflect.ExtensionType, error) {
	if m == r.xt.TypeDescriptor().ContainingMessage().FullName() && n == r.xt.TypeDescriptor().Number() {
		return r.xt, nil
	}
	return nil, protoregistry.NotFound
}

func (r attrsOneExtResolver) FindMessageByName(protoreflect.FullName) (protoreflect.MessageType, error) {
	return nil, protoregistry.NotFound
}

func (r attrsOneExtResolver) FindMessageByURL(string) (protoreflect.MessageType, error) {
	return nil, protoregistry.NotFound
}

func attrsFeatureValue(v protoreflect.Value) string {
	switch x := v.Interface().(type) {
	case protoreflect.EnumNumber:
		return fmt.Sprint(int32(x))
	case bool:
		return attrsB01(x)
	default:
		return fmt.Sprintf("%v", x)
	}
}

// attrsCustomFeatureOps: for every element of every compiled file and every field of every message-typed
// extension of google.protobuf.FeatureSet defined in the case, one op
//
//	cfeat <element> ext=<extension> feat=<field> ed=<edition> chain=<own>/<parent>/.../<file> dflt=<edition:value,...>
//
// The facts (explicit overrides along the parent chain, the edition_defaults table) are read from the
// RUNTIME's descriptors and options; Exec answers with protoutil.ResolveCustomFeature on the linker's
// descriptor. `cdflt <extension> feat= ed= dflt=` does the same for protoutil.GetCustomFeatureDefault.
func (e *attrsEngine) attrsCustomFeatureOps() []string {
	var ops []string
	paths := make([]string, 0, len(e.rfiles))
	for p := range e.rfiles {
		paths = append(paths, p)
	}
	sort.Strings(paths)
	type cf struct {
		ext  protoreflect.ExtensionDescriptor
		xt   protoreflect.ExtensionType
		feat protoreflect.FieldDescriptor
		dflt string
	}
	var feats []cf
	for _, p := range paths {
		for _, n := range attrsWalkAll(e.rfiles[p])[1:] {
			d := e.findR(n)
			x, ok := d.(protoreflect.FieldDescriptor)
			if !ok || !x.IsExtension() || x.ContainingMessage().FullName() != "google.protobuf.FeatureSet" || x.Message() == nil {
				continue
			}
			xt := dynamicpb.NewExtensionType(x)
			for i := 0; i < x.Message().Fields().Len(); i++ {
				fd := x.Message().Fields().Get(i)
				fo, _ := fd.Options().(*descriptorpb.FieldOptions)
				var tab []string
				for _, ed := range fo.GetEditionDefaults() {
					val := ed.GetValue()
					if fd.Enum() != nil {
						if ev := fd.Enum().Values().ByName(protoreflect.Name(val)); ev != nil {
							val = fmt.Sprint(int32(ev.Number()))
						}
					} else if fd.Kind() == protoreflect.BoolKind {
						val = attrsB01(val == "true")
					}
					tab = append(tab, fmt.Sprintf("%d:%s", int32(ed.GetEdition()), val))
				}
				feats = append(feats, cf{x, xt, fd, attrsDashIfEmpty(strings.Join(tab, ","))})
			}
		}
	}
	for _, f := range feats {
		for _, ed := range []int{900, 998, 999, 1000, 1001} {
			ops = append(ops, fmt.Sprintf("cdflt %s feat=%s ed=%d dflt=%s", f.ext.FullName(), f.feat.Name(), ed, f.dflt))
		}
		for _, p := range paths {
			rf := e.rfiles[p]
			ed := 998
			switch rf.Syntax() {
			case protoreflect.Proto3:
				ed = 999
			case protoreflect.Editions:
				if he, ok := rf.(interface{ Edition() int32 }); ok {
					ed = int(he.Edition())
				}
			}
			for _, n := range attrsWalkAll(rf) {
				var d protoreflect.Descriptor = rf
				if !strings.HasPrefix(n, "@") {
					d = e.findR(n)
				}
				if d == nil {
					continue
				}
				var chain []string
				for x := d; x != nil; x = x.Parent() {
					chain = append(chain, e.attrsCustomOverride(x.Options(), f.xt, f.feat.Name()))
				}
				ops = append(ops, fmt.Sprintf("cfeat %s ext=%s feat=%s ed=%d chain=%s dflt=%s", n, f.ext.FullName(), f.feat.Name(), ed,
					strings.Join(chain, "/"), f.dflt))
			}
		}
	}
	return ops
}

// attrsCustomFeatureExec answers cfeat / cdflt with protoutil on the LINKER's descriptors.
func (e *attrsEngine) attrsCustomFeatureExec(w []string) string {
	if e.status != "ok" {
		return "bad-state not-compiled"
	}
	kv := attrsKV(w[2:])
	var ext protoreflect.ExtensionTypeDescriptor
	extName := kv["ext"]
	if w[0] == "cdflt" {
		extName = w[1]
	}
	if d := e.findL(extName); d != nil {
		ext, _ = d.(protoreflect.ExtensionTypeDescriptor)
	}
	if ext == nil || ext.Message() == nil {
		return "bad-state no-such-extension"
	}
	feat := ext.Message().Fields().ByName(protoreflect.Name(kv["feat"]))
	if feat == nil {
		return "bad-state no-such-feature"
	}
	if w[0] == "cdflt" {
		ed, err := strconv.Atoi(kv["ed"])
		if err != nil {
			return "bad-op"
		}
		v, err := protoutil.GetCustomFeatureDefault(descriptorpb.Edition(ed), ext.Type(), feat)
		if err != nil {
			return "v=err"
		}
		return "v=" + attrsFeatureValue(v)
	}
	var el protoreflect.Descriptor
	if strings.HasPrefix(w[1], "@") {
		if f, ok := e.lfiles[w[1][1:]]; ok {
			el = f
		}
	} else {
		el = e.findL(w[1])
	}
	if el == nil {
		return "bad-state no-such-element"
	}
	if xt, ok := el.(protoreflect.ExtensionTypeDescriptor); ok {
		el = xt.Descriptor()
	}
	v, err := protoutil.ResolveCustomFeature(el, ext.Type(), feat)
	if err != nil {
		return "v=err"
	}
	return "v=" + attrsFeatureValue(v)
}

// ---------------------------------------------------------------- directed "kitchen sink" files

const attrsSinkFeatures = `edition = "2023";
package myf;
import "google/protobuf/descriptor.proto";
extend google.protobuf.FeatureSet { MyFeatures my = 9999; }
message MyFeatures {
  enum Mode { MODE_UNKNOWN = 0; FAST = 1; SAFE = 2; }
  Mode mode = 1 [
    retention = RETENTION_RUNTIME,
    targets = TARGET_TYPE_FILE, targets = TARGET_TYPE_MESSAGE, targets = TARGET_TYPE_FIELD, targets = TARGET_TYPE_ENUM,
    targets = TARGET_TYPE_ONEOF, targets = TARGET_TYPE_SERVICE, targets = TARGET_TYPE_METHOD, targets = TARGET_TYPE_ENUM_ENTRY,
    feature_support = { edition_introduced: EDITION_2023 },
    edition_defaults = { edition: EDITION_LEGACY, value: "SAFE" },
    edition_defaults = { edition: EDITION_2023, value: "FAST" }
  ];
  bool flag = 2 [
    retention = RETENTION_RUNTIME,
    targets = TARGET_TYPE_FILE, targets = TARGET_TYPE_MESSAGE, targets = TARGET_TYPE_FIELD,
    feature_support = { edition_introduced: EDITION_2023 },
    edition_defaults = { edition: EDITION_LEGACY, value: "false" },
    edition_defaults = { edition: EDITION_PROTO3, value: "true" }
  ];
}
`

const attrsSinkUse = `edition = "2023";
package use;
import "myfeat.proto";
import "sinkdep.proto";
option features.(myf.my).mode = SAFE;
option features.field_presence = IMPLICIT;
message M {
  option features.(myf.my).flag = false;
  int32 a = 1 [features.(myf.my).mode = FAST];
  int32 b = 2;
  message N {
    option features.(myf.my).mode = FAST;
    int32 c = 1 [features.(myf.my).flag = true, features.field_presence = EXPLICIT];
    oneof o { option features.(myf.my).mode = SAFE; string s = 2; bytes t = 3; }
    enum E { option features.(myf.my).mode = SAFE; E0 = 0 [features.(myf.my).mode = FAST]; E1 = 1; }
  }
  sink.P2 p2 = 3;
  extensions 100 to 199;
}
extend M { int32 x = 100 [features.(myf.my).mode = SAFE]; }
service S { option features.(myf.my).mode = FAST; rpc R(M) returns (M) { option features.(myf.my).mode = SAFE; } rpc Q(M) returns (M); }
`

const attrsSinkDep = `syntax = "proto2";
package sink;
message P2 { optional int32 a = 1; enum PE { PE0 = 0; PE1 = 1; } }
`

const attrsSinkMain = `syntax = "proto2";
package sink.main;
import "google/protobuf/descriptor.proto";
import public "sinkdep.proto";
import weak "sinkweak.proto";
option java_package = "com.example.sink";
option deprecated = true;
extend google.protobuf.MessageOptions { optional string note = 50001; }
extend google.protobuf.ExtensionRangeOptions { optional int32 rng = 50002; }
// leading comment of Kitchen
message Kitchen {
  option (note) = "hello";
  option deprecated = true;
  reserved 5 to 9, 11, 1000 to max;
  reserved "gone", "also_gone";
  extensions 100 to 199 [verification = UNVERIFIED, (rng) = 7];
  extensions 300, 400 to 499;
  optional bytes b1 = 1 [default = "\x41\X4a\101é\U0001F600\a\b\f\n\r\t\v\\\'\"\?"];
  optional string s1 = 2 [default = "\x41\101é\a\b\f\n\r\t\v\\\'\"\?", json_name = "S_one"];
  optional bytes b2 = 3 [default = "\377\000z"];
  required int32 r1 = 4 [deprecated = true];
  repeated sint64 rs = 12 [packed = true];
  map<string, Kitchen> by_name = 13;
  map<int32, sink.P2.PE> pe_by_id = 14 [json_name = "PEs"];
  optional group Legacy = 15 { optional int32 z = 1; }
  oneof choice {
    int32 c_int = 16;
    Kitchen c_msg = 17 [lazy = true];
    group Cgrp = 18 { optional string y = 1; }
  }
  oneof single { bool only = 19; }
  optional sink.P2 dep = 20;
  optional weak.W w = 21 [weak = true];
  optional float f1 = 22 [default = -inf];
  optional double d1 = 23 [default = 1e-320];
  optional Color col = 24 [default = BLUE];
  enum Color {
    option allow_alias = true;
    RED = 0 [deprecated = true];
    BLUE = 5;
    AZURE = 5;
    NEG = -3;
    reserved 10 to 20, 30, 100 to max;
    reserved "GREEN", "MAUVE";
  }
  message Inner { optional Inner self = 1; extend Kitchen { optional Inner inner_ext = 150; } }
  extend Kitchen { repeated int64 nums = 151 [packed = true]; optional group XGroup = 152 { optional int32 q = 1; } }
}
extend Kitchen { optional string top_ext = 199; optional Kitchen.Color col_ext = 100 [default = NEG]; }
enum TopE { T0 = 0; T1 = 1; }
// a service
service Cook {
  option deprecated = true;
  rpc Unary(Kitchen) returns (sink.P2) { option idempotency_level = IDEMPOTENT; }
  rpc ClientStream(stream Kitchen) returns (Kitchen);
  rpc ServerStream(Kitchen) returns (stream Kitchen) { option deprecated = true; }
  rpc Bidi(stream Kitchen) returns (stream Kitchen);
}
service Empty {}
`

const attrsSinkWeak = `syntax = "proto2";
package weak;
message W { optional int32 a = 1; }
`

const attrsSinkProto3 = `syntax = "proto3";
package sink.p3;
import "google/protobuf/descriptor.proto";
message P {
  optional int32 a = 1;
  optional P b = 2;
  string c = 3 [json_name = "C"];
  oneof real { int32 d = 4; string e = 5; }
  optional bytes f = 6;
  map<string, bytes> m = 7;
  repeated E es = 8 [packed = false];
  enum E { E_ZERO = 0; E_ONE = 1; reserved 2 to 4; reserved "E_OLD"; }
  reserved 20 to 29;
  reserved "x", "y";
}
extend google.protobuf.FieldOptions { optional string tag = 50010; repeated int32 tags = 50011; }
service S3 { rpc A(P) returns (P); rpc B(stream P) returns (stream P); }
`

// attrsSinkCases: two directed cases exercising every view method (reserved names and ranges, extension
// ranges with options, services and streaming flags, real and synthetic oneofs, weak and public imports,
// defaults with every escape form, maps, json_name overrides, aliases, groups, custom options, comments)
// and custom-feature resolution.
func attrsSinkCases() [][]string {
	var cases [][]string
	c1 := attrsCase(map[string]string{"sinkdep.proto": attrsSinkDep, "sinkweak.proto": attrsSinkWeak, "sink.proto": attrsSinkMain,
		"sink3.proto": attrsSinkProto3}, []string{"sinkdep.proto", "sinkweak.proto", "sink.proto", "sink3.proto"}, false)
	cases = append(cases, c1)
	cases = append(cases, attrsCaseCustom(map[string]string{"myfeat.proto": attrsSinkFeatures, "sinkdep.proto": attrsSinkDep, "use.proto": attrsSinkUse},
		[]string{"myfeat.proto", "sinkdep.proto", "use.proto"}))
	return cases
}

// attrsCaseCustom: a case whose element ops are followed by the custom-feature ops.
func attrsCaseCustom(srcs map[string]string, order []string) []string {
	c := attrsCase(srcs, order, false)
	ge := &attrsEngine{noConc: true}
	ge.Reset()
	for _, p := range order {
		ge.Exec("src " + p + " " + attrsHexS(srcs[p]))
	}
	ge.Exec("compile")
	if ge.status == "ok" {
		c = append(c, ge.attrsCustomFeatureOps()...)
	}
	return c
}

// attrsRawDefaultCases: one case per raw default string.
func attrsRawDefaultCases(r *Rand, n int) [][]string {
	var cases [][]string
	kinds := make([]string, 0, len(attrsRawDefaults))
	for k := range attrsRawDefaults {
		kinds = append(kinds, k)
	}
	sort.Strings(kinds)
	add := func(kind, def string) {
		h := attrsHexS(def)
		cases = append(cases, []string{"rawdef " + kind + " " + h + " x=" + attrsHexS(attrsRawDefault(kind, h))})
	}
	for _, k := range kinds {
		for _, d := range attrsRawDefaults[k] {
			add(k, d)
		}
	}
	// no unescaped double quote: the compiler always escapes it, and the runtime's decoder (which parses
	// `"` + value + `"` as a text-format string) stops at a raw one
	alpha := []string{`\`, `x`, `X`, `u`, `U`, `0`, `3`, `7`, `8`, `a`, `f`, `n`, `'`, `?`, `A`, "\xc3\xa9", "\xff"}
	for i := 0; i < n; i++ {
		var sb strings.Builder
		for j, m := 0, 1+r.Intn(10); j < m; j++ {
			if r.Chance(1, 3) {
				sb.WriteString(`\`)
			}
			sb.WriteString(Pick(r, alpha))
		}
		add("bytes", sb.String())
	}
	return cases
}

// ---------------------------------------------------------------- concurrent first observation

// attrsConcWorkers: goroutines that make the first observation of a freshly compiled file together.
const attrsConcWorkers = 4

// concFirstObservation lets attrsConcWorkers goroutines make the FIRST observation of the linker's
// descriptors at the same time: nothing has called a view method of e.lall yet (the runtime's descriptors
// were built from the protos alone). The elements are taken in chunks - a message, enum, service or file
// with the fields / oneofs / values / methods that follow it - and every chunk goes through
// ConcFirst(attrsConcWorkers, ...): each goroutine runs the whole view walk of the chunk (attrs_view.go)
// plus the resolved-feature vector of each element. Every goroutine must get the lone caller's answer;
// the sequential ops that follow see any permanent damage. It returns "" or a description
// "conc-differs <element> <answer a> | <answer b>".
func (e *attrsEngine) concFirstObservation(sample int) string {
	if e.status != "ok" {
		return ""
	}
	paths := make([]string, 0, len(e.rfiles))
	for p := range e.rfiles {
		paths = append(paths, p)
	}
	sort.Strings(paths)
	// everything the walk shares must exist before the goroutines start (runtime side only)
	var chunks [][]string
	for _, p := range paths {
		for _, n := range e.walkAllCached(e.rfiles[p]) {
			isHead := strings.HasPrefix(n, "@")
			if !isHead {
				switch e.findR(n).(type) {
				case protoreflect.MessageDescriptor, protoreflect.EnumDescriptor, protoreflect.ServiceDescriptor:
					isHead = true
				}
			}
			if isHead || len(chunks) == 0 {
				chunks = append(chunks, nil)
			}
			chunks[len(chunks)-1] = append(chunks[len(chunks)-1], n)
		}
	}
	for ci, chunk := range chunks {
		if sample > 1 && ci%sample != 0 && !e.chunkHasRequired(chunk) {
			continue
		}
		var slot atomic.Int32
		var outs [attrsConcWorkers][]string
		res := ConcFirst(attrsConcWorkers, func() string {
			me := int(slot.Add(1)-1) % attrsConcWorkers
			out := make([]string, 0, len(chunk))
			for _, n := range chunk {
				a := e.viewAnswer(n)
				if !strings.HasPrefix(n, "@") {
					if l := e.findL(n); l != nil {
						a += " rf=" + attrsResolved(l)
					}
				}
				out = append(out, a)
			}
			outs[me] = out
			return strings.Join(out, "\n")
		})
		if strings.HasPrefix(res, "panic ") {
			return "conc-differs " + chunk[0] + " " + attrsTrim(res)
		}
		if strings.HasPrefix(res, "conc-differs ") {
			for k := range chunk {
				for w := 1; w < attrsConcWorkers; w++ {
					if k < len(outs[0]) && k < len(outs[w]) && outs[0][k] != outs[w][k] {
						return "conc-differs " + chunk[k] + " " + attrsTrim(outs[0][k]) + " | " + attrsTrim(outs[w][k])
					}
				}
			}
			return "conc-differs " + chunk[0] + " " + attrsTrim(res)
		}
	}
	return ""
}

// chunkHasRequired: the chunk is a message with a required field (by label or LEGACY_REQUIRED) - read off
// the runtime's descriptor.
func (e *attrsEngine) chunkHasRequired(chunk []string) bool {
	if len(chunk) == 0 || strings.HasPrefix(chunk[0], "@") {
		return false
	}
	if m, ok := e.findR(chunk[0]).(protoreflect.MessageDescriptor); ok {
		return m.RequiredNumbers().Len() > 0
	}
	return false
}

// attrsRequiredCases: messages with many required fields (proto2 `required`, editions LEGACY_REQUIRED, mixed
// with optional / repeated / oneof members), many messages per file: RequiredNumbers() and whatever else is
// derived from the field list, first observed by several goroutines at once (see concFirstObservation).
func attrsRequiredCases(nMsgs int) [][]string {
	var p2, ed strings.Builder
	p2.WriteString("syntax = \"proto2\";\npackage rq2;\n")
	ed.WriteString("edition = \"2023\";\npackage rqe;\n")
	for i := 0; i < nMsgs; i++ {
		p2.WriteString(fmt.Sprintf("message R%d {\n", i))
		ed.WriteString(fmt.Sprintf("message R%d {\n", i))
		for j := 1; j <= 14; j++ {
			switch {
			case j%7 == 3:
				p2.WriteString(fmt.Sprintf("  optional int32 o%d = %d;\n", j, j+20*(i%3)))
				ed.WriteString(fmt.Sprintf("  int32 o%d = %d;\n", j, j+20*(i%3)))
			case j%7 == 5:
				p2.WriteString(fmt.Sprintf("  repeated string r%d = %d;\n", j, j+20*(i%3)))
				ed.WriteString(fmt.Sprintf("  repeated string r%d = %d;\n", j, j+20*(i%3)))
			default:
				typ := []string{"int32", "string", "bytes", "R0", "double"}[(i+j)%5]
				p2.WriteString(fmt.Sprintf("  required %s q%d = %d;\n", typ, j, j+20*(i%3)))
				ed.WriteString(fmt.Sprintf("  %s q%d = %d [features.field_presence = LEGACY_REQUIRED];\n", typ, j, j+20*(i%3)))
			}
		}
		p2.WriteString("  oneof o { int32 a = 100; string b = 101; }\n}\n")
		ed.WriteString("  oneof o { int32 a = 100; string b = 101; }\n}\n")
	}
	return [][]string{
		attrsCase(map[string]string{"rq2.proto": p2.String()}, []string{"rq2.proto"}, false),
		attrsCase(map[string]string{"rqe.proto": ed.String()}, []string{"rqe.proto"}, false),
	}
}
