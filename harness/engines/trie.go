package engines

import (
	"fmt"
	"os"
	"strconv"
	"strings"

	"github.com/bufbuild/protocompile/verifhooks"
)

// trie: internal/trie Trie[int] (C41). Stateful: a case is a sequence of inserts and
// queries against one trie.
//
// ops:  ins <hexkey> <value>   -> w=<index bits> hi=<#hi nodes> lo=<#lo nodes>
//
//	get <hexquery>         -> <hexprefix> <value>
//	pre <hexquery>         -> <hexprefix>=<value>,... | -
//	dump                   -> node tables (nybbles.dump, newlines as |)
type trieEngine struct {
	t *verifhooks.Trie
}

func init() { Register("trie", func() Engine { return &trieEngine{} }) }

func (e *trieEngine) Name() string { return "trie" }
func (e *trieEngine) Reset()       { e.t = new(verifhooks.Trie) }

func trieHex(s string) (b []byte, ok bool) {
	defer func() {
		if recover() != nil {
			ok = false
		}
	}()
	return UnHex(s), true
}

func (e *trieEngine) Exec(op string) string {
	if e.t == nil {
		e.Reset()
	}
	w := strings.Fields(op)
	switch {
	case len(w) == 3 && w[0] == "ins":
		k, ok := trieHex(w[1])
		v, ok2 := tsNat(w[2])
		if !ok || !ok2 {
			return "bad-op"
		}
		e.t.Insert(string(k), v)
		bits, hi, lo := e.t.Stats()
		return fmt.Sprintf("w=%d hi=%d lo=%d", bits, hi, lo)
	case len(w) == 2 && w[0] == "get":
		q, ok := trieHex(w[1])
		if !ok {
			return "bad-op"
		}
		p, v := e.t.Get(string(q))
		return Hex([]byte(p)) + " " + strconv.Itoa(v)
	case len(w) == 2 && w[0] == "pre":
		q, ok := trieHex(w[1])
		if !ok {
			return "bad-op"
		}
		ks, vs := e.t.Prefixes(string(q))
		if len(ks) == 0 {
			return "-"
		}
		parts := make([]string, len(ks))
		for i := range ks {
			parts[i] = Hex([]byte(ks[i])) + "=" + strconv.Itoa(vs[i])
		}
		return strings.Join(parts, ",")
	case len(w) == 1 && w[0] == "dump":
		return strings.ReplaceAll(e.t.Dump(), "\n", "|")
	}
	return "bad-op"
}

func (e *trieEngine) Trivial(op, ans string) bool {
	return ans == "-" || ans == "- 0"
}

func (e *trieEngine) Class(op, ans string) string {
	w := strings.Fields(op)
	switch w[0] {
	case "ins":
		b, _, _ := strings.Cut(ans, " ")
		return "ins/" + b
	case "pre":
		if ans == "-" {
			return "pre/0"
		}
		n := strings.Count(ans, ",") + 1
		if n > 3 {
			return "pre/4+"
		}
		return "pre/" + strconv.Itoa(n)
	case "get":
		if ans == "- 0" {
			return "get/none-or-empty"
		}
		if len(w) == 2 && strings.HasPrefix(ans, w[1]+" ") {
			return "get/exact"
		}
		return "get/proper-prefix"
	}
	return w[0]
}

// all strings over alpha with length <= n, shortest first
func trieStrings(alpha []byte, n int) [][]byte {
	out := [][]byte{{}}
	prev := [][]byte{{}}
	for l := 1; l <= n; l++ {
		var cur [][]byte
		for _, p := range prev {
			for _, c := range alpha {
				cur = append(cur, append(append([]byte{}, p...), c))
			}
		}
		out = append(out, cur...)
		prev = cur
	}
	return out
}

func (e *trieEngine) Gen(r *Rand, tier string) [][]string {
	thorough := tier == "thorough"
	var cases [][]string
	ins := func(k []byte, v int) string { return "ins " + Hex(k) + " " + strconv.Itoa(v) }
	alpha := []byte{'a', 'b', 0x10, 0xff}

	// 1. exhaustive: every ordered pair (quick) / triple (thorough) of keys of length <= 2
	// over {a, b, 0x10, 0xff} (so duplicates, prefixes of each other, shared hi nybble 6 of
	// a/b, and the empty key all occur), queried with every string of length <= 3.
	keys := trieStrings(alpha, 2)
	queries := trieStrings(alpha, 3)
	var qops []string
	for _, q := range queries {
		qops = append(qops, "pre "+Hex(q), "get "+Hex(q))
	}
	cases = append(cases, append([]string{"dump", "pre -", "get -", "pre 61", "get 6162"}, "dump"))
	for i, a := range keys {
		for j, b := range keys {
			if !thorough {
				c := []string{ins(a, 1), ins(b, 2)}
				c = append(c, qops...)
				c = append(c, "dump")
				cases = append(cases, c)
				continue
			}
			for k, d := range keys {
				c := []string{ins(a, 1), ins(b, 2), ins(d, 3)}
				// all queries would be 9261*170 ops; rotate through thirds of them
				third := (i + j + k) % 3
				for qi := third; qi < len(qops); qi += 3 {
					c = append(c, qops[qi])
				}
				c = append(c, "dump")
				cases = append(cases, c)
			}
		}
	}

	// 2. random key sets, interleaved inserts (with re-insertions and value 0) and queries
	randKey := func(al []byte, maxLen int) []byte {
		l := r.Intn(maxLen + 1)
		k := make([]byte, l)
		for i := range k {
			k[i] = Pick(r, al)
		}
		return k
	}
	alphas := [][]byte{
		{'a', 'b'},
		alpha,
		{0x00, 0x01, 0x10, 0x11, 0xf0, 0x0f, 0xff, 0xfe},
		[]byte("abcdefghijklmnopqrstuvwxyz_."),
	}
	full := make([]byte, 256)
	for i := range full {
		full[i] = byte(i)
	}
	alphas = append(alphas, full)
	cnt := 250
	if thorough {
		cnt = 20000
	}
	query := func(c []string, inserted [][]byte, al []byte) []string {
		var q []byte
		switch r.Intn(5) {
		case 0:
			q = randKey(al, 6)
		case 1, 2: // an inserted key, extended
			if len(inserted) > 0 {
				q = append([]byte{}, Pick(r, inserted)...)
			}
			q = append(q, randKey(al, 3)...)
		case 3: // an inserted key, truncated
			if len(inserted) > 0 {
				k := Pick(r, inserted)
				q = k[:r.Intn(len(k)+1)]
			}
		case 4: // an inserted key with one byte changed in one nybble
			if len(inserted) > 0 {
				q = append([]byte{}, Pick(r, inserted)...)
			}
			if len(q) > 0 {
				q[r.Intn(len(q))] ^= byte(1 << r.Intn(8))
			}
		}
		if r.Bool() {
			return append(c, "pre "+Hex(q))
		}
		return append(c, "get "+Hex(q))
	}
	for i := 0; i < cnt; i++ {
		al := Pick(r, alphas)
		n := 1 + r.Intn(12)
		var c []string
		var inserted [][]byte
		for j := 0; j < n; j++ {
			var k []byte
			if len(inserted) > 0 && r.Chance(1, 5) {
				k = Pick(r, inserted) // re-insert
			} else if len(inserted) > 0 && r.Chance(1, 4) {
				k = append(append([]byte{}, Pick(r, inserted)...), randKey(al, 2)...)
			} else {
				k = randKey(al, 5)
			}
			inserted = append(inserted, k)
			v := r.Intn(1000)
			if r.Chance(1, 10) {
				v = 0
			}
			c = append(c, ins(k, v))
			for q := r.Intn(4); q > 0; q-- {
				c = query(c, inserted, al)
			}
		}
		for q := 0; q < 6; q++ {
			c = query(c, inserted, al)
		}
		c = append(c, "pre "+Hex(Pick(r, inserted)), "dump")
		cases = append(cases, c)
	}

	// 3. index-width growth uint8 -> uint16: the 255th hi node cannot be allocated in a
	// nybbles[uint8]. The number of hi nodes is 1 + the number of distinct non-empty
	// prefixes of the inserted keys, so the generator knows it exactly: fill the trie to
	// exactly 255-d nodes, then insert a key that needs 0..4 more nodes, in the variants
	// "lo row exists" / "lo row must be allocated first" (the failed insertion leaves a
	// half-built path behind before grow and the retry).
	type counter struct {
		seen map[string]bool
		n    int
	}
	newCounter := func() *counter { return &counter{seen: map[string]bool{}, n: 1} }
	cost := func(c *counter, k []byte) int {
		d := 0
		for i := 1; i <= len(k); i++ {
			if !c.seen[string(k[:i])] {
				d++
			}
		}
		return d
	}
	add := func(c *counter, k []byte) {
		for i := 1; i <= len(k); i++ {
			if !c.seen[string(k[:i])] {
				c.seen[string(k[:i])] = true
				c.n++
			}
		}
	}
	// fillTo inserts random keys (never using first byte 0xf7/0xee, reserved for the
	// probes) until exactly target nodes exist.
	fillTo := func(cn *counter, c []string, inserted [][]byte, target int, al []byte, maxLen int) ([]string, [][]byte) {
		for cn.n < target {
			var k []byte
			if len(inserted) > 0 && r.Chance(1, 3) {
				k = append(append([]byte{}, Pick(r, inserted)...), randKey(al, 3)...)
			} else {
				k = randKey(al, maxLen)
			}
			if len(k) == 0 || k[0] == 0xf7 || k[0] == 0xee {
				continue
			}
			for cost(cn, k) > target-cn.n {
				k = k[:len(k)-1]
			}
			if cost(cn, k) == 0 && r.Chance(3, 4) {
				continue
			}
			add(cn, k)
			inserted = append(inserted, k)
			c = append(c, ins(k, 1+r.Intn(99999)))
		}
		return c, inserted
	}
	probe := func(c []string, inserted [][]byte, al []byte, tail []byte) []string {
		var ex []byte
		if len(inserted) > 0 {
			ex = Pick(r, inserted)
		}
		tails := [][]byte{
			tail,
			append(append([]byte{}, ex...), 0x01), // one node below an existing key
			append(append([]byte{}, ex...), 0x0f, 0x01), // two nodes below an existing key
			{0xf7, 0x34}, {0xee, 0xee, 0xee},
		}
		for i, k := range tails {
			c = append(c, ins(k, 4242+i))
			inserted = append(inserted, k)
		}
		for _, k := range inserted {
			c = append(c, "get "+Hex(append(append([]byte{}, k...), 0x42)))
		}
		c = append(c, "pre "+Hex(append(append([]byte{}, tail...), 0x42)), "pre f73344556677", "get f734", "get eeeeeeee")
		for q := 0; q < 30; q++ {
			c = query(c, inserted, al)
		}
		return c
	}
	tails := [][]byte{
		{0xf7},                   // fresh first byte: lo row allocated, then the hi node
		{0xf7, 0x33},             // two fresh bytes
		{0xf7, 0x33, 0x44, 0x55}, // four fresh bytes
		{},                       // empty key: no allocation
	}
	reps := 1
	if thorough {
		reps = 12
	}
	for rep := 0; rep < reps; rep++ {
		for d := 0; d <= 4; d++ {
			for ti, tail := range tails {
				if !thorough && (d+ti)%2 == 1 {
					continue
				}
				cn := newCounter()
				c, inserted := fillTo(cn, nil, nil, 255-d, Pick(r, alphas[2:]), 1+r.Intn(6))
				cases = append(cases, probe(c, inserted, full, tail))
			}
		}
	}
	// random fills running across the boundary with interleaved queries
	gcnt := 4
	if thorough {
		gcnt = 300
	}
	for i := 0; i < gcnt; i++ {
		al := Pick(r, alphas[2:])
		cn := newCounter()
		c, inserted := fillTo(cn, nil, nil, 200+r.Intn(50), al, 8)
		limit := 260 + r.Intn(120)
		for cn.n < limit {
			k := randKey(al, 8)
			if r.Chance(1, 3) {
				k = append(append([]byte{}, Pick(r, inserted)...), randKey(al, 4)...)
			}
			add(cn, k)
			inserted = append(inserted, k)
			c = append(c, ins(k, 1+r.Intn(99999)))
			c = query(c, inserted, al)
			c = query(c, inserted, al)
		}
		for _, k := range inserted {
			c = append(c, "get "+Hex(k))
		}
		for q := 0; q < 40; q++ {
			c = query(c, inserted, al)
		}
		cases = append(cases, c)
	}
	// 4. (thorough only, opt-in) the uint16 -> uint32 boundary at 65535 hi nodes, once: exactly 65533
	// nodes from random keys of up to 3 bytes, then probes across the boundary (the first
	// probe needs 4 new nodes, so it fails in the middle, grows, and retries).
	// Costs ~15 minutes in the list-based Lean model, so it only runs on request:
	// VERIF_TRIE_U16=1 ./check C41 --tier thorough
	if thorough && os.Getenv("VERIF_TRIE_U16") == "1" {
		cn := newCounter()
		c, inserted := fillTo(cn, nil, nil, 65533, full, 3)
		var sample [][]byte
		for i := 0; i < 150; i++ {
			sample = append(sample, Pick(r, inserted))
		}
		c = probe(c, sample, full, []byte{0xf7, 0x33, 0x44, 0x55})
		cases = append(cases, c)
	}
	return cases
}
