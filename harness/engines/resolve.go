package engines

import (
	"context"
	"errors"
	"fmt"
	"regexp"
	"sort"
	"strconv"
	"strings"

	"github.com/bufbuild/protocompile"
	"github.com/bufbuild/protocompile/linker"
	"github.com/bufbuild/protocompile/reporter"
	"github.com/bufbuild/protocompile/verifhooks"
	"google.golang.org/protobuf/reflect/protoreflect"
)

// ---------------------------------------------------------------------------
// Shared by the `visibility` (C18) and `resolve` (C15) engines: abstract files
// (package, imports with public flag, element tokens) rendered as .proto source.
//
// wire form of a file:   <pkg>;<imports>;<tokens>     ("-" = empty)
//   imports  comma list of p<idx> (public) / i<idx> (plain)
//   tokens   comma list of <k>:<full.name>, k in m e v s r f o, and
//            x:<full.name>><extendee>#<number> (extension; extendee/number optional)
// ---------------------------------------------------------------------------

type rsvImp struct {
	idx int
	pub bool
}

type rsvTok struct {
	kind     string // m e v s r f o x
	name     string // full name
	extendee string
	num      int
}

type rsvFile struct {
	pkg  string
	imps []rsvImp
	toks []rsvTok
}

func rsvPath(i int) string { return fmt.Sprintf("f%d.proto", i) }

func rsvPathIdx(p string) int {
	if !strings.HasPrefix(p, "f") || !strings.HasSuffix(p, ".proto") {
		return -1
	}
	n, err := strconv.Atoi(p[1 : len(p)-6])
	if err != nil {
		return -1
	}
	return n
}

func rsvCSV(s string) []string {
	if s == "-" || s == "" {
		return nil
	}
	return strings.Split(s, ",")
}

func rsvParseFile(w string) (*rsvFile, error) {
	parts := strings.Split(w, ";")
	if len(parts) != 3 {
		return nil, fmt.Errorf("bad file word %q", w)
	}
	f := &rsvFile{}
	if parts[0] != "-" {
		f.pkg = parts[0]
	}
	for _, s := range rsvCSV(parts[1]) {
		if len(s) < 2 || (s[0] != 'p' && s[0] != 'i') {
			return nil, fmt.Errorf("bad import %q", s)
		}
		n, err := strconv.Atoi(s[1:])
		if err != nil {
			return nil, err
		}
		f.imps = append(f.imps, rsvImp{idx: n, pub: s[0] == 'p'})
	}
	for _, s := range rsvCSV(parts[2]) {
		k, rest, ok := strings.Cut(s, ":")
		if !ok || len(k) != 1 || !strings.Contains("mevsrfox", k) {
			return nil, fmt.Errorf("bad token %q", s)
		}
		t := rsvTok{kind: k, name: rest}
		if k == "x" {
			if n, et, ok := strings.Cut(rest, ">"); ok {
				t.name = n
				e, num, ok := strings.Cut(et, "#")
				if !ok {
					return nil, fmt.Errorf("bad ext token %q", s)
				}
				t.extendee = e
				v, err := strconv.Atoi(num)
				if err != nil {
					return nil, err
				}
				t.num = v
			}
		}
		f.toks = append(f.toks, t)
	}
	return f, nil
}

func (f *rsvFile) word() string {
	pkg := f.pkg
	if pkg == "" {
		pkg = "-"
	}
	var imps, toks []string
	for _, i := range f.imps {
		c := "i"
		if i.pub {
			c = "p"
		}
		imps = append(imps, c+strconv.Itoa(i.idx))
	}
	for _, t := range f.toks {
		s := t.kind + ":" + t.name
		if t.kind == "x" && t.extendee != "" {
			s += ">" + t.extendee + "#" + strconv.Itoa(t.num)
		}
		toks = append(toks, s)
	}
	j := func(xs []string) string {
		if len(xs) == 0 {
			return "-"
		}
		return strings.Join(xs, ",")
	}
	return pkg + ";" + j(imps) + ";" + j(toks)
}

type rsvNode struct {
	kind     string
	simple   string
	full     string
	extendee string
	num      int
	kids     []*rsvNode
	inOneof  *rsvNode // field placed inside this oneof
	extra    []string // extra body lines (probes)
}

func rsvParent(full string) string {
	i := strings.LastIndexByte(full, '.')
	if i < 0 {
		return ""
	}
	return full[:i]
}

func rsvSimple(full string) string {
	return full[strings.LastIndexByte(full, '.')+1:]
}

// rsvTree arranges the tokens of a file as a declaration tree. Rules (kept by the generators):
// the parent of a name is the package (top level) or an earlier m token (s for an r token);
// a v token belongs to the closest earlier e token with the same parent; the f token that
// directly follows an o token with the same parent is placed inside that oneof.
func rsvTree(f *rsvFile) (*rsvNode, map[string]*rsvNode, error) {
	root := &rsvNode{kind: "file", full: f.pkg}
	byName := map[string]*rsvNode{}
	var prev *rsvNode
	for _, t := range f.toks {
		par := rsvParent(t.name)
		var pn *rsvNode
		if par == f.pkg {
			pn = root
		} else {
			pn = byName[par]
			if pn == nil {
				return nil, nil, fmt.Errorf("token %s: parent %q is not declared in this file", t.name, par)
			}
		}
		n := &rsvNode{kind: t.kind, simple: rsvSimple(t.name), full: t.name, extendee: t.extendee, num: t.num}
		switch t.kind {
		case "m", "e", "x":
			if pn.kind != "file" && pn.kind != "m" {
				return nil, nil, fmt.Errorf("token %s: bad parent kind %s", t.name, pn.kind)
			}
		case "s":
			if pn.kind != "file" {
				return nil, nil, fmt.Errorf("token %s: service must be top level", t.name)
			}
		case "r":
			if pn.kind != "s" {
				return nil, nil, fmt.Errorf("token %s: method outside service", t.name)
			}
		case "f", "o":
			if pn.kind != "m" {
				return nil, nil, fmt.Errorf("token %s: field/oneof outside message", t.name)
			}
			if t.kind == "f" && prev != nil && prev.kind == "o" && rsvParent(prev.full) == par && len(prev.kids) == 0 {
				n.inOneof = prev
				prev.kids = append(prev.kids, n)
				byName[t.name] = n
				prev = n
				continue
			}
		case "v":
			var en *rsvNode
			for i := len(pn.kids) - 1; i >= 0; i-- {
				if pn.kids[i].kind == "e" {
					en = pn.kids[i]
					break
				}
			}
			if en == nil {
				return nil, nil, fmt.Errorf("token %s: no enum to hold the value", t.name)
			}
			en.kids = append(en.kids, n)
			byName[t.name] = n
			prev = n
			continue
		}
		if _, dup := byName[t.name]; dup {
			return nil, nil, fmt.Errorf("token %s: duplicate in file", t.name)
		}
		pn.kids = append(pn.kids, n)
		byName[t.name] = n
		prev = n
	}
	return root, byName, nil
}

// rsvExtBase is the extendee used for extension tokens that name none.
const rsvExtBase = "zz.Base"

type rsvPrinter struct {
	sb       strings.Builder
	firstMsg string // absolute name of some message for method types
	nextTag  *int   // extension numbers for x tokens without an explicit number
}

func (p *rsvPrinter) node(n *rsvNode, ind string) error {
	switch n.kind {
	case "m":
		fmt.Fprintf(&p.sb, "%smessage %s {\n%s  extensions 100 to 9999;\n", ind, n.simple, ind)
		fn := 1
		for _, k := range n.kids {
			switch k.kind {
			case "f":
				fmt.Fprintf(&p.sb, "%s  optional int32 %s = %d;\n", ind, k.simple, fn)
				fn++
			case "o":
				if len(k.kids) == 0 {
					return fmt.Errorf("oneof %s has no field", k.full)
				}
				fmt.Fprintf(&p.sb, "%s  oneof %s { int32 %s = %d; }\n", ind, k.simple, k.kids[0].simple, fn)
				fn++
			default:
				if err := p.node(k, ind+"  "); err != nil {
					return err
				}
			}
		}
		for _, l := range n.extra {
			fmt.Fprintf(&p.sb, "%s  %s\n", ind, l)
		}
		fmt.Fprintf(&p.sb, "%s}\n", ind)
	case "e":
		if len(n.kids) == 0 {
			return fmt.Errorf("enum %s has no value", n.full)
		}
		fmt.Fprintf(&p.sb, "%senum %s {", ind, n.simple)
		for i, v := range n.kids {
			fmt.Fprintf(&p.sb, " %s = %d;", v.simple, i)
		}
		p.sb.WriteString(" }\n")
	case "x":
		ext, num := n.extendee, n.num
		if ext == "" {
			ext = rsvExtBase
			num = *p.nextTag
			*p.nextTag++
		}
		fmt.Fprintf(&p.sb, "%sextend .%s { optional int32 %s = %d; }\n", ind, ext, n.simple, num)
	case "s":
		fmt.Fprintf(&p.sb, "%sservice %s {\n", ind, n.simple)
		for _, k := range n.kids {
			if p.firstMsg == "" {
				return fmt.Errorf("method %s: no message type available", k.full)
			}
			fmt.Fprintf(&p.sb, "%s  rpc %s(.%s) returns (.%s);\n", ind, k.simple, p.firstMsg, p.firstMsg)
		}
		for _, l := range n.extra {
			fmt.Fprintf(&p.sb, "%s  %s\n", ind, l)
		}
		fmt.Fprintf(&p.sb, "%s}\n", ind)
	default:
		return fmt.Errorf("unexpected node kind %s", n.kind)
	}
	return nil
}

// rsvSource renders file i. methodType is the absolute name of a message that method tokens
// use as request/response type ("" = first message token of the file).
func rsvSource(files []*rsvFile, i int, root *rsvNode, methodType string, nextTag *int) (string, error) {
	f := files[i]
	p := &rsvPrinter{nextTag: nextTag, firstMsg: methodType}
	if p.firstMsg == "" {
		for _, t := range f.toks {
			if t.kind == "m" {
				p.firstMsg = t.name
				break
			}
		}
	}
	p.sb.WriteString("syntax = \"proto2\";\n")
	if f.pkg != "" {
		fmt.Fprintf(&p.sb, "package %s;\n", f.pkg)
	}
	for _, im := range f.imps {
		if im.idx < 0 || im.idx >= len(files) {
			return "", fmt.Errorf("import index %d out of range", im.idx)
		}
		pub := ""
		if im.pub {
			pub = "public "
		}
		fmt.Fprintf(&p.sb, "import %s\"%s\";\n", pub, rsvPath(im.idx))
	}
	for _, l := range root.extra {
		p.sb.WriteString(l + "\n")
	}
	for _, k := range root.kids {
		if err := p.node(k, ""); err != nil {
			return "", err
		}
	}
	return p.sb.String(), nil
}

// rsvCompile compiles the named files with the real compiler; warnings are ignored, every error
// is collected (the first one is returned as err by Compile).
func rsvCompile(srcs map[string]string, names ...string) (linker.Files, []string, error) {
	var errs []string
	rep := reporter.NewReporter(func(e reporter.ErrorWithPos) error {
		errs = append(errs, e.Unwrap().Error())
		return nil
	}, nil)
	c := protocompile.Compiler{
		Resolver: &protocompile.SourceResolver{Accessor: protocompile.SourceAccessorFromMap(srcs)},
		Reporter: rep,
	}
	res, err := c.Compile(context.Background(), names...)
	if err != nil && len(errs) == 0 {
		var ewp reporter.ErrorWithPos
		if errors.As(err, &ewp) {
			errs = append(errs, ewp.Unwrap().Error())
		} else {
			errs = append(errs, err.Error())
		}
	}
	return res, errs, err
}

var rsvArticleTag = map[string]string{
	"a message": "m", "an extension": "x", "a field": "f", "a oneof": "o", "an enum": "e",
	"an enum value": "v", "a service": "s", "a method": "r", "a file": "file",
}

var rsvNotARe = regexp.MustCompile(` is (an? [a-z ]+?), not `)

func rsvSortedKeys(m map[string]bool) []string {
	var ks []string
	for k := range m {
		ks = append(ks, k)
	}
	sort.Strings(ks)
	return ks
}

// ---------------------------------------------------------------------------
// resolve engine (C15): one reference compiled end to end with the real compiler.
//
//   env <file>...                        schema; file 0 must define m:zz.Base and be imported by all
//   ref <root> <scope> <kind> <name>     kind: type extendee rpcin rpcout fopt mopt fileopt
//   prefixes <hex>                       internal.CreatePrefixList
//   pkgns <hex fqn> <hex pkg>            linker.matchesPkgNamespace
// ---------------------------------------------------------------------------

type resolveEngine struct {
	files    []*rsvFile
	srcs     map[string]string
	startTag []int
}

func init() { Register("resolve", func() Engine { return &resolveEngine{} }) }

func (e *resolveEngine) Name() string { return "resolve" }
func (e *resolveEngine) Reset()       { e.files, e.srcs, e.startTag = nil, nil, nil }

const rsvProbeField = "zz_probe"
const rsvProbeMethod = "ZzProbe"

func (e *resolveEngine) render(i int, probe func(root *rsvNode, byName map[string]*rsvNode) error) (string, error) {
	root, byName, err := rsvTree(e.files[i])
	if err != nil {
		return "", err
	}
	if probe != nil {
		if err := probe(root, byName); err != nil {
			return "", err
		}
	}
	tag := e.startTag[i]
	return rsvSource(e.files, i, root, rsvExtBase, &tag)
}

func (e *resolveEngine) setEnv(words []string) error {
	e.files = nil
	for _, w := range words {
		f, err := rsvParseFile(w)
		if err != nil {
			return err
		}
		e.files = append(e.files, f)
	}
	e.srcs = map[string]string{}
	e.startTag = make([]int, len(e.files))
	tag := 5000
	for i, f := range e.files {
		e.startTag[i] = tag
		for _, t := range f.toks {
			if t.kind == "x" && t.extendee == "" {
				tag++
			}
		}
		s, err := e.render(i, nil)
		if err != nil {
			return err
		}
		e.srcs[rsvPath(i)] = s
	}
	names := make([]string, len(e.files))
	for i := range names {
		names[i] = rsvPath(i)
	}
	_, errs, err := rsvCompile(e.srcs, names...)
	if err != nil || len(errs) > 0 {
		return fmt.Errorf("schema does not compile: %v %v", err, errs)
	}
	return nil
}

var (
	rsvUnknownRe   = regexp.MustCompile(`unknown (?:type|extendee type|request type|response type|extension) (\S+?)(?:; resolved to (\S+) which is not defined; consider using a leading dot)?$`)
	rsvWrongKindRe = regexp.MustCompile(`(?:invalid type|extendee is invalid|invalid request type|invalid response type|invalid extension): (\S+) is (an? [a-z ]+?)(?:, not | but not )`)
	rsvShouldExtRe = regexp.MustCompile(`extension (\S+) should extend \S+ but instead extends \S+`)
)

func rsvClassifyErr(msg string) (string, bool) {
	if m := rsvShouldExtRe.FindStringSubmatch(msg); m != nil {
		return "ok " + m[1] + " x", true
	}
	if m := rsvUnknownRe.FindStringSubmatch(msg); m != nil {
		if m[2] != "" {
			return "sentinel " + m[2], true
		}
		return "unknown", true
	}
	if m := rsvWrongKindRe.FindStringSubmatch(msg); m != nil {
		if t, ok := rsvArticleTag[m[2]]; ok {
			return "wrongkind " + m[1] + " " + t, true
		}
	}
	return "", false
}

func (e *resolveEngine) ref(w []string) string {
	if len(w) != 4 || e.files == nil {
		return "bad-op"
	}
	rootIdx, err := strconv.Atoi(w[0])
	if err != nil || rootIdx < 0 || rootIdx >= len(e.files) {
		return "bad-op"
	}
	scope, kind, name := w[1], w[2], w[3]
	pkg := e.files[rootIdx].pkg
	holder := scope
	if scope == "-" {
		holder = pkg
	}
	var line string
	switch kind {
	case "type":
		if scope == "-" {
			line = fmt.Sprintf("extend .%s { optional %s %s = 9001; }", rsvExtBase, name, rsvProbeField)
		} else {
			line = fmt.Sprintf("optional %s %s = 10001;", name, rsvProbeField)
		}
	case "extendee":
		line = fmt.Sprintf("extend %s { optional int32 %s = 9002; }", name, rsvProbeField)
	case "rpcin":
		line = fmt.Sprintf("rpc %s(%s) returns (.%s);", rsvProbeMethod, name, rsvExtBase)
	case "rpcout":
		line = fmt.Sprintf("rpc %s(.%s) returns (%s);", rsvProbeMethod, rsvExtBase, name)
	case "fopt":
		line = fmt.Sprintf("optional int32 %s = 10001 [(%s) = 1];", rsvProbeField, name)
	case "mopt", "fileopt":
		line = fmt.Sprintf("option (%s) = 1;", name)
	default:
		return "bad-op"
	}
	src, err := e.render(rootIdx, func(root *rsvNode, byName map[string]*rsvNode) error {
		if scope == "-" {
			if kind == "rpcin" || kind == "rpcout" || kind == "fopt" || kind == "mopt" {
				return fmt.Errorf("kind %s needs a scope", kind)
			}
			root.extra = append(root.extra, line)
			return nil
		}
		n := byName[scope]
		if n == nil {
			return fmt.Errorf("no scope %s", scope)
		}
		switch kind {
		case "rpcin", "rpcout":
			if n.kind != "s" {
				return fmt.Errorf("scope %s is not a service", scope)
			}
		case "fileopt":
			return fmt.Errorf("fileopt has no scope")
		default:
			if n.kind != "m" {
				return fmt.Errorf("scope %s is not a message", scope)
			}
		}
		n.extra = append(n.extra, line)
		return nil
	})
	if err != nil {
		return "bad-op"
	}
	srcs := make(map[string]string, len(e.srcs))
	for k, v := range e.srcs {
		srcs[k] = v
	}
	srcs[rsvPath(rootIdx)] = src
	res, errs, _ := rsvCompile(srcs, rsvPath(rootIdx))
	if len(errs) > 0 {
		var others []string
		for _, m := range errs {
			if a, ok := rsvClassifyErr(m); ok {
				return a
			}
			others = append(others, m)
		}
		return "other " + Canon(strings.Join(others, " | "))
	}
	f := res.FindFileByPath(rsvPath(rootIdx))
	if f == nil {
		return "other no-result"
	}
	q := func(s string) protoreflect.FullName {
		if holder == "" {
			return protoreflect.FullName(s)
		}
		return protoreflect.FullName(holder + "." + s)
	}
	show := func(d protoreflect.Descriptor) string {
		if d == nil {
			return "other nil-target"
		}
		return "ok " + string(d.FullName()) + " " + visKindTag(d)
	}
	switch kind {
	case "type":
		fd, ok := f.FindDescriptorByName(q(rsvProbeField)).(protoreflect.FieldDescriptor)
		if !ok {
			return "other probe-missing"
		}
		if m := fd.Message(); m != nil {
			return show(m)
		}
		if en := fd.Enum(); en != nil {
			return show(en)
		}
		return "other scalar"
	case "extendee":
		fd, ok := f.FindDescriptorByName(q(rsvProbeField)).(protoreflect.FieldDescriptor)
		if !ok {
			return "other probe-missing"
		}
		return show(fd.ContainingMessage())
	case "rpcin", "rpcout":
		md, ok := f.FindDescriptorByName(q(rsvProbeMethod)).(protoreflect.MethodDescriptor)
		if !ok {
			return "other probe-missing"
		}
		if kind == "rpcin" {
			return show(md.Input())
		}
		return show(md.Output())
	}
	return "other option-accepted"
}

func (e *resolveEngine) Exec(op string) string {
	w := strings.Fields(op)
	if len(w) == 0 {
		return "bad-op"
	}
	switch w[0] {
	case "env":
		if len(w) < 2 {
			return "bad-op"
		}
		if err := e.setEnv(w[1:]); err != nil {
			e.files = nil
			return "builderr " + Canon(err.Error())
		}
		return "ok " + strconv.Itoa(len(e.files))
	case "ref":
		return e.ref(w[1:])
	case "prefixes":
		if len(w) != 2 {
			return "bad-op"
		}
		ps := verifhooks.CreatePrefixList(string(UnHex(w[1])))
		out := make([]string, len(ps))
		for i, p := range ps {
			out[i] = Hex([]byte(p))
		}
		return strings.Join(out, " ")
	case "pkgns":
		if len(w) != 3 {
			return "bad-op"
		}
		return strconv.FormatBool(verifhooks.MatchesPkgNamespace(string(UnHex(w[1])), string(UnHex(w[2]))))
	}
	return "bad-op"
}

func (e *resolveEngine) Trivial(op, ans string) bool {
	return strings.HasPrefix(op, "env ")
}

func (e *resolveEngine) Class(op, ans string) string {
	w := strings.Fields(op)
	a := strings.Fields(ans)
	if len(a) == 0 {
		return w[0]
	}
	if w[0] == "ref" && len(w) == 5 {
		return "ref:" + w[3] + ":" + a[0]
	}
	if w[0] == "prefixes" {
		return "prefixes"
	}
	return w[0] + ":" + a[0]
}

// ---------------------------------------------------------------- generator

func rsvEnvOp(files []*rsvFile) string {
	ws := []string{"env"}
	for _, f := range files {
		ws = append(ws, f.word())
	}
	return strings.Join(ws, " ")
}

func rsvZZ() *rsvFile { return &rsvFile{pkg: "zz", toks: []rsvTok{{kind: "m", name: rsvExtBase}}} }

// rsvLevelToks: tokens that put the simple name X (of the given kind) into scope `par`
// (a package or a message), with a nested Y where X can hold one.
func rsvLevelToks(par, kind string) []rsvTok {
	q := func(s string) string {
		if par == "" {
			return s
		}
		return par + "." + s
	}
	switch kind {
	case "m":
		return []rsvTok{{kind: "m", name: q("X")}, {kind: "m", name: q("X.Y")}}
	case "e":
		return []rsvTok{{kind: "e", name: q("X")}, {kind: "v", name: q("XV")}}
	case "v":
		return []rsvTok{{kind: "e", name: q("XE")}, {kind: "v", name: q("X")}}
	case "s":
		return []rsvTok{{kind: "s", name: q("X")}, {kind: "r", name: q("X.Y")}}
	case "x":
		return []rsvTok{{kind: "x", name: q("X")}}
	case "f":
		return []rsvTok{{kind: "f", name: q("X")}}
	case "o":
		return []rsvTok{{kind: "o", name: q("X")}, {kind: "f", name: q("xf")}}
	}
	return nil
}

// rsvGrid: the simple name X defined (or not) as each kind at the four levels a reference in
// a.b.M can see: a.b.M.X, a.b.X, a.X (imported file) and X (imported file without package).
func rsvGrid(r *Rand, full bool) [][]string {
	l1 := []string{"", "m", "v", "x", "f"}
	l2 := []string{"", "m", "v", "s", "x"}
	l3 := []string{"", "m", "s", "x"}
	l4 := []string{"", "m", "x"}
	if full {
		l1 = []string{"", "m", "e", "v", "x", "f", "o"}
		l2 = []string{"", "m", "e", "v", "s", "x"}
		l3 = []string{"", "m", "e", "s", "x", "v"}
		l4 = []string{"", "m", "s", "x", "v"}
	}
	names := []string{"X", "X.Y", ".X", "a.X", "b.X", "a.b.X", ".a.X", "M.X", ".a.b.X.Y", "a.b.M.X", "X.Nope", "a", "b.M"}
	var cases [][]string
	code := 0
	for _, k1 := range l1 {
		for _, k2 := range l2 {
			for _, k3 := range l3 {
				for _, k4 := range l4 {
					code++
					f1 := &rsvFile{pkg: "a", imps: []rsvImp{{0, false}}, toks: rsvLevelToks("a", k3)}
					f2 := &rsvFile{pkg: "", imps: []rsvImp{{0, false}}, toks: rsvLevelToks("", k4)}
					f3 := &rsvFile{pkg: "a.b", imps: []rsvImp{{0, false}, {1, code%3 == 0}, {2, false}}}
					f3.toks = append(f3.toks, rsvTok{kind: "m", name: "a.b.M"})
					f3.toks = append(f3.toks, rsvLevelToks("a.b.M", k1)...)
					f3.toks = append(f3.toks, rsvTok{kind: "m", name: "a.b.M.In"})
					f3.toks = append(f3.toks, rsvLevelToks("a.b", k2)...)
					f3.toks = append(f3.toks, rsvTok{kind: "s", name: "a.b.S"})
					if code%2 == 0 {
						f3.toks = append(f3.toks, rsvTok{kind: "r", name: "a.b.S.X"})
					}
					files := []*rsvFile{rsvZZ(), f1, f2, f3}
					ops := []string{rsvEnvOp(files)}
					for _, n := range names {
						for _, sk := range [][2]string{{"a.b.M", "type"}, {"a.b.M", "extendee"}, {"a.b.M", "fopt"},
							{"a.b.M", "mopt"}, {"-", "type"}, {"a.b.S", "rpcin"}, {"a.b.M.In", "type"}, {"-", "fileopt"}} {
							if !full && !(n == "X" || n == "X.Y") && r.Chance(3, 4) {
								continue
							}
							ops = append(ops, "ref 3 "+sk[0]+" "+sk[1]+" "+n)
						}
					}
					cases = append(cases, ops)
				}
			}
		}
	}
	return cases
}

// rsvAnchored: the namespace layouts of linker_test.go whose accept/reject outcome upstream CI
// compares with protoc (success_multi_namespace, failure_unknown_type,
// failure_resolve_first_part_of_name) — calibration of the transcribed protoc lookup.
func rsvAnchored() [][]string {
	var cases [][]string
	// success_multi_namespace
	files := []*rsvFile{rsvZZ(),
		{pkg: "namespace.b", imps: []rsvImp{{0, false}}, toks: []rsvTok{{kind: "m", name: "namespace.b.Bar"}}},
		{pkg: "namespace.b", imps: []rsvImp{{0, false}}, toks: []rsvTok{{kind: "m", name: "namespace.b.Baz"}}},
		{pkg: "namespace.a", imps: []rsvImp{{0, false}, {1, false}, {2, false}}, toks: []rsvTok{{kind: "m", name: "namespace.a.Foo"}}},
	}
	cases = append(cases, []string{rsvEnvOp(files), "ref 3 namespace.a.Foo type b.Bar", "ref 3 namespace.a.Foo type b.Baz",
		"ref 3 namespace.a.Foo type namespace.b.Bar", "ref 3 namespace.a.Foo type .namespace.b.Baz", "ref 3 namespace.a.Foo type a.Foo"})
	// failure_unknown_type: baz is defined in a file that is only imported plainly by a public import
	files = []*rsvFile{rsvZZ(),
		{pkg: "fu.baz", imps: []rsvImp{{0, false}}, toks: []rsvTok{{kind: "m", name: "fu.baz.baz"}}},
		{pkg: "fu.baz", imps: []rsvImp{{0, false}, {1, false}}, toks: []rsvTok{{kind: "m", name: "fu.baz.fizzle"}}},
		{pkg: "fu.baz", imps: []rsvImp{{0, false}, {2, true}}, toks: []rsvTok{{kind: "m", name: "fu.baz.foobar"}}},
	}
	cases = append(cases, []string{rsvEnvOp(files), "ref 3 fu.baz.foobar type baz", "ref 3 fu.baz.foobar type fizzle",
		"ref 3 fu.baz.foobar type fu.baz.baz", "ref 3 fu.baz.foobar type .fu.baz.baz", "ref 2 fu.baz.fizzle type baz"})
	// failure_resolve_first_part_of_name: com.google + google.protobuf.StringValue
	files = []*rsvFile{rsvZZ(),
		{pkg: "google.protobuf", imps: []rsvImp{{0, false}}, toks: []rsvTok{{kind: "m", name: "google.protobuf.StringValue"}}},
		{pkg: "com.google", imps: []rsvImp{{0, false}, {1, false}}, toks: []rsvTok{{kind: "m", name: "com.google.Foo"}}},
	}
	cases = append(cases, []string{rsvEnvOp(files), "ref 2 com.google.Foo type google.protobuf.StringValue",
		"ref 2 com.google.Foo type .google.protobuf.StringValue", "ref 2 com.google.Foo extendee google.protobuf.StringValue"})
	return cases
}

type rsvGenEnv struct {
	files    []*rsvFile
	used     map[string]bool // every full name and every package prefix
	pkgNames map[string]bool
}

func rsvPkgPrefixes(pkg string) []string {
	var out []string
	for pkg != "" {
		out = append(out, pkg)
		pkg = rsvParent(pkg)
	}
	return out
}

// rsvRandomEnv draws 1-4 files (after zz) whose packages overlap and whose element names are
// drawn from a pool that contains the package components, so that simple names collide across
// scopes and with package prefixes. The result always compiles (names are globally unique and
// never equal to a package of the schema).
func rsvRandomEnv(r *Rand) *rsvGenEnv {
	pkgPool := []string{"", "a", "a.b", "a.b.c", "b", "b.a", "a.c", "a.b"}
	pool := []string{"a", "b", "c", "X", "Y", "M"}
	g := &rsvGenEnv{used: map[string]bool{"zz": true, rsvExtBase: true}, pkgNames: map[string]bool{"zz": true}}
	g.files = []*rsvFile{rsvZZ()}
	n := 1 + r.Intn(4)
	pkgs := make([]string, n)
	for i := range pkgs {
		pkgs[i] = Pick(r, pkgPool)
		for _, p := range rsvPkgPrefixes(pkgs[i]) {
			g.used[p] = true
			g.pkgNames[p] = true
		}
	}
	for i := 0; i < n; i++ {
		idx := i + 1
		f := &rsvFile{pkg: pkgs[i], imps: []rsvImp{{0, r.Chance(1, 4)}}}
		for j := idx - 1; j >= 1; j-- {
			if r.Chance(3, 5) {
				f.imps = append(f.imps, rsvImp{idx: j, pub: r.Chance(2, 5)})
			}
		}
		for k := len(f.imps) - 1; k > 0; k-- {
			j := r.Intn(k + 1)
			f.imps[k], f.imps[j] = f.imps[j], f.imps[k]
		}
		q := func(par, s string) string {
			if par == "" {
				return s
			}
			return par + "." + s
		}
		var msgs, svcs []string
		try := func(kind, name string) bool {
			if g.used[name] {
				return false
			}
			g.used[name] = true
			f.toks = append(f.toks, rsvTok{kind: kind, name: name})
			return true
		}
		cnt := 2 + r.Intn(6)
		for k := 0; k < cnt; k++ {
			par := f.pkg
			if len(msgs) > 0 && r.Chance(1, 2) {
				par = Pick(r, msgs)
			}
			if strings.Count(par, ".") > strings.Count(f.pkg, ".")+2 {
				par = f.pkg
			}
			nm := q(par, Pick(r, pool))
			inMsg := par != f.pkg
			switch r.Intn(10) {
			case 0, 1, 2, 3:
				if try("m", nm) {
					msgs = append(msgs, nm)
				}
			case 4:
				// enum with one value; the value lives in the enum's parent scope
				val := q(par, Pick(r, pool))
				if val != nm && !g.used[val] && try("e", nm) {
					try("v", val)
				}
			case 5:
				val := q(par, Pick(r, pool)+"E")
				if !g.used[val] && !g.used[nm] {
					try("e", val)
					try("v", nm)
				}
			case 6:
				try("x", nm)
			case 7:
				if inMsg {
					try("f", nm)
				} else if try("s", nm) {
					svcs = append(svcs, nm)
				}
			case 8:
				if inMsg {
					of := q(par, Pick(r, pool)+"f")
					if !g.used[of] && try("o", nm) {
						try("f", of)
					}
				} else if len(svcs) > 0 {
					try("r", q(Pick(r, svcs), Pick(r, pool)))
				}
			case 9:
				if len(svcs) > 0 {
					try("r", q(Pick(r, svcs), Pick(r, pool)))
				} else if try("s", nm) && !inMsg {
					svcs = append(svcs, nm)
				}
			}
		}
		// a service token must be top level
		var toks []rsvTok
		for _, t := range f.toks {
			if t.kind == "s" && rsvParent(t.name) != f.pkg {
				delete(g.used, t.name)
				continue
			}
			toks = append(toks, t)
		}
		f.toks = toks
		g.files = append(g.files, f)
	}
	return g
}

// rsvRandomRefs draws references: every spelling (each suffix of a full name, with and
// without a leading dot) of names that exist, of package prefixes, and of random names.
func rsvRandomRefs(r *Rand, g *rsvGenEnv, count int) []string {
	pool := []string{"a", "b", "c", "X", "Y", "M"}
	var targets []string
	for n := range g.used {
		targets = append(targets, n)
	}
	sort.Strings(targets)
	var ops []string
	for len(ops) < count {
		root := 1 + r.Intn(len(g.files)-1)
		f := g.files[root]
		var msgs, svcs []string
		for _, t := range f.toks {
			if t.kind == "m" {
				msgs = append(msgs, t.name)
			}
			if t.kind == "s" {
				svcs = append(svcs, t.name)
			}
		}
		scope, kind := "-", Pick(r, []string{"type", "extendee", "fileopt", "type"})
		switch {
		case len(msgs) > 0 && r.Chance(7, 10):
			scope = Pick(r, msgs)
			kind = Pick(r, []string{"type", "type", "type", "extendee", "fopt", "mopt"})
		case len(svcs) > 0 && r.Chance(1, 2):
			scope = Pick(r, svcs)
			kind = Pick(r, []string{"rpcin", "rpcout"})
		}
		var name string
		if r.Chance(4, 5) {
			t := strings.Split(Pick(r, targets), ".")
			// sometimes swap the last component or append one
			if r.Chance(1, 6) {
				t[len(t)-1] = Pick(r, pool)
			}
			if r.Chance(1, 8) {
				t = append(t, Pick(r, pool))
			}
			from := r.Intn(len(t))
			if r.Chance(1, 3) {
				from = len(t) - 1
			}
			name = strings.Join(t[from:], ".")
			if r.Chance(1, 6) || (from == 0 && r.Chance(1, 2)) {
				name = "." + name
			}
		} else {
			k := 1 + r.Intn(3)
			parts := make([]string, k)
			for i := range parts {
				parts[i] = Pick(r, pool)
			}
			name = strings.Join(parts, ".")
		}
		ops = append(ops, "ref "+strconv.Itoa(root)+" "+scope+" "+kind+" "+name)
	}
	return ops
}

func (e *resolveEngine) Gen(r *Rand, tier string) [][]string {
	thorough := tier == "thorough"
	var cases [][]string
	// 1. the two string helpers: every string over {a, b, .} up to length 5 (6 in thorough) for
	//    CreatePrefixList; every pair up to length 3 (4) for matchesPkgNamespace; random longer.
	var strs []string
	var rec func(p string, d int)
	rec = func(p string, d int) {
		strs = append(strs, p)
		if d == 0 {
			return
		}
		for _, c := range "ab." {
			rec(p+string(c), d-1)
		}
	}
	maxLen, pairLen := 5, 3
	if thorough {
		maxLen, pairLen = 7, 4
	}
	rec("", maxLen)
	var ops []string
	for _, s := range strs {
		ops = append(ops, "prefixes "+Hex([]byte(s)))
	}
	for _, a := range strs {
		if len(a) > pairLen {
			continue
		}
		for _, b := range strs {
			if len(b) > pairLen {
				continue
			}
			ops = append(ops, "pkgns "+Hex([]byte(a))+" "+Hex([]byte(b)))
		}
	}
	words := []string{"a", "ab", "b", "abc", "x1"}
	for i := 0; i < 400; i++ {
		mk := func() string {
			k := r.Intn(5)
			var ps []string
			for j := 0; j < k; j++ {
				ps = append(ps, Pick(r, words))
			}
			s := strings.Join(ps, ".")
			if r.Chance(1, 10) {
				s += "."
			}
			return s
		}
		a := mk()
		b := a
		switch r.Intn(4) {
		case 0:
			b = mk()
		case 1:
			b = a + "." + mk()
		case 2:
			b = a + mk()
		}
		ops = append(ops, "prefixes "+Hex([]byte(a)), "pkgns "+Hex([]byte(a))+" "+Hex([]byte(b)), "pkgns "+Hex([]byte(b))+" "+Hex([]byte(a)))
	}
	cases = append(cases, ops)
	// 2. protoc-anchored namespace layouts
	cases = append(cases, rsvAnchored()...)
	// 3. the shadowing grid
	cases = append(cases, rsvGrid(r, thorough)...)
	// 4. random multi-package schemas
	cnt, per := 220, 45
	if thorough {
		cnt, per = 5000, 120
	}
	for i := 0; i < cnt; i++ {
		g := rsvRandomEnv(r)
		ops := []string{rsvEnvOp(g.files)}
		ops = append(ops, rsvRandomRefs(r, g, per)...)
		cases = append(cases, ops)
	}
	return cases
}
