package engines

import (
	"fmt"
	"sort"
	"strconv"
	"strings"

	"github.com/bufbuild/protocompile/verifhooks"
)

// intersect / nesting: internal/interval (C40).
//
// intersect ops:  ins a b v | get p | ents | dump
// nesting ops:    ins a b v | clear | sets
// (answer formats: see lean/PCV/Engines/Interval.lean)

type intersectEngine struct{ m *verifhooks.IntersectMap }
type nestingEngine struct{ n *verifhooks.NestingSets }

func init() {
	Register("intersect", func() Engine { return &intersectEngine{m: new(verifhooks.IntersectMap)} })
	Register("nesting", func() Engine { return &nestingEngine{n: new(verifhooks.NestingSets)} })
}

func (e *intersectEngine) Name() string { return "intersect" }
func (e *intersectEngine) Reset()       { e.m = new(verifhooks.IntersectMap) }
func (e *nestingEngine) Name() string   { return "nesting" }
func (e *nestingEngine) Reset()         { e.n = new(verifhooks.NestingSets) }

func ivlInts(ws []string) ([]int, bool) {
	out := make([]int, len(ws))
	for i, w := range ws {
		v, err := strconv.Atoi(w)
		if err != nil {
			return nil, false
		}
		out[i] = v
	}
	return out, true
}

func ivlShowVals(vs []int) string {
	ss := make([]string, len(vs))
	for i, v := range vs {
		ss[i] = strconv.Itoa(v)
	}
	return strings.Join(ss, ",")
}

func (e *intersectEngine) Exec(op string) string {
	w := strings.Fields(op)
	if len(w) == 0 {
		return "bad-op"
	}
	switch {
	case w[0] == "ins" && len(w) == 4:
		a, ok := ivlInts(w[1:])
		if !ok {
			return "bad-op"
		}
		return strconv.FormatBool(e.m.Insert(a[0], a[1], a[2]))
	case w[0] == "get" && len(w) == 2:
		a, ok := ivlInts(w[1:])
		if !ok {
			return "bad-op"
		}
		en := e.m.Get(a[0])
		if en.Len == 0 {
			if en.Start != 0 || en.End != 0 {
				return fmt.Sprintf("%d %d <empty>", en.Start, en.End)
			}
			return "none"
		}
		return fmt.Sprintf("%d %d %s", en.Start, en.End, ivlShowVals(en.Vals))
	case w[0] == "ents" && len(w) == 1:
		es := e.m.Entries()
		if len(es) == 0 {
			return "-"
		}
		ss := make([]string, len(es))
		for i, en := range es {
			ss[i] = fmt.Sprintf("%d:%d:%s", en.Start, en.End, ivlShowVals(en.Vals))
		}
		return strings.Join(ss, ";")
	case w[0] == "dump" && len(w) == 1:
		es := e.m.Entries()
		if len(es) == 0 {
			return "-"
		}
		ss := make([]string, len(es))
		for i, en := range es {
			ss[i] = fmt.Sprintf("%d:%d:%d:%d", en.Start, en.End, en.Len, en.Cap)
		}
		return strings.Join(ss, ";")
	}
	return "bad-op"
}

func (e *nestingEngine) Exec(op string) string {
	w := strings.Fields(op)
	if len(w) == 0 {
		return "bad-op"
	}
	switch {
	case w[0] == "ins" && len(w) == 4:
		a, ok := ivlInts(w[1:])
		if !ok {
			return "bad-op"
		}
		e.n.Insert(a[0], a[1], a[2])
		return "ok"
	case w[0] == "clear" && len(w) == 1:
		e.n.Clear()
		return "ok"
	case w[0] == "sets" && len(w) == 1:
		sets := e.n.Sets()
		if len(sets) == 0 {
			return "-"
		}
		ss := make([]string, len(sets))
		for i, set := range sets {
			es := make([]string, len(set))
			for j, en := range set {
				es[j] = fmt.Sprintf("%d:%d:%d", en.Start, en.End, en.Vals[0])
			}
			ss[i] = strings.Join(es, ",")
		}
		return strings.Join(ss, "|")
	}
	return "bad-op"
}

func (e *intersectEngine) Trivial(op, ans string) bool { return ans == "none" || ans == "-" }
func (e *nestingEngine) Trivial(op, ans string) bool   { return ans == "-" || ans == "ok" }

func (e *intersectEngine) Class(op, ans string) string {
	w := strings.Fields(op)
	switch w[0] {
	case "ins":
		if strings.HasPrefix(ans, "panic") {
			return "ins:panic"
		}
		return "ins:" + ans
	case "get":
		if ans == "none" {
			return "get:none"
		}
		f := strings.Fields(ans)
		n := strings.Count(f[len(f)-1], ",") + 1
		switch {
		case n >= 8:
			return "get:depth>=8"
		case n >= 4:
			return "get:depth4-7"
		}
		return "get:depth" + strconv.Itoa(n)
	}
	return w[0]
}

func (e *nestingEngine) Class(op, ans string) string {
	w := strings.Fields(op)
	if w[0] == "sets" {
		if ans == "-" {
			return "sets:0"
		}
		n := strings.Count(ans, "|") + 1
		if n >= 4 {
			return "sets:>=4"
		}
		return "sets:" + strconv.Itoa(n)
	}
	return w[0]
}

type ivlT struct{ a, b int }

// allIntervals lists every [a,b] with lo <= a <= b <= hi.
func ivlAll(lo, hi int) []ivlT {
	var out []ivlT
	for a := lo; a <= hi; a++ {
		for b := a; b <= hi; b++ {
			out = append(out, ivlT{a, b})
		}
	}
	return out
}

// eachSeq calls f with every sequence over ivs of length exactly n.
func ivlEachSeq(ivs []ivlT, n int, f func([]ivlT)) {
	seq := make([]ivlT, n)
	var rec func(i int)
	rec = func(i int) {
		if i == n {
			f(seq)
			return
		}
		for _, iv := range ivs {
			seq[i] = iv
			rec(i + 1)
		}
	}
	rec(0)
}

func ivlQueries(lo, hi int) []string {
	var ops []string
	for p := lo - 1; p <= hi+1; p++ {
		ops = append(ops, "get "+strconv.Itoa(p))
	}
	return append(ops, "ents", "dump")
}

func (e *intersectEngine) Gen(r *Rand, tier string) [][]string {
	var cases [][]string
	thorough := tier == "thorough"
	// 1. exhaustive: every insertion sequence of length 1..L over every interval of a small
	//    domain, all points queried at the end (prefixes are themselves cases).
	type dom struct{ hi, quickL, thoroughL int }
	for _, d := range []dom{{1, 7, 10}, {2, 5, 6}, {3, 3, 5}, {4, 3, 4}, {5, 2, 3}} {
		L := d.quickL
		if thorough {
			L = d.thoroughL
		}
		ivs := ivlAll(0, d.hi)
		q := ivlQueries(0, d.hi)
		for n := 1; n <= L; n++ {
			ivlEachSeq(ivs, n, func(seq []ivlT) {
				c := make([]string, 0, n+len(q))
				for i, iv := range seq {
					c = append(c, fmt.Sprintf("ins %d %d %d", iv.a, iv.b, i+1))
				}
				cases = append(cases, append(c, q...))
			})
		}
	}
	// 2. hand-written shapes: the panic, negative coordinates, adjacency, deep stacks.
	cases = append(cases,
		append([]string{"ins 3 1 1", "ins 0 0 2", "ins 2 2 3", "ins 5 -5 4"}, ivlQueries(-1, 4)...),
		append([]string{"ins -4 -2 1", "ins -1 3 2", "ins -6 6 3", "ins -2 -1 4"}, ivlQueries(-7, 7)...),
	)
	for depth := 1; depth <= 20; depth++ {
		// depth identical intervals, then a split on the right, then an insert on the left part
		var c []string
		for i := 0; i < depth; i++ {
			c = append(c, fmt.Sprintf("ins 0 9 %d", i+1))
		}
		c = append(c, fmt.Sprintf("ins 5 9 %d", depth+1), "dump", fmt.Sprintf("ins 0 4 %d", depth+2))
		cases = append(cases, append(c, ivlQueries(0, 9)...))
	}
	// 3. random long sequences (needed to reach spare-capacity states), queried as they grow.
	cnt, maxLen := 150, 120
	if thorough {
		cnt, maxLen = 6000, 400
	}
	for i := 0; i < cnt; i++ {
		width := 2 + r.Intn(12)
		off := r.Intn(7) - 3
		n := 8 + r.Intn(maxLen-8)
		if r.Chance(1, 3) {
			n = 5 + r.Intn(20)
		}
		style := r.Intn(4)
		var c []string
		q := ivlQueries(off, off+width)
		every := 5 + r.Intn(20)
		for j := 0; j < n; j++ {
			a := off + r.Intn(width+1)
			b := off + r.Intn(width+1)
			switch style {
			case 0: // short intervals
				b = a + r.Intn(3)
			case 1: // long intervals
				if r.Bool() {
					a = off + r.Intn(2)
				} else {
					b = off + width - r.Intn(2)
				}
			}
			if a > b && !r.Chance(1, 40) {
				a, b = b, a
			}
			v := j + 1
			if style == 3 {
				v = r.Intn(4)
			}
			c = append(c, fmt.Sprintf("ins %d %d %d", a, b, v))
			if (j+1)%every == 0 {
				c = append(c, q...)
			}
		}
		cases = append(cases, append(c, q...))
	}
	return cases
}

func (e *nestingEngine) Gen(r *Rand, tier string) [][]string {
	var cases [][]string
	thorough := tier == "thorough"
	type dom struct{ hi, quickL, thoroughL int }
	for _, d := range []dom{{2, 5, 6}, {3, 4, 5}, {4, 3, 4}, {5, 3, 4}, {7, 2, 3}} {
		L := d.quickL
		if thorough {
			L = d.thoroughL
		}
		ivs := ivlAll(0, d.hi)
		ivlEachSeq(ivs, L, func(seq []ivlT) {
			c := make([]string, 0, 2*L)
			for i, iv := range seq {
				c = append(c, fmt.Sprintf("ins %d %d %d", iv.a, iv.b, i+1), "sets")
			}
			cases = append(cases, c)
		})
	}
	cases = append(cases,
		[]string{"sets", "clear", "sets", "ins 1 2 1", "sets", "clear", "sets", "ins 1 2 2", "ins 1 2 3", "sets", "clear", "ins 0 5 4", "sets"},
		[]string{"ins -5 20 1", "ins -10 -9 2", "ins 10 11 3", "ins 3 7 4", "sets"},
	)
	cnt := 400
	if thorough {
		cnt = 20000
	}
	for i := 0; i < cnt; i++ {
		width := 3 + r.Intn(30)
		off := r.Intn(9) - 4
		n := 3 + r.Intn(30)
		ivs := make([]ivlT, n)
		for j := range ivs {
			a := off + r.Intn(width+1)
			b := off + r.Intn(width+1)
			if a > b {
				a, b = b, a
			}
			if r.Chance(1, 3) {
				b = a + r.Intn(3)
			}
			ivs[j] = ivlT{a, b}
		}
		switch r.Intn(3) {
		case 0: // the renderer's first use: longest first
			sort.SliceStable(ivs, func(x, y int) bool { return ivs[x].b-ivs[x].a > ivs[y].b-ivs[y].a })
		case 1: // the renderer's second use: shortest first
			sort.SliceStable(ivs, func(x, y int) bool { return ivs[x].b-ivs[x].a < ivs[y].b-ivs[y].a })
		}
		var c []string
		every := 1 + r.Intn(6)
		for j, iv := range ivs {
			c = append(c, fmt.Sprintf("ins %d %d %d", iv.a, iv.b, j+1))
			if (j+1)%every == 0 {
				c = append(c, "sets")
			}
			if r.Chance(1, 60) {
				c = append(c, "clear", "sets")
			}
		}
		cases = append(cases, append(c, "sets"))
	}
	return cases
}
